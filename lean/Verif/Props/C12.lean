import Verif.Lemmas.SseReq

/-! # C12 — SSE transport: live-or-raise setup, exactly-once delivery, chunk-independent

Model: `Verif.Model.SseReq` (hand-written from `src/chuk_mcp/transports/sse/transport.py`, tied
to the code by the correspondence run of `py/verifpy/props/c12.py`).  All statements are for
arbitrary traces, chunk lists, request lists and payloads — no bound on any length.

Resource release is PARTIAL by nature: `c12_cleanup_closes_all` is about abstract handles; that
the real tasks, streams and HTTP clients are released is decided by the correspondence run only.
-/
namespace Verif.Props.C12
open Verif.Model.SseReq
variable {α : Type}

/-! ## establishment -/

/-- The URL forms `_handle_endpoint_event` accepts (`p` = the announced data, stripped):
absolute path, bare query string with and without `/messages/` in the base, anything else
(a full URL in particular) verbatim; and the result is empty only for an empty announcement. -/
theorem c12_endpoint_forms (base data : Str) :
    (startsWith ['/'] (strip data) = true → resolveEndpoint base data = base ++ strip data)
    ∧ (startsWith ['/'] (strip data) = false → (strip data).contains '=' = true →
        startsWith sHttp (strip data) = false →
        resolveEndpoint base data =
          if hasSub sMessages base then base ++ '?' :: strip data
          else base ++ sMessagesQ ++ strip data)
    ∧ (startsWith ['/'] (strip data) = false →
        ((strip data).contains '=' = false ∨ startsWith sHttp (strip data) = true) →
        resolveEndpoint base data = strip data)
    ∧ (resolveEndpoint base data = [] ↔ strip data = []) := by
  refine ⟨?_, ?_, ?_, resolveEndpoint_eq_nil base data⟩
  · intro h; simp [resolveEndpoint, h]
  · intro h1 h2 h3
    simp only [resolveEndpoint, h1, h2, h3]
    simp
  · intro h1 h2
    rcases h2 with h2 | h2 <;> simp only [resolveEndpoint, h1, h2] <;> simp

example : resolveEndpoint "http://h".toList " /messages/?session_id=a ".toList = "http://h/messages/?session_id=a".toList
    ∧ resolveEndpoint "http://h".toList "session_id=a".toList = "http://h/messages/?session_id=a".toList
    ∧ resolveEndpoint "http://h/messages/v1".toList "session_id=a".toList = "http://h/messages/v1?session_id=a".toList
    ∧ resolveEndpoint "http://h".toList "https://o/mcp?session_id=a".toList = "https://o/mcp?session_id=a".toList := by
  decide

/-- The data-only announcement: an event without an `event` field, while no endpoint is known,
whose data contains `/messages/` or `/mcp`, is an endpoint announcement (dispatched at the blank
line that ends the event). -/
theorem c12_data_only_announcement (ds : List Str) (hne : ds ≠ [])
    (hsub : hasSub sMessages (strip (joinNL ds)) = true ∨ hasSub sMcp (strip (joinNL ds)) = true) :
    dispatch { cur := some { ty := none, data := ds }, haveUrl := false } =
      ({ cur := none, haveUrl := decide (strip (strip (joinNL ds)) ≠ []) }, [.endpoint (strip (joinNL ds))]) := by
  unfold dispatch
  simp only [hne, if_false]
  rcases hsub with h | h <;> simp [h]

example : (stepLines { cur := none, haveUrl := false } ["data:/mcp?session_id=1\r".toList, "\r".toList]).2
    = [.endpoint "/mcp?session_id=1".toList] := by decide

theorem firstEndpoint_mem (acts : List (Nat × Act)) (t : Nat) (d : Str)
    (h : firstEndpoint acts = some (t, d)) : (t, Act.endpoint d) ∈ acts := by
  induction acts with
  | nil => simp [firstEndpoint] at h
  | cons a rest ih =>
    obtain ⟨ta, act⟩ := a
    cases act with
    | endpoint d' =>
      simp only [firstEndpoint, Option.some.injEq, Prod.mk.injEq] at h
      simp [h.1, h.2]
    | message d' =>
      simp only [firstEndpoint] at h
      exact List.mem_cons_of_mem _ (ih h)

/-- Live or raise.  If entering yields, then the GET was answered 200 before the connection cap,
the stream announced an endpoint at exactly the yield tick, before the timeout and before the
stream ended, and the yielded message URL is the non-empty resolution of that announcement:
a dead connection is never yielded. -/
theorem c12_live_or_raise (base : Str) (tr : EstTrace) (t : Nat) (url : Str)
    (h : enter base tr = .yielded t url) :
    ∃ c d, tr.conn = .ok c ∧ c < min tr.T tr.cap ∧ (t, Act.endpoint d) ∈ tr.acts
      ∧ firstEndpoint tr.acts = some (t, d) ∧ url = resolveEndpoint base d ∧ url ≠ []
      ∧ t < tr.T ∧ closedBefore tr.close t = none := by
  unfold enter at h
  cases hc : tr.conn with
  | hang => simp [hc] at h
  | status c code => simp [hc] at h
  | error c => simp [hc] at h
  | ok c =>
    simp only [hc] at h
    split at h
    · simp at h
    · rename_i hlim
      cases hf : firstEndpoint tr.acts with
      | none =>
        simp only [hf] at h
        split at h <;> simp at h
      | some p =>
        obtain ⟨a, d⟩ := p
        simp only [hf] at h
        cases hcl : closedBefore tr.close a with
        | some e => simp [hcl] at h
        | none =>
          simp only [hcl] at h
          split at h
          · rename_i haT
            split at h
            · simp at h
            · rename_i hne
              simp only [Outcome.yielded.injEq] at h
              obtain ⟨h1, h2⟩ := h
              subst h1
              exact ⟨c, d, rfl, by omega, firstEndpoint_mem _ _ _ hf, rfl, h2.symm,
                by rw [← h2]; exact hne, haT, hcl⟩
          · simp at h

/-- Entering never takes longer than the configured timeout, whatever the server does. -/
theorem c12_enter_bounded (base : Str) (tr : EstTrace) : (enter base tr).time ≤ tr.T := by
  unfold enter
  cases hc : tr.conn with
  | hang => simp only [Outcome.time]; omega
  | status c code => simp only [Outcome.time]; omega
  | error c => simp only [Outcome.time]; omega
  | ok c =>
    simp only
    split
    · simp only [Outcome.time]; omega
    · cases hf : firstEndpoint tr.acts with
      | none =>
        simp only
        cases hcl : tr.close with
        | none => simp [Outcome.time]
        | some e => simp only [Outcome.time]; omega
      | some p =>
        obtain ⟨a, d⟩ := p
        simp only
        cases hcl : closedBefore tr.close a with
        | some e => simp only [Outcome.time]; omega
        | none =>
          simp only
          split
          · split <;> simp only [Outcome.time] <;> omega
          · simp [Outcome.time]

/-- ... and a raise happens only when it has to: a 200 in time, then a non-empty announcement at
tick `a` before the timeout and before the stream ends, makes entering yield at `a`
(so the model is not the trivial "always raise"). -/
theorem c12_enter_complete (base : Str) (tr : EstTrace) (c a : Nat) (d : Str)
    (hconn : tr.conn = .ok c) (hc : c < min tr.T tr.cap)
    (hf : firstEndpoint tr.acts = some (a, d)) (ha : a < tr.T)
    (hcl : closedBefore tr.close a = none) (hd : strip d ≠ []) :
    enter base tr = .yielded a (resolveEndpoint base d) := by
  have hne : resolveEndpoint base d ≠ [] := fun h => hd ((resolveEndpoint_eq_nil base d).mp h)
  unfold enter
  simp only [hconn, hf, hcl]
  have : ¬ (min tr.T tr.cap ≤ c) := by omega
  simp [this, ha, hne]

def exTrace (conn : Conn) (close : Option Nat) : EstTrace :=
  { T := 2048, cap := 15360, conn := conn, close := close,
    acts := runTimed PSt.init [(3, "event: endp".toList), (7, "oint\ndata: /messages/?session_id=s1\n\n".toList)] }

example : enter "http://h".toList (exTrace (.ok 1) none)
      = .yielded 7 "http://h/messages/?session_id=s1".toList
    ∧ enter "http://h".toList (exTrace (.status 1 404) none) = .raised 1
    ∧ enter "http://h".toList (exTrace (.error 5) none) = .raised 5
    ∧ enter "http://h".toList (exTrace .hang none) = .raised 2048
    ∧ enter "http://h".toList (exTrace (.ok 1) (some 5)) = .raised 5
    ∧ enter "http://h".toList { exTrace (.ok 1) none with acts := [] } = .raised 2048 := by
  decide

/-! ## requests -/

/-- Exactly one terminal message per request, for every mode and both orders of the race between
the POST reply and the event stream, whatever unrelated messages the event stream carries at any
of the control points (before the POST is answered, between the two racing steps, afterwards) and
whatever was delivered before: the read stream gains exactly one entry bearing the request's id —
the terminal message of the mode — and every unrelated message the validator accepts, once and in
stream order. -/
theorem c12_race_exactly_once (st : St α) (k : Str) (mode : Mode α) (bg0 bg1 bg2 : List (Msg α))
    (hwf : mode.wf k) (hbg : ∀ m ∈ bg0 ++ bg1 ++ bg2, m.key ≠ some k) :
    ((run st (sched k mode bg0 bg1 bg2)).out.drop st.out.length).filter (hasKey k) = [terminal k mode]
    ∧ (run st (sched k mode bg0 bg1 bg2)).out.take st.out.length = st.out
    ∧ ((run st (sched k mode bg0 bg1 bg2)).out.drop st.out.length).filter (fun o => !hasKey k o)
        = oks bg0 ++ mid mode bg1 ++ oks bg2
    ∧ (terminal k mode).key = some k := by
  have h := (run_sched st k mode bg0 bg1 bg2 hwf hbg).1
  have h0 : ∀ m ∈ bg0, m.key ≠ some k := fun m hm => hbg m (by simp [hm])
  have h1 : ∀ m ∈ bg1, m.key ≠ some k := fun m hm => hbg m (by simp [hm])
  have h2 : ∀ m ∈ bg2, m.key ≠ some k := fun m hm => hbg m (by simp [hm])
  have hk := terminal_key k mode hwf
  rw [h]
  refine ⟨?_, by simp, ?_, hk⟩
  · simp only [List.drop_left]
    rw [filter_reqOut k k mode bg0 bg1 bg2 hwf hbg]
    simp
  · simp only [List.drop_left, reqOut, List.filter_append]
    have keep : ∀ ms : List (Msg α), (∀ m ∈ ms, m.key ≠ some k) →
        ∀ m ∈ ms, (fun o => !hasKey k o) (Out.routed m) = true := by
      intro ms hms m hm
      simp [hasKey, Out.key, hms m hm]
    rw [filter_keep_oks _ _ (keep bg0 h0), filter_keep_oks _ _ (keep bg2 h2),
      mid_keep _ _ _ (keep bg1 h1)]
    simp [hasKey, hk]

/-- corollary in the form of the property text: the number of read-stream entries bearing the
request's id grows by exactly one -/
theorem c12_race_count (st : St α) (k : Str) (mode : Mode α) (bg0 bg1 bg2 : List (Msg α))
    (hwf : mode.wf k) (hbg : ∀ m ∈ bg0 ++ bg1 ++ bg2, m.key ≠ some k) :
    ((run st (sched k mode bg0 bg1 bg2)).out.filter (hasKey k)).length
      = (st.out.filter (hasKey k)).length + 1 := by
  rw [(run_sched st k mode bg0 bg1 bg2 hwf hbg).1, List.filter_append,
    filter_reqOut k k mode bg0 bg1 bg2 hwf hbg]
  simp

/-- after any request the pending table is empty and the sender is idle (nothing leaks from one
request into the next) -/
theorem c12_request_leaves_idle (st : St α) (k : Str) (mode : Mode α) (bg0 bg1 bg2 : List (Msg α))
    (hwf : mode.wf k) (hbg : ∀ m ∈ bg0 ++ bg1 ++ bg2, m.key ≠ some k) :
    (run st (sched k mode bg0 bg1 bg2)).phase = .idle ∧ (run st (sched k mode bg0 bg1 bg2)).inDict = false :=
  (run_sched st k mode bg0 bg1 bg2 hwf hbg).2

/-- Any number of requests with pairwise different ids, served one after the other, each in any
mode and order, with unrelated event-stream traffic everywhere: every request gets exactly one
read-stream entry with its id (its terminal message), and the entries bearing no request's id are
exactly the unrelated messages the validator accepts, once, in order. -/
theorem c12_serial_requests (rs : List (Req α)) (hwf : ∀ r ∈ rs, r.mode.wf r.key)
    (hnd : (rs.map (·.key)).Nodup)
    (hbg : ∀ r ∈ rs, ∀ m ∈ r.bg, ∀ r' ∈ rs, m.key ≠ some r'.key) :
    (∀ r ∈ rs, (runReqs St.init rs).out.filter (hasKey r.key) = [terminal r.key r.mode])
    ∧ (runReqs St.init rs).out.filter (fun o => !anyKey rs o) = rs.flatMap Req.bgOut := by
  have hok : ∀ r ∈ rs, r.Ok := fun r hr => ⟨hwf r hr, fun m hm => hbg r hr m hm r hr⟩
  have hout := runReqs_out St.init rs hok
  constructor
  · intro r hr
    rw [hout]
    simp only [St.init, List.nil_append]
    rw [filter_flatMap_out r.key rs hwf (fun x hx m hm => hbg x hx m hm r hr),
      filter_key_nodup rs hnd r hr]
    rfl
  · rw [hout]
    simp only [St.init, List.nil_append]
    exact filter_flatMap_bg rs rs (fun _ h => h) hwf hbg

def exMsg (k : Option String) (tag : Nat) : Msg Nat := { key := k.map String.toList, ok := true, body := tag }

def exReqs : List (Req Nat) :=
  [ { key := "a".toList, mode := .ackThenEv (exMsg (some "a") 1), bg0 := [exMsg none 10], bg1 := [exMsg (some "srv") 11], bg2 := [] },
    { key := "b".toList, mode := .evThenAck (exMsg (some "b") 2), bg0 := [], bg1 := [{ key := none, ok := false, body := 12 }], bg2 := [exMsg none 13] },
    { key := "c".toList, mode := .silence, bg0 := [], bg1 := [], bg2 := [] },
    { key := "d".toList, mode := .otherStatus (some (exMsg none 3)), bg0 := [], bg1 := [], bg2 := [] },
    { key := "e".toList, mode := .body (exMsg (some "e") 4), bg0 := [], bg1 := [], bg2 := [] },
    { key := "f".toList, mode := .exception, bg0 := [], bg1 := [], bg2 := [] } ]

example : (runReqs St.init exReqs).out =
    [.routed (exMsg none 10), .routed (exMsg (some "srv") 11), .routed (exMsg (some "a") 1),
     .routed (exMsg (some "b") 2), .routed (exMsg none 13), .timeoutErr "c".toList, .failErr "d".toList,
     .routed (exMsg (some "e") 4), .failErr "f".toList] := by
  decide

/-- The answer on the event stream FIRST, then the POST completes in any way whatsoever — 200 with
a body, a 200 that cannot be decoded, 202, another status with or without a body, an exception:
still exactly one read-stream entry with the request's id, the sender is idle afterwards (nothing
is left waiting for anything), and the event stream's other messages are untouched. -/
theorem c12_event_first_any_post (st : St α) (k : Str) (m : Msg α) (p : Post α) (bg0 bg1 bg2 : List (Msg α))
    (hm : m.ok = true ∧ m.key = some k)
    (hp : match p with | .ok200 (some b) => b.ok = true ∧ b.key = some k | _ => True)
    (hbg : ∀ x ∈ bg0 ++ bg1 ++ bg2, x.key ≠ some k) :
    ((run st (sched k (.evThenPost m p) bg0 bg1 bg2)).out.drop st.out.length).filter (hasKey k) = [postTerminal k m p]
    ∧ (run st (sched k (.evThenPost m p) bg0 bg1 bg2)).phase = .idle
    ∧ (run st (sched k (.evThenPost m p) bg0 bg1 bg2)).inDict = false
    ∧ ((run st (sched k (.evThenPost m p) bg0 bg1 bg2)).out.drop st.out.length).filter (fun o => !hasKey k o)
        = oks bg0 ++ oks bg1 ++ oks bg2 := by
  have hwf : (Mode.evThenPost m p).wf k := ⟨hm, hp⟩
  obtain ⟨h1, _, h3, _⟩ := c12_race_exactly_once st k (.evThenPost m p) bg0 bg1 bg2 hwf hbg
  obtain ⟨h4, h5⟩ := c12_request_leaves_idle st k (.evThenPost m p) bg0 bg1 bg2 hwf hbg
  exact ⟨h1, h4, h5, h3⟩

example : (run St.init (sched "a".toList (.evThenPost (exMsg (some "a") 1) (.ok200 (some (exMsg (some "a") 2))))
      [] [exMsg none 7] [])).out = [.routed (exMsg none 7), .routed (exMsg (some "a") 2)]
    ∧ (run St.init (sched "a".toList (.evThenPost (exMsg (some "a") 1) .exc) [] [] [])).out = [.failErr "a".toList]
    ∧ (run St.init (sched "a".toList (.evThenPost (exMsg (some "a") 1) (.other none)) [] [] [])).out = [.failErr "a".toList] := by
  decide

/-- Ids may be reused by the other peer: once a request has ended — in any mode — a later event
bearing the SAME id (a server request numbered like it, both peers count from 1) is an ordinary
server message: it is put on the read stream like any other, nothing is held back or dropped. -/
theorem c12_id_reuse_after_answer (st : St α) (k : Str) (mode : Mode α) (bg0 bg1 bg2 : List (Msg α))
    (hwf : mode.wf k) (hbg : ∀ m ∈ bg0 ++ bg1 ++ bg2, m.key ≠ some k) (later : List (Msg α)) :
    (run st (sched k mode bg0 bg1 bg2 ++ later.map .event)).out
      = (run st (sched k mode bg0 bg1 bg2)).out ++ oks later := by
  rw [run_append, run_bg _ later (Or.inl (run_sched st k mode bg0 bg1 bg2 hwf hbg).2.2)]

example : (run St.init (sched "1".toList (.body (exMsg (some "1") 1)) [] [] [] ++ [.event (exMsg (some "1") 9)])).out
    = [.routed (exMsg (some "1") 1), .routed (exMsg (some "1") 9)] := by decide

/-- Instances are independent: however the actions of several transports living in one process
are interleaved, what transport `i` puts on its read stream (its whole state) is what it would do
alone with its own actions — equal request ids on different transports do not meet. -/
theorem c12_instances_independent (sts : List (St α)) (acts : List (Nat × Action α)) (i : Nat) :
    (runTagged sts acts)[i]? = (sts[i]?).map (fun s => run s (projActs i acts)) :=
  runTagged_get sts acts i

example : ((runTagged [St.init, St.init]
      [(0, .register "a".toList), (1, .register "a".toList), (1, .event (exMsg (some "a") 2)), (0, .post (.ok200 (some (exMsg (some "a") 1)))),
       (1, .post .accepted)]).map (·.out))
    = [[.routed (exMsg (some "a") 1)], [.routed (exMsg (some "a") 2)]] := by decide

/-- The options of `SSEParameters` (session id, bearer token, headers, reconnect flags, endpoint
names, keep-alive) are no input of a session: in particular a configured session id does not make
an endpoint "known" — live-or-raise, delivery and the terminals are the same under any options. -/
theorem c12_options_irrelevant (o₁ o₂ : Options) (dec : Str → Option (Msg α)) (url : Str) (T cap : Nat) (conn : Conn)
    (chunks : List (Nat × Str)) (close : Option Nat) (reqs : List (Str × Mode α × List (Msg α))) :
    sessionWith o₁ dec url T cap conn chunks close reqs = sessionWith o₂ dec url T cap conn chunks close reqs := rfl

/-! ## event stream -/

/-- Chunk independence: however the decoded event stream is cut into chunks (any number, any
positions, empty chunks included), the parser hands the same actions, in the same order, to the
transport and ends in the same state. -/
theorem c12_stream_chunk_independent (c₁ c₂ : List Str) (h : c₁.flatten = c₂.flatten) :
    runChunks PSt.init c₁ = runChunks PSt.init c₂ := by
  rw [runChunks_eq _ PSt.init_clean, runChunks_eq _ PSt.init_clean, h]

/-- ... hence so are the server messages put on the read stream (once each, in order), also when
the chunks arrive at different times. -/
theorem c12_delivery_chunk_independent (dec : Str → Option (Msg α)) (tc₁ tc₂ : List (Nat × Str))
    (h : (tc₁.map (·.2)).flatten = (tc₂.map (·.2)).flatten) :
    srvDelivered dec ((runTimed PSt.init tc₁).map (·.2)) = srvDelivered dec ((runTimed PSt.init tc₂).map (·.2)) := by
  rw [runTimed_acts, runTimed_acts, c12_stream_chunk_independent _ _ h]

example : (runChunks PSt.init ["event: mess".toList, "age\r".toList, [], "\ndata: {\"id\":1}\n\nda".toList,
      "ta: {\"jsonrpc\":\"2.0\"}\n\n".toList]).2
    = [.message "{\"id\":1}".toList, .message "{\"jsonrpc\":\"2.0\"}".toList] := by
  decide

/-- Delivered once and in order, independent of the chunking: take any sequence of typed events
(endpoint / message / keepalive) and comment lines, rendered by a server with LF or CRLF line ends,
whose data has no line feed and no surrounding white space, and cut the text into chunks in any way
whatsoever; the parser hands the transport exactly one action per endpoint / message event, in
stream order, and nothing for keepalives and comments. -/
theorem c12_stream_delivers_rendered (evs : List (Ev × Bool)) (hclean : ∀ p ∈ evs, p.1.Clean)
    (chunks : List Str) (h : chunks.flatten = renderText evs) :
    (runChunks PSt.init chunks).2 = evs.filterMap (fun p => p.1.act) := by
  rw [runChunks_eq _ PSt.init_clean, h]
  simp only [PSt.init, List.nil_append, renderText]
  rw [splitLF_join _ (by
    intro l hl
    obtain ⟨p, hp, hlp⟩ := List.mem_flatMap.mp hl
    exact evLines_noLF p.1 p.2 (hclean p hp) l hlp)]
  exact stepLines_events _ rfl evs hclean

/-- The same for EVERY conformant rendering: the optional space after the colon present or not,
LF or CRLF (per event), a message's data spread over any number of `data` lines, comment lines,
keepalives — and every chunking of the resulting text: exactly one action per endpoint / message
event, in stream order, carrying the data lines joined with LF. -/
theorem c12_stream_delivers_conformant (evs : List (EvX × Style)) (hok : ∀ p ∈ evs, p.1.Ok p.2)
    (chunks : List Str) (h : chunks.flatten = renderTextX evs) :
    (runChunks PSt.init chunks).2 = evs.filterMap (fun p => p.1.act) := by
  rw [runChunks_eq _ PSt.init_clean, h]
  simp only [PSt.init, List.nil_append, renderTextX]
  rw [splitLF_join _ (by
    intro l hl
    obtain ⟨p, hp, hlp⟩ := List.mem_flatMap.mp hl
    exact evLinesX_noLF p.1 p.2 (hok p hp) l hlp)]
  exact stepLines_eventsX _ rfl evs hok

example : (runChunks PSt.init ["event:endpoint\r\ndata:/messages/?s=1\r\n\r\nevent: mess".toList,
      "age\ndata: {\ndata:   \"jsonrpc\": \"2.0\"\ndata: }\n".toList, "\n:ping\ndata:{\"jsonrpc\":1}\n\n".toList]).2
    = [.endpoint "/messages/?s=1".toList, .message "{\n  \"jsonrpc\": \"2.0\"\n}".toList, .message "{\"jsonrpc\":1}".toList] := by
  decide

/-- ... so the read stream gets exactly the rendered messages the validator accepts, once, in order. -/
theorem c12_server_messages_once_in_order (dec : Str → Option (Msg α)) (evs : List (Ev × Bool))
    (hclean : ∀ p ∈ evs, p.1.Clean) (chunks : List Str) (h : chunks.flatten = renderText evs) :
    srvDelivered dec (runChunks PSt.init chunks).2 = srvDelivered dec (evs.filterMap (fun p => p.1.act)) := by
  rw [c12_stream_delivers_rendered evs hclean chunks h]

example : renderText [(.comment " hi".toList, false), (.endpoint "/messages/?s=1".toList, true), (.message "{\"a\":1}".toList, false)]
    = ": hi\nevent: endpoint\r\ndata: /messages/?s=1\r\n\r\nevent: message\ndata: {\"a\":1}\n\n".toList := by decide

example : (Ev.message "{\"a\":1}".toList).Clean := by
  refine ⟨by decide, ?_, ?_⟩ <;> intro c hc <;> simp at hc <;> subst hc <;> decide

/-! ## resources (abstract handles only — see the header) -/

theorem c12_cleanup_closes_all (h : Handles) : ∀ x ∈ (cleanup h).toList, x ≠ H.live := by
  intro x hx
  simp only [Handles.toList, cleanup, List.mem_cons, List.not_mem_nil, or_false] at hx
  rcases hx with hx | hx | hx | hx | hx | hx | hx <;> subst hx
  · cases h.sseTask <;> simp [H.close]
  · cases h.outTask <;> simp [H.close]
  · cases h.streamCtx <;> simp [H.close]
  · cases h.incomingSend <;> simp [H.close]
  · cases h.outgoingSend <;> simp [H.close]
  · cases h.streamClient <;> simp [H.close]
  · cases h.sendClient <;> simp [H.close]

example : cleanup ⟨.live, .live, .absent, .live, .live, .live, .live⟩
    = ⟨.released, .released, .absent, .released, .released, .released, .released⟩ := by decide

/-! ## the server ends the event stream -/

/-- An announcement that precedes the end of the stream still yields: ending the stream afterwards
does not turn the connection into a refused one (entering is decided at the announcement). -/
theorem c12_stream_end_after_announcement (base : Str) (tr : EstTrace) (c a e : Nat) (d : Str)
    (hconn : tr.conn = .ok c) (hc : c < min tr.T tr.cap) (hf : firstEndpoint tr.acts = some (a, d))
    (ha : a < tr.T) (hclose : tr.close = some e) (hae : a ≤ e) (hd : strip d ≠ []) :
    enter base tr = .yielded a (resolveEndpoint base d) := by
  apply c12_enter_complete base tr c a d hconn hc hf ha _ hd
  simp only [closedBefore, hclose]
  have : ¬ e < a := by omega
  simp [this]

/-- After the stream has ended, requests are still answered exactly once: whatever was outstanding
or is sent later ends with the POST reply, the synthesised failure, or — after a 202 — the
synthesised timeout error; nothing else reaches the read stream. -/
theorem c12_stream_end_requests (rs : List (Req α)) (hne : ∀ r ∈ rs, r.mode.noEvent = true)
    (hwf : ∀ r ∈ rs, r.mode.wf r.key) (hnd : (rs.map (·.key)).Nodup)
    (hbg : ∀ r ∈ rs, r.bg = []) :
    (∀ r ∈ rs, (runReqs St.init rs).out.filter (hasKey r.key) = [terminal r.key r.mode])
    ∧ (runReqs St.init rs).out.filter (fun o => !anyKey rs o) = [] := by
  have hb : ∀ r ∈ rs, ∀ m ∈ r.bg, ∀ r' ∈ rs, m.key ≠ some r'.key := by
    intro r hr m hm
    rw [hbg r hr] at hm
    simp at hm
  obtain ⟨h1, h2⟩ := c12_serial_requests rs hwf hnd hb
  refine ⟨h1, ?_⟩
  rw [h2]
  apply List.flatMap_eq_nil_iff.mpr
  intro r hr
  have hbgr := hbg r hr
  simp only [Req.bg, List.append_eq_nil_iff] at hbgr
  obtain ⟨⟨h0, h1'⟩, h2'⟩ := hbgr
  have hm : mid r.mode r.bg1 = [] := by
    have := hne r hr
    cases hmode : r.mode <;> simp_all [mid, Mode.noEvent, oks]
  simp [Req.bgOut, h0, h2', hm, oks]

example : (runReqs St.init [({ key := "a".toList, mode := .silence, bg0 := [], bg1 := [], bg2 := [] } : Req Nat),
      { key := "b".toList, mode := .body (exMsg (some "b") 1), bg0 := [], bg1 := [], bg2 := [] }]).out
    = [.timeoutErr "a".toList, .routed (exMsg (some "b") 1)] := by decide


/-! ## the POST target -/

/-- The POST target is a function of the base URL and the announced data only: two entries that
yield on announcements with the same data yield the same message URL. -/
theorem c12_post_target_function (base : Str) (tr₁ tr₂ : EstTrace) (t₁ t₂ : Nat) (u₁ u₂ : Str)
    (h₁ : enter base tr₁ = .yielded t₁ u₁) (h₂ : enter base tr₂ = .yielded t₂ u₂)
    (hd : (firstEndpoint tr₁.acts).map (·.2) = (firstEndpoint tr₂.acts).map (·.2)) : u₁ = u₂ := by
  obtain ⟨_, d₁, _, _, _, hf₁, hu₁, _⟩ := c12_live_or_raise base tr₁ t₁ u₁ h₁
  obtain ⟨_, d₂, _, _, _, hf₂, hu₂, _⟩ := c12_live_or_raise base tr₂ t₂ u₂ h₂
  rw [hf₁, hf₂] at hd
  simp only [Option.map_some, Option.some.injEq] at hd
  rw [hu₁, hu₂, hd]

/-- An absolute `http…` announcement is the message endpoint, verbatim, whatever the URL the event
stream was opened on: another host, port or scheme in the announcement is neither rewritten nor a
reason to fall back to a URL the server did not announce. -/
theorem c12_absolute_endpoint_verbatim (base₁ base₂ data : Str) (h : startsWith sHttp (strip data) = true) :
    resolveEndpoint base₁ data = strip data ∧ resolveEndpoint base₁ data = resolveEndpoint base₂ data := by
  have hs : startsWith ['/'] (strip data) = false := by
    cases hp : strip data with
    | nil => simp [startsWith, stripPrefix]
    | cons c cs =>
      rw [hp] at h
      have : c = 'h' := by
        simp [startsWith, stripPrefix, sHttp] at h
        by_cases hc : 'h' = c
        · exact hc.symm
        · simp [hc] at h
      subst this
      simp [startsWith, stripPrefix]
  have e := fun b => (c12_endpoint_forms b data).2.2.1 hs (Or.inr h)
  exact ⟨e base₁, by rw [e base₁, e base₂]⟩

example : resolveEndpoint "http://127.0.0.1:8000".toList "http://localhost:8000/messages/?s=1".toList
    = "http://localhost:8000/messages/?s=1".toList := by decide

/-- Path and query announcements stay on the configured origin: the target extends the base URL;
only a full URL (or a text without `=`) can point elsewhere, and then it is used verbatim. -/
theorem c12_endpoint_same_origin (base data : Str)
    (h : startsWith ['/'] (strip data) = true ∨
         ((strip data).contains '=' = true ∧ startsWith sHttp (strip data) = false)) :
    base <+: resolveEndpoint base data := by
  by_cases h1 : startsWith ['/'] (strip data) = true
  · rw [(c12_endpoint_forms base data).1 h1]; exact List.prefix_append _ _
  · have h1' : startsWith ['/'] (strip data) = false := by simpa using h1
    rcases h with h | ⟨h2, h3⟩
    · exact absurd h h1
    · rw [(c12_endpoint_forms base data).2.1 h1' h2 h3]
      split
      · exact List.prefix_append _ _
      · rw [List.append_assoc]; exact List.prefix_append _ _

end Verif.Props.C12
