import Verif.Lemmas.Dispatch

/-! # C08 — server dispatch: one response per request, none per notification, never a crash

Model: `Verif.Model.Dispatch.handle` (the REPAIRED `ProtocolHandler.handle_message`) over an
arbitrary method table, and `serverReg S`, the table of an `MCPServer` whose tools, resources and
custom methods have arbitrary behaviours (returns / raises / returns nonsense).  Building a
response or error envelope with a null id is `.error` in the model (the envelope classes reject
it), so "never raises" has content.  The pinned commit's dispatcher is `handleOld`; it violates
the property and `c08_pinned_code_raises` states that. -/
set_option linter.unusedSimpArgs false
namespace Verif.Props.C08
open Verif.Model.Dispatch

/-- Dispatch never raises: for EVERY method table and EVERY message (with or without id, with or
without method, any params, any handler behaviour) the dispatcher returns normally. -/
theorem c08_never_raises (reg : Registry) (m : Msg) : ∃ r, handle reg m = .ok r := by
  unfold handle
  cases hid : m.id with
  | none =>
    simp only [Option.isNone_none, if_true]
    split
    · exact ⟨_, rfl⟩
    · split
      · exact ⟨_, rfl⟩
      · split
        · exact ⟨_, rfl⟩
        · split <;> exact ⟨_, rfl⟩
  | some i =>
    simp only [Option.isNone_some, mkError, mkResult, Except.map]
    split
    · exact ⟨_, rfl⟩
    · split
      · exact ⟨_, rfl⟩
      · split
        · exact ⟨_, rfl⟩
        · split
          · exact ⟨_, rfl⟩
          · exact ⟨_, rfl⟩
          · exact ⟨_, rfl⟩

/-- No response per notification — registered or not, failing or not, with or without a method
name, whatever the handler hands back. -/
theorem c08_none_per_notification (reg : Registry) (m : Msg) (hid : m.id = none) :
    ∃ s, handle reg m = .ok (none, s) := by
  unfold handle
  simp only [hid, Option.isNone_none, if_true]
  split
  · exact ⟨_, rfl⟩
  · split
    · exact ⟨_, rfl⟩
    · split
      · exact ⟨_, rfl⟩
      · split <;> exact ⟨_, rfl⟩

/-- Exactly one response per request, carrying the request's id (JSON type included), for every
method table whose handlers, when they return a pair for a request, put a response for that
request into it (`Faithful`; see `c08_server_one_response` — the table of an `MCPServer` is such a
table).  Handlers that raise or return a non-pair are covered without any hypothesis on them. -/
theorem c08_one_response_per_request (reg : Registry) (m : Msg) (i : Id) (hid : m.id = some i)
    (hf : ∀ meth h, reg meth = some h → Faithful h) :
    ∃ resp s, handle reg m = .ok (some resp, s) ∧ resp.id = i := by
  unfold handle
  simp only [hid, Option.isNone_some, mkError, mkResult, Except.map, Bool.false_eq_true, if_false]
  split
  · exact ⟨_, _, rfl, rfl⟩
  · rename_i meth hm
    split
    · exact ⟨_, _, rfl, rfl⟩
    · split
      · exact ⟨_, _, rfl, rfl⟩
      · rename_i h hr
        split
        · rename_i r s hh
          obtain ⟨resp, hr', hi⟩ := hf meth h hr m r s i hh hid
          subst hr'
          exact ⟨resp, s, rfl, hi⟩
        · exact ⟨_, _, rfl, rfl⟩
        · exact ⟨_, _, rfl, rfl⟩

/-- The code table of the dispatcher, for every method table:
unregistered (non-empty) method ⇒ exactly `-32601`; the handler raises or returns a non-pair ⇒
exactly `-32603`; each with the request's id and no session id. -/
theorem c08_code_table (reg : Registry) (m : Msg) (i : Id) (meth : String)
    (hid : m.id = some i) (hm : m.method = some meth) (hne : meth ≠ "") :
    (reg meth = none → handle reg m = .ok (some (.error i (-32601)), none))
    ∧ (∀ h, reg meth = some h → (h m = .raise ∨ h m = .nonsense) →
        handle reg m = .ok (some (.error i (-32603)), none)) := by
  refine ⟨?_, ?_⟩
  · intro hr
    simp [handle, hid, hm, hne, hr, mkError, Except.map]
  · intro h hr hb
    rcases hb with hb | hb <;> simp [handle, hid, hm, hne, hr, hb, mkError, Except.map]

/-- On an `MCPServer` every request gets exactly one response with its id and every notification
none — whatever tools, resources and custom methods are registered and however they behave
(return, raise, return nonsense); the only proviso is that the addressed method is not a custom
one that deliberately returns `(None, None)` or a response of its own making (`CBeh.Proper`).  The server's own handlers, the repaired
`notifications/initialized` included, are proved faithful. -/
theorem c08_server_one_response (S : Server) (m : Msg) :
    (∀ i, m.id = some i → (∀ meth b, m.method = some meth → S.custom meth = some b → b.Proper) →
        ∃ resp s, handle (serverReg S) m = .ok (some resp, s) ∧ resp.id = i)
    ∧ (m.id = none → ∃ s, handle (serverReg S) m = .ok (none, s)) := by
  refine ⟨?_, fun hid => c08_none_per_notification (serverReg S) m hid⟩
  intro i hid hs
  cases hm : m.method with
  | none => exact ⟨.error i (-32600), none, by simp [handle, hid, hm, mkError, Except.map], rfl⟩
  | some meth =>
    -- only the addressed method's handler matters
    let reg' : Registry := fun k => if k = meth then serverReg S k else none
    have hsame : handle (serverReg S) m = handle reg' m := by
      simp [handle, hm, reg']
    rw [hsame]
    apply c08_one_response_per_request reg' m i hid
    intro k h hk
    by_cases hkm : k = meth
    · subst hkm
      simp only [reg', if_true] at hk
      exact serverReg_faithful S k h (hs k · hm) hk
    · simp [reg', hkm] at hk

/-- Tool and resource codes on an `MCPServer` (methods not overridden by a custom handler):
unknown tool / resource name ⇒ `-32602`; the tool / resource handler raises or returns nonsense,
or the arguments do not fit ⇒ `-32603`; otherwise the result. -/
theorem c08_tool_resource_codes (S : Server) (m : Msg) (i : Id) (hid : m.id = some i) :
    (m.method = some "tools/call" → S.custom "tools/call" = none →
      (∀ n, m.params.name = .str n → S.tools n = none →
        handle (serverReg S) m = .ok (some (.error i (-32602)), none))
      ∧ (∀ n b, m.params.name = .str n → S.tools n = some b → invoke b m.params.argsOk = none →
        handle (serverReg S) m = .ok (some (.error i (-32603)), none))
      ∧ (∀ n r, m.params.name = .str n → S.tools n = some (.returns r) → m.params.argsOk = true →
        handle (serverReg S) m = .ok (some (.result i (.toolContent r)), none)))
    ∧ (m.method = some "resources/read" → S.custom "resources/read" = none →
      (∀ u, m.params.uri = .str u → S.resources u = none →
        handle (serverReg S) m = .ok (some (.error i (-32602)), none))
      ∧ (∀ u b, m.params.uri = .str u → S.resources u = some b → invoke b true = none →
        handle (serverReg S) m = .ok (some (.error i (-32603)), none))
      ∧ (∀ u r, m.params.uri = .str u → S.resources u = some (.returns r) →
        handle (serverReg S) m = .ok (some (.result i (.resourceContent r)), none))) := by
  refine ⟨?_, ?_⟩
  · intro hm hc
    have hreg : serverReg S "tools/call" = some (hToolsCall S) := by
      simp [serverReg, serverRegWith, hc]
    refine ⟨?_, ?_, ?_⟩
    · intro n hn ht
      simp [handle, hid, hm, hreg, hToolsCall, hn, ht, respondErr, mkError]
    · intro n b hn ht hi
      simp [handle, hid, hm, hreg, hToolsCall, hn, ht, hi, respondErr, mkError]
    · intro n r hn ht ha
      simp [handle, hid, hm, hreg, hToolsCall, hn, ht, ha, invoke, respond, mkResult]
  · intro hm hc
    have hreg : serverReg S "resources/read" = some (hResourcesRead S) := by
      simp [serverReg, serverRegWith, hc]
    refine ⟨?_, ?_, ?_⟩
    · intro u hu hr
      simp [handle, hid, hm, hreg, hResourcesRead, hu, hr, respondErr, mkError]
    · intro u b hu hr hi
      simp [handle, hid, hm, hreg, hResourcesRead, hu, hr, hi, respondErr, mkError]
    · intro u r hu hr
      simp [handle, hid, hm, hreg, hResourcesRead, hu, hr, invoke, respond, mkResult]

/-- The defects of the pinned commit, as a theorem about its dispatcher and table: a
notification the server has no handler for (`notifications/cancelled` — every real client sends
it) makes `handle_message` raise, and so does an id-less `ping`; a handler's non-pair return value
is handed to the caller as it is; a request addressed to `notifications/initialized` gets no
response.  The repaired dispatcher answers / stays silent on the same four inputs. -/
theorem c08_pinned_code_violates :
    let S : Server := { tools := fun _ => none, resources := fun _ => none,
                        custom := fun n => if n = "x/none" then some .returnsNonsense else none,
                        nextSid := "s" }
    (handleOld (serverRegOld S) { id := none, method := some "notifications/cancelled" } = .error .nullId
      ∧ handleOld (serverRegOld S) { id := none, method := some "ping" } = .error .nullId
      ∧ handleOld (serverRegOld S) { id := some (.int 1), method := some "x/none" } = .error .notAPair
      ∧ handleOld (serverRegOld S) { id := some (.int 1), method := some "notifications/initialized" }
          = .ok (none, none))
    ∧ (handle (serverReg S) { id := none, method := some "notifications/cancelled" } = .ok (none, none)
      ∧ handle (serverReg S) { id := none, method := some "ping" } = .ok (none, none)
      ∧ handle (serverReg S) { id := some (.int 1), method := some "x/none" }
          = .ok (some (.error (.int 1) (-32603)), none)
      ∧ handle (serverReg S) { id := some (.int 1), method := some "notifications/initialized" }
          = .ok (some (.result (.int 1) .empty), none)) := by
  decide

/-! ## Non-vacuity: a concrete server, falsy ids, every branch of the code table -/

def srvEx : Server :=
  { tools := fun n => if n = "echo" then some (.returns "hi") else if n = "boom" then some .raises
      else if n = "sync" then some .returnsNonsense else none,
    resources := fun u => if u = "file:///a" then some (.returns "txt") else none,
    custom := fun n => if n = "x/none" then some .returnsNonsense else if n = "x/silent" then some .silent
      else if n = "notifications/progress" then some (.acks (.str "tok") (some "h"))
      else if n = "x/legacy" then some (.echoes "r") else none,
    nextSid := "sid-1" }

/-- a message with a method -/
def msg (id : Option Id) (meth : String) (p : Params := {}) : Msg := { id := id, method := some meth, params := p }

/-- ids `0` and `""` are request ids -/
example : handle (serverReg srvEx) (msg (some (.int 0)) "ping") = .ok (some (.result (.int 0) .empty), none)
    ∧ handle (serverReg srvEx) (msg (some (.str "")) "nosuch")
      = .ok (some (.error (.str "") (-32601)), none) := by decide

example :
    handle (serverReg srvEx) (msg (some (.int (-7))) "tools/call" { name := .str "nope" })
      = .ok (some (.error (.int (-7)) (-32602)), none)
    ∧ handle (serverReg srvEx) (msg (some (.int 1)) "tools/call" { name := .str "boom" })
      = .ok (some (.error (.int 1) (-32603)), none)
    ∧ handle (serverReg srvEx) (msg (some (.int 1)) "tools/call" { name := .unhashable })
      = .ok (some (.error (.int 1) (-32603)), none)
    ∧ handle (serverReg srvEx) (msg (some (.int 1)) "tools/call" { name := .str "echo", argsOk := false })
      = .ok (some (.error (.int 1) (-32603)), none)
    ∧ handle (serverReg srvEx) (msg (some (.int 1)) "tools/call" { name := .str "echo" })
      = .ok (some (.result (.int 1) (.toolContent "hi")), none)
    ∧ handle (serverReg srvEx) (msg (some (.int 1)) "x/none") = .ok (some (.error (.int 1) (-32603)), none)
    ∧ handle (serverReg srvEx) (msg (some (.int 1)) "x/silent") = .ok (none, none)
    ∧ handle (serverReg srvEx) (msg (some (.int 1)) "notifications/initialized")
      = .ok (some (.result (.int 1) .empty), none)
    ∧ handle (serverReg srvEx) (msg (some (.str "i")) "initialize")
      = .ok (some (.result (.str "i") .init), some "sid-1") := by
  refine ⟨?_, ?_, ?_, ?_, ?_, ?_, ?_, ?_, ?_⟩ <;> decide

/-- notifications: unregistered, failing, id-less requests-by-name — all silent -/
example : handle (serverReg srvEx) (msg none "notifications/cancelled") = .ok (none, none)
    ∧ handle (serverReg srvEx) (msg none "ping") = .ok (none, none)
    ∧ handle (serverReg srvEx) (msg none "tools/call" { name := .str "boom" }) = .ok (none, none)
    ∧ handle (serverReg srvEx) (msg none "x/none") = .ok (none, none)
    ∧ handle (serverReg srvEx) { id := none, method := none } = .ok (none, none) := by decide

/-- a notification whose REGISTERED handler hands back something (an acknowledgement with an id
taken from the params, a legacy envelope without id) is still not answered; only the handler's
session id passes -/
example : handle (serverReg srvEx) (msg none "notifications/progress") = .ok (none, some "h")
    ∧ handle (serverReg srvEx) (msg none "x/legacy") = .ok (none, none)
    ∧ handle (serverReg srvEx) (msg (some (.int 3)) "x/legacy")
      = .ok (some (.result (.int 3) (.custom "r")), none) := by decide

/-- the hypothesis of `c08_one_response_per_request` is needed: a handler answering with a
foreign id is forwarded as it is -/
example : ¬ Faithful (fun _ => .ret (some (.result (.int 99) .empty)) none) := by
  intro h
  obtain ⟨resp, h1, h2⟩ := h { id := some (.int 1), method := some "m" } _ none (.int 1) rfl rfl
  cases h1
  simp [Resp.id] at h2

end Verif.Props.C08
