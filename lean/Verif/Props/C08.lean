import Verif.Lemmas.Dispatch
import Verif.Lemmas.McpServer

/-! # C08 — server dispatch: one response per request, none per notification, never a crash

Model: `Verif.Model.Dispatch.handle` (the REPAIRED `ProtocolHandler.handle_message`) over an
arbitrary method table, and `serverReg S`, the table of an `MCPServer` whose tools, resources and
custom methods have arbitrary behaviours (returns / raises / returns nonsense).  Building a
response or error envelope with a null id is `.error` in the model (the envelope classes reject
it), so "never raises" has content.  The pinned commit's dispatcher is `handleOld`; it violates
the property and `c08_pinned_code_raises` states that. -/
set_option linter.unusedSimpArgs false
namespace Verif.Props.C08
open Verif.Model.Dispatch

/-- Dispatch never raises: for EVERY method table and EVERY message (with or without id, with or
without method, any params, any handler behaviour) the dispatcher returns normally. -/
theorem c08_never_raises (reg : Registry) (m : Msg) : ∃ r, handle reg m = .ok r := by
  unfold handle
  cases hid : m.id with
  | none =>
    simp only [Option.isNone_none, if_true]
    split
    · exact ⟨_, rfl⟩
    · split
      · exact ⟨_, rfl⟩
      · split
        · exact ⟨_, rfl⟩
        · split <;> exact ⟨_, rfl⟩
  | some i =>
    simp only [Option.isNone_some, mkError, mkResult, Except.map]
    split
    · exact ⟨_, rfl⟩
    · split
      · exact ⟨_, rfl⟩
      · split
        · exact ⟨_, rfl⟩
        · split
          · exact ⟨_, rfl⟩
          · exact ⟨_, rfl⟩
          · exact ⟨_, rfl⟩

/-- No response per notification — registered or not, failing or not, with or without a method
name, whatever the handler hands back. -/
theorem c08_none_per_notification (reg : Registry) (m : Msg) (hid : m.id = none) :
    ∃ s, handle reg m = .ok (none, s) := by
  unfold handle
  simp only [hid, Option.isNone_none, if_true]
  split
  · exact ⟨_, rfl⟩
  · split
    · exact ⟨_, rfl⟩
    · split
      · exact ⟨_, rfl⟩
      · split <;> exact ⟨_, rfl⟩

/-- Exactly one response per request, carrying the request's id (JSON type included), for every
method table whose handlers, when they return a pair for a request, put a response for that
request into it (`Faithful`; see `c08_server_one_response` — the table of an `MCPServer` is such a
table).  Handlers that raise or return a non-pair are covered without any hypothesis on them. -/
theorem c08_one_response_per_request (reg : Registry) (m : Msg) (i : Id) (hid : m.id = some i)
    (hf : ∀ meth h, reg meth = some h → Faithful h) :
    ∃ resp s, handle reg m = .ok (some resp, s) ∧ resp.id = i := by
  unfold handle
  simp only [hid, Option.isNone_some, mkError, mkResult, Except.map, Bool.false_eq_true, if_false]
  split
  · exact ⟨_, _, rfl, rfl⟩
  · rename_i meth hm
    split
    · exact ⟨_, _, rfl, rfl⟩
    · split
      · exact ⟨_, _, rfl, rfl⟩
      · rename_i h hr
        split
        · rename_i r s hh
          obtain ⟨resp, hr', hi⟩ := hf meth h hr m r s i hh hid
          subst hr'
          exact ⟨resp, s, rfl, hi⟩
        · exact ⟨_, _, rfl, rfl⟩
        · exact ⟨_, _, rfl, rfl⟩

/-- The code table of the dispatcher, for every method table:
unregistered (non-empty) method ⇒ exactly `-32601`; the handler raises or returns a non-pair ⇒
exactly `-32603`; each with the request's id and no session id. -/
theorem c08_code_table (reg : Registry) (m : Msg) (i : Id) (meth : String)
    (hid : m.id = some i) (hm : m.method = some meth) (hne : meth ≠ "") :
    (reg meth = none → handle reg m = .ok (some (.error i (-32601)), none))
    ∧ (∀ h, reg meth = some h → (h m = .raise ∨ h m = .nonsense) →
        handle reg m = .ok (some (.error i (-32603)), none)) := by
  refine ⟨?_, ?_⟩
  · intro hr
    simp [handle, hid, hm, hne, hr, mkError, Except.map]
  · intro h hr hb
    rcases hb with hb | hb <;> simp [handle, hid, hm, hne, hr, hb, mkError, Except.map]

/-- On an `MCPServer` every request gets exactly one response with its id and every notification
none — whatever tools, resources and custom methods are registered and however they behave
(return, raise, return nonsense); the only proviso is that the addressed method is not a custom
one that deliberately returns `(None, None)` or a response of its own making (`CBeh.Proper`).  The server's own handlers, the repaired
`notifications/initialized` included, are proved faithful. -/
theorem c08_server_one_response (S : Server) (m : Msg) :
    (∀ i, m.id = some i → (∀ meth b, m.method = some meth → S.custom meth = some b → b.Proper) →
        ∃ resp s, handle (serverReg S) m = .ok (some resp, s) ∧ resp.id = i)
    ∧ (m.id = none → ∃ s, handle (serverReg S) m = .ok (none, s)) := by
  refine ⟨?_, fun hid => c08_none_per_notification (serverReg S) m hid⟩
  intro i hid hs
  cases hm : m.method with
  | none => exact ⟨.error i (-32600), none, by simp [handle, hid, hm, mkError, Except.map], rfl⟩
  | some meth =>
    -- only the addressed method's handler matters
    let reg' : Registry := fun k => if k = meth then serverReg S k else none
    have hsame : handle (serverReg S) m = handle reg' m := by
      simp [handle, hm, reg']
    rw [hsame]
    apply c08_one_response_per_request reg' m i hid
    intro k h hk
    by_cases hkm : k = meth
    · subst hkm
      simp only [reg', if_true] at hk
      exact serverReg_faithful S k h (hs k · hm) hk
    · simp [reg', hkm] at hk

/-- Tool and resource codes on an `MCPServer` (methods not overridden by a custom handler):
unknown tool / resource name ⇒ `-32602`; the tool / resource handler raises or returns nonsense,
or the arguments do not fit ⇒ `-32603`; otherwise the result. -/
theorem c08_tool_resource_codes (S : Server) (m : Msg) (i : Id) (hid : m.id = some i) :
    (m.method = some "tools/call" → S.custom "tools/call" = none →
      (∀ n, m.params.name = .str n → S.tools n = none →
        handle (serverReg S) m = .ok (some (.error i (-32602)), none))
      ∧ (∀ n b, m.params.name = .str n → S.tools n = some b → invoke b m.params.argsOk = none →
        handle (serverReg S) m = .ok (some (.error i (-32603)), none))
      ∧ (∀ n r, m.params.name = .str n → S.tools n = some (.returns r) → m.params.argsOk = true →
        handle (serverReg S) m = .ok (some (.result i (.toolContent r)), none)))
    ∧ (m.method = some "resources/read" → S.custom "resources/read" = none →
      (∀ u, m.params.uri = .str u → S.resources u = none →
        handle (serverReg S) m = .ok (some (.error i (-32602)), none))
      ∧ (∀ u b, m.params.uri = .str u → S.resources u = some b → invoke b true = none →
        handle (serverReg S) m = .ok (some (.error i (-32603)), none))
      ∧ (∀ u r, m.params.uri = .str u → S.resources u = some (.returns r) →
        handle (serverReg S) m = .ok (some (.result i (.resourceContent r)), none))) := by
  refine ⟨?_, ?_⟩
  · intro hm hc
    have hreg : serverReg S "tools/call" = some (hToolsCall S) := by
      simp [serverReg, serverRegWith, hc]
    refine ⟨?_, ?_, ?_⟩
    · intro n hn ht
      simp [handle, hid, hm, hreg, hToolsCall, hn, ht, respondErr, mkError]
    · intro n b hn ht hi
      simp [handle, hid, hm, hreg, hToolsCall, hn, ht, hi, respondErr, mkError]
    · intro n r hn ht ha
      simp [handle, hid, hm, hreg, hToolsCall, hn, ht, ha, invoke, respond, mkResult]
  · intro hm hc
    have hreg : serverReg S "resources/read" = some (hResourcesRead S) := by
      simp [serverReg, serverRegWith, hc]
    refine ⟨?_, ?_, ?_⟩
    · intro u hu hr
      simp [handle, hid, hm, hreg, hResourcesRead, hu, hr, respondErr, mkError]
    · intro u b hu hr hi
      simp [handle, hid, hm, hreg, hResourcesRead, hu, hr, hi, respondErr, mkError]
    · intro u r hu hr
      simp [handle, hid, hm, hreg, hResourcesRead, hu, hr, invoke, respond, mkResult]

/-- The defects of the pinned commit, as a theorem about its dispatcher and table: a
notification the server has no handler for (`notifications/cancelled` — every real client sends
it) makes `handle_message` raise, and so does an id-less `ping`; a handler's non-pair return value
is handed to the caller as it is; a request addressed to `notifications/initialized` gets no
response.  The repaired dispatcher answers / stays silent on the same four inputs. -/
theorem c08_pinned_code_violates :
    let S : Server := { tools := fun _ => none, resources := fun _ => none,
                        custom := fun n => if n = "x/none" then some .returnsNonsense else none,
                        nextSid := "s" }
    (handleOld (serverRegOld S) { id := none, method := some "notifications/cancelled" } = .error .nullId
      ∧ handleOld (serverRegOld S) { id := none, method := some "ping" } = .error .nullId
      ∧ handleOld (serverRegOld S) { id := some (.int 1), method := some "x/none" } = .error .notAPair
      ∧ handleOld (serverRegOld S) { id := some (.int 1), method := some "notifications/initialized" }
          = .ok (none, none))
    ∧ (handle (serverReg S) { id := none, method := some "notifications/cancelled" } = .ok (none, none)
      ∧ handle (serverReg S) { id := none, method := some "ping" } = .ok (none, none)
      ∧ handle (serverReg S) { id := some (.int 1), method := some "x/none" }
          = .ok (some (.error (.int 1) (-32603)), none)
      ∧ handle (serverReg S) { id := some (.int 1), method := some "notifications/initialized" }
          = .ok (some (.result (.int 1) .empty), none)) := by
  decide

/-! ## Non-vacuity: a concrete server, falsy ids, every branch of the code table -/

def srvEx : Server :=
  { tools := fun n => if n = "echo" then some (.returns "hi") else if n = "boom" then some .raises
      else if n = "sync" then some .returnsNonsense else none,
    resources := fun u => if u = "file:///a" then some (.returns "txt") else none,
    custom := fun n => if n = "x/none" then some .returnsNonsense else if n = "x/silent" then some .silent
      else if n = "notifications/progress" then some (.acks (.str "tok") (some "h"))
      else if n = "x/legacy" then some (.echoes "r") else none,
    nextSid := "sid-1" }

/-- a message with a method -/
def msg (id : Option Id) (meth : String) (p : Params := {}) : Msg := { id := id, method := some meth, params := p }

/-- ids `0` and `""` are request ids -/
example : handle (serverReg srvEx) (msg (some (.int 0)) "ping") = .ok (some (.result (.int 0) .empty), none)
    ∧ handle (serverReg srvEx) (msg (some (.str "")) "nosuch")
      = .ok (some (.error (.str "") (-32601)), none) := by decide

example :
    handle (serverReg srvEx) (msg (some (.int (-7))) "tools/call" { name := .str "nope" })
      = .ok (some (.error (.int (-7)) (-32602)), none)
    ∧ handle (serverReg srvEx) (msg (some (.int 1)) "tools/call" { name := .str "boom" })
      = .ok (some (.error (.int 1) (-32603)), none)
    ∧ handle (serverReg srvEx) (msg (some (.int 1)) "tools/call" { name := .unhashable })
      = .ok (some (.error (.int 1) (-32603)), none)
    ∧ handle (serverReg srvEx) (msg (some (.int 1)) "tools/call" { name := .str "echo", argsOk := false })
      = .ok (some (.error (.int 1) (-32603)), none)
    ∧ handle (serverReg srvEx) (msg (some (.int 1)) "tools/call" { name := .str "echo" })
      = .ok (some (.result (.int 1) (.toolContent "hi")), none)
    ∧ handle (serverReg srvEx) (msg (some (.int 1)) "x/none") = .ok (some (.error (.int 1) (-32603)), none)
    ∧ handle (serverReg srvEx) (msg (some (.int 1)) "x/silent") = .ok (none, none)
    ∧ handle (serverReg srvEx) (msg (some (.int 1)) "notifications/initialized")
      = .ok (some (.result (.int 1) .empty), none)
    ∧ handle (serverReg srvEx) (msg (some (.str "i")) "initialize")
      = .ok (some (.result (.str "i") .init), some "sid-1") := by
  refine ⟨?_, ?_, ?_, ?_, ?_, ?_, ?_, ?_, ?_⟩ <;> decide

/-- notifications: unregistered, failing, id-less requests-by-name — all silent -/
example : handle (serverReg srvEx) (msg none "notifications/cancelled") = .ok (none, none)
    ∧ handle (serverReg srvEx) (msg none "ping") = .ok (none, none)
    ∧ handle (serverReg srvEx) (msg none "tools/call" { name := .str "boom" }) = .ok (none, none)
    ∧ handle (serverReg srvEx) (msg none "x/none") = .ok (none, none)
    ∧ handle (serverReg srvEx) { id := none, method := none } = .ok (none, none) := by decide

/-- a notification whose REGISTERED handler hands back something (an acknowledgement with an id
taken from the params, a legacy envelope without id) is still not answered; only the handler's
session id passes -/
example : handle (serverReg srvEx) (msg none "notifications/progress") = .ok (none, some "h")
    ∧ handle (serverReg srvEx) (msg none "x/legacy") = .ok (none, none)
    ∧ handle (serverReg srvEx) (msg (some (.int 3)) "x/legacy")
      = .ok (some (.result (.int 3) (.custom "r")), none) := by decide

/-- the hypothesis of `c08_one_response_per_request` is needed: a handler answering with a
foreign id is forwarded as it is -/
example : ¬ Faithful (fun _ => .ret (some (.result (.int 99) .empty)) none) := by
  intro h
  obtain ⟨resp, h1, h2⟩ := h { id := some (.int 1), method := some "m" } _ none (.int 1) rfl rfl
  cases h1
  simp [Resp.id] at h2


/-! # Second layer: the CONTENT of the library's handlers (`Verif.Model.McpServer`)

Supplementary theorems about what `MCPServer`'s own handlers put into their results, which
application handler runs and with what, and that the dispatcher-level model above is an
abstraction of this one (`c08_content_refines_dispatch`). -/
section content
open Verif.Model.McpServer
open Verif.Model.Json (Json)

/-- `tools/list` is exactly the registered tools: after registering any list of (name, tool) pairs on
a server without tools, the listing holds one entry per distinct name, in order of FIRST registration,
each with the description and schema of the LATEST registration of that name (a dict:
re-registration replaces in place). -/
theorem c08_tools_list_exact (s : Srv) (hs : s.tools = []) (regs : List (String × Tool)) :
    toolsList (regs.foldl (fun acc p => registerTool acc p.1 p.2) s)
      = .obj [mem "tools" (.arr ((regs.foldl (fun acc p => registerTool acc p.1 p.2) s).tools.map toolEntry))]
    ∧ rkeys (regs.foldl (fun acc p => registerTool acc p.1 p.2) s).tools = firsts (regs.map Prod.fst)
    ∧ ∀ n, rget (regs.foldl (fun acc p => registerTool acc p.1 p.2) s).tools n
        = (regs.reverse.find? (fun p => p.1 = n)).map Prod.snd := by
  refine ⟨rfl, ?_, ?_⟩
  · rw [tools_foldl, rkeys_regAll, hs]; rfl
  · intro n
    rw [tools_foldl, rget_regAll, hs]
    cases List.find? (fun p => decide (p.1 = n)) regs.reverse <;> simp [rget]

/-- Registering the same name twice keeps the latest handler, at the first one's place, and touches
no other tool. -/
theorem c08_register_same_name_keeps_latest (s : Srv) (n : String) (t1 t2 : Tool) :
    rget (registerTool (registerTool s n t1) n t2).tools n = some t2
    ∧ rkeys (registerTool (registerTool s n t1) n t2).tools = rkeys (registerTool s n t1).tools
    ∧ (∀ m, m ≠ n → rget (registerTool (registerTool s n t1) n t2).tools m = rget s.tools m) := by
  refine ⟨by simp [registerTool, rget_rput], ?_, ?_⟩
  · have : n ∈ rkeys (rput s.tools n t1) := by
      rw [rkeys_rput]; split <;> simp_all
    simp [registerTool, rkeys_rput (rput s.tools n t1), this]
  · intro m hm
    have : ¬ n = m := fun e => hm e.symm
    simp [registerTool, rget_rput, this]

/-- `tools/call` on a registered name invokes exactly that tool's handler, once, with exactly the
given arguments (`{}` when absent) — and the response follows from what the handler did: result
`{"content": _format_content(value)}`, or -32603 when it raised or its value cannot be formatted.
When the arguments do not fit the signature, or are not a mapping, nothing runs and -32603 is answered. -/
theorem c08_tools_call_invokes_exactly (render : Json → Option String) (s : Srv) (n : String)
    (t : Tool) (a : ArgsV) (ht : rget s.tools n = some t) :
    (∀ kv o, a.kwargs = some kv → t.fn kv = .ran o →
        (toolsCall render s (.str n) a).2.log = s.log ++ [.tool n kv]
        ∧ (toolsCall render s (.str n) a).1
            = match o with
              | .raises => .error (-32603)
              | .returns v =>
                match fmt render v with
                | some c => .result (.obj [mem "content" (.arr c)])
                | none => .error (-32603))
    ∧ (∀ kv, a.kwargs = some kv → t.fn kv = .notBound →
        toolsCall render s (.str n) a = (.error (-32603), s))
    ∧ (a.kwargs = none → toolsCall render s (.str n) a = (.error (-32603), s)) := by
  refine ⟨?_, ?_, ?_⟩
  · intro kv o hk hf
    cases o with
    | raises => simp [toolsCall, ht, hk, hf]
    | returns v => cases hv : fmt render v <;> simp [toolsCall, ht, hk, hf, hv]
  · intro kv hk hf; simp [toolsCall, ht, hk, hf]
  · intro hk; simp [toolsCall, ht, hk]

/-- Unknown tool / resource (a string that names nothing, a missing or non-string name): -32602
and NO application handler runs, the server is unchanged; an unhashable name escapes to the
dispatcher (which answers -32603), again with nothing run. -/
theorem c08_unknown_name_runs_nothing (render : Json → Option String) (s : Srv) (a : ArgsV) :
    (∀ n, rget s.tools n = none → toolsCall render s (.str n) a = (.error (-32602), s))
    ∧ toolsCall render s .absent a = (.error (-32602), s)
    ∧ toolsCall render s .scalar a = (.error (-32602), s)
    ∧ toolsCall render s .unhashable a = (.raised, s)
    ∧ (∀ u, rget s.resources u = none → resourcesRead s (.str u) = (.error (-32602), s))
    ∧ resourcesRead s .absent = (.error (-32602), s)
    ∧ resourcesRead s .scalar = (.error (-32602), s)
    ∧ resourcesRead s .unhashable = (.raised, s) := by
  refine ⟨?_, rfl, rfl, rfl, ?_, rfl, rfl, rfl⟩
  · intro n hn; simp [toolsCall, hn]
  · intro u hu; simp [resourcesRead, hu]

/-- `resources/read` on a registered uri runs exactly that resource's handler once and answers
`{"contents": [{uri, mimeType, text}]}` with the text of what it returned, or -32603 when it failed. -/
theorem c08_resources_read_exact (s : Srv) (u : String) (r : Resource) (hr : rget s.resources u = some r) :
    (resourcesRead s (.str u)).2.log = s.log ++ [.resource u]
    ∧ (resourcesRead s (.str u)).1
        = match r.fn with
          | .fails => .error (-32603)
          | .text t => .result (.obj [mem "contents" (.arr [.obj [mem "uri" (js u),
              mem "mimeType" (js r.mimeType), mem "text" (js t)]])]) := by
  cases hf : r.fn <;> simp [resourcesRead, hr, hf]

/-- Every result the library's own handlers produce is a JSON OBJECT (so the response envelope around
it is a valid result response in the sense of C02). -/
theorem c08_results_are_objects (cfg : Cfg) (s : Srv) (r : Req) (i : Id) (v : Json) (s' : Srv)
    (h : serve cfg s r = (some (.result i v), s')) : ∃ kvs, v = .obj kvs := by
  unfold serve at h
  split at h
  · cases hid : r.id <;> simp [hid] at h
  · split at h
    · cases hid : r.id <;> simp [hid] at h
      exact ⟨[], h.1.2.symm⟩
    · split at h
      · cases hid : r.id <;> simp [hid] at h
      · rename_i hres s2 hb
        cases hid : r.id with
        | none => simp [hid] at h
        | some j =>
          simp only [hid, Option.map_some, Prod.mk.injEq, Option.some.injEq] at h
          obtain ⟨h1, _⟩ := h
          cases hres with
          | error c => simp at h1
          | raised => simp at h1
          | result w =>
            simp only [CResp.result.injEq] at h1
            obtain ⟨_, hw⟩ := h1
            subst hw
            unfold builtin at hb
            split at hb
            · cases hb; exact ⟨_, rfl⟩
            · split at hb
              · cases hb; exact ⟨_, rfl⟩
              · split at hb
                · cases hb; exact ⟨_, rfl⟩
                · split at hb
                  · simp only [Option.some.injEq] at hb
                    unfold toolsCall at hb
                    repeat' split at hb
                    all_goals first | (cases hb; done) | (cases hb; exact ⟨_, rfl⟩)
                  · split at hb
                    · cases hb; exact ⟨_, rfl⟩
                    · split at hb
                      · simp only [Option.some.injEq] at hb
                        unfold resourcesRead at hb
                        repeat' split at hb
                        all_goals first | (cases hb; done) | (cases hb; exact ⟨_, rfl⟩)
                      · cases hb

/-- Whatever an application tool returns, every content block of the result is `{"type": "text",
"text": …}`. -/
theorem c08_content_blocks_are_text (render : Json → Option String) (v : PyVal) (c : List Json)
    (h : fmt render v = some c) : ∀ b ∈ c, ∃ t, b = textBlock t :=
  fmt_blocks render v c h

/-- `_format_content`: a string or any other scalar is one text block; a dict is one block holding its
rendering; a list is the concatenation of its members' blocks — nested lists are flattened. -/
theorem c08_format_content (render : Json → Option String) :
    (∀ s, fmt render (.str s) = some [textBlock s])
    ∧ (∀ t, fmt render (.other t) = some [textBlock t])
    ∧ (∀ j, fmt render (.dict j) = (render j).map (fun t => [textBlock t]))
    ∧ fmt render (.list []) = some []
    ∧ (∀ xs ys, fmt render (.list (xs ++ ys))
        = match fmt render (.list xs), fmt render (.list ys) with
          | some a, some b => some (a ++ b)
          | _, _ => none)
    ∧ (∀ xs ys, fmt render (.list (.list xs :: ys)) = fmt render (.list (xs ++ ys))) := by
  refine ⟨fun _ => rfl, fun _ => rfl, fun _ => rfl, rfl, ?_, ?_⟩
  · intro xs ys; simp only [fmt]; exact fmtList_append render xs ys
  · intro xs ys
    simp only [fmt, fmt.fmtList, fmtList_append]
    cases fmt.fmtList render xs <;> cases fmt.fmtList render ys <;> rfl

/-- Serving messages (initialize included) never changes the registries, so a `register_*` made after
any amount of traffic is reflected by the next listing exactly as if it had been made before. -/
theorem c08_registration_visible_after_serving (cfg : Cfg) (s : Srv) (rs : List Req) (n : String) (t : Tool) :
    (serveAll cfg s rs).2.tools = s.tools ∧ (serveAll cfg s rs).2.resources = s.resources
    ∧ rget (registerTool (serveAll cfg s rs).2 n t).tools n = some t
    ∧ toolsList (registerTool (serveAll cfg s rs).2 n t)
        = .obj [mem "tools" (.arr ((rput s.tools n t).map toolEntry))] := by
  obtain ⟨a, b, _, _⟩ := serveAll_frame cfg s rs
  refine ⟨a, b, by simp [registerTool, rget_rput], ?_⟩
  simp [toolsList, registerTool, a]

/-- The initialize result is `{protocolVersion: answered, serverInfo, capabilities}` where the
capabilities are those given at CONSTRUCTION: what the code does — they are not derived from what is
registered, registering tools changes nothing in them. -/
theorem c08_initialize_result (cfg : Cfg) (s : Srv) (i : Id) (rq : Option Json)
    (regs : List (String × Tool)) :
    (serve cfg s { id := some i, method := "initialize", requested := rq }).1
        = some (.result i (.obj [mem "protocolVersion" (cfg.answer rq), mem "serverInfo" s.info,
                                 mem "capabilities" s.caps]))
    ∧ (serve cfg (regs.foldl (fun acc p => registerTool acc p.1 p.2) s)
          { id := some i, method := "initialize", requested := rq }).1
        = (serve cfg s { id := some i, method := "initialize", requested := rq }).1 := by
  obtain ⟨hc, hi, _⟩ := foldl_registerTool_frame s regs
  constructor
  · simp [serve, builtin]
  · simp [serve, builtin, hc, hi]

private theorem toolsCall_shape (cfg : Cfg) (s : Srv) (n : String) (t : Tool) (a : ArgsV) (ht : rget s.tools n = some t) :
    (toolSucceeds cfg t a = true → ∃ v, (toolsCall cfg.render s (.str n) a).1 = .result v)
    ∧ (toolSucceeds cfg t a = false → (toolsCall cfg.render s (.str n) a).1 = .error (-32603)) := by
  unfold toolSucceeds toolsCall
  simp only [ht]
  cases hk : a.kwargs with
  | none => simp
  | some kv =>
    cases hf : t.fn kv with
    | notBound => simp [hf]
    | ran o =>
      cases o with
      | raises => simp [hf]
      | returns v => cases hv : fmt cfg.render v <;> simp [hf, hv]

/-- The dispatcher-level model is an abstraction of the content-level one: for every server, every
request or notification, the response's presence, id and error code computed from the content (which
handler ran, what it returned, how it was formatted) are those `Dispatch.handle` computes on the
abstracted server (`absServer`: a tool "returns" iff the call ends in a result). -/
theorem c08_content_refines_dispatch (cfg : Cfg) (s : Srv) (r : Req) :
    (serve cfg s r).1.map CResp.shape
      = match handle (serverReg (absServer cfg s r.args)) (absMsg r) with
        | .ok (resp, _) => resp.map dShape
        | .error _ => none := by
  unfold serve
  by_cases h0 : r.method = ""
  · cases hid : r.id <;>
      simp [h0, hid, handle, absMsg, mkError, Except.map, CResp.shape, dShape]
  by_cases h1 : r.method = "notifications/initialized"
  · cases hid : r.id <;>
      simp [h1, hid, handle, absMsg, serverReg, serverRegWith, absServer, hInitialized, respond,
        mkResult, mkError, Except.map, CResp.shape, dShape]
  by_cases h2 : r.method = "ping"
  · cases hid : r.id <;>
      simp [h2, hid, handle, absMsg, serverReg, serverRegWith, absServer, hPing, respond, builtin,
        mkResult, mkError, Except.map, CResp.shape, dShape]
  by_cases h3 : r.method = "initialize"
  · cases hid : r.id <;>
      simp [h3, hid, handle, absMsg, serverReg, serverRegWith, absServer, hInitialize, respond, builtin,
        mkResult, mkError, Except.map, CResp.shape, dShape]
  by_cases h4 : r.method = "tools/list"
  · cases hid : r.id <;>
      simp [h4, hid, handle, absMsg, serverReg, serverRegWith, absServer, hToolsList, respond, builtin,
        mkResult, mkError, Except.map, CResp.shape, dShape]
  by_cases h5 : r.method = "resources/list"
  · cases hid : r.id <;>
      simp [h5, hid, handle, absMsg, serverReg, serverRegWith, absServer, hResourcesList, respond, builtin,
        mkResult, mkError, Except.map, CResp.shape, dShape]
  by_cases h6 : r.method = "tools/call"
  · have hreg : serverReg (absServer cfg s r.args) "tools/call" = some (hToolsCall (absServer cfg s r.args)) := by
      simp [serverReg, serverRegWith, absServer]
    cases hn : r.name with
    | absent | scalar | unhashable =>
      cases hid : r.id <;>
        simp [h6, hid, hn, handle, absMsg, hreg, hToolsCall, builtin, toolsCall, respondErr, respond, mkError,
          mkResult, Except.map, CResp.shape, dShape]
    | str n =>
      cases ht : rget s.tools n with
      | none =>
        have hT : (absServer cfg s r.args).tools n = none := by simp [absServer, ht]
        cases hid : r.id <;>
          simp [h6, hid, hn, ht, hT, handle, absMsg, hreg, hToolsCall, builtin, toolsCall, respondErr, respond, mkError,
            mkResult, Except.map, CResp.shape, dShape]
      | some t =>
        obtain ⟨hs1, hs2⟩ := toolsCall_shape cfg s n t r.args ht
        cases hsucc : toolSucceeds cfg t r.args with
        | true =>
          obtain ⟨v, hv⟩ := hs1 hsucc
          have hT : (absServer cfg s r.args).tools n = some (.returns "r") := by simp [absServer, ht, hsucc]
          cases hid : r.id <;>
            simp [h6, hid, hn, ht, hv, hT, handle, absMsg, hreg, hToolsCall, builtin, respondErr, respond, mkError,
              mkResult, Except.map, CResp.shape, dShape, invoke]
        | false =>
          have hv := hs2 hsucc
          have hT : (absServer cfg s r.args).tools n = some .raises := by simp [absServer, ht, hsucc]
          cases hid : r.id <;>
            simp [h6, hid, hn, ht, hv, hT, handle, absMsg, hreg, hToolsCall, builtin, respondErr, respond, mkError,
              mkResult, Except.map, CResp.shape, dShape, invoke]
  by_cases h7 : r.method = "resources/read"
  · have hreg : serverReg (absServer cfg s r.args) "resources/read" = some (hResourcesRead (absServer cfg s r.args)) := by
      simp [serverReg, serverRegWith, absServer]
    cases hn : r.uri with
    | absent | scalar | unhashable =>
      cases hid : r.id <;>
        simp [h7, hid, hn, handle, absMsg, hreg, hResourcesRead, builtin, resourcesRead, respondErr, respond, mkError,
          mkResult, Except.map, CResp.shape, dShape]
    | str u =>
      cases ht : rget s.resources u with
      | none =>
        have hT : (absServer cfg s r.args).resources u = none := by simp [absServer, ht]
        cases hid : r.id <;>
          simp [h7, hid, hn, ht, hT, handle, absMsg, hreg, hResourcesRead, builtin, resourcesRead, respondErr, respond, mkError,
            mkResult, Except.map, CResp.shape, dShape]
      | some x =>
        cases hf : x.fn with
        | text tx =>
          have hT : (absServer cfg s r.args).resources u = some (.returns "r") := by simp [absServer, ht, hf]
          cases hid : r.id <;>
            simp [h7, hid, hn, ht, hf, hT, handle, absMsg, hreg, hResourcesRead, builtin, resourcesRead, respondErr, respond,
              mkError, mkResult, Except.map, CResp.shape, dShape, invoke]
        | fails =>
          have hT : (absServer cfg s r.args).resources u = some .raises := by simp [absServer, ht, hf]
          cases hid : r.id <;>
            simp [h7, hid, hn, ht, hf, hT, handle, absMsg, hreg, hResourcesRead, builtin, resourcesRead, respondErr, respond,
              mkError, mkResult, Except.map, CResp.shape, dShape, invoke]
  · cases hid : r.id <;>
      simp [h0, h1, h2, h3, h4, h5, h6, h7, hid, handle, absMsg, serverReg, serverRegWith, absServer, builtin,
        mkResult, mkError, Except.map, CResp.shape, dShape]

/-! ## Non-vacuity of the content layer -/

def toolEx (out : Outcome) (params : Option (List String)) : Tool :=
  { fn := fun kv => match params with
      | none => .ran out
      | some ps => if kv.all (fun p => ps.contains p.1) then .ran out else .notBound,
    schema := .obj [], description := "d" }

def srv0 : Srv := { info := .obj [mem "name" (js "s")], caps := .obj [], tools := [], resources := [], log := [] }

def cfgC : Cfg := { render := fun _ => some "<json>", answer := fun r => r.getD (js "2025-03-26") }

def srvEx2 : Srv :=
  registerResource
    (registerTool (registerTool (registerTool srv0 "a" (toolEx (.returns (.str "1")) none))
      "b" (toolEx .raises none))
      "a" (toolEx (.returns (.list [.str "x", .list [.dict (.obj []), .other "5"]])) (some ["text"])))
    "file:///d/e.txt" { fn := .text "E", name := "", description := "", mimeType := "text/plain" }

example : rkeys srvEx2.tools = ["a", "b"] ∧ rkeys srvEx2.tools = firsts ["a", "b", "a"] := by decide

example : (srvEx2.resources.map (fun p => p.2.name)) = ["e.txt"] := by decide

/-- the named handler runs once with the given arguments; arguments that do not fit run nothing -/
example :
    (toolsCall cfgC.render srvEx2 (.str "a") (.obj [("text", js "t")])).2.log.length = 1
    ∧ (toolsCall cfgC.render srvEx2 (.str "a") (.obj [("nope", js "t")])).2.log.length = 0
    ∧ (toolsCall cfgC.render srvEx2 (.str "zzz") .absent).2.log.length = 0
    ∧ (toolsCall cfgC.render srvEx2 (.str "b") .absent).2.log.length = 1 := by decide

example : (fmt cfgC.render (.list [.str "x", .list [.dict (.obj []), .other "5"]])).map List.length = some 3 := by
  decide

/-- No response depends on what was served before: after ANY traffic (requests, notifications,
failures, equal ids — in whatever order other dispatches were interleaved), a message gets exactly
the response it gets from the freshly built server.  Dispatch keeps no per-request state; the
only thing handling leaves behind is the log of application handlers that ran. -/
theorem c08_response_independent_of_history (cfg : Cfg) (s : Srv) (pre : List Req) (r : Req) :
    (serve cfg (serveAll cfg s pre).2 r).1 = (serve cfg s r).1 := by
  obtain ⟨a, b, c, d⟩ := serveAll_frame cfg s pre
  exact serve_fst_congr cfg _ _ r a b c d

/-- Two servers alive in one process are independent: however their traffic is interleaved, each
one's responses and final state are those of that server serving its own messages alone. -/
theorem c08_servers_independent (cfg : Cfg) (p : Srv × Srv) (xs : List (Bool × Req)) :
    ((servePairAll cfg p xs).1.filter (·.1)).map (·.2)
        = (serveAll cfg p.1 ((xs.filter (·.1)).map (·.2))).1
    ∧ ((servePairAll cfg p xs).1.filter (fun y => !y.1)).map (·.2)
        = (serveAll cfg p.2 ((xs.filter (fun y => !y.1)).map (·.2))).1
    ∧ (servePairAll cfg p xs).2.1 = (serveAll cfg p.1 ((xs.filter (·.1)).map (·.2))).2
    ∧ (servePairAll cfg p xs).2.2 = (serveAll cfg p.2 ((xs.filter (fun y => !y.1)).map (·.2))).2 :=
  servePairAll_proj cfg p xs

/-- equal ids, one after the other and on two servers: same answers as alone -/
example :
    (serve cfgC (serveAll cfgC srvEx2 [{ id := some (.int 1), method := "tools/call", name := .str "b" },
        { id := some (.int 1), method := "nosuch" }]).2 { id := some (.int 1), method := "ping" }).1
      = (serve cfgC srvEx2 { id := some (.int 1), method := "ping" }).1 :=
  c08_response_independent_of_history cfgC srvEx2 _ _

end content

end Verif.Props.C08
