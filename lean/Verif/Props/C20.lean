import Verif.Model.Config
import Verif.Lemmas.Config

/-! # C20 — every host entry point launches exactly the server the configuration names

Model: `Verif/Model/Config.lean` (`load`, `launchSpec`, `entry`).  The theorems are shallow by
nature (the code is glue between the loader, the transport constructor and the handshake); the
weight of this property is in the correspondence run, which launches a *witness child* through
each real entry point and compares what the child saw (argv, environment, `initialize`) with
`entry`.  What the theorems add: for EVERY configuration document — any number of servers, any
argument strings, any environment mapping, any `timeout` value, any extra members anywhere —
the three entry points agree on one launch, which is the configured one.

PARTIAL BY NATURE (decided by the correspondence run only): that `anyio.open_process` hands
`argv`/`env` to the kernel unchanged (no shell, no re-quoting), that the JSON decoder yields the
document written in the file, and that the handshake traffic reaches the child.
-/
namespace Verif.Props.C20
open Verif.Model.Config Verif.Lemmas.Config

/-- what a configuration document says about one server -/
structure Spec where
  command : String
  args : List String
  /-- `none`: no `env` member -/
  env : Option Env

/-- `cfg` is a valid configuration document in which server `n` is configured as `s`:
`{"mcpServers": {n: {"command": <non-empty string>, "args"?: [strings], "env"?: {name: string} | null, …}, …}, …}`.
Nothing is required of `timeout`, of other members of the server object, of other servers or of
other top-level members. -/
def ValidFor (cfg : J) (n : String) (s : Spec) : Prop :=
  ∃ top servers sc,
    cfg = .obj top ∧ jget top "mcpServers" = some (.obj servers) ∧ jget servers n = some (.obj sc)
    ∧ jget sc "command" = some (.str s.command) ∧ s.command ≠ ""
    ∧ ((jget sc "args" = none ∧ s.args = []) ∨ jget sc "args" = some (argsJ s.args))
    ∧ (((jget sc "env" = none ∨ jget sc "env" = some .null) ∧ s.env = none)
        ∨ ∃ e, jget sc "env" = some (envJ e) ∧ s.env = some e)

/-- the launch the configuration asks for: `command :: args`, the configured environment when it
is a non-empty mapping and the library default environment otherwise, followed by `initialize` -/
def configured (dflt : Env) (s : Spec) : Launch :=
  { argv := s.command :: s.args, env := envOrDefault dflt s.env, handshake := true }

/-- The loader returns exactly the configured parameters (and the configured timeout value). -/
theorem c20_load_configured (cfg : J) (n : String) (s : Spec) (h : ValidFor cfg n s) :
    ∃ t, load (.json cfg) n = .ok ({ command := s.command, args := s.args, env := s.env }, t) := by
  obtain ⟨top, servers, sc, rfl, h1, h2, h3, _, h5, h6⟩ := h
  have hne : sc ≠ [] := get_some_ne_nil h3
  have hf : falsy (.obj sc) = false := by
    cases sc with
    | nil => exact absurd rfl hne
    | cons _ _ => rfl
  refine ⟨timeoutOf (jget sc "timeout"), ?_⟩
  have hargs : strList ((jget sc "args").getD (.arr [])) = some s.args := by
    rcases h5 with ⟨ha, hs⟩ | ha
    · simp [ha, hs, strList, strs]
    · simp [ha, strList_argsJ]
  have henv : optEnv ((jget sc "env").getD .null) = some s.env := by
    rcases h6 with ⟨he | he, hn⟩ | ⟨e, he, hn⟩
    · simp [he, hn, optEnv]
    · simp [he, hn, optEnv]
    · simp [he, hn, optEnv_envJ]
  simp [load, serverConfig, params, h1, h2, h3, hf, asStr, hargs, henv]

/-- **Launch exactness.**  For every valid configuration document and every server it names,
each of the three entry points performs exactly one launch: `command :: args` with the configured
environment (library default when `env` is absent or an empty mapping), sends `initialize`, and
raises nothing. -/
theorem c20_launch_exact (e : EntryPoint) (dflt : Env) (cfg : J) (n : String) (s : Spec)
    (h : ValidFor cfg n s) :
    entry e dflt (.json cfg) [n] = { launches := [configured dflt s], raised := none } := by
  obtain ⟨t, hl⟩ := c20_load_configured cfg n s h
  obtain ⟨_, _, _, _, _, _, _, hc, _⟩ := h
  have h1 : one dflt (.json cfg) n = .ok (configured dflt s) := by
    simp [one, hl, connect, hc, launchSpec, configured]
  cases e <;> simp [entry, h1, toOpt]

/-- The multi-server runner launches exactly the named servers, one launch each, in the order
named — nothing for servers of the document that were not named. -/
theorem c20_runner_launch_exact (dflt : Env) (cfg : J) (names : List String) (spec : String → Spec)
    (h : ∀ n ∈ names, ValidFor cfg n (spec n)) :
    entry .runner dflt (.json cfg) names
      = { launches := names.map (fun n => configured dflt (spec n)), raised := none } := by
  have h1 : ∀ n ∈ names, toOpt (one dflt (.json cfg) n) = some (configured dflt (spec n)) := by
    intro n hn
    have := c20_launch_exact .loader dflt cfg n (spec n) (h n hn)
    simp only [entry] at this
    split at this <;> simp_all [toOpt]
  simp only [entry]
  congr 1
  induction names with
  | nil => rfl
  | cons x xs ih =>
    have hx := h1 x (by simp)
    simp only [List.filterMap_cons, hx, List.map_cons]
    rw [ih (fun n hn => h n (by simp [hn])) (fun n hn => h1 n (by simp [hn]))]

/-- One launch per requested name, each with ITS OWN configured data: the runner never merges two
requested servers, however much of their launch data (command, args, environment) they share —
the `i`-th launch is the configuration of the `i`-th name. -/
theorem c20_runner_one_launch_per_name (dflt : Env) (cfg : J) (names : List String) (spec : String → Spec)
    (h : ∀ n ∈ names, ValidFor cfg n (spec n)) :
    (entry .runner dflt (.json cfg) names).launches.length = names.length
    ∧ ∀ i (hi : i < names.length),
        (entry .runner dflt (.json cfg) names).launches[i]? = some (configured dflt (spec names[i])) := by
  rw [c20_runner_launch_exact dflt cfg names spec h]
  refine ⟨by simp, ?_⟩
  intro i hi
  simp [List.getElem?_map, List.getElem?_eq_getElem hi]

/-- **Loadable and failing names mixed, in any order.**  When some of the requested names cannot be loaded
(`good n = false`: the loader raises for them) the runner launches exactly the loadable ones — each once, in
the order named, with its own configuration — and nothing for a failing name, wherever it stands in the list
and however often it is repeated. -/
theorem c20_runner_mixed_names (dflt : Env) (cfg : J) (names : List String) (spec : String → Spec)
    (good : String → Bool)
    (hg : ∀ n ∈ names, good n = true → ValidFor cfg n (spec n))
    (hb : ∀ n ∈ names, good n = false → ∃ err, load (.json cfg) n = .error err) :
    (entry .runner dflt (.json cfg) names).launches
      = (names.filter good).map (fun n => configured dflt (spec n)) := by
  simp only [entry]
  induction names with
  | nil => rfl
  | cons x xs ih =>
    have ihx := ih (fun n hn => hg n (by simp [hn])) (fun n hn => hb n (by simp [hn]))
    cases hx : good x with
    | true =>
      have hv := hg x (by simp) hx
      have h1 : toOpt (one dflt (.json cfg) x) = some (configured dflt (spec x)) := by
        have := c20_launch_exact .loader dflt cfg x (spec x) hv
        simp only [entry] at this
        split at this <;> simp_all [toOpt]
      simp only [List.filterMap_cons, h1, List.filter_cons, hx, if_true, List.map_cons, ihx]
    | false =>
      obtain ⟨err, he⟩ := hb x (by simp) hx
      have h1 : toOpt (one dflt (.json cfg) x) = none := by simp [one, he, toOpt]
      simp only [List.filterMap_cons, h1, List.filter_cons, hx, ihx]
      simp

/-- **The set-up of the host process does not matter**: DEBUG logging (with credential-masking or any other
record formatting), a stdout that cannot encode the command line, a closed stdout — the launch is the same, and for
a valid configuration it is the configured one with the configured environment VALUES. -/
theorem c20_host_process_irrelevant (h h' : HostProc) (e : EntryPoint) (dflt : Env) (f : File) (names : List String) :
    entryIn h e dflt f names = entryIn h' e dflt f names := rfl

example (h : HostProc) : entryIn h .runner [] (.json sampleCfg) ["web"] = entry .runner [] (.json sampleCfg) ["web"] := rfl

/-- the document does not mention server `n`: no `mcpServers` member, or no member `n` in it -/
def Unknown (top : List (String × J)) (n : String) : Prop :=
  jget top "mcpServers" = none ∨ ∃ servers, jget top "mcpServers" = some (.obj servers) ∧ jget servers n = none

/-- **Configuration errors are classified**: a missing file is `FileNotFoundError`, a file that is
not JSON is `json.JSONDecodeError`, a server name the document does not contain is `ValueError`. -/
theorem c20_errors_classified (n : String) :
    load .missing n = .error .fileNotFound
    ∧ load .invalid n = .error .jsonDecode
    ∧ ∀ top, Unknown top n → load (.json (.obj top)) n = .error .valueError := by
  refine ⟨rfl, rfl, ?_⟩
  intro top h
  rcases h with h | ⟨servers, h1, h2⟩
  · simp [load, serverConfig, h, jget]
  · simp [load, serverConfig, h1, h2]

/-- ... and they surface as such: the loader raises the class to its caller, and no entry point
launches anything for a configuration error. -/
theorem c20_errors_surface (e : EntryPoint) (dflt : Env) (f : File) (n : String) (err : Err)
    (h : load f n = .error err) :
    (entry e dflt f [n]).launches = []
    ∧ (entry .loader dflt f [n]).raised = some err := by
  have h1 : one dflt f n = .error err := by simp [one, h]
  cases e <;> simp [entry, h1, toOpt]

/-- Members other than `command`, `args`, `env` (a `timeout`, a description, …) never change
what is launched. -/
theorem c20_extra_members_ignored (e : EntryPoint) (dflt : Env) (cfg cfg' : J) (n : String) (s : Spec)
    (h : ValidFor cfg n s) (h' : ValidFor cfg' n s) :
    (entry e dflt (.json cfg) [n]).launches = (entry e dflt (.json cfg') [n]).launches := by
  rw [c20_launch_exact e dflt cfg n s h, c20_launch_exact e dflt cfg' n s h']

/-! ## Which file is executed -/

/-- **The executed file is the configured command, resolved in the CHILD's environment.**  For a
valid configuration whose command resolves to `exe` on the `PATH` of the environment the child
gets (configured env, or library default when none is configured), every entry point executes
exactly `exe` with the configured args and environment. -/
theorem c20_executable_exact (files : List String) (e : EntryPoint) (dflt : Env) (cfg : J) (n : String)
    (s : Spec) (exe : String) (h : ValidFor cfg n s)
    (hr : resolve files (envOrDefault dflt s.env) s.command = some exe) :
    entryOn files e dflt (.json cfg) [n]
      = { launches := [{ argv := exe :: s.args, env := envOrDefault dflt s.env, handshake := true }],
          raised := none } := by
  simp [entryOn, c20_launch_exact e dflt cfg n s h, configured, resolveLaunch, hr]

/-- A command given as a path is executed verbatim. -/
theorem c20_path_command_verbatim (files : List String) (env : Env) (cmd : String)
    (h : isPath cmd = true) (hx : files.contains cmd = true) : resolve files env cmd = some cmd := by
  simp only [resolve, h, hx, if_true]

/-- ... and a path that does not exist (or cannot be executed) is not launched, whatever the environment. -/
theorem c20_missing_path_not_launched (files : List String) (env : Env) (cmd : String)
    (h : isPath cmd = true) (hx : files.contains cmd = false) : resolve files env cmd = none := by
  simp only [resolve, h, hx, if_true]
  rfl

/-- **One server that cannot be spawned does not disturb the others.**  In a list of requested servers every one
whose command resolves is launched — each once, in order — wherever the unspawnable ones stand. -/
theorem c20_runner_survives_unspawnable (files : List String) (dflt : Env) (f : File) (names : List String) :
    (entryOn files .runner dflt f names).launches
      = (names.filterMap (fun n => toOpt (one dflt f n))).filterMap (resolveLaunch files)
    ∧ (entryOn files .runner dflt f names).raised = none := by
  simp [entryOn, entry]

/-- With a configured (non-empty) environment the executed file does not depend on the host
process at all: whatever the host's own environment (`dflt₁`, `dflt₂`), the same file runs. -/
theorem c20_executable_independent_of_host (files : List String) (dflt₁ dflt₂ : Env) (kv : String × String)
    (rest : Env) (cmd : String) :
    resolve files (envOrDefault dflt₁ (some (kv :: rest))) cmd
      = resolve files (envOrDefault dflt₂ (some (kv :: rest))) cmd := by
  simp [envOrDefault]

/-- A command that does not exist in the child's environment is not launched by any entry point
(even if a file of that name exists somewhere else, e.g. on the host's PATH). -/
theorem c20_unresolvable_not_launched (files : List String) (e : EntryPoint) (dflt : Env) (cfg : J)
    (n : String) (s : Spec) (h : ValidFor cfg n s)
    (hr : resolve files (envOrDefault dflt s.env) s.command = none) :
    (entryOn files e dflt (.json cfg) [n]).launches = [] := by
  simp [entryOn, c20_launch_exact e dflt cfg n s h, configured, resolveLaunch, hr]

/-- a bare name present in two directories: the configured PATH decides, not the host's -/
example : resolve ["/host/bin/srv", "/tenant/bin/srv"] [("PATH", "/tenant/bin:/usr/bin")] "srv"
    = some "/tenant/bin/srv" := by decide
example : resolve ["/host/bin/srv", "/tenant/bin/srv"] [("PATH", "/host/bin:/usr/bin"), ("HOME", "/root")] "srv"
    = some "/host/bin/srv" := by decide
example : resolve ["/host/bin/srv"] [("FOO", "1")] "srv" = none := by decide


/-! ## Non-vacuity: a two-server document with spaces, quotes, an empty argument, an empty `env`,
a string timeout and extra members -/
def dbCfg : List (String × J) :=
  [("command", .str "/opt/w/witness"), ("args", argsJ ["a b", "", "'q'"]),
   ("env", envJ [("FOO", "1 2")]), ("timeout", .str "2.5"), ("note", .null)]
def webCfg : List (String × J) := [("command", .str "srv"), ("env", envJ [])]
def sampleServers : List (String × J) := [("db", .obj dbCfg), ("web", .obj webCfg)]
def sampleTop : List (String × J) := [("version", .num 1 0), ("mcpServers", .obj sampleServers)]
def sampleCfg : J := .obj sampleTop

theorem sample_valid_db : ValidFor sampleCfg "db" ⟨"/opt/w/witness", ["a b", "", "'q'"], some [("FOO", "1 2")]⟩ :=
  ⟨sampleTop, sampleServers, dbCfg, rfl, by simp [jget, sampleTop], by simp [jget, sampleServers],
    by simp [jget, dbCfg], by decide,
    Or.inr (by simp [jget, dbCfg]), Or.inr ⟨[("FOO", "1 2")], by simp [jget, dbCfg], rfl⟩⟩

theorem sample_valid_web : ValidFor sampleCfg "web" ⟨"srv", [], some []⟩ :=
  ⟨sampleTop, sampleServers, webCfg, rfl, by simp [jget, sampleTop], by simp [jget, sampleServers],
    by simp [jget, webCfg], by decide,
    Or.inl ⟨by simp [jget, webCfg], rfl⟩, Or.inr ⟨[], by simp [jget, webCfg], rfl⟩⟩

example : entry .runner [("PATH", "/bin")] (.json sampleCfg) ["web", "db"]
    = { launches := [⟨["srv"], [("PATH", "/bin")], true⟩,
                     ⟨["/opt/w/witness", "a b", "", "'q'"], [("FOO", "1 2")], true⟩], raised := none } := by
  have := c20_runner_launch_exact [("PATH", "/bin")] sampleCfg ["web", "db"]
    (fun n => if n = "web" then ⟨"srv", [], some []⟩ else ⟨"/opt/w/witness", ["a b", "", "'q'"], some [("FOO", "1 2")]⟩)
    (by
      intro n hn
      simp at hn
      rcases hn with rfl | rfl
      · simpa using sample_valid_web
      · simpa using sample_valid_db)
  simpa [configured, envOrDefault] using this

/-- two tenants of one launcher (same command, same args, different environment) and an identical
twin: three requested names, three launches, each with its own environment -/
def tenant (tok : String) : J :=
  .obj [("command", .str "launcher"), ("args", argsJ ["--serve"]), ("env", envJ [("TOKEN", tok)])]
def tenants : List (String × J) := [("a", tenant "1"), ("b", tenant "2"), ("c", tenant "1")]
def tenantsCfg : J := .obj [("mcpServers", .obj tenants)]

theorem tenant_valid (n tok : String) (hn : jget tenants n = some (tenant tok)) :
    ValidFor tenantsCfg n ⟨"launcher", ["--serve"], some [("TOKEN", tok)]⟩ :=
  ⟨[("mcpServers", .obj tenants)], tenants, _, rfl, by simp [jget], hn, by simp [jget], (by simp : "launcher" ≠ ""),
    Or.inr (by simp [jget]), Or.inr ⟨[("TOKEN", tok)], by simp [jget], rfl⟩⟩

example : (entry .runner [] (.json tenantsCfg) ["a", "b", "c"]).launches
    = [⟨["launcher", "--serve"], [("TOKEN", "1")], true⟩, ⟨["launcher", "--serve"], [("TOKEN", "2")], true⟩,
       ⟨["launcher", "--serve"], [("TOKEN", "1")], true⟩] := by
  have := c20_runner_launch_exact [] tenantsCfg ["a", "b", "c"]
    (fun n => ⟨"launcher", ["--serve"], some [("TOKEN", if n = "b" then "2" else "1")]⟩)
    (by
      intro n hn
      simp at hn
      rcases hn with rfl | rfl | rfl
      · exact tenant_valid "a" "1" (by simp [jget, tenants])
      · exact tenant_valid "b" "2" (by simp [jget, tenants])
      · exact tenant_valid "c" "1" (by simp [jget, tenants]))
  simpa [configured, envOrDefault] using congrArg Result.launches this

example : entry .cliTest [] (.json sampleCfg) ["db"]
    = { launches := [⟨["/opt/w/witness", "a b", "", "'q'"], [("FOO", "1 2")], true⟩], raised := none } := by
  simpa [configured, envOrDefault] using c20_launch_exact .cliTest [] sampleCfg "db" _ sample_valid_db

example : load (.json sampleCfg) "nope" = .error .valueError :=
  (c20_errors_classified "nope").2.2 sampleTop
    (Or.inr ⟨sampleServers, by simp [jget, sampleTop], by simp [jget, sampleServers]⟩)

example : (entry .loader [] .missing ["db"]).raised = some .fileNotFound :=
  (c20_errors_surface .loader [] .missing "db" _ (c20_errors_classified "db").1).2

end Verif.Props.C20
