import Verif.Props.C04
import Verif.Lemmas.VersionLib
import Verif.Model.VersionInfo

/-! # C04 — supplementary obligations (not stated by the property text)

The pure version utilities of `protocol/types/versioning.py`.  Built and audited on every run
like `Props/C04.lean`; a failure here (a source outside the translator's subset, a proof that no
longer goes through for a rewritten definition) is reported as INFO and in the evidence, never as
a verdict about C04.  The supported list and the handler's default literal, which C04's own
theorems are about, stay in `Props/C04.lean` (`Gen/Versions.lean`). -/
set_option linter.unusedSimpArgs false
namespace Verif.Props.C04
open Verif.Model.Version Verif.Lemmas.Version
open Verif.Gen.Versions

/-! ## The version utilities of `protocol/types/versioning.py` (supplementary)

`negotiateGen`, `compatibleGen`, `compareGen`, `isNewerGen`, `isOlderGen`, `isSupportedGen`,
`latestGen`, `minimumGen`, `allSupportedGen` are REGENERATED from the source of
`negotiate_version`, `validate_version_compatibility`, `ProtocolVersion.compare / is_newer /
is_older / is_supported / get_latest_supported / get_minimum_supported / get_all_supported` on
every run (`Gen/VersionLib.lean`); `none` = the function raises.  Strings are `List Char`,
`strLt` is Python's `<` on `str`. -/
section VersionLib
open Verif.Model.Batching Verif.Model.VersionLib Verif.Gen.VersionLib Verif.Lemmas.VersionLib
open Verif.Lemmas.Batching Verif.Model.VersionInfo

/-- every fragment of the version utilities was inside the translator's subset, and the regular
expression of `validate_format` is the one whose matching is modelled -/
theorem c04_versionlib_translated :
    Verif.Gen.VersionLib.translatable = true ∧ formatPattern = "^\\d{4}-\\d{2}-\\d{2}$" := by decide

/-- `negotiate_version` returns `v` iff `v` is the FIRST client version the server list contains:
it is in both lists and nothing before it in the client's list is common (all lists, duplicates
and empty lists included). -/
theorem c04_negotiate_first_common (c s : List (List Char)) (v : List Char) :
    negotiateGen c s = some v ↔
      ∃ pre post, c = pre ++ v :: post ∧ v ∈ s ∧ ∀ x ∈ pre, x ∉ s := by
  unfold negotiateGen
  constructor
  · intro h
    split at h
    · rename_i r hr
      simp only [Option.some.injEq] at h
      subst h
      obtain ⟨hp, pre, post, hc, hpre⟩ := List.find?_eq_some_iff_append.mp hr
      exact ⟨pre, post, hc, by simpa using hp, fun x hx => by simpa using hpre x hx⟩
    · simp at h
  · rintro ⟨pre, post, hc, hv, hpre⟩
    have : c.find? (fun x => s.contains x) = some v :=
      List.find?_eq_some_iff_append.mpr ⟨by simpa using hv, pre, post, hc, fun x hx => by simpa using hpre x hx⟩
    rw [this]

/-- ... it raises iff the two lists have no common version; what it returns is in both lists. -/
theorem c04_negotiate_raises_iff_disjoint (c s : List (List Char)) :
    (negotiateGen c s = none ↔ ∀ x ∈ c, x ∉ s)
    ∧ (∀ v, negotiateGen c s = some v → v ∈ c ∧ v ∈ s) := by
  constructor
  · unfold negotiateGen
    constructor
    · intro h
      split at h
      · simp at h
      · rename_i hn
        intro x hx
        simpa using List.find?_eq_none.mp hn x hx
    · intro h
      have : c.find? (fun x => s.contains x) = none :=
        List.find?_eq_none.mpr (fun x hx => by simpa using h x hx)
      rw [this]
  · intro v hv
    obtain ⟨pre, post, hc, hs, _⟩ := (c04_negotiate_first_common c s v).mp hv
    exact ⟨by simp [hc], hs⟩

example : negotiateGen ["2025-06-18".toList, "2024-11-05".toList, "2025-03-26".toList]
      ["2025-03-26".toList, "2024-11-05".toList] = some "2024-11-05".toList
    ∧ negotiateGen ["x".toList] ["y".toList] = none ∧ negotiateGen [] ["y".toList] = none := by decide

/-- `validate_version_compatibility`: true exactly for two EQUAL versions that are SUPPORTED. -/
theorem c04_compatible_iff (a b : List Char) :
    (compatibleGen a b = some true ↔ a = b ∧ a ∈ supportedL)
    ∧ compatibleGen a b ≠ none ∧ (isSupportedGen a = true ↔ a ∈ supportedL) := by
  simp [compatibleGen, isSupportedGen, isSupportedGenO]

example : compatibleGen "2025-06-18".toList "2025-06-18".toList = some true
    ∧ compatibleGen "2025-06-18".toList "2025-03-26".toList = some false
    ∧ compatibleGen "1999-01-01".toList "1999-01-01".toList = some false := by decide

/-- `compare`: `0` exactly on equal strings (well-formed or not); otherwise it raises iff one of the
two is not well-formed, and on two different well-formed versions it is `1` or `-1` by the string
order. -/
theorem c04_compare_spec (a b : List Char) :
    (compareGen a b = some 0 ↔ a = b)
    ∧ (compareGen a b = none ↔ a ≠ b ∧ (validateFormatGen a = false ∨ validateFormatGen b = false))
    ∧ (a ≠ b → validateFormatGen a = true → validateFormatGen b = true →
        compareGen a b = some (if strLt b a then 1 else -1)) := by
  unfold compareGen
  by_cases hab : a = b
  · simp [hab, strLt_irrefl]
  · -- the proof does not depend on how the source spells the last line (`1 if a > b else -1`, `-1 if a < b else 1`,
    -- two returns, ...): both comparisons are decided first
    have hord : (strLt a b = true ∧ strLt b a = false) ∨ (strLt a b = false ∧ strLt b a = true) := by
      rcases strLt_total a b hab with h | h
      · exact .inl ⟨h, strLt_asymm a b h⟩
      · exact .inr ⟨strLt_asymm b a h, h⟩
    have hba : ¬ b = a := fun e => hab e.symm
    rcases hord with ⟨h1, h2⟩ | ⟨h1, h2⟩ <;>
      by_cases ha : validateFormatGen a = true <;> by_cases hb : validateFormatGen b = true <;>
      simp [hab, hba, ha, hb, h1, h2]

/-- `compare` is a strict total order on well-formed versions: antisymmetric, transitive, total;
`is_newer` / `is_older` are its two strict halves. -/
theorem c04_compare_total_order (a b c : List Char) (ha : validateFormatGen a = true)
    (hb : validateFormatGen b = true) (hc : validateFormatGen c = true) :
    (compareGen a b = some 1 ↔ compareGen b a = some (-1))
    ∧ (compareGen a b = some 1 → compareGen b c = some 1 → compareGen a c = some 1)
    ∧ (compareGen a b = some 0 ∨ compareGen a b = some 1 ∨ compareGen a b = some (-1))
    ∧ (isNewerGen a b = some true ↔ compareGen a b = some 1)
    ∧ (isOlderGen a b = some true ↔ compareGen a b = some (-1)) := by
  have key : ∀ x y : List Char, validateFormatGen x = true → validateFormatGen y = true →
      (compareGen x y = some 1 ↔ strLt y x = true) ∧ (compareGen x y = some (-1) ↔ (x ≠ y ∧ strLt y x = false)) := by
    intro x y hx hy
    by_cases hxy : x = y
    · subst hxy
      have := (c04_compare_spec x x).1.mpr rfl
      simp [this, strLt_irrefl]
    · have := (c04_compare_spec x y).2.2 hxy hx hy
      rw [this]
      by_cases hl : strLt y x = true <;> simp [hl, hxy]
  refine ⟨?_, ?_, ?_, ?_, ?_⟩
  · rw [(key a b ha hb).1, (key b a hb ha).2]
    constructor
    · intro h
      refine ⟨?_, strLt_asymm b a h⟩
      intro e; subst e; simp [strLt_irrefl] at h
    · rintro ⟨hne, h⟩
      rcases strLt_total a b (fun e => hne e.symm) with h1 | h1
      · simp [h1] at h
      · exact h1
  · rw [(key a b ha hb).1, (key b c hb hc).1, (key a c ha hc).1]
    intro h1 h2
    exact strLt_trans c b a h2 h1
  · by_cases hab : a = b
    · left; exact (c04_compare_spec a b).1.mpr hab
    · right
      rw [(c04_compare_spec a b).2.2 hab ha hb]
      by_cases hl : strLt b a = true <;> simp [hl]
  · have tri : compareGen a b = some 0 ∨ compareGen a b = some 1 ∨ compareGen a b = some (-1) := by
      by_cases hab : a = b
      · left; exact (c04_compare_spec a b).1.mpr hab
      · right
        rw [(c04_compare_spec a b).2.2 hab ha hb]
        by_cases hl : strLt b a = true <;> simp [hl]
    rcases tri with h | h | h <;> simp [isNewerGen, h]
  · have tri : compareGen a b = some 0 ∨ compareGen a b = some 1 ∨ compareGen a b = some (-1) := by
      by_cases hab : a = b
      · left; exact (c04_compare_spec a b).1.mpr hab
      · right
        rw [(c04_compare_spec a b).2.2 hab ha hb]
        by_cases hl : strLt b a = true <;> simp [hl]
    rcases tri with h | h | h <;> simp [isOlderGen, h]

/-- On the padded ASCII format `dddd-dd-dd` the order of `compare` IS the date order of
`parse_version`: for all sixteen digits, `compare(v, w) = 1` iff `w`'s (year, month, day) is before
`v`'s, `-1` iff after, `0` iff the same date; and `parse_version` reads the digits. -/
theorem c04_compare_is_date_order (a b c d e f g h a' b' c' d' e' f' g' h' : Nat)
    (ha : a < 10) (hb : b < 10) (hc : c < 10) (hd : d < 10) (he : e < 10) (hf : f < 10) (hg : g < 10)
    (hh : h < 10) (ha' : a' < 10) (hb' : b' < 10) (hc' : c' < 10) (hd' : d' < 10) (he' : e' < 10)
    (hf' : f' < 10) (hg' : g' < 10) (hh' : h' < 10) :
    ∃ p q, parseVersionGen (fmt a b c d e f g h) = some p ∧ parseVersionGen (fmt a' b' c' d' e' f' g' h') = some q
      ∧ p = (1000 * a + 100 * b + 10 * c + d, 10 * e + f, 10 * g + h)
      ∧ (compareGen (fmt a b c d e f g h) (fmt a' b' c' d' e' f' g' h') = some 1 ↔ dateLtN q p)
      ∧ (compareGen (fmt a b c d e f g h) (fmt a' b' c' d' e' f' g' h') = some (-1) ↔ dateLtN p q)
      ∧ (compareGen (fmt a b c d e f g h) (fmt a' b' c' d' e' f' g' h') = some 0 ↔ p = q) := by
  have hp := parseGen_fmt a b c d e f g h ha hb hc hd he hf hg hh
  have hq := parseGen_fmt a' b' c' d' e' f' g' h' ha' hb' hc' hd' he' hf' hg' hh'
  have hv := validGen_fmt a b c d e f g h ha hb hc hd he hf hg hh
  have hv' := validGen_fmt a' b' c' d' e' f' g' h' ha' hb' hc' hd' he' hf' hg' hh'
  have hl := strLt_fmt a' b' c' d' e' f' g' h' a b c d e f g h ha' hb' hc' hd' he' hf' hg' hh' ha hb hc hd he hf hg hh
  have hinj : fmt a b c d e f g h = fmt a' b' c' d' e' f' g' h' ↔
      (a = a' ∧ b = b' ∧ c = c' ∧ d = d' ∧ e = e' ∧ f = f' ∧ g = g' ∧ h = h') := by
    simp [fmt, digitChar_inj, *]
  refine ⟨_, _, hp, hq, rfl, ?_, ?_, ?_⟩
  · by_cases hxy : fmt a b c d e f g h = fmt a' b' c' d' e' f' g' h'
    · have h0 := (c04_compare_spec _ _).1.mpr hxy
      rw [h0]
      have := hinj.mp hxy
      simp only [dateLtN]
      constructor
      · intro hh0; simp at hh0
      · intro hd0; omega
    · rw [(c04_compare_spec _ _).2.2 hxy hv hv', hl]
      simp only [dateLtN, lexLt]
      have hne := fun hall => hxy (hinj.mpr hall)
      grind (splits := 200)
  · by_cases hxy : fmt a b c d e f g h = fmt a' b' c' d' e' f' g' h'
    · have h0 := (c04_compare_spec _ _).1.mpr hxy
      rw [h0]
      have := hinj.mp hxy
      simp only [dateLtN]
      constructor
      · intro hh0; simp at hh0
      · intro hd0; omega
    · rw [(c04_compare_spec _ _).2.2 hxy hv hv', hl]
      simp only [dateLtN, lexLt]
      have hne := fun hall => hxy (hinj.mpr hall)
      grind (splits := 200)
  · rw [(c04_compare_spec _ _).1, hinj]
    simp only [Prod.mk.injEq]
    constructor
    · rintro ⟨rfl, rfl, rfl, rfl, rfl, rfl, rfl, rfl⟩; exact ⟨rfl, rfl, rfl⟩
    · intro ⟨h1, h2, h3⟩; omega

/-- The regenerated `compare` is the `pvCompare` of C13's model on ASCII text, so C13's cutoff
theorem (`c13_agrees_with_compare`: `compare(v, "2025-06-18") = -1` iff `supports_batching(v)`)
speaks about the function as the source defines it now. -/
theorem c04_compare_matches_c13_model (a b c d e f g h : Nat)
    (ha : a < 10) (hb : b < 10) (hc : c < 10) (hd : d < 10) (he : e < 10) (hf : f < 10) (hg : g < 10)
    (hh : h < 10) :
    compareGen (fmt a b c d e f g h) cutoff = (pvCompare (fmt a b c d e f g h) cutoff).toOption
    ∧ compareGen cutoff (fmt a b c d e f g h) = (pvCompare cutoff (fmt a b c d e f g h)).toOption := by
  have hv := validGen_fmt a b c d e f g h ha hb hc hd he hf hg hh
  have hv2 := valid_fmt a b c d e f g h ha hb hc hd he hf hg hh
  have hc1 : validateFormatGen cutoff = true := by decide
  have hc2 : validFormat cutoff = true := valid_cutoff
  constructor
  · by_cases hxy : fmt a b c d e f g h = cutoff
    · rw [(c04_compare_spec _ _).1.mpr hxy]
      simp [pvCompare, hxy, Except.toOption]
    · rw [(c04_compare_spec _ _).2.2 hxy hv hc1]
      simp [pvCompare, hxy, hv2, hc2, Except.toOption]
  · by_cases hxy : cutoff = fmt a b c d e f g h
    · rw [(c04_compare_spec _ _).1.mpr hxy]
      simp [pvCompare, hxy, Except.toOption]
    · rw [(c04_compare_spec _ _).2.2 hxy hc1 hv]
      simp [pvCompare, hxy, hv2, hc2, Except.toOption]

/-- `parse_version` raises exactly on what `validate_format` rejects (Unicode digits of any script,
one trailing newline included in "accepts"). -/
theorem c04_parse_iff_valid (v : List Char) :
    parseVersionGen v = none ↔ validateFormatGen v = false := by
  have hnd : ∀ c, isNd ndZeros c = true → ∃ d, ndVal ndZeros c = some d := by
    intro c hc
    unfold isNd at hc
    unfold ndVal
    obtain ⟨z, hz, hp⟩ := List.any_eq_true.mp hc
    cases hf : ndZeros.find? (fun z => decide (z ≤ c.toNat) && decide (c.toNat ≤ z + 9)) with
    | none => exact absurd hp (by simpa using List.find?_eq_none.mp hf z hz)
    | some w => exact ⟨_, rfl⟩
  unfold parseVersionGen parseVersionU validateFormatGen
  by_cases hv : validFormatU ndZeros v = true
  · simp only [hv, if_true]
    constructor
    · intro h
      exfalso
      unfold validFormatU at hv
      split at hv
      · simp only [Bool.and_eq_true, decide_eq_true_eq] at hv
        obtain ⟨⟨⟨⟨⟨⟨⟨⟨⟨h1, h2⟩, h3⟩, h4⟩, _⟩, h5⟩, h6⟩, _⟩, h7⟩, h8⟩ := hv
        obtain ⟨_, e1⟩ := hnd _ h1; obtain ⟨_, e2⟩ := hnd _ h2; obtain ⟨_, e3⟩ := hnd _ h3
        obtain ⟨_, e4⟩ := hnd _ h4; obtain ⟨_, e5⟩ := hnd _ h5; obtain ⟨_, e6⟩ := hnd _ h6
        obtain ⟨_, e7⟩ := hnd _ h7; obtain ⟨_, e8⟩ := hnd _ h8
        simp [ndNumber, e1, e2, e3, e4, e5, e6, e7, e8] at h
      · simp only [Bool.and_eq_true, decide_eq_true_eq] at hv
        obtain ⟨⟨⟨⟨⟨⟨⟨⟨⟨⟨h1, h2⟩, h3⟩, h4⟩, _⟩, h5⟩, h6⟩, _⟩, h7⟩, h8⟩, _⟩ := hv
        obtain ⟨_, e1⟩ := hnd _ h1; obtain ⟨_, e2⟩ := hnd _ h2; obtain ⟨_, e3⟩ := hnd _ h3
        obtain ⟨_, e4⟩ := hnd _ h4; obtain ⟨_, e5⟩ := hnd _ h5; obtain ⟨_, e6⟩ := hnd _ h6
        obtain ⟨_, e7⟩ := hnd _ h7; obtain ⟨_, e8⟩ := hnd _ h8
        simp [ndNumber, e1, e2, e3, e4, e5, e6, e7, e8] at h
      · simp at hv
    · intro h; simp at h
  · simp [hv]

example : parseVersionGen "2025-06-18".toList = some (2025, 6, 18)
    ∧ parseVersionGen "2025-06-18\n".toList = some (2025, 6, 18)
    ∧ parseVersionGen "٢٠٢٥-٠٦-١٨".toList = some (2025, 6, 18)
    ∧ parseVersionGen "2025-6-18".toList = none ∧ parseVersionGen "2025-06-18\n\n".toList = none
    ∧ parseVersionGen " 2025-06-18".toList = none := by decide

/-- The library's own list (regenerated): `CURRENT_VERSION` / `MINIMUM_VERSION` are its first / last
entry, every entry is well-formed, the list is strictly descending in `compare`'s order, so every
supported version lies between the minimum and the current one. -/
theorem c04_current_minimum_bounds :
    latestGen = some (supportedL.head?.getD []) ∧ minimumGen = some (supportedL.getLast?.getD [])
    ∧ allSupportedGen = some supportedL
    ∧ (∀ v ∈ supportedL, validateFormatGen v = true)
    ∧ supportedL.Pairwise (fun x y => compareGen x y = some 1)
    ∧ (∀ v ∈ supportedL, ∀ cur ∈ latestGen, ∀ mn ∈ minimumGen,
        (compareGen v cur = some 0 ∨ compareGen v cur = some (-1))
        ∧ (compareGen v mn = some 0 ∨ compareGen v mn = some 1)) := by
  refine ⟨rfl, rfl, rfl, by decide, by decide, by decide⟩

/-- `get_version_info`: its flags are the predicates; the date members and the two order flags are
present exactly for a well-formed version; a well-formed version is never both newer than the
current and older than the minimum; the current version is supported and neither. -/
theorem c04_version_info_flags (v : List Char) :
    (versionInfo v).isValid = validateFormatGen v
    ∧ (versionInfo v).isSupported = isSupportedGen v
    ∧ ((versionInfo v).isCurrent = true ↔ some v = latestGen)
    ∧ ((versionInfo v).details.isSome = true → validateFormatGen v = true)
    ∧ (∀ dt ∈ (versionInfo v).details,
        parseVersionGen v = some (dt.year, dt.month, dt.day)
        ∧ isNewerGen v (latestGen.getD []) = some dt.newerThanCurrent
        ∧ isOlderGen v (minimumGen.getD []) = some dt.olderThanMinimum) := by
  refine ⟨rfl, rfl, ?_, ?_, ?_⟩
  · simp [versionInfo, latestGen]
  · intro h
    unfold versionInfo at h
    simp only at h
    split at h
    · assumption
    · simp at h
  · intro dt hdt
    unfold versionInfo at hdt
    simp only [Option.mem_def] at hdt
    split at hdt
    · split at hdt
      · rename_i y m d n o h1 h2 h3
        simp only [Option.some.injEq] at hdt
        subst hdt
        exact ⟨h1, h2, h3⟩
      · simp at hdt
    · simp at hdt

example : versionInfo "2025-03-26".toList = ⟨true, true, false, some ⟨2025, 3, 26, false, false⟩⟩
    ∧ versionInfo "2025-06-18".toList = ⟨true, true, true, some ⟨2025, 6, 18, false, false⟩⟩
    ∧ versionInfo "2031-01-01".toList = ⟨true, false, false, some ⟨2031, 1, 1, true, false⟩⟩
    ∧ versionInfo "1999-12-31".toList = ⟨true, false, false, some ⟨1999, 12, 31, false, true⟩⟩
    ∧ versionInfo "draft".toList = ⟨false, false, false, none⟩ := by decide

example : formatVersionList [] = "None".toList ∧ formatVersionList ["a".toList] = "a".toList
    ∧ formatVersionList ["a".toList, "b".toList] = "a and b".toList
    ∧ formatVersionList ["a".toList, "b".toList, "c".toList] = "a, b and c".toList := by decide

end VersionLib

end Verif.Props.C04
