import Verif.Gen.Versions
import Verif.Lemmas.Version

/-! # C04 — a library server never acknowledges a protocol version it does not support

Server side: `serverAnswer sup dflt r` is the model of `ProtocolHandler._handle_initialize`
(repaired form); `sup` is ANY non-empty supported list, `dflt` any literal default, `r` any
requested value (`absent`, a string — well-formed or not —, or a non-string).  The
instances at the end use `supported` and `handlerDefault` REGENERATED from
`protocol/types/versioning.py` and `server/protocol_handler.py` on every run.
-/
namespace Verif.Props.C04
open Verif.Model.Version Verif.Lemmas.Version
open Verif.Gen.Versions

/-- The translator covered every fragment it was asked to translate. -/
theorem c04_translated : translatable = true := by decide

/-- The server's answer is always a version it supports — whatever was requested
(supported, unsupported, malformed string, non-string, absent). -/
theorem c04_answer_supported (sup : List String) (dflt : Option String) (r : Requested)
    (h : sup ≠ []) : serverAnswer sup dflt r ∈ sup :=
  serverAnswer_mem sup dflt r h

example : serverAnswer ["2025-06-18", "2024-11-05"] (some "2025-03-26") (.str "1999-01-01") = "2025-06-18"
    ∧ serverAnswer ["2025-06-18", "2024-11-05"] (some "2025-03-26") .other = "2025-06-18"
    ∧ serverAnswer ["2025-06-18", "2024-11-05"] (some "2025-03-26") .absent = "2025-06-18"
    ∧ serverAnswer ["2025-06-18", "2024-11-05"] (some "2024-11-05") .absent = "2024-11-05" := by decide

/-- The requested version is acknowledged (echoed) if and only if the server supports it. -/
theorem c04_echo_iff (sup : List String) (dflt : Option String) (s : String) (h : sup ≠ []) :
    serverAnswer sup dflt (.str s) = s ↔ s ∈ sup := by
  constructor
  · intro he
    have := serverAnswer_mem sup dflt (.str s) h
    rwa [he] at this
  · intro hs
    simp [serverAnswer, candidate, hs]

example : serverAnswer ["2025-06-18", "2024-11-05"] none (.str "2024-11-05") = "2024-11-05"
    ∧ serverAnswer ["2025-06-18", "2024-11-05"] none (.str "2024-11-5") ≠ "2024-11-5" := by decide

/-- A non-string value is never acknowledged: the answer is the latest supported version. -/
theorem c04_nonstring_gets_latest (sup : List String) (dflt : Option String) :
    serverAnswer sup dflt .other = sup.headD "" := by
  simp [serverAnswer, candidate]

/-- The session the handler records carries the version it answered, and that is a supported one. -/
theorem c04_session_records_answer (sup : List String) (dflt : Option String) (r : Requested)
    (h : sup ≠ []) :
    (handleInitialize sup dflt r).recorded = (handleInitialize sup dflt r).answered
    ∧ (handleInitialize sup dflt r).answered = serverAnswer sup dflt r
    ∧ (handleInitialize sup dflt r).recorded ∈ sup := by
  refine ⟨rfl, rfl, serverAnswer_mem sup dflt r h⟩

example : handleInitialize ["2025-06-18"] none (.str "garbage") = ⟨"2025-06-18", "2025-06-18"⟩ := by decide

/-- Instance for the library's own constants (regenerated): the list is non-empty, so every
theorem above applies to the shipped server; a request without `protocolVersion` is answered
with a supported version, namely the handler's literal default whenever that literal is supported. -/
theorem c04_default_supported :
    supported ≠ []
    ∧ serverAnswer supported handlerDefault .absent ∈ supported
    ∧ (∀ d, handlerDefault = some d → d ∈ supported →
        serverAnswer supported handlerDefault .absent = d) := by
  refine ⟨by decide, serverAnswer_mem _ _ _ (by decide), ?_⟩
  intro d hd hs
  simp [serverAnswer, candidate, hd, hs]

/-- ... and for every requested value the shipped server answers within the shipped list. -/
theorem c04_library_answer_supported (r : Requested) :
    serverAnswer supported handlerDefault r ∈ supported :=
  serverAnswer_mem _ _ r (by decide)

example : serverAnswer supported handlerDefault (.str "1999-01-01") ∈ supported :=
  c04_library_answer_supported _

end Verif.Props.C04
