import Verif.Gen.Versions
import Verif.Lemmas.Version

/-! # C04 — a library server never acknowledges a protocol version it does not support

Server side: `serverAnswer sup dflt r` is the model of `ProtocolHandler._handle_initialize`
(repaired form); `sup` is ANY non-empty supported list, `dflt` any literal default, `r` any
requested value (`absent`, a string — well-formed or not —, or a non-string).  The
instances at the end use `supported` and `handlerDefault` REGENERATED from
`protocol/types/versioning.py` and `server/protocol_handler.py` on every run.
-/
namespace Verif.Props.C04
open Verif.Model.Version Verif.Lemmas.Version
open Verif.Gen.Versions

/-- The translator covered every fragment it was asked to translate. -/
theorem c04_translated : translatable = true := by decide

/-- The server's answer is always a version it supports — whatever was requested
(supported, unsupported, malformed string, non-string, absent). -/
theorem c04_answer_supported (sup : List String) (dflt : Option String) (r : Requested)
    (h : sup ≠ []) : serverAnswer sup dflt r ∈ sup :=
  serverAnswer_mem sup dflt r h

example : serverAnswer ["2025-06-18", "2024-11-05"] (some "2025-03-26") (.str "1999-01-01") = "2025-06-18"
    ∧ serverAnswer ["2025-06-18", "2024-11-05"] (some "2025-03-26") .other = "2025-06-18"
    ∧ serverAnswer ["2025-06-18", "2024-11-05"] (some "2025-03-26") .absent = "2025-06-18"
    ∧ serverAnswer ["2025-06-18", "2024-11-05"] (some "2024-11-05") .absent = "2024-11-05" := by decide

/-- The requested version is acknowledged (echoed) if and only if the server supports it. -/
theorem c04_echo_iff (sup : List String) (dflt : Option String) (s : String) (h : sup ≠ []) :
    serverAnswer sup dflt (.str s) = s ↔ s ∈ sup := by
  constructor
  · intro he
    have := serverAnswer_mem sup dflt (.str s) h
    rwa [he] at this
  · intro hs
    simp [serverAnswer, candidate, hs]

example : serverAnswer ["2025-06-18", "2024-11-05"] none (.str "2024-11-05") = "2024-11-05"
    ∧ serverAnswer ["2025-06-18", "2024-11-05"] none (.str "2024-11-5") ≠ "2024-11-5" := by decide

/-- A non-string value is never acknowledged: the answer is the latest supported version. -/
theorem c04_nonstring_gets_latest (sup : List String) (dflt : Option String) :
    serverAnswer sup dflt .other = sup.headD "" := by
  simp [serverAnswer, candidate]

/-- The session the handler records carries the version it answered, and that is a supported one. -/
theorem c04_session_records_answer (sup : List String) (dflt : Option String) (r : Requested)
    (h : sup ≠ []) :
    (handleInitialize sup dflt r).recorded = (handleInitialize sup dflt r).answered
    ∧ (handleInitialize sup dflt r).answered = serverAnswer sup dflt r
    ∧ (handleInitialize sup dflt r).recorded ∈ sup := by
  refine ⟨rfl, rfl, serverAnswer_mem sup dflt r h⟩

/-- ... lifted to sequences: for ANY sequence of initialize requests on one handler (any requested
values, with or without a carried session id, live or stale), after EACH of them the session
returned for that request records the version answered to that request, which is a supported
one; and every session of the final store holds a supported version if the initial ones did. -/
theorem c04_session_records_answer_seq (sup : List String) (dflt : Option String) (h : sup ≠ [])
    (steps : List InitStep) (st : List String) :
    (∀ o ∈ (runInits sup dflt st steps).1, o.2 = some o.1 ∧ o.1 ∈ sup)
    ∧ ((runInits sup dflt st steps).1.map (·.1) = steps.map (fun s => serverAnswer sup dflt s.1))
    ∧ ((∀ v ∈ st, v ∈ sup) → ∀ v ∈ (runInits sup dflt st steps).2, v ∈ sup) := by
  induction steps generalizing st with
  | nil => simp [runInits]
  | cons s rest ih =>
    obtain ⟨r, carry⟩ := s
    have hm := serverAnswer_mem sup dflt r h
    obtain ⟨ih1, ih2, ih3⟩ := ih (st ++ [(handleInitialize sup dflt r).recorded])
    refine ⟨?_, ?_, ?_⟩
    · intro o ho
      simp only [runInits, List.mem_cons] at ho
      rcases ho with ho | ho
      · subst ho
        simp [handleInitialize, hm]
      · exact ih1 o ho
    · simp only [runInits, List.map_cons, ih2]
      rfl
    · intro hst v hv
      simp only [runInits] at hv
      refine ih3 ?_ v hv
      intro w hw
      simp only [List.mem_append, List.mem_singleton] at hw
      rcases hw with hw | hw
      · exact hst w hw
      · rw [hw]; exact hm

example : (runInits ["2025-06-18", "2024-11-05"] none []
      [(.str "2024-11-05", none), (.str "2025-06-18", some 0), (.str "garbage", some 7)]).1
    = [("2024-11-05", some "2024-11-05"), ("2025-06-18", some "2025-06-18"), ("2025-06-18", some "2025-06-18")] := by
  decide

example : handleInitialize ["2025-06-18"] none (.str "garbage") = ⟨"2025-06-18", "2025-06-18"⟩ := by decide

/-- Instance for the library's own constants (regenerated): the list is non-empty, so every
theorem above applies to the shipped server; a request without `protocolVersion` is answered
with a supported version, namely the handler's literal default whenever that literal is supported. -/
theorem c04_default_supported :
    supported ≠ []
    ∧ serverAnswer supported handlerDefault .absent ∈ supported
    ∧ (∀ d, handlerDefault = some d → d ∈ supported →
        serverAnswer supported handlerDefault .absent = d) := by
  refine ⟨by decide, serverAnswer_mem _ _ _ (by decide), ?_⟩
  intro d hd hs
  simp [serverAnswer, candidate, hd, hs]

/-- ... and for every requested value the shipped server answers within the shipped list. -/
theorem c04_library_answer_supported (r : Requested) :
    serverAnswer supported handlerDefault r ∈ supported :=
  serverAnswer_mem _ _ r (by decide)

example : serverAnswer supported handlerDefault (.str "1999-01-01") ∈ supported :=
  c04_library_answer_supported _

/-! ## End to end: the library client (model of C03) against the library server -/

/-- Every handshake that the client accepts is agreed on a version BOTH sides support, and the
server's session records that very version. -/
theorem c04_handshake_sound (c : List String) (pref : Option String) (s : List String)
    (dflt : Option String) (hs : s ≠ []) (v : String) (w : List Ev) (sess : Option String)
    (h : handshake c pref s dflt = (.ok v, w, sess)) :
    v ∈ c ∧ v ∈ s ∧ sess = some v := by
  unfold handshake at h
  split at h
  · simp at h
  · rename_i p hp
    simp only [Prod.mk.injEq] at h
    obtain ⟨h1, h2, h3⟩ := h
    have hc : clientInit c pref (.version (handleInitialize s dflt (.str p)).answered)
        = (.ok v, w) := by rw [← h1, ← h2]
    obtain ⟨hv, ha⟩ := Verif.Lemmas.Version.clientInit_ok hc
    simp only [Answer.version.injEq] at ha
    have hm : (handleInitialize s dflt (.str p)).answered ∈ s :=
      (c04_session_records_answer s dflt (.str p) hs).2.1 ▸ serverAnswer_mem s dflt (.str p) hs
    refine ⟨hv, ha ▸ hm, ?_⟩
    rw [← h3]
    exact congrArg some ha

/-- No third outcome: with non-empty lists on both sides a handshake ends agreed, or with the
version-mismatch error on the client (never a timeout, a validation failure or a JSON-RPC error),
and after a mismatch no `initialized` notification was sent. -/
theorem c04_handshake_total (c : List String) (pref : Option String) (s : List String)
    (dflt : Option String) (hc : c ≠ []) :
    (∃ v, (handshake c pref s dflt).1 = .ok v)
    ∨ ((handshake c pref s dflt).1 = .mismatch ∧ Ev.sent .initialized ∉ (handshake c pref s dflt).2.1) := by
  obtain ⟨p, hp⟩ := proposed_isSome pref hc
  unfold handshake
  rw [hp]
  simp only []
  generalize (handleInitialize s dflt (.str p)).answered = a
  unfold clientInit
  rw [hp]
  simp only []
  split
  · left; exact ⟨a, rfl⟩
  · right; simp

/-- When the server supports what the client proposes the handshake agrees on exactly that. -/
theorem c04_handshake_common (c : List String) (pref : Option String) (s : List String)
    (dflt : Option String) (p : String) (hp : proposed c pref = some p) (hps : p ∈ s) :
    (handshake c pref s dflt).1 = .ok p := by
  have hs : s ≠ [] := List.ne_nil_of_mem hps
  have he : serverAnswer s dflt (.str p) = p := (c04_echo_iff s dflt p hs).2 hps
  unfold handshake
  rw [hp]
  simp only [handleInitialize, he]
  unfold clientInit
  rw [hp]
  simp

example : handshake ["2026-01-01", "2024-11-05"] none ["2025-06-18", "2024-11-05"] none
      = (.mismatch, [.sent (.initialize "2026-01-01"), .answered], some "2025-06-18")
    ∧ handshake ["2026-01-01", "2025-06-18"] none ["2025-06-18", "2024-11-05"] none
      = (.ok "2025-06-18", [.sent (.initialize "2026-01-01"), .answered, .sent .initialized], some "2025-06-18")
    ∧ handshake ["2026-01-01", "2024-11-05"] (some "2024-11-05") ["2025-06-18", "2024-11-05"] none
      = (.ok "2024-11-05", [.sent (.initialize "2024-11-05"), .answered, .sent .initialized], some "2024-11-05") := by decide

/-- Instance for the shipped server (regenerated constants) against ANY client list. -/
theorem c04_library_handshake (c : List String) (pref : Option String) (v : String) (w : List Ev)
    (sess : Option String) (h : handshake c pref supported handlerDefault = (.ok v, w, sess)) :
    v ∈ c ∧ v ∈ supported ∧ sess = some v :=
  c04_handshake_sound c pref supported handlerDefault (by decide) v w sess h

/-! ## Every conforming handler (`serverAnswerG`: the fallback version is a free choice) -/

/-- The code is one member of the family: its choice is its own answer. -/
theorem c04_code_is_instance (sup : List String) (dflt : Option String) (r : Requested) (h : sup ≠ []) :
    serverAnswer sup dflt r = serverAnswerG sup (serverAnswer sup dflt r) r := by
  have hm := serverAnswer_mem sup dflt r h
  cases r with
  | str s =>
    by_cases hs : s ∈ sup
    · simp [serverAnswerG, serverAnswer, candidate, hs]
    · simp only [serverAnswerG, hs, if_false, hm, if_true]
  | absent => simp only [serverAnswerG, hm, if_true]
  | other => simp only [serverAnswerG, hm, if_true]

/-- Whatever the choice: the answer is supported, the request is echoed iff it is supported, the
session records the answer. -/
theorem c04_any_choice (sup : List String) (choice : String) (r : Requested) (h : sup ≠ []) :
    serverAnswerG sup choice r ∈ sup
    ∧ (∀ s, r = .str s → (serverAnswerG sup choice r = s ↔ s ∈ sup))
    ∧ (handleInitializeG sup choice r).recorded = (handleInitializeG sup choice r).answered
    ∧ (handleInitializeG sup choice r).answered = serverAnswerG sup choice r := by
  have hfb : (if choice ∈ sup then choice else sup.headD "") ∈ sup := by
    split
    · assumption
    · exact headD_mem h
  have hmem : serverAnswerG sup choice r ∈ sup := by
    unfold serverAnswerG
    split
    · split
      · assumption
      · exact hfb
    · exact hfb
  refine ⟨hmem, ?_, rfl, rfl⟩
  intro s hr
  subst hr
  constructor
  · intro he; rwa [he] at hmem
  · intro hs; simp [serverAnswerG, hs]

/-- Sequences, whatever the choices. -/
theorem c04_session_records_answer_seq_any_choice (sup : List String) (h : sup ≠ [])
    (steps : List InitStepG) (st : List String) :
    ∀ o ∈ (runInitsG sup st steps).1, o.2 = some o.1 ∧ o.1 ∈ sup := by
  induction steps generalizing st with
  | nil => simp [runInitsG]
  | cons s rest ih =>
    obtain ⟨r, carry, choice⟩ := s
    have hm := (c04_any_choice sup choice r h).1
    intro o ho
    simp only [runInitsG, List.mem_cons] at ho
    rcases ho with ho | ho
    · subst ho
      simp [handleInitializeG, hm]
    · exact ih _ o ho

/-- ... and whatever ids the session manager hands out — fresh ones, a constant one, one per k
creations, a short cycle (`gen` is ANY function from the creation count to ids): right after each
initialize, the session found under the id handed out for it records the version answered to it,
a supported one. -/
theorem c04_session_records_answer_any_ids (sup : List String) (h : sup ≠ []) (gen : Nat → Nat)
    (steps : List InitStepG) (n : Nat) (st : List (Nat × String)) :
    ∀ o ∈ runInitsIds sup gen n st steps, o.2 = some o.1 ∧ o.1 ∈ sup := by
  induction steps generalizing n st with
  | nil => simp [runInitsIds]
  | cons s rest ih =>
    obtain ⟨r, carry, choice⟩ := s
    have hm := (c04_any_choice sup choice r h).1
    intro o ho
    simp only [runInitsIds, List.mem_cons] at ho
    rcases ho with ho | ho
    · subst ho
      simp [storeGet, storePut, handleInitializeG, hm]
    · exact ih _ _ o ho

example : runInitsIds ["2025-06-18", "2024-11-05"] (fun _ => 7) 0 []
      [(.str "2024-11-05", none, ""), (.str "2025-06-18", none, ""), (.str "1999-01-01", none, "2024-11-05")]
    = [("2024-11-05", some "2024-11-05"), ("2025-06-18", some "2025-06-18"), ("2024-11-05", some "2024-11-05")] := by decide

/-- Later requests do not reach back: what was answered and recorded for the first requests of a
sequence is the same whatever follows them on the same handler (so an answer serialised only
after later requests were handled, or a session looked up later, reads the same). -/
theorem c04_earlier_answers_unaffected (sup : List String) (xs ys : List InitStepG) (st : List String) :
    ((runInitsG sup st (xs ++ ys)).1.take xs.length) = (runInitsG sup st xs).1 := by
  induction xs generalizing st with
  | nil => simp [runInitsG]
  | cons x rest ih =>
    obtain ⟨r, carry, choice⟩ := x
    simp only [List.cons_append, runInitsG, List.length_cons, List.take_succ_cons, ih]

example : (runInitsG ["2025-06-18", "2024-11-05"] []
      [(.str "2024-11-05", none, ""), (.str "2025-06-18", none, ""), (.str "1999-01-01", some 0, "2024-11-05")]).1
    = [("2024-11-05", some "2024-11-05"), ("2025-06-18", some "2025-06-18"), ("2024-11-05", some "2024-11-05")] := by decide

/-- Handlers are independent: with any number of handlers alive in one process and their requests
interleaved in any order, what one handler answers and records is what it would answer and record
if it were alone with its own requests. -/
theorem c04_handlers_independent (sup : List String) (stores : Nat → List String)
    (steps : List (Nat × InitStepG)) (h : Nat) :
    ((runHandlers sup stores steps).filter (fun x => x.1 = h)).map (·.2)
      = (runInitsG sup (stores h) ((steps.filter (fun x => x.1 = h)).map (·.2))).1 := by
  induction steps generalizing stores with
  | nil => simp [runHandlers, runInitsG]
  | cons x rest ih =>
    obtain ⟨k, r, carry, choice⟩ := x
    by_cases hk : k = h
    · subst hk
      simp only [runHandlers, List.filter_cons, decide_true, if_true, List.map_cons, runInitsG, ih]
    · have hk' : ¬ h = k := fun e => hk e.symm
      simp only [runHandlers, List.filter_cons, hk, decide_false, Bool.false_eq_true, if_false]
      rw [ih]
      simp [hk']

example : runHandlers ["2025-06-18", "2024-11-05"] (fun _ => [])
      [(0, .str "2024-11-05", none, ""), (1, .str "1999-01-01", none, ""), (0, .str "2025-06-18", some 0, "")]
    = [(0, "2024-11-05", some "2024-11-05"), (1, "2025-06-18", some "2025-06-18"), (0, "2025-06-18", some "2025-06-18")] := by
  decide

/-- Handshake, whatever the server's choice: agreed on a version both support (recorded by the
session), or mismatch without the notification. -/
theorem c04_handshake_sound_any_choice (c : List String) (pref : Option String) (s : List String)
    (choice : String) (hs : s ≠ []) :
    (∀ v w sess, handshakeG c pref s choice = (.ok v, w, sess) → v ∈ c ∧ v ∈ s ∧ sess = some v)
    ∧ (c ≠ [] → (∃ v, (handshakeG c pref s choice).1 = .ok v)
        ∨ ((handshakeG c pref s choice).1 = .mismatch ∧ Ev.sent .initialized ∉ (handshakeG c pref s choice).2.1)) := by
  constructor
  · intro v w sess h
    unfold handshakeG at h
    split at h
    · simp at h
    · rename_i p hp
      simp only [Prod.mk.injEq] at h
      obtain ⟨h1, h2, h3⟩ := h
      have hc : clientInit c pref (.version (handleInitializeG s choice (.str p)).answered) = (.ok v, w) := by
        rw [← h1, ← h2]
      obtain ⟨hv, ha⟩ := Verif.Lemmas.Version.clientInit_ok hc
      simp only [Answer.version.injEq] at ha
      have hm : (handleInitializeG s choice (.str p)).answered ∈ s := (c04_any_choice s choice (.str p) hs).1
      refine ⟨hv, ha ▸ hm, ?_⟩
      rw [← h3]
      exact congrArg some ha
  · intro hc
    obtain ⟨p, hp⟩ := proposed_isSome pref hc
    unfold handshakeG
    rw [hp]
    simp only []
    generalize (handleInitializeG s choice (.str p)).answered = a
    unfold clientInit
    rw [hp]
    simp only []
    split
    · left; exact ⟨a, rfl⟩
    · right; simp

example : serverAnswerG ["2025-06-18", "2024-11-05"] "2024-11-05" (.str "1999-01-01") = "2024-11-05"
    ∧ serverAnswerG ["2025-06-18", "2024-11-05"] "1999-01-01" (.str "1999-01-01") = "2025-06-18"
    ∧ serverAnswerG ["2025-06-18", "2024-11-05"] "2025-06-18" (.str "2024-11-05") = "2024-11-05"
    ∧ serverAnswerG ["2025-06-18", "2024-11-05"] "garbage" .other = "2025-06-18" := by decide

end Verif.Props.C04
