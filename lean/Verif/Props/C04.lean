import Verif.Gen.Versions
import Verif.Lemmas.Version
import Verif.Lemmas.VersionLib
import Verif.Model.VersionInfo

/-! # C04 — a library server never acknowledges a protocol version it does not support

Server side: `serverAnswer sup dflt r` is the model of `ProtocolHandler._handle_initialize`
(repaired form); `sup` is ANY non-empty supported list, `dflt` any literal default, `r` any
requested value (`absent`, a string — well-formed or not —, or a non-string).  The
instances at the end use `supported` and `handlerDefault` REGENERATED from
`protocol/types/versioning.py` and `server/protocol_handler.py` on every run.
-/
namespace Verif.Props.C04
open Verif.Model.Version Verif.Lemmas.Version
open Verif.Gen.Versions

/-- The translator covered every fragment it was asked to translate. -/
theorem c04_translated : translatable = true := by decide

/-- The server's answer is always a version it supports — whatever was requested
(supported, unsupported, malformed string, non-string, absent). -/
theorem c04_answer_supported (sup : List String) (dflt : Option String) (r : Requested)
    (h : sup ≠ []) : serverAnswer sup dflt r ∈ sup :=
  serverAnswer_mem sup dflt r h

example : serverAnswer ["2025-06-18", "2024-11-05"] (some "2025-03-26") (.str "1999-01-01") = "2025-06-18"
    ∧ serverAnswer ["2025-06-18", "2024-11-05"] (some "2025-03-26") .other = "2025-06-18"
    ∧ serverAnswer ["2025-06-18", "2024-11-05"] (some "2025-03-26") .absent = "2025-06-18"
    ∧ serverAnswer ["2025-06-18", "2024-11-05"] (some "2024-11-05") .absent = "2024-11-05" := by decide

/-- The requested version is acknowledged (echoed) if and only if the server supports it. -/
theorem c04_echo_iff (sup : List String) (dflt : Option String) (s : String) (h : sup ≠ []) :
    serverAnswer sup dflt (.str s) = s ↔ s ∈ sup := by
  constructor
  · intro he
    have := serverAnswer_mem sup dflt (.str s) h
    rwa [he] at this
  · intro hs
    simp [serverAnswer, candidate, hs]

example : serverAnswer ["2025-06-18", "2024-11-05"] none (.str "2024-11-05") = "2024-11-05"
    ∧ serverAnswer ["2025-06-18", "2024-11-05"] none (.str "2024-11-5") ≠ "2024-11-5" := by decide

/-- A non-string value is never acknowledged: the answer is the latest supported version. -/
theorem c04_nonstring_gets_latest (sup : List String) (dflt : Option String) :
    serverAnswer sup dflt .other = sup.headD "" := by
  simp [serverAnswer, candidate]

/-- The session the handler records carries the version it answered, and that is a supported one. -/
theorem c04_session_records_answer (sup : List String) (dflt : Option String) (r : Requested)
    (h : sup ≠ []) :
    (handleInitialize sup dflt r).recorded = (handleInitialize sup dflt r).answered
    ∧ (handleInitialize sup dflt r).answered = serverAnswer sup dflt r
    ∧ (handleInitialize sup dflt r).recorded ∈ sup := by
  refine ⟨rfl, rfl, serverAnswer_mem sup dflt r h⟩

/-- ... lifted to sequences: for ANY sequence of initialize requests on one handler (any requested
values, with or without a carried session id, live or stale), after EACH of them the session
returned for that request records the version answered to that request, which is a supported
one; and every session of the final store holds a supported version if the initial ones did. -/
theorem c04_session_records_answer_seq (sup : List String) (dflt : Option String) (h : sup ≠ [])
    (steps : List InitStep) (st : List String) :
    (∀ o ∈ (runInits sup dflt st steps).1, o.2 = some o.1 ∧ o.1 ∈ sup)
    ∧ ((runInits sup dflt st steps).1.map (·.1) = steps.map (fun s => serverAnswer sup dflt s.1))
    ∧ ((∀ v ∈ st, v ∈ sup) → ∀ v ∈ (runInits sup dflt st steps).2, v ∈ sup) := by
  induction steps generalizing st with
  | nil => simp [runInits]
  | cons s rest ih =>
    obtain ⟨r, carry⟩ := s
    have hm := serverAnswer_mem sup dflt r h
    obtain ⟨ih1, ih2, ih3⟩ := ih (st ++ [(handleInitialize sup dflt r).recorded])
    refine ⟨?_, ?_, ?_⟩
    · intro o ho
      simp only [runInits, List.mem_cons] at ho
      rcases ho with ho | ho
      · subst ho
        simp [handleInitialize, hm]
      · exact ih1 o ho
    · simp only [runInits, List.map_cons, ih2]
      rfl
    · intro hst v hv
      simp only [runInits] at hv
      refine ih3 ?_ v hv
      intro w hw
      simp only [List.mem_append, List.mem_singleton] at hw
      rcases hw with hw | hw
      · exact hst w hw
      · rw [hw]; exact hm

example : (runInits ["2025-06-18", "2024-11-05"] none []
      [(.str "2024-11-05", none), (.str "2025-06-18", some 0), (.str "garbage", some 7)]).1
    = [("2024-11-05", some "2024-11-05"), ("2025-06-18", some "2025-06-18"), ("2025-06-18", some "2025-06-18")] := by
  decide

example : handleInitialize ["2025-06-18"] none (.str "garbage") = ⟨"2025-06-18", "2025-06-18"⟩ := by decide

/-- Instance for the library's own constants (regenerated): the list is non-empty, so every
theorem above applies to the shipped server; a request without `protocolVersion` is answered
with a supported version, namely the handler's literal default whenever that literal is supported. -/
theorem c04_default_supported :
    supported ≠ []
    ∧ serverAnswer supported handlerDefault .absent ∈ supported
    ∧ (∀ d, handlerDefault = some d → d ∈ supported →
        serverAnswer supported handlerDefault .absent = d) := by
  refine ⟨by decide, serverAnswer_mem _ _ _ (by decide), ?_⟩
  intro d hd hs
  simp [serverAnswer, candidate, hd, hs]

/-- ... and for every requested value the shipped server answers within the shipped list. -/
theorem c04_library_answer_supported (r : Requested) :
    serverAnswer supported handlerDefault r ∈ supported :=
  serverAnswer_mem _ _ r (by decide)

example : serverAnswer supported handlerDefault (.str "1999-01-01") ∈ supported :=
  c04_library_answer_supported _

/-! ## End to end: the library client (model of C03) against the library server -/

/-- Every handshake that the client accepts is agreed on a version BOTH sides support, and the
server's session records that very version. -/
theorem c04_handshake_sound (c : List String) (pref : Option String) (s : List String)
    (dflt : Option String) (hs : s ≠ []) (v : String) (w : List Ev) (sess : Option String)
    (h : handshake c pref s dflt = (.ok v, w, sess)) :
    v ∈ c ∧ v ∈ s ∧ sess = some v := by
  unfold handshake at h
  split at h
  · simp at h
  · rename_i p hp
    simp only [Prod.mk.injEq] at h
    obtain ⟨h1, h2, h3⟩ := h
    have hc : clientInit c pref (.version (handleInitialize s dflt (.str p)).answered)
        = (.ok v, w) := by rw [← h1, ← h2]
    obtain ⟨hv, ha⟩ := Verif.Lemmas.Version.clientInit_ok hc
    simp only [Answer.version.injEq] at ha
    have hm : (handleInitialize s dflt (.str p)).answered ∈ s :=
      (c04_session_records_answer s dflt (.str p) hs).2.1 ▸ serverAnswer_mem s dflt (.str p) hs
    refine ⟨hv, ha ▸ hm, ?_⟩
    rw [← h3]
    exact congrArg some ha

/-- No third outcome: with non-empty lists on both sides a handshake ends agreed, or with the
version-mismatch error on the client (never a timeout, a validation failure or a JSON-RPC error),
and after a mismatch no `initialized` notification was sent. -/
theorem c04_handshake_total (c : List String) (pref : Option String) (s : List String)
    (dflt : Option String) (hc : c ≠ []) :
    (∃ v, (handshake c pref s dflt).1 = .ok v)
    ∨ ((handshake c pref s dflt).1 = .mismatch ∧ Ev.sent .initialized ∉ (handshake c pref s dflt).2.1) := by
  obtain ⟨p, hp⟩ := proposed_isSome pref hc
  unfold handshake
  rw [hp]
  simp only []
  generalize (handleInitialize s dflt (.str p)).answered = a
  unfold clientInit
  rw [hp]
  simp only []
  split
  · left; exact ⟨a, rfl⟩
  · right; simp

/-- When the server supports what the client proposes the handshake agrees on exactly that. -/
theorem c04_handshake_common (c : List String) (pref : Option String) (s : List String)
    (dflt : Option String) (p : String) (hp : proposed c pref = some p) (hps : p ∈ s) :
    (handshake c pref s dflt).1 = .ok p := by
  have hs : s ≠ [] := List.ne_nil_of_mem hps
  have he : serverAnswer s dflt (.str p) = p := (c04_echo_iff s dflt p hs).2 hps
  unfold handshake
  rw [hp]
  simp only [handleInitialize, he]
  unfold clientInit
  rw [hp]
  simp

example : handshake ["2026-01-01", "2024-11-05"] none ["2025-06-18", "2024-11-05"] none
      = (.mismatch, [.sent (.initialize "2026-01-01"), .answered], some "2025-06-18")
    ∧ handshake ["2026-01-01", "2025-06-18"] none ["2025-06-18", "2024-11-05"] none
      = (.ok "2025-06-18", [.sent (.initialize "2026-01-01"), .answered, .sent .initialized], some "2025-06-18")
    ∧ handshake ["2026-01-01", "2024-11-05"] (some "2024-11-05") ["2025-06-18", "2024-11-05"] none
      = (.ok "2024-11-05", [.sent (.initialize "2024-11-05"), .answered, .sent .initialized], some "2024-11-05") := by decide

/-- Instance for the shipped server (regenerated constants) against ANY client list. -/
theorem c04_library_handshake (c : List String) (pref : Option String) (v : String) (w : List Ev)
    (sess : Option String) (h : handshake c pref supported handlerDefault = (.ok v, w, sess)) :
    v ∈ c ∧ v ∈ supported ∧ sess = some v :=
  c04_handshake_sound c pref supported handlerDefault (by decide) v w sess h

/-! ## Every conforming handler (`serverAnswerG`: the fallback version is a free choice) -/

/-- The code is one member of the family: its choice is its own answer. -/
theorem c04_code_is_instance (sup : List String) (dflt : Option String) (r : Requested) (h : sup ≠ []) :
    serverAnswer sup dflt r = serverAnswerG sup (serverAnswer sup dflt r) r := by
  have hm := serverAnswer_mem sup dflt r h
  cases r with
  | str s =>
    by_cases hs : s ∈ sup
    · simp [serverAnswerG, serverAnswer, candidate, hs]
    · simp only [serverAnswerG, hs, if_false, hm, if_true]
  | absent => simp only [serverAnswerG, hm, if_true]
  | other => simp only [serverAnswerG, hm, if_true]

/-- Whatever the choice: the answer is supported, the request is echoed iff it is supported, the
session records the answer. -/
theorem c04_any_choice (sup : List String) (choice : String) (r : Requested) (h : sup ≠ []) :
    serverAnswerG sup choice r ∈ sup
    ∧ (∀ s, r = .str s → (serverAnswerG sup choice r = s ↔ s ∈ sup))
    ∧ (handleInitializeG sup choice r).recorded = (handleInitializeG sup choice r).answered
    ∧ (handleInitializeG sup choice r).answered = serverAnswerG sup choice r := by
  have hfb : (if choice ∈ sup then choice else sup.headD "") ∈ sup := by
    split
    · assumption
    · exact headD_mem h
  have hmem : serverAnswerG sup choice r ∈ sup := by
    unfold serverAnswerG
    split
    · split
      · assumption
      · exact hfb
    · exact hfb
  refine ⟨hmem, ?_, rfl, rfl⟩
  intro s hr
  subst hr
  constructor
  · intro he; rwa [he] at hmem
  · intro hs; simp [serverAnswerG, hs]

/-- Sequences, whatever the choices. -/
theorem c04_session_records_answer_seq_any_choice (sup : List String) (h : sup ≠ [])
    (steps : List InitStepG) (st : List String) :
    ∀ o ∈ (runInitsG sup st steps).1, o.2 = some o.1 ∧ o.1 ∈ sup := by
  induction steps generalizing st with
  | nil => simp [runInitsG]
  | cons s rest ih =>
    obtain ⟨r, carry, choice⟩ := s
    have hm := (c04_any_choice sup choice r h).1
    intro o ho
    simp only [runInitsG, List.mem_cons] at ho
    rcases ho with ho | ho
    · subst ho
      simp [handleInitializeG, hm]
    · exact ih _ o ho

/-- Later requests do not reach back: what was answered and recorded for the first requests of a
sequence is the same whatever follows them on the same handler (so an answer serialised only
after later requests were handled, or a session looked up later, reads the same). -/
theorem c04_earlier_answers_unaffected (sup : List String) (xs ys : List InitStepG) (st : List String) :
    ((runInitsG sup st (xs ++ ys)).1.take xs.length) = (runInitsG sup st xs).1 := by
  induction xs generalizing st with
  | nil => simp [runInitsG]
  | cons x rest ih =>
    obtain ⟨r, carry, choice⟩ := x
    simp only [List.cons_append, runInitsG, List.length_cons, List.take_succ_cons, ih]

example : (runInitsG ["2025-06-18", "2024-11-05"] []
      [(.str "2024-11-05", none, ""), (.str "2025-06-18", none, ""), (.str "1999-01-01", some 0, "2024-11-05")]).1
    = [("2024-11-05", some "2024-11-05"), ("2025-06-18", some "2025-06-18"), ("2024-11-05", some "2024-11-05")] := by decide

/-- Handlers are independent: with any number of handlers alive in one process and their requests
interleaved in any order, what one handler answers and records is what it would answer and record
if it were alone with its own requests. -/
theorem c04_handlers_independent (sup : List String) (stores : Nat → List String)
    (steps : List (Nat × InitStepG)) (h : Nat) :
    ((runHandlers sup stores steps).filter (fun x => x.1 = h)).map (·.2)
      = (runInitsG sup (stores h) ((steps.filter (fun x => x.1 = h)).map (·.2))).1 := by
  induction steps generalizing stores with
  | nil => simp [runHandlers, runInitsG]
  | cons x rest ih =>
    obtain ⟨k, r, carry, choice⟩ := x
    by_cases hk : k = h
    · subst hk
      simp only [runHandlers, List.filter_cons, decide_true, if_true, List.map_cons, runInitsG, ih]
    · have hk' : ¬ h = k := fun e => hk e.symm
      simp only [runHandlers, List.filter_cons, hk, decide_false, Bool.false_eq_true, if_false]
      rw [ih]
      simp [hk']

example : runHandlers ["2025-06-18", "2024-11-05"] (fun _ => [])
      [(0, .str "2024-11-05", none, ""), (1, .str "1999-01-01", none, ""), (0, .str "2025-06-18", some 0, "")]
    = [(0, "2024-11-05", some "2024-11-05"), (1, "2025-06-18", some "2025-06-18"), (0, "2025-06-18", some "2025-06-18")] := by
  decide

/-- Handshake, whatever the server's choice: agreed on a version both support (recorded by the
session), or mismatch without the notification. -/
theorem c04_handshake_sound_any_choice (c : List String) (pref : Option String) (s : List String)
    (choice : String) (hs : s ≠ []) :
    (∀ v w sess, handshakeG c pref s choice = (.ok v, w, sess) → v ∈ c ∧ v ∈ s ∧ sess = some v)
    ∧ (c ≠ [] → (∃ v, (handshakeG c pref s choice).1 = .ok v)
        ∨ ((handshakeG c pref s choice).1 = .mismatch ∧ Ev.sent .initialized ∉ (handshakeG c pref s choice).2.1)) := by
  constructor
  · intro v w sess h
    unfold handshakeG at h
    split at h
    · simp at h
    · rename_i p hp
      simp only [Prod.mk.injEq] at h
      obtain ⟨h1, h2, h3⟩ := h
      have hc : clientInit c pref (.version (handleInitializeG s choice (.str p)).answered) = (.ok v, w) := by
        rw [← h1, ← h2]
      obtain ⟨hv, ha⟩ := Verif.Lemmas.Version.clientInit_ok hc
      simp only [Answer.version.injEq] at ha
      have hm : (handleInitializeG s choice (.str p)).answered ∈ s := (c04_any_choice s choice (.str p) hs).1
      refine ⟨hv, ha ▸ hm, ?_⟩
      rw [← h3]
      exact congrArg some ha
  · intro hc
    obtain ⟨p, hp⟩ := proposed_isSome pref hc
    unfold handshakeG
    rw [hp]
    simp only []
    generalize (handleInitializeG s choice (.str p)).answered = a
    unfold clientInit
    rw [hp]
    simp only []
    split
    · left; exact ⟨a, rfl⟩
    · right; simp

example : serverAnswerG ["2025-06-18", "2024-11-05"] "2024-11-05" (.str "1999-01-01") = "2024-11-05"
    ∧ serverAnswerG ["2025-06-18", "2024-11-05"] "1999-01-01" (.str "1999-01-01") = "2025-06-18"
    ∧ serverAnswerG ["2025-06-18", "2024-11-05"] "2025-06-18" (.str "2024-11-05") = "2024-11-05"
    ∧ serverAnswerG ["2025-06-18", "2024-11-05"] "garbage" .other = "2025-06-18" := by decide

/-! ## The version utilities of `protocol/types/versioning.py` (supplementary)

`negotiateGen`, `compatibleGen`, `compareGen`, `isNewerGen`, `isOlderGen`, `isSupportedGen`,
`latestGen`, `minimumGen`, `allSupportedGen` are REGENERATED from the source of
`negotiate_version`, `validate_version_compatibility`, `ProtocolVersion.compare / is_newer /
is_older / is_supported / get_latest_supported / get_minimum_supported / get_all_supported` on
every run (`Gen/VersionLib.lean`); `none` = the function raises.  Strings are `List Char`,
`strLt` is Python's `<` on `str`. -/
section VersionLib
open Verif.Model.Batching Verif.Model.VersionLib Verif.Gen.VersionLib Verif.Lemmas.VersionLib
open Verif.Lemmas.Batching Verif.Model.VersionInfo

/-- every fragment of the version utilities was inside the translator's subset, and the regular
expression of `validate_format` is the one whose matching is modelled -/
theorem c04_versionlib_translated :
    Verif.Gen.VersionLib.translatable = true ∧ formatPattern = "^\\d{4}-\\d{2}-\\d{2}$" := by decide

/-- `negotiate_version` returns `v` iff `v` is the FIRST client version the server list contains:
it is in both lists and nothing before it in the client's list is common (all lists, duplicates
and empty lists included). -/
theorem c04_negotiate_first_common (c s : List (List Char)) (v : List Char) :
    negotiateGen c s = some v ↔
      ∃ pre post, c = pre ++ v :: post ∧ v ∈ s ∧ ∀ x ∈ pre, x ∉ s := by
  unfold negotiateGen
  constructor
  · intro h
    split at h
    · rename_i r hr
      simp only [Option.some.injEq] at h
      subst h
      obtain ⟨hp, pre, post, hc, hpre⟩ := List.find?_eq_some_iff_append.mp hr
      exact ⟨pre, post, hc, by simpa using hp, fun x hx => by simpa using hpre x hx⟩
    · simp at h
  · rintro ⟨pre, post, hc, hv, hpre⟩
    have : c.find? (fun x => s.contains x) = some v :=
      List.find?_eq_some_iff_append.mpr ⟨by simpa using hv, pre, post, hc, fun x hx => by simpa using hpre x hx⟩
    rw [this]

/-- ... it raises iff the two lists have no common version; what it returns is in both lists. -/
theorem c04_negotiate_raises_iff_disjoint (c s : List (List Char)) :
    (negotiateGen c s = none ↔ ∀ x ∈ c, x ∉ s)
    ∧ (∀ v, negotiateGen c s = some v → v ∈ c ∧ v ∈ s) := by
  constructor
  · unfold negotiateGen
    constructor
    · intro h
      split at h
      · simp at h
      · rename_i hn
        intro x hx
        simpa using List.find?_eq_none.mp hn x hx
    · intro h
      have : c.find? (fun x => s.contains x) = none :=
        List.find?_eq_none.mpr (fun x hx => by simpa using h x hx)
      rw [this]
  · intro v hv
    obtain ⟨pre, post, hc, hs, _⟩ := (c04_negotiate_first_common c s v).mp hv
    exact ⟨by simp [hc], hs⟩

example : negotiateGen ["2025-06-18".toList, "2024-11-05".toList, "2025-03-26".toList]
      ["2025-03-26".toList, "2024-11-05".toList] = some "2024-11-05".toList
    ∧ negotiateGen ["x".toList] ["y".toList] = none ∧ negotiateGen [] ["y".toList] = none := by decide

/-- `validate_version_compatibility`: true exactly for two EQUAL versions that are SUPPORTED. -/
theorem c04_compatible_iff (a b : List Char) :
    (compatibleGen a b = some true ↔ a = b ∧ a ∈ supportedL)
    ∧ compatibleGen a b ≠ none ∧ (isSupportedGen a = true ↔ a ∈ supportedL) := by
  simp [compatibleGen, isSupportedGen, isSupportedGenO]

example : compatibleGen "2025-06-18".toList "2025-06-18".toList = some true
    ∧ compatibleGen "2025-06-18".toList "2025-03-26".toList = some false
    ∧ compatibleGen "1999-01-01".toList "1999-01-01".toList = some false := by decide

/-- `compare`: `0` exactly on equal strings (well-formed or not); otherwise it raises iff one of the
two is not well-formed, and on two different well-formed versions it is `1` or `-1` by the string
order. -/
theorem c04_compare_spec (a b : List Char) :
    (compareGen a b = some 0 ↔ a = b)
    ∧ (compareGen a b = none ↔ a ≠ b ∧ (validateFormatGen a = false ∨ validateFormatGen b = false))
    ∧ (a ≠ b → validateFormatGen a = true → validateFormatGen b = true →
        compareGen a b = some (if strLt b a then 1 else -1)) := by
  unfold compareGen
  by_cases hab : a = b
  · simp [hab]
  · by_cases ha : validateFormatGen a = true <;> by_cases hb : validateFormatGen b = true <;>
      simp [hab, ha, hb] <;> split <;> simp

/-- `compare` is a strict total order on well-formed versions: antisymmetric, transitive, total;
`is_newer` / `is_older` are its two strict halves. -/
theorem c04_compare_total_order (a b c : List Char) (ha : validateFormatGen a = true)
    (hb : validateFormatGen b = true) (hc : validateFormatGen c = true) :
    (compareGen a b = some 1 ↔ compareGen b a = some (-1))
    ∧ (compareGen a b = some 1 → compareGen b c = some 1 → compareGen a c = some 1)
    ∧ (compareGen a b = some 0 ∨ compareGen a b = some 1 ∨ compareGen a b = some (-1))
    ∧ (isNewerGen a b = some true ↔ compareGen a b = some 1)
    ∧ (isOlderGen a b = some true ↔ compareGen a b = some (-1)) := by
  have key : ∀ x y : List Char, validateFormatGen x = true → validateFormatGen y = true →
      (compareGen x y = some 1 ↔ strLt y x = true) ∧ (compareGen x y = some (-1) ↔ (x ≠ y ∧ strLt y x = false)) := by
    intro x y hx hy
    by_cases hxy : x = y
    · subst hxy
      have := (c04_compare_spec x x).1.mpr rfl
      simp [this, strLt_irrefl]
    · have := (c04_compare_spec x y).2.2 hxy hx hy
      rw [this]
      by_cases hl : strLt y x = true <;> simp [hl, hxy]
  refine ⟨?_, ?_, ?_, ?_, ?_⟩
  · rw [(key a b ha hb).1, (key b a hb ha).2]
    constructor
    · intro h
      refine ⟨?_, strLt_asymm b a h⟩
      intro e; subst e; simp [strLt_irrefl] at h
    · rintro ⟨hne, h⟩
      rcases strLt_total a b (fun e => hne e.symm) with h1 | h1
      · simp [h1] at h
      · exact h1
  · rw [(key a b ha hb).1, (key b c hb hc).1, (key a c ha hc).1]
    intro h1 h2
    exact strLt_trans c b a h2 h1
  · by_cases hab : a = b
    · left; exact (c04_compare_spec a b).1.mpr hab
    · right
      rw [(c04_compare_spec a b).2.2 hab ha hb]
      by_cases hl : strLt b a = true <;> simp [hl]
  · have tri : compareGen a b = some 0 ∨ compareGen a b = some 1 ∨ compareGen a b = some (-1) := by
      by_cases hab : a = b
      · left; exact (c04_compare_spec a b).1.mpr hab
      · right
        rw [(c04_compare_spec a b).2.2 hab ha hb]
        by_cases hl : strLt b a = true <;> simp [hl]
    rcases tri with h | h | h <;> simp [isNewerGen, h]
  · have tri : compareGen a b = some 0 ∨ compareGen a b = some 1 ∨ compareGen a b = some (-1) := by
      by_cases hab : a = b
      · left; exact (c04_compare_spec a b).1.mpr hab
      · right
        rw [(c04_compare_spec a b).2.2 hab ha hb]
        by_cases hl : strLt b a = true <;> simp [hl]
    rcases tri with h | h | h <;> simp [isOlderGen, h]

/-- On the padded ASCII format `dddd-dd-dd` the order of `compare` IS the date order of
`parse_version`: for all sixteen digits, `compare(v, w) = 1` iff `w`'s (year, month, day) is before
`v`'s, `-1` iff after, `0` iff the same date; and `parse_version` reads the digits. -/
theorem c04_compare_is_date_order (a b c d e f g h a' b' c' d' e' f' g' h' : Nat)
    (ha : a < 10) (hb : b < 10) (hc : c < 10) (hd : d < 10) (he : e < 10) (hf : f < 10) (hg : g < 10)
    (hh : h < 10) (ha' : a' < 10) (hb' : b' < 10) (hc' : c' < 10) (hd' : d' < 10) (he' : e' < 10)
    (hf' : f' < 10) (hg' : g' < 10) (hh' : h' < 10) :
    ∃ p q, parseVersionGen (fmt a b c d e f g h) = some p ∧ parseVersionGen (fmt a' b' c' d' e' f' g' h') = some q
      ∧ p = (1000 * a + 100 * b + 10 * c + d, 10 * e + f, 10 * g + h)
      ∧ (compareGen (fmt a b c d e f g h) (fmt a' b' c' d' e' f' g' h') = some 1 ↔ dateLtN q p)
      ∧ (compareGen (fmt a b c d e f g h) (fmt a' b' c' d' e' f' g' h') = some (-1) ↔ dateLtN p q)
      ∧ (compareGen (fmt a b c d e f g h) (fmt a' b' c' d' e' f' g' h') = some 0 ↔ p = q) := by
  have hp := parseGen_fmt a b c d e f g h ha hb hc hd he hf hg hh
  have hq := parseGen_fmt a' b' c' d' e' f' g' h' ha' hb' hc' hd' he' hf' hg' hh'
  have hv := validGen_fmt a b c d e f g h ha hb hc hd he hf hg hh
  have hv' := validGen_fmt a' b' c' d' e' f' g' h' ha' hb' hc' hd' he' hf' hg' hh'
  have hl := strLt_fmt a' b' c' d' e' f' g' h' a b c d e f g h ha' hb' hc' hd' he' hf' hg' hh' ha hb hc hd he hf hg hh
  have hinj : fmt a b c d e f g h = fmt a' b' c' d' e' f' g' h' ↔
      (a = a' ∧ b = b' ∧ c = c' ∧ d = d' ∧ e = e' ∧ f = f' ∧ g = g' ∧ h = h') := by
    simp [fmt, digitChar_inj, *]
  refine ⟨_, _, hp, hq, rfl, ?_, ?_, ?_⟩
  · by_cases hxy : fmt a b c d e f g h = fmt a' b' c' d' e' f' g' h'
    · have h0 := (c04_compare_spec _ _).1.mpr hxy
      rw [h0]
      have := hinj.mp hxy
      simp only [dateLtN]
      constructor
      · intro hh0; simp at hh0
      · intro hd0; omega
    · rw [(c04_compare_spec _ _).2.2 hxy hv hv', hl]
      simp only [dateLtN, lexLt]
      have hne := fun hall => hxy (hinj.mpr hall)
      grind (splits := 200)
  · by_cases hxy : fmt a b c d e f g h = fmt a' b' c' d' e' f' g' h'
    · have h0 := (c04_compare_spec _ _).1.mpr hxy
      rw [h0]
      have := hinj.mp hxy
      simp only [dateLtN]
      constructor
      · intro hh0; simp at hh0
      · intro hd0; omega
    · rw [(c04_compare_spec _ _).2.2 hxy hv hv', hl]
      simp only [dateLtN, lexLt]
      have hne := fun hall => hxy (hinj.mpr hall)
      grind (splits := 200)
  · rw [(c04_compare_spec _ _).1, hinj]
    simp only [Prod.mk.injEq]
    constructor
    · rintro ⟨rfl, rfl, rfl, rfl, rfl, rfl, rfl, rfl⟩; exact ⟨rfl, rfl, rfl⟩
    · intro ⟨h1, h2, h3⟩; omega

/-- The regenerated `compare` is the `pvCompare` of C13's model on ASCII text, so C13's cutoff
theorem (`c13_agrees_with_compare`: `compare(v, "2025-06-18") = -1` iff `supports_batching(v)`)
speaks about the function as the source defines it now. -/
theorem c04_compare_matches_c13_model (a b c d e f g h : Nat)
    (ha : a < 10) (hb : b < 10) (hc : c < 10) (hd : d < 10) (he : e < 10) (hf : f < 10) (hg : g < 10)
    (hh : h < 10) :
    compareGen (fmt a b c d e f g h) cutoff = (pvCompare (fmt a b c d e f g h) cutoff).toOption
    ∧ compareGen cutoff (fmt a b c d e f g h) = (pvCompare cutoff (fmt a b c d e f g h)).toOption := by
  have hv := validGen_fmt a b c d e f g h ha hb hc hd he hf hg hh
  have hv2 := valid_fmt a b c d e f g h ha hb hc hd he hf hg hh
  have hc1 : validateFormatGen cutoff = true := by decide
  have hc2 : validFormat cutoff = true := valid_cutoff
  constructor
  · by_cases hxy : fmt a b c d e f g h = cutoff
    · rw [(c04_compare_spec _ _).1.mpr hxy]
      simp [pvCompare, hxy, Except.toOption]
    · rw [(c04_compare_spec _ _).2.2 hxy hv hc1]
      simp [pvCompare, hxy, hv2, hc2, Except.toOption]
  · by_cases hxy : cutoff = fmt a b c d e f g h
    · rw [(c04_compare_spec _ _).1.mpr hxy]
      simp [pvCompare, hxy, Except.toOption]
    · rw [(c04_compare_spec _ _).2.2 hxy hc1 hv]
      simp [pvCompare, hxy, hv2, hc2, Except.toOption]

/-- `parse_version` raises exactly on what `validate_format` rejects (Unicode digits of any script,
one trailing newline included in "accepts"). -/
theorem c04_parse_iff_valid (v : List Char) :
    parseVersionGen v = none ↔ validateFormatGen v = false := by
  have hnd : ∀ c, isNd ndZeros c = true → ∃ d, ndVal ndZeros c = some d := by
    intro c hc
    unfold isNd at hc
    unfold ndVal
    obtain ⟨z, hz, hp⟩ := List.any_eq_true.mp hc
    cases hf : ndZeros.find? (fun z => decide (z ≤ c.toNat) && decide (c.toNat ≤ z + 9)) with
    | none => exact absurd hp (by simpa using List.find?_eq_none.mp hf z hz)
    | some w => exact ⟨_, rfl⟩
  unfold parseVersionGen parseVersionU validateFormatGen
  by_cases hv : validFormatU ndZeros v = true
  · simp only [hv, if_true]
    constructor
    · intro h
      exfalso
      unfold validFormatU at hv
      split at hv
      · simp only [Bool.and_eq_true, decide_eq_true_eq] at hv
        obtain ⟨⟨⟨⟨⟨⟨⟨⟨⟨h1, h2⟩, h3⟩, h4⟩, _⟩, h5⟩, h6⟩, _⟩, h7⟩, h8⟩ := hv
        obtain ⟨_, e1⟩ := hnd _ h1; obtain ⟨_, e2⟩ := hnd _ h2; obtain ⟨_, e3⟩ := hnd _ h3
        obtain ⟨_, e4⟩ := hnd _ h4; obtain ⟨_, e5⟩ := hnd _ h5; obtain ⟨_, e6⟩ := hnd _ h6
        obtain ⟨_, e7⟩ := hnd _ h7; obtain ⟨_, e8⟩ := hnd _ h8
        simp [ndNumber, e1, e2, e3, e4, e5, e6, e7, e8] at h
      · simp only [Bool.and_eq_true, decide_eq_true_eq] at hv
        obtain ⟨⟨⟨⟨⟨⟨⟨⟨⟨⟨h1, h2⟩, h3⟩, h4⟩, _⟩, h5⟩, h6⟩, _⟩, h7⟩, h8⟩, _⟩ := hv
        obtain ⟨_, e1⟩ := hnd _ h1; obtain ⟨_, e2⟩ := hnd _ h2; obtain ⟨_, e3⟩ := hnd _ h3
        obtain ⟨_, e4⟩ := hnd _ h4; obtain ⟨_, e5⟩ := hnd _ h5; obtain ⟨_, e6⟩ := hnd _ h6
        obtain ⟨_, e7⟩ := hnd _ h7; obtain ⟨_, e8⟩ := hnd _ h8
        simp [ndNumber, e1, e2, e3, e4, e5, e6, e7, e8] at h
      · simp at hv
    · intro h; simp at h
  · simp [hv]

example : parseVersionGen "2025-06-18".toList = some (2025, 6, 18)
    ∧ parseVersionGen "2025-06-18\n".toList = some (2025, 6, 18)
    ∧ parseVersionGen "٢٠٢٥-٠٦-١٨".toList = some (2025, 6, 18)
    ∧ parseVersionGen "2025-6-18".toList = none ∧ parseVersionGen "2025-06-18\n\n".toList = none
    ∧ parseVersionGen " 2025-06-18".toList = none := by decide

/-- The library's own list (regenerated): `CURRENT_VERSION` / `MINIMUM_VERSION` are its first / last
entry, every entry is well-formed, the list is strictly descending in `compare`'s order, so every
supported version lies between the minimum and the current one. -/
theorem c04_current_minimum_bounds :
    latestGen = some (supportedL.head?.getD []) ∧ minimumGen = some (supportedL.getLast?.getD [])
    ∧ allSupportedGen = some supportedL
    ∧ (∀ v ∈ supportedL, validateFormatGen v = true)
    ∧ supportedL.Pairwise (fun x y => compareGen x y = some 1)
    ∧ (∀ v ∈ supportedL, ∀ cur ∈ latestGen, ∀ mn ∈ minimumGen,
        (compareGen v cur = some 0 ∨ compareGen v cur = some (-1))
        ∧ (compareGen v mn = some 0 ∨ compareGen v mn = some 1)) := by
  refine ⟨rfl, rfl, rfl, by decide, by decide, by decide⟩

/-- `get_version_info`: its flags are the predicates; the date members and the two order flags are
present exactly for a well-formed version; a well-formed version is never both newer than the
current and older than the minimum; the current version is supported and neither. -/
theorem c04_version_info_flags (v : List Char) :
    (versionInfo v).isValid = validateFormatGen v
    ∧ (versionInfo v).isSupported = isSupportedGen v
    ∧ ((versionInfo v).isCurrent = true ↔ some v = latestGen)
    ∧ ((versionInfo v).details.isSome = true → validateFormatGen v = true)
    ∧ (∀ dt ∈ (versionInfo v).details,
        parseVersionGen v = some (dt.year, dt.month, dt.day)
        ∧ isNewerGen v (latestGen.getD []) = some dt.newerThanCurrent
        ∧ isOlderGen v (minimumGen.getD []) = some dt.olderThanMinimum) := by
  refine ⟨rfl, rfl, ?_, ?_, ?_⟩
  · simp [versionInfo, latestGen]
  · intro h
    unfold versionInfo at h
    simp only at h
    split at h
    · assumption
    · simp at h
  · intro dt hdt
    unfold versionInfo at hdt
    simp only [Option.mem_def] at hdt
    split at hdt
    · split at hdt
      · rename_i y m d n o h1 h2 h3
        simp only [Option.some.injEq] at hdt
        subst hdt
        exact ⟨h1, h2, h3⟩
      · simp at hdt
    · simp at hdt

example : versionInfo "2025-03-26".toList = ⟨true, true, false, some ⟨2025, 3, 26, false, false⟩⟩
    ∧ versionInfo "2025-06-18".toList = ⟨true, true, true, some ⟨2025, 6, 18, false, false⟩⟩
    ∧ versionInfo "2031-01-01".toList = ⟨true, false, false, some ⟨2031, 1, 1, true, false⟩⟩
    ∧ versionInfo "1999-12-31".toList = ⟨true, false, false, some ⟨1999, 12, 31, false, true⟩⟩
    ∧ versionInfo "draft".toList = ⟨false, false, false, none⟩ := by decide

example : formatVersionList [] = "None".toList ∧ formatVersionList ["a".toList] = "a".toList
    ∧ formatVersionList ["a".toList, "b".toList] = "a and b".toList
    ∧ formatVersionList ["a".toList, "b".toList, "c".toList] = "a, b and c".toList := by decide

end VersionLib

end Verif.Props.C04
