import Verif.Lemmas.Rpc
import Verif.Lemmas.RpcExt
import Verif.Gen.Methods

/-! # C02 — everything emitted is valid JSON-RPC 2.0 and survives the library's own parser

Model: `Verif/Model/Rpc.lean`.  `Built m` is the inductive closure of the library's emitters
(message constructors, legacy class methods, the server handler's response builders,
`send_message`'s request building with progress-token injection, the notification senders, the
dict-shaped errors of the batch processor and the HTTP/SSE transports).  Payloads (`params`,
`result`, `error.data`) are arbitrary JSON values — any depth, nulls anywhere, integers of any
size; ids are integers of any size or arbitrary strings (empty and digit strings included).

"Same kind … identical id, method, params, result and error" is `parseMsg (emit m) = .ok (view m)`
where `view m` lists exactly those members of `m` (the id keeps its constructor `int`/`str`, i.e.
its JSON type) and `kindOfView` reads the kind off member presence, as callers of
`parse_message` must (it returns the legacy unified class for most inputs).
-/
set_option linter.unusedSimpArgs false
namespace Verif.Props.C02
open Verif.Model.Json Verif.Model.Rpc

/-- Every emitted message is a valid JSON-RPC 2.0 object: version "2.0"; a request carries a
string-or-integer id and a string method; a notification carries no id; a response carries
exactly one of result / error, and an error object has an integer code and a string message. -/
theorem c02_emit_valid (m : Msg) (h : Built m) : valid (emit m) = true :=
  emit_valid_of_ok m (built_ok h)

/-- Parsing the emitted form with the library's own parser yields a message of the same kind
with identical id (value and JSON type), method, params, result and error — all payloads, all ids. -/
theorem c02_parse_emit (m : Msg) (h : Built m) :
    parseMsg (emit m) = .ok (view m) ∧ kindOfView (view m) = kind m :=
  ⟨parse_emit_of_ok m (built_ok h), kind_view_of_ok m (built_ok h)⟩

/-- Top-level `exclude_none` never touches the payload: the `params` / `result` / `error` members
of the wire object are the payload itself, whatever nulls are nested inside it. -/
theorem c02_nested_null_preserved (m : Msg) (h : Built m) :
    memberOf kParams (emit m) = (view m).params ∧ memberOf kResult (emit m) = (view m).result ∧
    memberOf kError (emit m) = (view m).error :=
  members_of_ok m (built_ok h)

/-- … spelled out for the three payload positions (no hypothesis on the payload at all). -/
theorem c02_payload_verbatim (id : Id) (method : Str) (p : Obj) (r : Json) (code : Int) (msg : Str) (d : Json)
    (hr : r ≠ .null) (hd : d ≠ .null) :
    memberOf kParams (emit (createNotification method (some p))) = some (.obj p) ∧
    (∀ m, createResponse (some id) r = .ok m → memberOf kResult (emit m) = some r) ∧
    (∀ m, createErrorResponse (some id) code msg d = .ok m →
      ∃ e, memberOf kError (emit m) = some (.obj e) ∧ getKey kData e = some d) := by
  refine ⟨?_, ?_, ?_⟩
  · simp [createNotification, emit, memberOf, getKey, optParams, kJsonrpc, kId, kMethod, kParams]
  · intro m hm
    have hm' : m = .response id r := by cases r <;> simp_all [createResponse]
    subst hm'
    simp [emit, member_ne_null _ r hr, memberOf, getKey, kJsonrpc, kId, kResult]
  · intro m hm
    simp only [createErrorResponse] at hm
    cases hm
    refine ⟨errObj code msg d, by simp [emit, memberOf, getKey, kJsonrpc, kId, kError], ?_⟩
    cases d <;> simp_all [errObj, getKey, kCode, kMessage, kData]

/-- The wire: encode the emitted object with ANY of the compact encoder styles a transport's
serialiser uses (separators with or without a space, raw UTF-8 or `ensure_ascii`), decode it
(C17's `dec`), parse it: the same message comes back.  `wfMsg` only says that float tokens in
the payload are well-formed. -/
theorem c02_wire_roundtrip (st : Style) (m : Msg) (h : Built m) (hw : wfMsg m = true) :
    (dec (enc st (emit m))).map parseMsg = some (.ok (view m)) := by
  rw [dec_enc st (emit m) (wf_emit m hw)]
  simp [(c02_parse_emit m h).1]

/-- … and the encoded message is a single line. -/
theorem c02_wire_single_line (st : Style) (m : Msg) (hw : wfMsg m = true) :
    '\n' ∉ enc st (emit m) ∧ '\r' ∉ enc st (emit m) :=
  enc_noBreak st (emit m) (wf_emit m hw)

/-- The constructors raise exactly when they are given no id (the envelope classes require one)
or a `_meta` that is not an object; otherwise their output is `Built`. -/
theorem c02_constructor_errors (id : Option Id) (result : Json) (code : Int) (msg : Str) (data : Json) :
    (createResponse id result = .error .noId ↔ id = none) ∧
    (createErrorResponse id code msg data = .error .noId ↔ id = none) := by
  cases id <;> simp [createResponse, createErrorResponse]

/-! Non-vacuity: concrete emitted messages with nested nulls, a 2^64−1 id, a digit-string id,
an empty-string id, and the `null`-id batch rejection. -/
def payload : Obj := [(['a'], .null), (['b'], .arr [.null, .obj [(['c'], .null)]]), (['d'], .obj [])]

example : Built (.request (.int 18446744073709551615) ['m'] (some payload)) :=
  .createRequest (method := ['m']) (params := some payload) (id := some (.int 18446744073709551615))
    (fresh := []) (tok := none) rfl
example : Built (.response (.str ['1', '2', '3']) (.obj [])) :=
  .createResponse (id := some (.str ['1', '2', '3'])) (result := .null) rfl
example : Built (.error none (errObj (-32600) ['x'] .null)) := .dictError none (-32600) ['x'] .null
example : createErrorResponse none 1 [] .null = .error .noId := rfl
example : sendMessageRequest ['t'] (some [(kMeta, .str ['x'])]) none ['u'] ['v'] true = .error .metaNotDict := rfl
example : sendMessageRequest ['t'] none (some (.int 7)) ['u'] ['v'] false = .ok (.request (.int 7) ['t'] none) := rfl
example : ∃ m, sendMessageRequest ['t'] (some payload) (some (.str [])) ['u'] ['v'] true = .ok m ∧
    memberOf kParams (emit m) = some (.obj (payload ++ [(kMeta, .obj [(kProgressToken, .str ['v'])])])) ∧
    (view m).id = some (.str ['u']) := ⟨_, rfl, rfl, rfl⟩
example : valid (emit (.response (.int 1) .null)) = false := by decide

/-! ## Extension: the notification layer, the error classes and the client-side answers

`Verif.Gen.Methods` is REGENERATED from the source on every run (the `MessageMethod` enum, the method
each `send_*_notification` emits, the method each `handle_*_notification` listens to, the list
`NotificationHandler.register_defaults` registers, the completion truncation limit, the default
error codes of the exception classes). -/

open Verif.Gen.Methods in
/-- the translator covered every fragment it was asked for -/
theorem c02_methods_translated : Verif.Gen.Methods.translatable = true := by decide

open Verif.Gen.Methods in
/-- Consistency of the method strings in the source: every sender emits, every handler listens to and
every default registration names a member of `MessageMethod`; sender and handler of the same
notification use the SAME string; no method is registered twice by `register_defaults`. -/
theorem c02_method_tables_consistent :
    (∀ s ∈ senders, s.2 ∈ methods.map (·.2)) ∧ (∀ h ∈ handlers, h.2 ∈ methods.map (·.2)) ∧
    (∀ d ∈ defaults, d ∈ methods.map (·.2)) ∧ (∀ p ∈ pairs, p.2.1 = p.2.2) ∧ defaults.Nodup ∧
    (methods.map (·.2)).Nodup := by
  decide +kernel

/-- Every notification sender emits a `Built` message (hence valid, and parsed back to itself by
`c02_emit_valid` / `c02_parse_emit`), whatever the token / id type, progress values, texts. -/
theorem c02_notification_senders_built (m : Str) (tok rid : Id) (p t msg reason : Json) :
    Built (sendProgress m tok p t msg) ∧ Built (sendCancelled m rid reason) ∧ Built (sendListChanged m) :=
  ⟨.sendNotification _ _, .sendNotification _ _, .sendNotification _ _⟩

/-- Sender → wire → handler: the callback of `handle_progress_notification` receives exactly the token
(with its JSON type), progress, total and message that `send_progress_notification` was given
(`null` = the optional argument was `None`); likewise for cancellations and the list-changed family. -/
theorem c02_notification_delivered (m : Str) (tok rid : Id) (p t msg reason : Json) :
    handleProgress m (objOf (emit (sendProgress m tok p t msg))) = .ok (some [tok.toJson, p, t, msg]) ∧
    handleCancelled m (objOf (emit (sendCancelled m rid reason))) = .ok (some [rid.toJson, reason]) ∧
    handleListChanged m (objOf (emit (sendListChanged m))) = .ok (some []) :=
  ⟨progress_delivered m tok p t msg, cancelled_delivered m rid reason, listChanged_delivered m⟩

/-- A handler never calls back for another method, and raises only when `params` is present and is
not an object. -/
theorem c02_handler_guard (m : Str) (n : Obj) :
    (methodIs n m = false →
      handleProgress m n = .ok none ∧ handleCancelled m n = .ok none ∧ handleLogging m n = .ok none ∧
      handleListChanged m n = .ok none ∧ handleResourcesUpdated m n = .ok none) ∧
    (∀ p, paramsOf n = .ok p →
      (∃ c, handleProgress m n = .ok c) ∧ (∃ c, handleCancelled m n = .ok c) ∧ (∃ c, handleLogging m n = .ok c) ∧
      (∃ c, handleResourcesUpdated m n = .ok c)) := by
  constructor
  · intro h; simp [handleProgress, handleCancelled, handleLogging, handleListChanged, handleResourcesUpdated, h]
  · intro p hp
    by_cases h : methodIs n m = true <;>
      simp [handleProgress, handleCancelled, handleLogging, handleResourcesUpdated, h, hp]

/-- `NotificationHandler`: a notification is routed to the LAST handler registered for its method;
one without a method, with an empty method or with an unregistered method is ignored; `handle` itself
raises only for an unhashable (list / object) method, and never because a handler raised (the outcome
does not depend on what the handler does). -/
theorem c02_notification_handler_dispatch {α : Type} (hs : List (Str × α)) (m m' : Str) (h : α) (n : Obj) :
    nhLookup (nhRegister hs m h) m = some h ∧
    (m' ≠ m → nhLookup (nhRegister hs m h) m' = nhLookup hs m') ∧
    (getKey kMethod n = some (.str m) → m ≠ [] → nhHandle hs n = .ok (nhLookup hs m)) ∧
    (getKey kMethod n = none ∨ getKey kMethod n = some .null ∨ getKey kMethod n = some (.str []) → nhHandle hs n = .ok none) := by
  refine ⟨nhLookup_register_same hs m h, nhLookup_register_other hs m m' h, ?_, ?_⟩
  · intro hm hne
    cases m with
    | nil => exact absurd rfl hne
    | cons c cs => simp [nhHandle, hm, truthy]
  · rintro (hm | hm | hm) <;> simp [nhHandle, hm, truthy]

/-- `register_defaults` leaves a handler for every method of its list. -/
theorem c02_register_defaults {α : Type} (hs : List (Str × α)) (ms : List Str) (h : α) :
    ∀ m ∈ ms, nhLookup (nhRegisterAll hs ms h) m = some h :=
  fun m hm => nhLookup_registerAll ms h hs m hm

/-- The kind predicates of the message classes agree with the kind of every emitted message
(`is_response` / `is_error_response` are false for the null-id error dicts, which have no id). -/
theorem c02_kind_predicates (m : Msg) (h : Built m) :
    isRequest (view m) = decide (kind m = .request) ∧
    isNotification (view m) = decide (kind m = .notification) ∧
    (isResponse (view m) = true ↔ (kind m = .response ∨ (kind m = .error ∧ (view m).id.isSome = true))) ∧
    (isErrorResponse (view m) = true ↔ (kind m = .error ∧ (view m).id.isSome = true)) := by
  have hk := built_ok h
  cases m with
  | request id method params => simp [view, kind, isRequest, isNotification, isResponse, isErrorResponse]
  | notification method params => simp [view, kind, isRequest, isNotification, isResponse, isErrorResponse]
  | response id r => cases r <;> simp_all [Ok, view, kind, isRequest, isNotification, isResponse, isErrorResponse]
  | error id e => cases id <;> simp [view, kind, isRequest, isNotification, isResponse, isErrorResponse]

/-- `create_error_data` / `to_json_rpc_error()` of every exception class is a well-formed error object,
so an error response built from it is an emitted (`Built`) message; and
`VersionMismatchError.from_json_rpc_error` recovers what `to_json_rpc_error` wrote. -/
theorem c02_exception_error_objects (id : Option Id) (code : Int) (msg req : Str) (sup : List Str) (data : Json) :
    validErr (.obj (errorData code msg data)) = true ∧ Built (.error id (errorData code msg data)) ∧
    validErr (.obj (versionMismatchData code msg req sup)) = true ∧
    versionMismatchFrom (versionMismatchData code msg req sup) = .ok (.str req, .arr (sup.map .str)) := by
  refine ⟨validErr_errObj _ _ _, .dictError id code msg data, validErr_errObj _ _ _, ?_⟩
  simp [versionMismatchFrom, versionMismatchData, errObj, getKey, getOr, kCode, kMessage, kData, kSupported, kRequested]

/-- `handle_roots_list_request`: with an id the answer is an emitted response whose result is exactly
the roots list (names kept, `null` when a root has none); without an id the constructor raises. -/
theorem c02_roots_list_response (id : Option Id) (roots : List (Str × Json)) :
    (∀ i, id = some i → ∃ m, rootsListResponse id roots = .ok m ∧ Built m ∧
      memberOf kResult (emit m) = some (.obj [(kRoots, .arr (roots.map fun r => rootJson r.1 r.2))])) ∧
    (id = none → rootsListResponse id roots = .error .noId) := by
  constructor
  · intro i hi
    subst hi
    refine ⟨_, rfl, .createResponse (id := some i) (result := .obj [(kRoots, .arr (roots.map fun r => rootJson r.1 r.2))]) rfl, ?_⟩
    simp [emit, member, memberOf, getKey, kJsonrpc, kId, kResult]
  · intro hi; subst hi; rfl

/-- `SamplingHandler.handle_create_message_request`: a result exists exactly when the request was not
rejected and a provider is configured; its `model` is the selector's answer when a selector is set and
model preferences were given, `"default-model"` otherwise; role / content / stopReason are the
provider's; wrapped by `create_response` it is an emitted message carrying the result unchanged. -/
theorem c02_sampling_result (approval : Option Bool) (selected : Option Json) (prefs role content stop : Json) (id : Id) :
    (∀ r, samplingResult approval selected prefs (some (role, content, stop)) = .ok r →
      approval ≠ some false ∧ getKey kRole r = some role ∧ getKey kContent r = some content ∧ getKey kStopReason r = some stop ∧
      getKey kModel r = some (selectedModel selected prefs) ∧
      ∃ m, createResponse (some id) (.obj r) = .ok m ∧ Built m ∧ memberOf kResult (emit m) = some (.obj r)) ∧
    (approval = some false → samplingResult approval selected prefs (some (role, content, stop)) = .error .rejected) ∧
    (approval ≠ some false → samplingResult approval selected prefs none = .error .noProvider) := by
  refine ⟨?_, ?_, ?_⟩
  · intro r hr
    have hne : approval ≠ some false := by
      intro h; subst h; simp [samplingResult] at hr
    have hr' : r = [(kRole, role), (kContent, content), (kModel, selectedModel selected prefs), (kStopReason, stop)] := by
      cases approval with
      | none => simp [samplingResult] at hr; exact hr.symm
      | some b => cases b <;> simp_all [samplingResult]
    subst hr'
    refine ⟨hne, by simp [getKey], by simp [getKey, kRole, kContent], by simp [getKey, kRole, kContent, kModel, kStopReason],
      by simp [getKey, kRole, kContent, kModel], ?_⟩
    exact ⟨_, rfl, .createResponse (id := some id) (result := .obj _) rfl, by simp [emit, member, memberOf, getKey, kJsonrpc, kId, kResult]⟩
  · intro h; subst h; rfl
  · intro h
    cases approval with
    | none => rfl
    | some b => cases b <;> simp_all [samplingResult]

open Verif.Gen.Methods in
/-- `CompletionProvider.handle_completion_request`: at most `completionLimit` (regenerated: 100) values
are returned, they are a prefix of the handler's list, `hasMore` says whether something was cut and
`total` is the full count exactly when nothing was. -/
theorem c02_completion_truncation {α : Type} (values : List α) :
    (completionResult completionLimit values).1 = values.take completionLimit ∧
    (completionResult completionLimit values).1.length ≤ completionLimit ∧
    (completionResult completionLimit values).2.2 = decide (values.length > completionLimit) ∧
    (completionResult completionLimit values).2.1 = (if values.length > completionLimit then none else some values.length) :=
  completionResult_spec completionLimit values

/-- `complete_enum_value`: exactly the allowed values that start with the current value (compared
case-insensitively unless asked otherwise), in their original order. -/
theorem c02_complete_enum (cs : Bool) (cur : Str) (allowed : List Str) :
    let key : Str → Str := fun v => if cs then v else v.map lowerAscii
    (∀ v, v ∈ completeEnum cs cur allowed ↔ (v ∈ allowed ∧ (key cur).isPrefixOf (key v) = true)) ∧
    (completeEnum cs cur allowed).Sublist allowed := by
  cases cs <;> simp [completeEnum, List.mem_filter]

/-- `RootsManager`: at most one list-changed notification per operation (adding always notifies,
removing only when the uri was present, clearing only when there was something to clear). -/
theorem c02_roots_manager_notifications (ops : List RmOp) : (rmRun ops).2 ≤ ops.length := by
  have key : ∀ (ops : List RmOp) (st : List (Str × Json) × Nat), (ops.foldl rmStep st).2 ≤ st.2 + ops.length := by
    intro ops
    induction ops with
    | nil => intro st; simp
    | cons op rest ih =>
      intro st
      simp only [List.foldl_cons, List.length_cons]
      have h1 := ih (rmStep st op)
      have h2 : (rmStep st op).2 ≤ st.2 + 1 := by
        cases op <;> simp [rmStep] <;> split <;> simp
      omega
  simpa [rmRun] using key ops ([], 0)

/-- `to_specific_type()` turns every emitted message that has an id or a method into the envelope
class of its kind (and refuses the null-id error dicts, which have neither). -/
theorem c02_to_specific_type (m : Msg) (h : Built m) :
    ((view m).id.isSome = true ∨ (view m).method.isSome = true → toSpecificKind (view m) = some (kind m)) ∧
    ((view m).id = none → (view m).method = none → toSpecificKind (view m) = none) := by
  have hk := built_ok h
  cases m with
  | request id method params => simp [view, kind, toSpecificKind]
  | notification method params => simp [view, kind, toSpecificKind]
  | response id r => cases r <;> simp_all [Ok, view, kind, toSpecificKind]
  | error id e => cases id <;> simp [view, kind, toSpecificKind]

/-- `parse_message` on a list: a batch is refused as "mixed" as soon as one item took the legacy path
(which every ordinary request, notification and dict-result response does) unless the batch is empty.
(The transports iterate over batch items themselves and never hand a list to `parse_message`.) -/
theorem c02_parse_batch_legacy_items (items : List Json) (cs : List Cls)
    (h : items.mapM parseClass = .ok cs) (hl : Cls.legacy ∈ cs) : parseBatch items = .mixed := by
  have h1 : cs.all (fun c => c = .request || c = .notification) = false := by
    simp only [List.all_eq_false]
    exact ⟨.legacy, hl, by decide⟩
  have h2 : cs.all (fun c => c = .response || c = .error) = false := by
    simp only [List.all_eq_false]
    exact ⟨.legacy, hl, by decide⟩
  simp [parseBatch, h, h1, h2]

/-- `send_message` sends the id it was given, JSON type included (integers of any size and sign, any non-empty
string); only a falsy id (`None`, `""`, `0`) is replaced by a fresh uuid string. -/
theorem c02_send_message_id_kept (method : Str) (params : Option Obj) (id : Id) (f1 f2 : Str) (progress : Bool) (m : Msg)
    (h : sendMessageRequest method params (some id) f1 f2 progress = .ok m) (hs : id ≠ .str []) (hi : id ≠ .int 0) :
    (view m).id = some id ∧ memberOf kId (emit m) = some id.toJson := by
  have key : ∀ p, m = .request id method p → (view m).id = some id ∧ memberOf kId (emit m) = some id.toJson := by
    intro p hm; subst hm
    cases p <;> simp [view, emit, memberOf, getKey, optParams, kJsonrpc, kId]
  cases id with
  | str s =>
    have hne : s ≠ [] := fun hc => hs (by rw [hc])
    cases progress
    · simp [sendMessageRequest, hne] at h; exact key _ h.symm
    · simp only [sendMessageRequest, hne, if_false, if_true] at h
      split at h
      · simp at h; exact key _ h.symm
      · simp at h
  | int i =>
    have hne : i ≠ 0 := fun hc => hi (by rw [hc])
    cases progress
    · simp [sendMessageRequest, hne] at h; exact key _ h.symm
    · simp only [sendMessageRequest, hne, if_false, if_true] at h
      split at h
      · simp at h; exact key _ h.symm
      · simp at h

/-- Instances are independent: two `RootsManager`s (or two `NotificationHandler` registries) driven alternately
end in exactly the states each reaches on its own operations — nothing is shared between instances. -/
theorem c02_instances_independent (ops : List (Bool × RmOp)) (regs : List (Bool × (Str × Nat)))
    (a b : List (Str × Json) × Nat) (ha hb : List (Str × Nat)) :
    ops.foldl (stepTwo rmStep) (a, b) =
      (((ops.filter (fun o => o.1)).map (·.2)).foldl rmStep a, ((ops.filter (fun o => !o.1)).map (·.2)).foldl rmStep b) ∧
    regs.foldl (stepTwo fun hs r => nhRegister hs r.1 r.2) (ha, hb) =
      (((regs.filter (fun o => o.1)).map (·.2)).foldl (fun hs r => nhRegister hs r.1 r.2) ha,
       ((regs.filter (fun o => !o.1)).map (·.2)).foldl (fun hs r => nhRegister hs r.1 r.2) hb) :=
  ⟨foldl_two rmStep ops a b, foldl_two _ regs ha hb⟩

/-! Non-vacuity of the extension -/
example : handleProgress ['p'] [(kMethod, .str ['p']), (kParams, .null)] = .error .paramsNotDict := rfl
example : handleProgress ['p'] [(kMethod, .str ['p'])] = .ok (some [.null, .int 0, .null, .null]) := rfl
example : handleResourcesUpdated ['u'] [(kMethod, .str ['u']), (kParams, .obj [(kUri, .str [])])] = .ok none := rfl
example : nhHandle (nhRegister (nhRegister [] ['m'] 1) ['m'] 2) [(kMethod, .str ['m'])] = .ok (some 2) := rfl
example : nhHandle ([] : List (Str × Nat)) [(kMethod, .arr [.int 1])] = .error .methodUnhashable := rfl
example : (completionResult 2 [1, 2, 3]) = ([1, 2], none, true) ∧ (completionResult 2 [1, 2]) = ([1, 2], some 2, false) := ⟨rfl, rfl⟩
example : isResponse (view (.error none [])) = false := rfl
example : parseBatch [] = .ok 0 := rfl
example : parseBatch [emit (.request (.int 1) ['m'] none)] = .mixed := by decide
example : parseBatch [emit (.response (.int 1) (.arr []))] = .ok 1 := by decide
example : (rmRun [.add ['a'] .null, .add ['a'] .null, .remove ['b'], .clear, .clear]).2 = 3 := by decide
example : Verif.Gen.Methods.completionLimit = 100 ∧ Verif.Gen.Methods.pairs.length ≥ 2 := by decide

end Verif.Props.C02
