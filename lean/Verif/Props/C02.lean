import Verif.Lemmas.Rpc

/-! # C02 — everything emitted is valid JSON-RPC 2.0 and survives the library's own parser

Model: `Verif/Model/Rpc.lean`.  `Built m` is the inductive closure of the library's emitters
(message constructors, legacy class methods, the server handler's response builders,
`send_message`'s request building with progress-token injection, the notification senders, the
dict-shaped errors of the batch processor and the HTTP/SSE transports).  Payloads (`params`,
`result`, `error.data`) are arbitrary JSON values — any depth, nulls anywhere, integers of any
size; ids are integers of any size or arbitrary strings (empty and digit strings included).

"Same kind … identical id, method, params, result and error" is `parseMsg (emit m) = .ok (view m)`
where `view m` lists exactly those members of `m` (the id keeps its constructor `int`/`str`, i.e.
its JSON type) and `kindOfView` reads the kind off member presence, as callers of
`parse_message` must (it returns the legacy unified class for most inputs).
-/
set_option linter.unusedSimpArgs false
namespace Verif.Props.C02
open Verif.Model.Json Verif.Model.Rpc

/-- Every emitted message is a valid JSON-RPC 2.0 object: version "2.0"; a request carries a
string-or-integer id and a string method; a notification carries no id; a response carries
exactly one of result / error, and an error object has an integer code and a string message. -/
theorem c02_emit_valid (m : Msg) (h : Built m) : valid (emit m) = true :=
  emit_valid_of_ok m (built_ok h)

/-- Parsing the emitted form with the library's own parser yields a message of the same kind
with identical id (value and JSON type), method, params, result and error — all payloads, all ids. -/
theorem c02_parse_emit (m : Msg) (h : Built m) :
    parseMsg (emit m) = .ok (view m) ∧ kindOfView (view m) = kind m :=
  ⟨parse_emit_of_ok m (built_ok h), kind_view_of_ok m (built_ok h)⟩

/-- Top-level `exclude_none` never touches the payload: the `params` / `result` / `error` members
of the wire object are the payload itself, whatever nulls are nested inside it. -/
theorem c02_nested_null_preserved (m : Msg) (h : Built m) :
    memberOf kParams (emit m) = (view m).params ∧ memberOf kResult (emit m) = (view m).result ∧
    memberOf kError (emit m) = (view m).error :=
  members_of_ok m (built_ok h)

/-- … spelled out for the three payload positions (no hypothesis on the payload at all). -/
theorem c02_payload_verbatim (id : Id) (method : Str) (p : Obj) (r : Json) (code : Int) (msg : Str) (d : Json)
    (hr : r ≠ .null) (hd : d ≠ .null) :
    memberOf kParams (emit (createNotification method (some p))) = some (.obj p) ∧
    (∀ m, createResponse (some id) r = .ok m → memberOf kResult (emit m) = some r) ∧
    (∀ m, createErrorResponse (some id) code msg d = .ok m →
      ∃ e, memberOf kError (emit m) = some (.obj e) ∧ getKey kData e = some d) := by
  refine ⟨?_, ?_, ?_⟩
  · simp [createNotification, emit, memberOf, getKey, optParams, kJsonrpc, kId, kMethod, kParams]
  · intro m hm
    have hm' : m = .response id r := by cases r <;> simp_all [createResponse]
    subst hm'
    simp [emit, member_ne_null _ r hr, memberOf, getKey, kJsonrpc, kId, kResult]
  · intro m hm
    simp only [createErrorResponse] at hm
    cases hm
    refine ⟨errObj code msg d, by simp [emit, memberOf, getKey, kJsonrpc, kId, kError], ?_⟩
    cases d <;> simp_all [errObj, getKey, kCode, kMessage, kData]

/-- The wire: encode the emitted object with ANY of the compact encoder styles a transport's
serialiser uses (separators with or without a space, raw UTF-8 or `ensure_ascii`), decode it
(C17's `dec`), parse it: the same message comes back.  `wfMsg` only says that float tokens in
the payload are well-formed. -/
theorem c02_wire_roundtrip (st : Style) (m : Msg) (h : Built m) (hw : wfMsg m = true) :
    (dec (enc st (emit m))).map parseMsg = some (.ok (view m)) := by
  rw [dec_enc st (emit m) (wf_emit m hw)]
  simp [(c02_parse_emit m h).1]

/-- … and the encoded message is a single line. -/
theorem c02_wire_single_line (st : Style) (m : Msg) (hw : wfMsg m = true) :
    '\n' ∉ enc st (emit m) ∧ '\r' ∉ enc st (emit m) :=
  enc_noBreak st (emit m) (wf_emit m hw)

/-- The constructors raise exactly when they are given no id (the envelope classes require one)
or a `_meta` that is not an object; otherwise their output is `Built`. -/
theorem c02_constructor_errors (id : Option Id) (result : Json) (code : Int) (msg : Str) (data : Json) :
    (createResponse id result = .error .noId ↔ id = none) ∧
    (createErrorResponse id code msg data = .error .noId ↔ id = none) := by
  cases id <;> simp [createResponse, createErrorResponse]

/-! Non-vacuity: concrete emitted messages with nested nulls, a 2^64−1 id, a digit-string id,
an empty-string id, and the `null`-id batch rejection. -/
def payload : Obj := [(['a'], .null), (['b'], .arr [.null, .obj [(['c'], .null)]]), (['d'], .obj [])]

example : Built (.request (.int 18446744073709551615) ['m'] (some payload)) :=
  .createRequest (method := ['m']) (params := some payload) (id := some (.int 18446744073709551615))
    (fresh := []) (tok := none) rfl
example : Built (.response (.str ['1', '2', '3']) (.obj [])) :=
  .createResponse (id := some (.str ['1', '2', '3'])) (result := .null) rfl
example : Built (.error none (errObj (-32600) ['x'] .null)) := .dictError none (-32600) ['x'] .null
example : createErrorResponse none 1 [] .null = .error .noId := rfl
example : sendMessageRequest ['t'] (some [(kMeta, .str ['x'])]) none ['u'] ['v'] true = .error .metaNotDict := rfl
example : sendMessageRequest ['t'] none (some (.int 7)) ['u'] ['v'] false = .ok (.request (.int 7) ['t'] none) := rfl
example : ∃ m, sendMessageRequest ['t'] (some payload) (some (.str [])) ['u'] ['v'] true = .ok m ∧
    memberOf kParams (emit m) = some (.obj (payload ++ [(kMeta, .obj [(kProgressToken, .str ['v'])])])) ∧
    (view m).id = some (.str ['u']) := ⟨_, rfl, rfl, rfl⟩
example : valid (emit (.response (.int 1) .null)) = false := by decide

/-- `send_message` sends the id it was given, JSON type included (integers of any size and sign, any non-empty
string); only a falsy id (`None`, `""`, `0`) is replaced by a fresh uuid string. -/
theorem c02_send_message_id_kept (method : Str) (params : Option Obj) (id : Id) (f1 f2 : Str) (progress : Bool) (m : Msg)
    (h : sendMessageRequest method params (some id) f1 f2 progress = .ok m) (hs : id ≠ .str []) (hi : id ≠ .int 0) :
    (view m).id = some id ∧ memberOf kId (emit m) = some id.toJson := by
  have key : ∀ p, m = .request id method p → (view m).id = some id ∧ memberOf kId (emit m) = some id.toJson := by
    intro p hm; subst hm
    cases p <;> simp [view, emit, memberOf, getKey, optParams, kJsonrpc, kId]
  cases id with
  | str s =>
    have hne : s ≠ [] := fun hc => hs (by rw [hc])
    cases progress
    · simp [sendMessageRequest, hne] at h; exact key _ h.symm
    · simp only [sendMessageRequest, hne, if_false, if_true] at h
      split at h
      · simp at h; exact key _ h.symm
      · simp at h
  | int i =>
    have hne : i ≠ 0 := fun hc => hi (by rw [hc])
    cases progress
    · simp [sendMessageRequest, hne] at h; exact key _ h.symm
    · simp only [sendMessageRequest, hne, if_false, if_true] at h
      split at h
      · simp at h; exact key _ h.symm
      · simp at h

end Verif.Props.C02
