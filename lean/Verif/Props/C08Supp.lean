import Verif.Props.C08
import Verif.Lemmas.McpServer

/-! # C08 — supplementary obligations (not stated by the property text)

Built and audited on every run like `Props/C08.lean`; a failure here is reported as INFO and in
the evidence, never as a verdict about C08 (DESIGN 9.9). -/
set_option linter.unusedSimpArgs false
namespace Verif.Props.C08
open Verif.Model.Dispatch

/-! # Second layer: the CONTENT of the library's handlers (`Verif.Model.McpServer`)

Supplementary theorems about what `MCPServer`'s own handlers put into their results, which
application handler runs and with what, and that the dispatcher-level model above is an
abstraction of this one (`c08_content_refines_dispatch`). -/
section content
open Verif.Model.McpServer
open Verif.Model.Json (Json)

/-- `tools/list` is exactly the registered tools: after registering any list of (name, tool) pairs on
a server without tools, the listing holds one entry per distinct name, in order of FIRST registration,
each with the description and schema of the LATEST registration of that name (a dict:
re-registration replaces in place). -/
theorem c08_tools_list_exact (s : Srv) (hs : s.tools = []) (regs : List (String × Tool)) :
    toolsList (regs.foldl (fun acc p => registerTool acc p.1 p.2) s)
      = .obj [mem "tools" (.arr ((regs.foldl (fun acc p => registerTool acc p.1 p.2) s).tools.map toolEntry))]
    ∧ rkeys (regs.foldl (fun acc p => registerTool acc p.1 p.2) s).tools = firsts (regs.map Prod.fst)
    ∧ ∀ n, rget (regs.foldl (fun acc p => registerTool acc p.1 p.2) s).tools n
        = (regs.reverse.find? (fun p => p.1 = n)).map Prod.snd := by
  refine ⟨rfl, ?_, ?_⟩
  · rw [tools_foldl, rkeys_regAll, hs]; rfl
  · intro n
    rw [tools_foldl, rget_regAll, hs]
    cases List.find? (fun p => decide (p.1 = n)) regs.reverse <;> simp [rget]

/-- Registering the same name twice keeps the latest handler, at the first one's place, and touches
no other tool. -/
theorem c08_register_same_name_keeps_latest (s : Srv) (n : String) (t1 t2 : Tool) :
    rget (registerTool (registerTool s n t1) n t2).tools n = some t2
    ∧ rkeys (registerTool (registerTool s n t1) n t2).tools = rkeys (registerTool s n t1).tools
    ∧ (∀ m, m ≠ n → rget (registerTool (registerTool s n t1) n t2).tools m = rget s.tools m) := by
  refine ⟨by simp [registerTool, rget_rput], ?_, ?_⟩
  · have : n ∈ rkeys (rput s.tools n t1) := by
      rw [rkeys_rput]; split <;> simp_all
    simp [registerTool, rkeys_rput (rput s.tools n t1), this]
  · intro m hm
    have : ¬ n = m := fun e => hm e.symm
    simp [registerTool, rget_rput, this]

/-- `tools/call` on a registered name invokes exactly that tool's handler, once, with exactly the
given arguments (`{}` when absent) — and the response follows from what the handler did: result
`{"content": _format_content(value)}`, or -32603 when it raised or its value cannot be formatted.
When the arguments do not fit the signature, or are not a mapping, nothing runs and -32603 is answered. -/
theorem c08_tools_call_invokes_exactly (render : Json → Option String) (s : Srv) (n : String)
    (t : Tool) (a : ArgsV) (ht : rget s.tools n = some t) :
    (∀ kv o, a.kwargs = some kv → t.fn kv = .ran o →
        (toolsCall render s (.str n) a).2.log = s.log ++ [.tool n kv]
        ∧ (toolsCall render s (.str n) a).1
            = match o with
              | .raises => .error (-32603)
              | .returns v =>
                match fmt render v with
                | some c => .result (.obj [mem "content" (.arr c)])
                | none => .error (-32603))
    ∧ (∀ kv, a.kwargs = some kv → t.fn kv = .notBound →
        toolsCall render s (.str n) a = (.error (-32603), s))
    ∧ (a.kwargs = none → toolsCall render s (.str n) a = (.error (-32603), s)) := by
  refine ⟨?_, ?_, ?_⟩
  · intro kv o hk hf
    cases o with
    | raises => simp [toolsCall, ht, hk, hf]
    | returns v => cases hv : fmt render v <;> simp [toolsCall, ht, hk, hf, hv]
  · intro kv hk hf; simp [toolsCall, ht, hk, hf]
  · intro hk; simp [toolsCall, ht, hk]

/-- Unknown tool / resource (a string that names nothing, a missing or non-string name): -32602
and NO application handler runs, the server is unchanged; an unhashable name escapes to the
dispatcher (which answers -32603), again with nothing run. -/
theorem c08_unknown_name_runs_nothing (render : Json → Option String) (s : Srv) (a : ArgsV) :
    (∀ n, rget s.tools n = none → toolsCall render s (.str n) a = (.error (-32602), s))
    ∧ toolsCall render s .absent a = (.error (-32602), s)
    ∧ toolsCall render s .scalar a = (.error (-32602), s)
    ∧ toolsCall render s .unhashable a = (.raised, s)
    ∧ (∀ u, rget s.resources u = none → resourcesRead s (.str u) = (.error (-32602), s))
    ∧ resourcesRead s .absent = (.error (-32602), s)
    ∧ resourcesRead s .scalar = (.error (-32602), s)
    ∧ resourcesRead s .unhashable = (.raised, s) := by
  refine ⟨?_, rfl, rfl, rfl, ?_, rfl, rfl, rfl⟩
  · intro n hn; simp [toolsCall, hn]
  · intro u hu; simp [resourcesRead, hu]

/-- `resources/read` on a registered uri runs exactly that resource's handler once and answers
`{"contents": [{uri, mimeType, text}]}` with the text of what it returned, or -32603 when it failed. -/
theorem c08_resources_read_exact (s : Srv) (u : String) (r : Resource) (hr : rget s.resources u = some r) :
    (resourcesRead s (.str u)).2.log = s.log ++ [.resource u]
    ∧ (resourcesRead s (.str u)).1
        = match r.fn with
          | .fails => .error (-32603)
          | .text t => .result (.obj [mem "contents" (.arr [.obj [mem "uri" (js u),
              mem "mimeType" (js r.mimeType), mem "text" (js t)]])]) := by
  cases hf : r.fn <;> simp [resourcesRead, hr, hf]

/-- Every result the library's own handlers produce is a JSON OBJECT (so the response envelope around
it is a valid result response in the sense of C02). -/
theorem c08_results_are_objects (cfg : Cfg) (s : Srv) (r : Req) (i : Id) (v : Json) (s' : Srv)
    (h : serve cfg s r = (some (.result i v), s')) : ∃ kvs, v = .obj kvs := by
  unfold serve at h
  split at h
  · cases hid : r.id <;> simp [hid] at h
  · split at h
    · cases hid : r.id <;> simp [hid] at h
      exact ⟨[], h.1.2.symm⟩
    · split at h
      · cases hid : r.id <;> simp [hid] at h
      · rename_i hres s2 hb
        cases hid : r.id with
        | none => simp [hid] at h
        | some j =>
          simp only [hid, Option.map_some, Prod.mk.injEq, Option.some.injEq] at h
          obtain ⟨h1, _⟩ := h
          cases hres with
          | error c => simp at h1
          | raised => simp at h1
          | result w =>
            simp only [CResp.result.injEq] at h1
            obtain ⟨_, hw⟩ := h1
            subst hw
            unfold builtin at hb
            split at hb
            · cases hb; exact ⟨_, rfl⟩
            · split at hb
              · cases hb; exact ⟨_, rfl⟩
              · split at hb
                · cases hb; exact ⟨_, rfl⟩
                · split at hb
                  · simp only [Option.some.injEq] at hb
                    unfold toolsCall at hb
                    repeat' split at hb
                    all_goals first | (cases hb; done) | (cases hb; exact ⟨_, rfl⟩)
                  · split at hb
                    · cases hb; exact ⟨_, rfl⟩
                    · split at hb
                      · simp only [Option.some.injEq] at hb
                        unfold resourcesRead at hb
                        repeat' split at hb
                        all_goals first | (cases hb; done) | (cases hb; exact ⟨_, rfl⟩)
                      · cases hb

/-- Whatever an application tool returns, every content block of the result is `{"type": "text",
"text": …}`. -/
theorem c08_content_blocks_are_text (render : Json → Option String) (v : PyVal) (c : List Json)
    (h : fmt render v = some c) : ∀ b ∈ c, ∃ t, b = textBlock t :=
  fmt_blocks render v c h

/-- `_format_content`: a string or any other scalar is one text block; a dict is one block holding its
rendering; a list is the concatenation of its members' blocks — nested lists are flattened. -/
theorem c08_format_content (render : Json → Option String) :
    (∀ s, fmt render (.str s) = some [textBlock s])
    ∧ (∀ t, fmt render (.other t) = some [textBlock t])
    ∧ (∀ j, fmt render (.dict j) = (render j).map (fun t => [textBlock t]))
    ∧ fmt render (.list []) = some []
    ∧ (∀ xs ys, fmt render (.list (xs ++ ys))
        = match fmt render (.list xs), fmt render (.list ys) with
          | some a, some b => some (a ++ b)
          | _, _ => none)
    ∧ (∀ xs ys, fmt render (.list (.list xs :: ys)) = fmt render (.list (xs ++ ys))) := by
  refine ⟨fun _ => rfl, fun _ => rfl, fun _ => rfl, rfl, ?_, ?_⟩
  · intro xs ys; simp only [fmt]; exact fmtList_append render xs ys
  · intro xs ys
    simp only [fmt, fmt.fmtList, fmtList_append]
    cases fmt.fmtList render xs <;> cases fmt.fmtList render ys <;> rfl

/-- Serving messages (initialize included) never changes the registries, so a `register_*` made after
any amount of traffic is reflected by the next listing exactly as if it had been made before. -/
theorem c08_registration_visible_after_serving (cfg : Cfg) (s : Srv) (rs : List Req) (n : String) (t : Tool) :
    (serveAll cfg s rs).2.tools = s.tools ∧ (serveAll cfg s rs).2.resources = s.resources
    ∧ rget (registerTool (serveAll cfg s rs).2 n t).tools n = some t
    ∧ toolsList (registerTool (serveAll cfg s rs).2 n t)
        = .obj [mem "tools" (.arr ((rput s.tools n t).map toolEntry))] := by
  obtain ⟨a, b, _, _⟩ := serveAll_frame cfg s rs
  refine ⟨a, b, by simp [registerTool, rget_rput], ?_⟩
  simp [toolsList, registerTool, a]

/-- The initialize result is `{protocolVersion: answered, serverInfo, capabilities}` where the
capabilities are those given at CONSTRUCTION: what the code does — they are not derived from what is
registered, registering tools changes nothing in them. -/
theorem c08_initialize_result (cfg : Cfg) (s : Srv) (i : Id) (rq : Option Json)
    (regs : List (String × Tool)) :
    (serve cfg s { id := some i, method := "initialize", requested := rq }).1
        = some (.result i (.obj [mem "protocolVersion" (cfg.answer rq), mem "serverInfo" s.info,
                                 mem "capabilities" s.caps]))
    ∧ (serve cfg (regs.foldl (fun acc p => registerTool acc p.1 p.2) s)
          { id := some i, method := "initialize", requested := rq }).1
        = (serve cfg s { id := some i, method := "initialize", requested := rq }).1 := by
  obtain ⟨hc, hi, _⟩ := foldl_registerTool_frame s regs
  constructor
  · simp [serve, builtin]
  · simp [serve, builtin, hc, hi]

private theorem toolsCall_shape (cfg : Cfg) (s : Srv) (n : String) (t : Tool) (a : ArgsV) (ht : rget s.tools n = some t) :
    (toolSucceeds cfg t a = true → ∃ v, (toolsCall cfg.render s (.str n) a).1 = .result v)
    ∧ (toolSucceeds cfg t a = false → (toolsCall cfg.render s (.str n) a).1 = .error (-32603)) := by
  unfold toolSucceeds toolsCall
  simp only [ht]
  cases hk : a.kwargs with
  | none => simp
  | some kv =>
    cases hf : t.fn kv with
    | notBound => simp [hf]
    | ran o =>
      cases o with
      | raises => simp [hf]
      | returns v => cases hv : fmt cfg.render v <;> simp [hf, hv]

/-- The dispatcher-level model is an abstraction of the content-level one: for every server, every
request or notification, the response's presence, id and error code computed from the content (which
handler ran, what it returned, how it was formatted) are those `Dispatch.handle` computes on the
abstracted server (`absServer`: a tool "returns" iff the call ends in a result). -/
theorem c08_content_refines_dispatch (cfg : Cfg) (s : Srv) (r : Req) :
    (serve cfg s r).1.map CResp.shape
      = match handle (serverReg (absServer cfg s r.args)) (absMsg r) with
        | .ok (resp, _) => resp.map dShape
        | .error _ => none := by
  unfold serve
  by_cases h0 : r.method = ""
  · cases hid : r.id <;>
      simp [h0, hid, handle, absMsg, mkError, Except.map, CResp.shape, dShape]
  by_cases h1 : r.method = "notifications/initialized"
  · cases hid : r.id <;>
      simp [h1, hid, handle, absMsg, serverReg, serverRegWith, absServer, hInitialized, respond,
        mkResult, mkError, Except.map, CResp.shape, dShape]
  by_cases h2 : r.method = "ping"
  · cases hid : r.id <;>
      simp [h2, hid, handle, absMsg, serverReg, serverRegWith, absServer, hPing, respond, builtin,
        mkResult, mkError, Except.map, CResp.shape, dShape]
  by_cases h3 : r.method = "initialize"
  · cases hid : r.id <;>
      simp [h3, hid, handle, absMsg, serverReg, serverRegWith, absServer, hInitialize, respond, builtin,
        mkResult, mkError, Except.map, CResp.shape, dShape]
  by_cases h4 : r.method = "tools/list"
  · cases hid : r.id <;>
      simp [h4, hid, handle, absMsg, serverReg, serverRegWith, absServer, hToolsList, respond, builtin,
        mkResult, mkError, Except.map, CResp.shape, dShape]
  by_cases h5 : r.method = "resources/list"
  · cases hid : r.id <;>
      simp [h5, hid, handle, absMsg, serverReg, serverRegWith, absServer, hResourcesList, respond, builtin,
        mkResult, mkError, Except.map, CResp.shape, dShape]
  by_cases h6 : r.method = "tools/call"
  · have hreg : serverReg (absServer cfg s r.args) "tools/call" = some (hToolsCall (absServer cfg s r.args)) := by
      simp [serverReg, serverRegWith, absServer]
    cases hn : r.name with
    | absent | scalar | unhashable =>
      cases hid : r.id <;>
        simp [h6, hid, hn, handle, absMsg, hreg, hToolsCall, builtin, toolsCall, respondErr, respond, mkError,
          mkResult, Except.map, CResp.shape, dShape]
    | str n =>
      cases ht : rget s.tools n with
      | none =>
        have hT : (absServer cfg s r.args).tools n = none := by simp [absServer, ht]
        cases hid : r.id <;>
          simp [h6, hid, hn, ht, hT, handle, absMsg, hreg, hToolsCall, builtin, toolsCall, respondErr, respond, mkError,
            mkResult, Except.map, CResp.shape, dShape]
      | some t =>
        obtain ⟨hs1, hs2⟩ := toolsCall_shape cfg s n t r.args ht
        cases hsucc : toolSucceeds cfg t r.args with
        | true =>
          obtain ⟨v, hv⟩ := hs1 hsucc
          have hT : (absServer cfg s r.args).tools n = some (.returns "r") := by simp [absServer, ht, hsucc]
          cases hid : r.id <;>
            simp [h6, hid, hn, ht, hv, hT, handle, absMsg, hreg, hToolsCall, builtin, respondErr, respond, mkError,
              mkResult, Except.map, CResp.shape, dShape, invoke]
        | false =>
          have hv := hs2 hsucc
          have hT : (absServer cfg s r.args).tools n = some .raises := by simp [absServer, ht, hsucc]
          cases hid : r.id <;>
            simp [h6, hid, hn, ht, hv, hT, handle, absMsg, hreg, hToolsCall, builtin, respondErr, respond, mkError,
              mkResult, Except.map, CResp.shape, dShape, invoke]
  by_cases h7 : r.method = "resources/read"
  · have hreg : serverReg (absServer cfg s r.args) "resources/read" = some (hResourcesRead (absServer cfg s r.args)) := by
      simp [serverReg, serverRegWith, absServer]
    cases hn : r.uri with
    | absent | scalar | unhashable =>
      cases hid : r.id <;>
        simp [h7, hid, hn, handle, absMsg, hreg, hResourcesRead, builtin, resourcesRead, respondErr, respond, mkError,
          mkResult, Except.map, CResp.shape, dShape]
    | str u =>
      cases ht : rget s.resources u with
      | none =>
        have hT : (absServer cfg s r.args).resources u = none := by simp [absServer, ht]
        cases hid : r.id <;>
          simp [h7, hid, hn, ht, hT, handle, absMsg, hreg, hResourcesRead, builtin, resourcesRead, respondErr, respond, mkError,
            mkResult, Except.map, CResp.shape, dShape]
      | some x =>
        cases hf : x.fn with
        | text tx =>
          have hT : (absServer cfg s r.args).resources u = some (.returns "r") := by simp [absServer, ht, hf]
          cases hid : r.id <;>
            simp [h7, hid, hn, ht, hf, hT, handle, absMsg, hreg, hResourcesRead, builtin, resourcesRead, respondErr, respond,
              mkError, mkResult, Except.map, CResp.shape, dShape, invoke]
        | fails =>
          have hT : (absServer cfg s r.args).resources u = some .raises := by simp [absServer, ht, hf]
          cases hid : r.id <;>
            simp [h7, hid, hn, ht, hf, hT, handle, absMsg, hreg, hResourcesRead, builtin, resourcesRead, respondErr, respond,
              mkError, mkResult, Except.map, CResp.shape, dShape, invoke]
  · cases hid : r.id <;>
      simp [h0, h1, h2, h3, h4, h5, h6, h7, hid, handle, absMsg, serverReg, serverRegWith, absServer, builtin,
        mkResult, mkError, Except.map, CResp.shape, dShape]

/-! ## Non-vacuity of the content layer -/

def toolEx (out : Outcome) (params : Option (List String)) : Tool :=
  { fn := fun kv => match params with
      | none => .ran out
      | some ps => if kv.all (fun p => ps.contains p.1) then .ran out else .notBound,
    schema := .obj [], description := "d" }

def srv0 : Srv := { info := .obj [mem "name" (js "s")], caps := .obj [], tools := [], resources := [], log := [] }

def cfgC : Cfg := { render := fun _ => some "<json>", answer := fun r => r.getD (js "2025-03-26") }

def srvEx2 : Srv :=
  registerResource
    (registerTool (registerTool (registerTool srv0 "a" (toolEx (.returns (.str "1")) none))
      "b" (toolEx .raises none))
      "a" (toolEx (.returns (.list [.str "x", .list [.dict (.obj []), .other "5"]])) (some ["text"])))
    "file:///d/e.txt" { fn := .text "E", name := "", description := "", mimeType := "text/plain" }

example : rkeys srvEx2.tools = ["a", "b"] ∧ rkeys srvEx2.tools = firsts ["a", "b", "a"] := by decide

example : (srvEx2.resources.map (fun p => p.2.name)) = ["e.txt"] := by decide

/-- the named handler runs once with the given arguments; arguments that do not fit run nothing -/
example :
    (toolsCall cfgC.render srvEx2 (.str "a") (.obj [("text", js "t")])).2.log.length = 1
    ∧ (toolsCall cfgC.render srvEx2 (.str "a") (.obj [("nope", js "t")])).2.log.length = 0
    ∧ (toolsCall cfgC.render srvEx2 (.str "zzz") .absent).2.log.length = 0
    ∧ (toolsCall cfgC.render srvEx2 (.str "b") .absent).2.log.length = 1 := by decide

example : (fmt cfgC.render (.list [.str "x", .list [.dict (.obj []), .other "5"]])).map List.length = some 3 := by
  decide

/-- No response depends on what was served before: after ANY traffic (requests, notifications,
failures, equal ids — in whatever order other dispatches were interleaved), a message gets exactly
the response it gets from the freshly built server.  Dispatch keeps no per-request state; the
only thing handling leaves behind is the log of application handlers that ran. -/
theorem c08_response_independent_of_history (cfg : Cfg) (s : Srv) (pre : List Req) (r : Req) :
    (serve cfg (serveAll cfg s pre).2 r).1 = (serve cfg s r).1 := by
  obtain ⟨a, b, c, d⟩ := serveAll_frame cfg s pre
  exact serve_fst_congr cfg _ _ r a b c d

/-- Two servers alive in one process are independent: however their traffic is interleaved, each
one's responses and final state are those of that server serving its own messages alone. -/
theorem c08_servers_independent (cfg : Cfg) (p : Srv × Srv) (xs : List (Bool × Req)) :
    ((servePairAll cfg p xs).1.filter (·.1)).map (·.2)
        = (serveAll cfg p.1 ((xs.filter (·.1)).map (·.2))).1
    ∧ ((servePairAll cfg p xs).1.filter (fun y => !y.1)).map (·.2)
        = (serveAll cfg p.2 ((xs.filter (fun y => !y.1)).map (·.2))).1
    ∧ (servePairAll cfg p xs).2.1 = (serveAll cfg p.1 ((xs.filter (·.1)).map (·.2))).2
    ∧ (servePairAll cfg p xs).2.2 = (serveAll cfg p.2 ((xs.filter (fun y => !y.1)).map (·.2))).2 :=
  servePairAll_proj cfg p xs

/-- Re-entrancy: a handler that dispatches NESTED messages on the same server (requests with other
ids, notifications, failing ones) before it finishes changes nothing in what the outer message
gets: the response to `r` after the nested dispatches is the response to `r` alone — in particular
it carries `r`'s id, never a nested one. -/
theorem c08_reentrant_dispatch_independent (cfg : Cfg) (s : Srv) (nested : List Req) (r : Req) :
    (serve cfg (serveAll cfg s nested).2 r).1 = (serve cfg s r).1
    ∧ ∀ i resp, r.id = some i → (serve cfg (serveAll cfg s nested).2 r).1 = some resp →
        (CResp.shape resp).1 = i := by
  refine ⟨c08_response_independent_of_history cfg s nested r, ?_⟩
  intro i resp hid h
  rw [c08_response_independent_of_history] at h
  unfold serve at h
  simp only [hid, Option.map_some] at h
  split at h
  · simp at h; subst h; rfl
  · split at h
    · simp at h; subst h; rfl
    · split at h
      · simp at h; subst h; rfl
      · rename_i hres s2 hb
        simp only [Option.some.injEq] at h
        subst h
        cases hres <;> rfl

/-- equal ids, one after the other and on two servers: same answers as alone -/
example :
    (serve cfgC (serveAll cfgC srvEx2 [{ id := some (.int 1), method := "tools/call", name := .str "b" },
        { id := some (.int 1), method := "nosuch" }]).2 { id := some (.int 1), method := "ping" }).1
      = (serve cfgC srvEx2 { id := some (.int 1), method := "ping" }).1 :=
  c08_response_independent_of_history cfgC srvEx2 _ _

end content

end Verif.Props.C08
