import Verif.Props.C13
import Verif.Gen.BatchSelfTest

/-! # C13 — supplementary obligations (not stated by the property text)

Built and audited on every run like `Props/C13.lean`; a failure here is reported as INFO and in the
evidence, never as a verdict about C13 (DESIGN 9.9). -/
namespace Verif.Props.C13
open Verif.Gen.Versions Verif.Model.Batching

/-! ## Supplementary: the module's own self-test table

`test_version_batching_scenarios()` in `batching.py` carries a table of `(version, expected)` pairs; it is
REGENERATED here (`Gen/BatchSelfTest.lean`) and must agree with the model of `supports_batching` (guards
+ regenerated chain) — a table edited to a wrong expectation, or a changed decision, breaks this. -/

theorem c13_selftest_translated : Verif.Gen.BatchSelfTest.translatable = true := by decide

theorem c13_selftest_table_agrees :
    ∀ c ∈ Verif.Gen.BatchSelfTest.cases, supportsBatching (c.1.map String.toList) = c.2 := by decide


end Verif.Props.C13
