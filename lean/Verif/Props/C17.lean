import Verif.Lemmas.Json

/-! # C17 — JSON encoding is backend-independent and always a single NDJSON frame

Model: `Verif/Model/Json.lean` (`dumps`/`loads` of `protocol/fast_json.py` under the two
configurations "orjson importable" / "orjson absent", the concrete compact encoders, one
RFC 8259 decoder).  All statements are for EVERY value: no bound on depth, width, string
length or integer size.  `wf v` only says that float tokens are well-formed JSON numbers
(floats are opaque tokens: a float's *value* round trip through `repr`/`float()` is sampled
by the correspondence run, not proved).  `fits64 v` is the property's domain "integers fit in
64 bits" (−2^63 .. 2^64−1): outside it orjson's `loads` returns a float where the stdlib
returns an integer, and nothing is demanded.

`cfg : Config` says which encoder style (separators with or without a space; raw UTF-8 or
`ensure_ascii`) each code path of `dumps` uses; `pinned` is the one at the verified commit
(orjson: compact + raw UTF-8; stdlib: `, ` `: ` + `ensure_ascii`).  Every theorem holds for
every configuration, so the proofs do not depend on those two choices.
-/
namespace Verif.Props.C17
open Verif.Model.Json

/-- Compact encodings never contain a raw line break — for ALL values, whichever backend is
active, including values whose integers do not fit in 64 bits (the stdlib fall-back inside
`dumps`). -/
theorem c17_no_raw_newline (cfg : Config) (b : Backend) (v : Json) (h : wf v = true) :
    '\n' ∉ dumps cfg b v ∧ '\r' ∉ dumps cfg b v :=
  dumps_noBreak cfg b v h

/-- the same for each concrete encoder of the verified commit -/
theorem c17_no_raw_newline_encoders (v : Json) (h : wf v = true) :
    ('\n' ∉ encOrjson v ∧ '\r' ∉ encOrjson v) ∧ ('\n' ∉ encStd v ∧ '\r' ∉ encStd v) :=
  ⟨enc_noBreak orjsonStyle v h, enc_noBreak stdStyle v h⟩

/-- Decoding what the orjson-style encoder wrote (compact separators, raw UTF-8, escapes only
for `"` `\` and C0 controls) gives back the value; integers of ANY size. -/
theorem c17_dec_enc_orjson (v : Json) (h : wf v = true) : dec (encOrjson v) = some v :=
  dec_enc orjsonStyle v h

/-- Decoding what the stdlib encoder wrote (`, ` / `: ` separators, `ensure_ascii`: `\uxxxx`
for everything outside U+0020..U+007E, surrogate pairs for astral characters) gives back the
value; integers of ANY size. -/
theorem c17_dec_enc_std (v : Json) (h : wf v = true) : dec (encStd v) = some v :=
  dec_enc stdStyle v h

/-- … and for every other combination of separators / escaping discipline. -/
theorem c17_dec_enc_any_style (st : Style) (v : Json) (h : wf v = true) : dec (enc st v) = some v :=
  dec_enc st v h

/-- The property: for every value whose integers fit in 64 bits, decoding what either backend
encoded gives back the value, under each backend and across backends (all four pairs). -/
theorem c17_roundtrip (cfg : Config) (a b : Backend) (v : Json) (h : wf v = true) (h64 : fits64 v = true) :
    loads b (dumps cfg a v) = some v := by
  have h1 := dec_enc cfg.fast v h
  have h2 := dec_enc cfg.slow v h
  cases a <;> cases b <;> simp [loads, dumps, h64, h1, h2]

/-- Backend independence stated relationally: the text written under one configuration is
read back under the other to the same value as under its own, and both configurations agree. -/
theorem c17_cross_backend (cfg : Config) (v : Json) (h : wf v = true) (h64 : fits64 v = true) :
    loads .stdlib (dumps cfg .orjson v) = loads .orjson (dumps cfg .orjson v) ∧
    loads .orjson (dumps cfg .stdlib v) = loads .stdlib (dumps cfg .stdlib v) ∧
    loads .orjson (dumps cfg .orjson v) = loads .stdlib (dumps cfg .stdlib v) := by
  simp [c17_roundtrip cfg _ _ v h h64]

/-- Outside the 64-bit domain `dumps` under orjson falls back to the stdlib text, and the
stdlib pair still round-trips (the model's decoder is exact on integers of any size). -/
theorem c17_big_int_stdlib (cfg : Config) (a : Backend) (v : Json) (h : wf v = true) (h64 : fits64 v = false) :
    dumps cfg a v = enc cfg.slow v ∧ loads .stdlib (dumps cfg a v) = some v := by
  have h2 := dec_enc cfg.slow v h
  cases a <;> simp [loads, dumps, h64, h2]

/-- Decoding does not depend on what was decoded before: a decoder that remembers earlier results answers every text
exactly like the plain decoder, first time and every later time, as long as its memory only holds what it decoded
itself (`cacheOk`, which `loadsMemo` preserves).  The real code has no such memory; what can break this in Python —
handing out the remembered object itself, so that a caller's in-place edit changes later answers — has no counterpart
in the model and is checked on the real code (decode, edit every nested container, decode again). -/
theorem c17_memo_transparent (c : Cache) (t : List Char) (h : cacheOk c) :
    (loadsMemo c t).2 = dec t ∧ cacheOk (loadsMemo c t).1 := by
  unfold loadsMemo
  cases hg : cacheGet c t with
  | some v => exact ⟨(h t v hg).symm, h⟩
  | none =>
    cases hd : dec t with
    | none => exact ⟨rfl, h⟩
    | some v =>
      refine ⟨rfl, ?_⟩
      intro t' v' hq
      simp only [cacheGet] at hq
      by_cases ht : t = t'
      · subst ht; simp at hq; subst hq; exact hd
      · simp [ht] at hq; exact h t' v' hq

/-- … hence for any sequence of texts, starting from an empty memory. -/
theorem c17_memo_sequence (ts : List (List Char)) :
    ∀ c, cacheOk c → (ts.foldl (fun (st : Cache × List (Option Json)) t => ((loadsMemo st.1 t).1, st.2 ++ [(loadsMemo st.1 t).2])) (c, [])).2
      = ts.map dec := by
  suffices H : ∀ (ts : List (List Char)) (c : Cache) (acc : List (Option Json)), cacheOk c →
      (ts.foldl (fun (st : Cache × List (Option Json)) t => ((loadsMemo st.1 t).1, st.2 ++ [(loadsMemo st.1 t).2])) (c, acc)).2
        = acc ++ ts.map dec by
    intro c hc; simpa using H ts c [] hc
  intro ts
  induction ts with
  | nil => intro c acc _; simp
  | cons t rest ih =>
    intro c acc hc
    have hm := c17_memo_transparent c t hc
    simp only [List.foldl_cons, List.map_cons]
    rw [ih _ _ hm.2, hm.1]
    simp

/-! Non-vacuity: a concrete value with every constructor, a control character, U+2028, an
astral character, a non-ASCII key, 2^64−1, −2^63 and a float token satisfies the hypotheses,
and the two encoders really differ on it. -/
def sample : Json :=
  .obj [(['k', 'é'], .arr [.int 18446744073709551615, .int (-9223372036854775808), .null, .bool true,
          .flt ['-', '1', '.', '5', 'e', '-', '0', '7'], .arr [], .obj []]),
        (['s'], .str ['a', '\n', '\x01', ' ', '😀', '"', '\\', '\x7f'])]

example : wf sample = true ∧ fits64 sample = true := by decide
example : wf (.int 18446744073709551616) = true ∧ fits64 (.int 18446744073709551616) = false := by decide
example : loads .orjson (dumps pinned .stdlib sample) = some sample :=
  c17_roundtrip pinned .stdlib .orjson sample (by decide) (by decide)
example : encOrjson (.str ['é']) ≠ encStd (.str ['é']) := by decide
example : cacheOk [] := by intro t v h; simp [cacheGet] at h

end Verif.Props.C17
