import Verif.Props.C15
import Verif.Lemmas.Client
import Verif.Lemmas.Detect
import Verif.Lemmas.Instances
import Verif.Model.Block

/-! # C15 — supplementary obligations (not stated by the property text)

The layers next to the carriers: the high-level client (`MCPClient`, `connect_to_server`), the pure
transport-selection logic (`is_streamable_http_url`, `is_sse_url`, `detect_transport_type`,
`try_http_with_sse_fallback`, `try_sse_with_fallback` over the tables re-read into
`Gen/UrlRules.lean`), and the independence of several transport instances in one process.  Built
and audited on every run like `Props/C15.lean`; a failure here (a rewritten function the translator
no longer recognises, a table that changed) is reported as INFO and in the evidence, never as a
verdict about C15 (DESIGN 9.9).  The carrier transcript theorems of `Props/C15.lean` are the core. -/
set_option linter.unusedVariables false
namespace Verif.Props.C15
open Verif.Model Verif.Model.Carrier Verif.Lemmas.Carrier

/-! ## 5. the high-level client (`MCPClient`, `connect_to_server`)

`Verif.Model.Client`: `MCPClient` does no I/O of its own — every operation is
`_ensure_initialized()` followed by one typed request helper on the transport's stream pair.  How a
helper call ends is decided by the read-stream transcript (sections 1–4), so it is a parameter
(`Answers`): the theorems hold for every server behaviour, every sequence of operations, any length. -/
section client
open Verif.Model.Client
variable {ι ρ ε : Type}

/-- is this `transport.set_protocol_version(…)`? -/
def isSetVersion : Ev → Bool
  | .setVersion _ => true
  | _ => false

/-- **The shape of everything a client does to its transport**, for every sequence of operations
and every server: `k` failed `initialize` attempts (one request each, nothing else), then — if an
attempt succeeds — that request, `set_protocol_version` with the answered version, and from then on
only the operations' own helpers, one request per operation, in order. -/
theorem c15_client_trace_shape (a : Answers ι ρ ε) (ops : List Op) :
    Shape a 0 (run a St.fresh ops).2.2 :=
  run_shape a St.fresh ops rfl

theorem filter_other_setVersion (l : List Ev) (h : l.all isOtherReq = true) : l.filter isSetVersion = [] := by
  simp only [List.all_eq_true] at h
  simp only [List.filter_eq_nil_iff]
  intro e he
  have := h e he
  cases e with
  | request op => simp [isSetVersion]
  | setVersion v => simp [isOtherReq] at this

/-- **Initialize once.**  `set_protocol_version` is called at most once, and with the version
answered by the FIRST `initialize` that succeeded (every earlier attempt failed). -/
theorem c15_client_init_once (a : Answers ι ρ ε) (ops : List Op) :
    ((run a St.fresh ops).2.2.filter isSetVersion).length ≤ 1
    ∧ ∀ v, Ev.setVersion v ∈ (run a St.fresh ops).2.2 →
        ∃ k info, a.inits k = .ok (v, info) ∧ ∀ j, j < k → ∃ e, a.inits j = .error e := by
  obtain ⟨k, hk, h⟩ := run_shape a St.fresh ops rfl
  simp only [show (St.fresh : St ι).nInit = 0 from rfl, Nat.zero_add] at hk h
  rcases h with h | ⟨v, info, rest, h1, h2, h3⟩
  · rw [h]
    constructor
    · simp [isSetVersion]
    · intro v hv; simp [List.mem_replicate] at hv
  · rw [h3]
    constructor
    · simp [List.filter_append, isSetVersion, List.filter_cons, filter_other_setVersion rest h2]
    · intro w hw
      simp only [List.mem_append, List.mem_replicate, List.mem_cons] at hw
      rcases hw with ⟨_, hw⟩ | hw | hw | hw
      · cases hw
      · cases hw
      · cases hw; exact ⟨k, info, h1, hk⟩
      · simp only [List.all_eq_true] at h2
        have := h2 _ hw
        simp [isOtherReq] at this

/-- **Lazy initialize.**  No operation's helper ever runs on a client that is not initialised: in
the trace, every request other than `initialize` comes after the `set_protocol_version` call. -/
theorem c15_client_lazy_init (a : Answers ι ρ ε) (ops : List Op) (i : Nat) (e : Ev)
    (hi : (run a St.fresh ops).2.2[i]? = some e) (he : isOtherReq e = true) :
    ∃ j v, j < i ∧ (run a St.fresh ops).2.2[j]? = some (Ev.setVersion v) := by
  obtain ⟨k, hk, h⟩ := run_shape a St.fresh ops rfl
  rcases h with h | ⟨v, info, rest, h1, h2, h3⟩
  · rw [h] at hi
    rw [List.getElem?_replicate] at hi
    split at hi
    · cases hi; simp [isOtherReq] at he
    · cases hi
  · rw [h3] at hi ⊢
    have hlen : (List.replicate k (Ev.request Op.init)).length = k := by simp
    by_cases h1' : i < k
    · rw [List.getElem?_append_left (by simpa using h1')] at hi
      rw [List.getElem?_replicate] at hi
      simp [h1'] at hi; subst hi; simp [isOtherReq] at he
    · rw [List.getElem?_append_right (by simp; omega)] at hi
      simp only [hlen] at hi
      refine ⟨k + 1, v, ?_, ?_⟩
      · rcases hd : i - k with _ | _ | n
        · simp [hd] at hi; subst hi; simp [isOtherReq] at he
        · simp [hd] at hi; subst hi; simp [isOtherReq] at he
        · omega
      · rw [List.getElem?_append_right (by simp)]
        simp

/-- an initialised client never initialises again: `initialize()` returns the cached server info
without traffic, every other operation is at most its own helper's request (none when the helper
rejects its arguments before writing) -/
theorem c15_client_initialized_stable (a : Answers ι ρ ε) (st : St ι) (ops : List Op) (h : st.initialized = true) :
    (run a st ops).1.initialized = true ∧ (run a st ops).2.2.all isOtherReq = true
    ∧ (run a st ops).2.2.length ≤ ops.length
    ∧ initOp a st = (st, .cached st.info, []) :=
  ⟨(run_initialized a st ops h).1, (run_initialized a st ops h).2.1, (run_initialized a st ops h).2.2, initOp_initialized a st h⟩

/-- **Arguments the helper rejects** (a tool name that is not a string, arguments that are not an
object …): the operation still initialises a fresh client first, then raises without writing a
request and without consuming an answer of the server — whatever the arguments were, the carrier
never sees them. -/
theorem c15_client_rejected_args (a : Answers ι ρ ε) (st : St ι) (op : Op) (e : ε) (hop : op ≠ .init)
    (hrej : a.rejects st.nOp = some e) :
    (st.initialized = true → (step a st op).2 = (.raised e, []) ∧ (step a st op).1.nCall = st.nCall)
    ∧ (st.initialized = false → ∀ v info, a.inits st.nInit = .ok (v, info) →
        (step a st op).2 = (.raised e, [.request .init, .setVersion v]) ∧ (step a st op).1.nCall = st.nCall) := by
  have hs : step1 a st op = call a st op := by cases op <;> simp_all [step1]
  constructor
  · intro h
    simp [step, hs, call, h, hrej]
  · intro h v info hv
    simp [step, hs, call, initOp, h, hv, hrej]

/-- **The client layer is a function of the transcript only, hence carrier independent.**  Let
`answers` be ANY reading of a read-stream transcript as helper outcomes (that is what C01 / C07 say
`send_message` and the typed helpers are).  For two carriers, a conversation expressible on both and
any legal play on each, the same operations on an `MCPClient` over either carrier return the same
results, leave the same state and do the same things to the transport. -/
theorem c15_client_agnostic {σ μ : Type} (W : Wire σ μ) (conv : List (Exchange σ)) (c₁ c₂ : Carrier)
    (p₁ : Play μ c₁) (p₂ : Play μ c₂)
    (h₁ : Expressible W c₁ conv) (h₂ : Expressible W c₂ conv) (v₁ : p₁.Valid W conv) (v₂ : p₂.Valid W conv)
    (answers : List (Seen μ) → Answers ι ρ ε) (ops : List Op) :
    (run (answers (p₁.observe W conv)) St.fresh ops).2 = (run (answers (p₂.observe W conv)) St.fresh ops).2
    ∧ (connect (answers (p₁.observe W conv)) ops).2 = (connect (answers (p₂.observe W conv)) ops).2 := by
  rw [c15_carrier_agnostic W conv c₁ c₂ p₁ p₂ h₁ h₂ v₁ v₂]
  exact ⟨rfl, rfl⟩

/-- **One result per operation.**  Whatever the server does, a sequence of operations hands back
exactly one result (a value or an exception) per operation, in order — none is dropped, none is
answered twice — and the operation counter advances by exactly the number of operations. -/
theorem c15_client_one_result_per_op (a : Answers ι ρ ε) (st : St ι) (ops : List Op) :
    (run a st ops).2.1.length = ops.length ∧ (run a st ops).1.nOp = st.nOp + ops.length := by
  induction ops generalizing st with
  | nil => simp [run]
  | cons op ops ih =>
    obtain ⟨i1, i2⟩ := ih (step a st op).1
    refine ⟨by simp [run, i1], ?_⟩
    simp only [run, i2, List.length_cons]
    simp only [step]
    omega

/-- **`connect_to_server`.**  The context initialises exactly once on entry.  If that
`initialize` fails, its exception is the only result, the one request is all the transport ever
saw and no operation of the body ran; if it succeeds with version `v`, the transport sees the
request, `set_protocol_version(v)`, and then only the body's own helpers (at most one request per
operation, never a second `initialize`), with one result per operation after the entry result. -/
theorem c15_connect_shape (a : Answers ι ρ ε) (ops : List Op) :
    (∀ e, a.inits 0 = .error e → (connect a ops).2 = ([.raised e], [.request .init]))
    ∧ (∀ v info, a.inits 0 = .ok (v, info) →
        ∃ rest, (connect a ops).2.2 = Ev.request .init :: Ev.setVersion v :: rest
          ∧ rest.all isOtherReq = true ∧ rest.length ≤ ops.length
          ∧ (connect a ops).2.1.length = 1 + ops.length
          ∧ (connect a ops).2.1.head? = some (.initialized v info)
          ∧ (connect a ops).1.nInit = 1) := by
  constructor
  · intro e he
    simp [connect, initOp, St.fresh, he]
  · intro v info hv
    have hst : ({ initialized := true, info := some info, nInit := 1, nCall := 0, nOp := 0 } : St ι).initialized = true := rfl
    obtain ⟨r1, r2, r3⟩ := run_initialized a _ ops hst
    have hn : ∀ (st : St ι) (ops : List Op), st.initialized = true → (run a st ops).1.nInit = st.nInit := by
      intro st ops
      induction ops generalizing st with
      | nil => intro _; simp [run]
      | cons op ops ih =>
        intro h
        obtain ⟨s1, s2, _, _⟩ := step_initialized a st op h
        simp only [run]
        rw [ih _ s1, s2]
    refine ⟨(run a { initialized := true, info := some info, nInit := 1, nCall := 0, nOp := 0 } ops).2.2, ?_, r2, r3, ?_, ?_, ?_⟩
    · simp [connect, initOp, St.fresh, hv]
    · simp [connect, initOp, St.fresh, hv, (c15_client_one_result_per_op a _ ops).1]; omega
    · simp [connect, initOp, St.fresh, hv]
    · simp [connect, initOp, St.fresh, hv]
      exact hn _ ops hst

/-- non-vacuity: the first `initialize` is refused, the second answers version "2025-06-18"; a
tool call, an explicit `initialize`, a prompt listing -/
def exAnswers : Answers Nat Nat String :=
  { inits := fun k => if k = 0 then .error "refused" else .ok ("2025-06-18", 7),
    calls := fun k => if k = 1 then .error "no such prompt" else .ok (100 + k),
    rejects := fun k => if k = 4 then some "name must be a string" else none }

example : (run exAnswers St.fresh [.callTool, .callTool, .init, .listPrompts, .callTool, .listTools]).2.2
      = [.request .init, .request .init, .setVersion "2025-06-18", .request .callTool, .request .listPrompts, .request .listTools]
    ∧ (run exAnswers St.fresh [.callTool, .callTool, .init, .listPrompts, .callTool, .listTools]).1.nInit = 2
    ∧ (run exAnswers St.fresh [.callTool, .callTool, .init, .listPrompts, .callTool, .listTools]).1.nCall = 3 := by
  decide

example : (connect exAnswers [.callTool]).2 = ([.raised "refused"], [.request .init]) :=
  (c15_connect_shape exAnswers [.callTool]).1 "refused" rfl

end client

/-! ## 6. which carrier for which server (`is_streamable_http_url`, `is_sse_url`,
`detect_transport_type`, `try_http_with_sse_fallback`)

`Verif.Model.Detect` over the tables re-read from the source on every run (`Verif.Gen.UrlRules`;
when a function has been rewritten into a shape the translator does not recognise, the tables of
the verified commit stay and the correspondence run alone decides).  The theorems hold for whatever
the tables say, except `results_distinct` / `chosen_iff`, which are facts about the tables.  What the network answers is a
parameter (`post`, `get`): everything holds for every server. -/
section detect
open Verif.Model.Detect Verif.Gen.UrlRules

theorem results_distinct : resBoth ≠ resHttp ∧ resBoth ≠ resSse ∧ resBoth ≠ resUnknown ∧ resHttp ≠ resSse
    ∧ resHttp ≠ resUnknown ∧ resSse ≠ resUnknown := by decide

theorem lower_isEmpty (u : List Char) : (lower u).isEmpty = u.isEmpty := by cases u <;> rfl

/-- **URL heuristics.**  `is_streamable_http_url` holds exactly for a non-empty URL that contains
one of the indicators and none of the SSE patterns, case-insensitively; `is_sse_url` is
case-insensitive too.  (So a URL is never classified Streamable-HTTP when it carries an SSE pattern.) -/
theorem c15_url_heuristics (u : List Char) :
    (isStreamableHttpUrl u = true ↔ u ≠ [] ∧ anyIn httpIndicators (lower u) = true ∧ anyIn httpExcluded (lower u) = false)
    ∧ isStreamableHttpUrl (lower u) = isStreamableHttpUrl u
    ∧ isSseUrl (lower u) = isSseUrl u := by
  refine ⟨?_, ?_, ?_⟩
  · simp [isStreamableHttpUrl, and_assoc]
  · simp only [isStreamableHttpUrl, lower_idem, lower_isEmpty]
  · simp only [isSseUrl, lower_idem, lower_isEmpty]

theorem detect_result (post : Probe) (get : List Char → Probe) (url : List Char) :
    (detect post get url).1 =
      (match works postStatuses postTypes post, (probeGets get (probeUrls url)).1 with
       | true, true => resBoth | true, false => resHttp | false, true => resSse | false, false => resUnknown)
    ∧ (detect post get url).2 = (probeGets get (probeUrls url)).2 := by
  simp only [detect]
  cases works postStatuses postTypes post <;> cases (probeGets get (probeUrls url)).1 <;> simp

/-- **Detection is total and says what the probes showed.**  For every server: the result is one of
the four names; it names Streamable HTTP (`streamable_http` / `both`) exactly when the POST probe
was answered with an accepted status and content type; it names SSE (`sse` / `both`) exactly when
one of the probed GET URLs was — so `unknown` exactly when neither. -/
theorem c15_detect_sound (post : Probe) (get : List Char → Probe) (url : List Char) :
    ((detect post get url).1 = resBoth ∨ (detect post get url).1 = resHttp ∨ (detect post get url).1 = resSse
        ∨ (detect post get url).1 = resUnknown)
    ∧ (((detect post get url).1 = resBoth ∨ (detect post get url).1 = resHttp) ↔ works postStatuses postTypes post = true)
    ∧ (((detect post get url).1 = resBoth ∨ (detect post get url).1 = resSse)
        ↔ ∃ u ∈ probeUrls url, works getStatuses getTypes (get u) = true) := by
  obtain ⟨s1, _, _, _⟩ := probeGets_spec get (probeUrls url)
  obtain ⟨d1, d2, d3, d4, d5, d6⟩ := results_distinct
  rw [(detect_result post get url).1, ← s1]
  cases works postStatuses postTypes post <;> cases (probeGets get (probeUrls url)).1 <;>
    simp [d1, d2, d3, d4, d5, d6, Ne.symm d1, Ne.symm d2, Ne.symm d3, Ne.symm d4, Ne.symm d5, Ne.symm d6]

/-- … and the GET probes go through the derived URLs in order and stop at the first usable one -/
theorem c15_detect_probes (post : Probe) (get : List Char → Probe) (url : List Char) :
    (detect post get url).2 ≤ (probeUrls url).length
    ∧ ((∀ u ∈ probeUrls url, works getStatuses getTypes (get u) = false) → (detect post get url).2 = (probeUrls url).length)
    ∧ ((∃ u ∈ probeUrls url, works getStatuses getTypes (get u) = true) →
        ∃ pre u post', probeUrls url = pre ++ u :: post' ∧ (detect post get url).2 = pre.length + 1
          ∧ works getStatuses getTypes (get u) = true ∧ ∀ v ∈ pre, works getStatuses getTypes (get v) = false) := by
  obtain ⟨s1, s2, s3, s4⟩ := probeGets_spec get (probeUrls url)
  rw [(detect_result post get url).2]
  refine ⟨s2, ?_, fun h => s4 (s1.mpr h)⟩
  intro h
  apply s3
  cases hb : (probeGets get (probeUrls url)).1 with
  | false => rfl
  | true =>
    obtain ⟨u, hu, hw⟩ := s1.mp hb
    rw [h u hu] at hw; cases hw

theorem chosen_iff (post : Probe) (get : List Char → Probe) (url : List Char) :
    httpChosenFor.contains (detect post get url).1 = works postStatuses postTypes post := by
  rw [(detect_result post get url).1]
  cases works postStatuses postTypes post <;> cases (probeGets get (probeUrls url)).1 <;> decide

/-- **Fallback: exactly one carrier, and Streamable HTTP only when the probe found it usable.**
`try_http_with_sse_fallback` returns the Streamable-HTTP client exactly when the URL is a valid
HTTP(S) URL and the POST probe worked; otherwise the SSE client for the derived URL when that URL is
valid (whether or not an SSE probe worked — it is a fallback, not a detection); otherwise it raises.
The three outcomes exclude each other, and the server is probed exactly when the URL is valid. -/
theorem c15_fallback_decision (post : Probe) (get : List Char → Probe) (url : List Char) :
    (∀ u, (fallback post get url).1 = .http u ↔
        (validUrl httpUrlPrefixes url = true ∧ works postStatuses postTypes post = true ∧ u = rstripSet httpUrlRstrip.toList url))
    ∧ (∀ u, (fallback post get url).1 = .sse u ↔
        (¬ (validUrl httpUrlPrefixes url = true ∧ works postStatuses postTypes post = true)
          ∧ validUrl sseUrlPrefixes (sseFallbackUrl url) = true ∧ u = rstripSet sseUrlRstrip.toList (sseFallbackUrl url)))
    ∧ ((fallback post get url).1 = .fail ↔
        (¬ (validUrl httpUrlPrefixes url = true ∧ works postStatuses postTypes post = true)
          ∧ validUrl sseUrlPrefixes (sseFallbackUrl url) = false))
    ∧ ((fallback post get url).2 = validUrl httpUrlPrefixes url) := by
  simp only [fallback, chosen_iff, sseBranch]
  cases hv : validUrl httpUrlPrefixes url <;> cases hw : works postStatuses postTypes post <;>
    cases hs : validUrl sseUrlPrefixes (sseFallbackUrl url) <;> simp [eq_comm]

/-- when the HTTP client cannot be created nothing is probed and the answer is `unknown`; otherwise
`detectOr` is `detect` -/
theorem c15_detect_guard (post : Probe) (get : List Char → Probe) (url : List Char) :
    detectOr false post get url = (resUnknown, 0, false)
    ∧ detectOr true post get url = ((detect post get url).1, (detect post get url).2, true) := by
  simp [detectOr]

/-- **`try_sse_with_fallback` decides exactly one way**: the SSE client iff the URL is a valid HTTP(S)
URL; otherwise migration guidance iff the lowered error text contains one of the needles, else the
original exception — whatever that text is. -/
theorem c15_try_sse_decision (url err : List Char) :
    (∀ u, trySse url err = .client u ↔ (validUrl sseUrlPrefixes url = true ∧ u = rstripSet sseUrlRstrip.toList url))
    ∧ (trySse url err = .guidance ↔ (validUrl sseUrlPrefixes url = false ∧ anyIn guidanceNeedles (lower err) = true))
    ∧ (trySse url err = .reraise ↔ (validUrl sseUrlPrefixes url = false ∧ anyIn guidanceNeedles (lower err) = false)) := by
  simp only [trySse]
  cases validUrl sseUrlPrefixes url <;> cases anyIn guidanceNeedles (lower err) <;> simp [eq_comm]

/-- non-vacuity, stated over the regenerated tables themselves (so that a change of an accepted
status, content type or indicator in the source does not touch it): a POST probe answered with the
first accepted status and content type works; with it Streamable HTTP is detected and chosen; a
server that answers nothing gives `unknown` after all GET probes and the SSE fallback; an invalid
URL is not probed at all and, when the derived SSE URL is invalid too, the function raises.
(At the verified commit `probeUrls "http://example.com/mcp"` is `…/sse`, `http://example.co/sse` —
`rstrip("/mcp")` strips a character SET, here the `m` of `.com` — and `…/mcp/sse`.) -/
example :
    let p : Probe := .resp (postStatuses.headD 0) (postTypes.headD "").toList
    let g : Probe := .resp (getStatuses.headD 0) (getTypes.headD "").toList
    let url := "http://h.test/mcp".toList
    works postStatuses postTypes p = true ∧ works getStatuses getTypes g = true
    ∧ detect p (fun _ => .exc) url = (resHttp, (probeUrls url).length)
    ∧ detect p (fun _ => g) url = (resBoth, 1)
    ∧ detect .exc (fun _ => .resp 404 []) url = (resUnknown, (probeUrls url).length)
    ∧ (fallback p (fun _ => .exc) url).1 = .http (rstripSet httpUrlRstrip.toList url)
    ∧ (fallback .exc (fun _ => g) url).1 = .sse (rstripSet sseUrlRstrip.toList (sseFallbackUrl url))
    ∧ fallback p (fun _ => g) [] = (.fail, false)
    ∧ isStreamableHttpUrl [] = false ∧ isSseUrl [] = false
    ∧ trySse url [] = .client (rstripSet sseUrlRstrip.toList url)
    ∧ trySse [] ("X ".toList ++ (guidanceNeedles.headD "").toList.map Char.toUpper) = .guidance
    ∧ trySse [] [] = .reraise := by
  decide

end detect

/-! ## 7. several transports of one kind alive in one process

A host may hold two or three transports of the same kind at once.  In the model every instance has
its own state by construction; the statement below is what that buys, for EVERY machine of the
carrier models (`StdioIn.step`, `SseReq.feed`, `SseReq.step`, …): however the inputs of any number
of instances are interleaved, each instance ends in the state, and has produced the outputs, it
would have alone.  The harness runs 2–3 real transport instances per carrier simultaneously against
this (`twin`), each with its own scripted server and equal request ids. -/
section instances
open Verif.Lemmas.Instances

/-- **Instances are independent.** -/
theorem c15_instances_independent {S E O : Type} (step : Machine S E O) (sts : Nat → S) (evs : List (Nat × E)) (i : Nat) :
    (runTagged step sts evs).1 i = (runM step (sts i) (forInst i evs)).1
    ∧ forInst i (runTagged step sts evs).2 = (runM step (sts i) (forInst i evs)).2 :=
  instances_independent step sts evs i

/-- … for the stdio reader: any number of readers, their reads interleaved in any way — each read
stream is the one `StdioIn.run` (the model of C05 and of section 1) gives for that reader's own reads -/
theorem c15_stdio_instances {μ : Type} (cfg : StdioIn.Cfg μ) (evs : List (Nat × StdioIn.Ev)) (i : Nat) :
    StdioIn.delivered (forInst i (runTagged (StdioIn.step cfg) (fun _ => StdioIn.init) evs).2)
      = StdioIn.delivered (StdioIn.run cfg StdioIn.init (forInst i evs)).2 := by
  rw [(c15_instances_independent (StdioIn.step cfg) (fun _ => StdioIn.init) evs i).2, runM_stdio]

/-- non-vacuity: two readers, reads interleaved, a line of reader 1 cut across reads of reader 0 -/
example :
    let evs : List (Nat × StdioIn.Ev) := [(1, .chunk [123]), (0, .chunk [123, 125, 10]), (1, .chunk [125]), (0, .chunk [91, 93, 10]), (1, .chunk [10])]
    forInst 1 evs = [.chunk [123], .chunk [125], .chunk [10]]
    ∧ StdioIn.delivered (forInst 1 (runTagged (StdioIn.step realStdio) (fun _ => StdioIn.init) evs).2)
        = StdioIn.delivered (StdioIn.run realStdio StdioIn.init [.chunk [123], .chunk [125], .chunk [10]]).2 :=
  ⟨rfl, c15_stdio_instances _ _ 1⟩

end instances

/-! ## What leaves the carrier's block

The request helpers run inside the carrier's own `async with` block; an exception they raise and
the block does not catch goes through the context manager's exit (`Model/Block.lean`).  The check
lets the last helper's exception leave the block on every carrier and compares what the caller of
the block sees (`escape`), with error messages drawn from the phrases the transports match on. -/
section block
open Verif.Model.Block Verif.Model.Label

/-- **An error reply leaves the block whatever its text**, when the exit decides by class first:
the same as on a carrier whose exit does not look at the exception at all. -/
theorem c15_block_error_leaves (phrases : List (List Char)) (t : List Char) (o : Option Exc)
    (h : ∀ e, o = some e → e.cls ≠ .runtime) :
    leaves (specExit phrases) o = leaves plainExit o
      ∧ leaves (specExit phrases) (some ⟨.rpcError, t⟩) = some ⟨.rpcError, t⟩ := by
  refine ⟨?_, by simp [leaves, specExit]⟩
  cases o with
  | none => rfl
  | some e =>
    have := h e rfl
    simp [leaves, specExit, plainExit, this]

/-- **The defect class**: an exit that decides by the text alone swallows every error reply whose
message mentions one of its phrases — the block ends normally on that carrier only. -/
theorem c15_block_text_exit_swallows (phrases : List (List Char)) (c : Cls) (t : List Char)
    (h : mentions phrases t = true) :
    leaves (textExit phrases) (some ⟨c, t⟩) = none ∧ leaves plainExit (some ⟨c, t⟩) = some ⟨c, t⟩ := by
  simp [leaves, textExit, plainExit, h]

/-- non-vacuity: the error reply `-32000 "Upstream CANCEL SCOPE mismatch"` -/
example : leaves (textExit ["cancel scope".toList]) (some ⟨.rpcError, "Upstream CANCEL SCOPE mismatch".toList⟩) = none
    ∧ leaves (specExit ["cancel scope".toList]) (some ⟨.rpcError, "Upstream CANCEL SCOPE mismatch".toList⟩)
        = some ⟨.rpcError, "Upstream CANCEL SCOPE mismatch".toList⟩
    ∧ leaves (specExit ["cancel scope".toList]) (some ⟨.runtime, "Attempted to exit cancel scope in a different task".toList⟩) = none := by
  decide

end block

end Verif.Props.C15
