import Verif.Props.C02
import Verif.Lemmas.RpcExt
import Verif.Gen.Methods

/-! # C02 — supplementary obligations (not stated by the property text)

Built and audited on every run like `Props/C02.lean`; a failure here (for instance because a refactor took
the source out of the translator's subset and `Gen/Methods.lean` carries placeholders) is reported as INFO
and in the evidence, never as a verdict about C02.  C02's text is about what is EMITTED: validity, parse∘emit,
payload fidelity, the wire round trip — those theorems are in `Props/C02.lean` and do not depend on anything
generated. -/
set_option linter.unusedSimpArgs false
namespace Verif.Props.C02
open Verif.Model.Json Verif.Model.Rpc

/-! ## Extension: the notification layer, the error classes and the client-side answers

`Verif.Gen.Methods` is REGENERATED from the source on every run (the `MessageMethod` enum, the method
each `send_*_notification` emits, the method each `handle_*_notification` listens to, the list
`NotificationHandler.register_defaults` registers, the completion truncation limit, the default
error codes of the exception classes). -/

open Verif.Gen.Methods in
/-- the translator covered every fragment it was asked for -/
theorem c02_methods_translated : Verif.Gen.Methods.translatable = true := by decide

open Verif.Gen.Methods in
/-- Consistency of the method strings in the source: every sender emits, every handler listens to and
every default registration names a member of `MessageMethod`; sender and handler of the same
notification use the SAME string; no method is registered twice by `register_defaults`. -/
theorem c02_method_tables_consistent :
    (∀ s ∈ senders, s.2 ∈ methods.map (·.2)) ∧ (∀ h ∈ handlers, h.2 ∈ methods.map (·.2)) ∧
    (∀ d ∈ defaults, d ∈ methods.map (·.2)) ∧ (∀ p ∈ pairs, p.2.1 = p.2.2) ∧ defaults.Nodup ∧
    (methods.map (·.2)).Nodup := by
  decide +kernel

/-- Every notification sender emits a `Built` message (hence valid, and parsed back to itself by
`c02_emit_valid` / `c02_parse_emit`), whatever the token / id type, progress values, texts. -/
theorem c02_notification_senders_built (m : Str) (tok rid : Id) (p t msg reason : Json) :
    Built (sendProgress m tok p t msg) ∧ Built (sendCancelled m rid reason) ∧ Built (sendListChanged m) :=
  ⟨.sendNotification _ _, .sendNotification _ _, .sendNotification _ _⟩

/-- Sender → wire → handler: the callback of `handle_progress_notification` receives exactly the token
(with its JSON type), progress, total and message that `send_progress_notification` was given
(`null` = the optional argument was `None`); likewise for cancellations and the list-changed family. -/
theorem c02_notification_delivered (m : Str) (tok rid : Id) (p t msg reason : Json) :
    handleProgress m (objOf (emit (sendProgress m tok p t msg))) = .ok (some [tok.toJson, p, t, msg]) ∧
    handleCancelled m (objOf (emit (sendCancelled m rid reason))) = .ok (some [rid.toJson, reason]) ∧
    handleListChanged m (objOf (emit (sendListChanged m))) = .ok (some []) :=
  ⟨progress_delivered m tok p t msg, cancelled_delivered m rid reason, listChanged_delivered m⟩

/-- A handler never calls back for another method, and raises only when `params` is present and is
not an object. -/
theorem c02_handler_guard (m : Str) (n : Obj) :
    (methodIs n m = false →
      handleProgress m n = .ok none ∧ handleCancelled m n = .ok none ∧ handleLogging m n = .ok none ∧
      handleListChanged m n = .ok none ∧ handleResourcesUpdated m n = .ok none) ∧
    (∀ p, paramsOf n = .ok p →
      (∃ c, handleProgress m n = .ok c) ∧ (∃ c, handleCancelled m n = .ok c) ∧ (∃ c, handleLogging m n = .ok c) ∧
      (∃ c, handleResourcesUpdated m n = .ok c)) := by
  constructor
  · intro h; simp [handleProgress, handleCancelled, handleLogging, handleListChanged, handleResourcesUpdated, h]
  · intro p hp
    by_cases h : methodIs n m = true <;>
      simp [handleProgress, handleCancelled, handleLogging, handleResourcesUpdated, h, hp]

/-- `NotificationHandler`: a notification is routed to the LAST handler registered for its method;
one without a method, with an empty method or with an unregistered method is ignored; `handle` itself
raises only for an unhashable (list / object) method, and never because a handler raised (the outcome
does not depend on what the handler does). -/
theorem c02_notification_handler_dispatch {α : Type} (hs : List (Str × α)) (m m' : Str) (h : α) (n : Obj) :
    nhLookup (nhRegister hs m h) m = some h ∧
    (m' ≠ m → nhLookup (nhRegister hs m h) m' = nhLookup hs m') ∧
    (getKey kMethod n = some (.str m) → m ≠ [] → nhHandle hs n = .ok (nhLookup hs m)) ∧
    (getKey kMethod n = none ∨ getKey kMethod n = some .null ∨ getKey kMethod n = some (.str []) → nhHandle hs n = .ok none) := by
  refine ⟨nhLookup_register_same hs m h, nhLookup_register_other hs m m' h, ?_, ?_⟩
  · intro hm hne
    cases m with
    | nil => exact absurd rfl hne
    | cons c cs => simp [nhHandle, hm, truthy]
  · rintro (hm | hm | hm) <;> simp [nhHandle, hm, truthy]

/-- `register_defaults` leaves a handler for every method of its list. -/
theorem c02_register_defaults {α : Type} (hs : List (Str × α)) (ms : List Str) (h : α) :
    ∀ m ∈ ms, nhLookup (nhRegisterAll hs ms h) m = some h :=
  fun m hm => nhLookup_registerAll ms h hs m hm

/-- The kind predicates of the message classes agree with the kind of every emitted message
(`is_response` / `is_error_response` are false for the null-id error dicts, which have no id). -/
theorem c02_kind_predicates (m : Msg) (h : Built m) :
    isRequest (view m) = decide (kind m = .request) ∧
    isNotification (view m) = decide (kind m = .notification) ∧
    (isResponse (view m) = true ↔ (kind m = .response ∨ (kind m = .error ∧ (view m).id.isSome = true))) ∧
    (isErrorResponse (view m) = true ↔ (kind m = .error ∧ (view m).id.isSome = true)) := by
  have hk := built_ok h
  cases m with
  | request id method params => simp [view, kind, isRequest, isNotification, isResponse, isErrorResponse]
  | notification method params => simp [view, kind, isRequest, isNotification, isResponse, isErrorResponse]
  | response id r => cases r <;> simp_all [Ok, view, kind, isRequest, isNotification, isResponse, isErrorResponse]
  | error id e => cases id <;> simp [view, kind, isRequest, isNotification, isResponse, isErrorResponse]

/-- `create_error_data` / `to_json_rpc_error()` of every exception class is a well-formed error object,
so an error response built from it is an emitted (`Built`) message; and
`VersionMismatchError.from_json_rpc_error` recovers what `to_json_rpc_error` wrote. -/
theorem c02_exception_error_objects (id : Option Id) (code : Int) (msg req : Str) (sup : List Str) (data : Json) :
    validErr (.obj (errorData code msg data)) = true ∧ Built (.error id (errorData code msg data)) ∧
    validErr (.obj (versionMismatchData code msg req sup)) = true ∧
    versionMismatchFrom (versionMismatchData code msg req sup) = .ok (.str req, .arr (sup.map .str)) := by
  refine ⟨validErr_errObj _ _ _, .dictError id code msg data, validErr_errObj _ _ _, ?_⟩
  simp [versionMismatchFrom, versionMismatchData, errObj, getKey, getOr, kCode, kMessage, kData, kSupported, kRequested]

/-- `handle_roots_list_request`: with an id the answer is an emitted response whose result is exactly
the roots list (names kept, `null` when a root has none); without an id the constructor raises. -/
theorem c02_roots_list_response (id : Option Id) (roots : List (Str × Json)) :
    (∀ i, id = some i → ∃ m, rootsListResponse id roots = .ok m ∧ Built m ∧
      memberOf kResult (emit m) = some (.obj [(kRoots, .arr (roots.map fun r => rootJson r.1 r.2))])) ∧
    (id = none → rootsListResponse id roots = .error .noId) := by
  constructor
  · intro i hi
    subst hi
    refine ⟨_, rfl, .createResponse (id := some i) (result := .obj [(kRoots, .arr (roots.map fun r => rootJson r.1 r.2))]) rfl, ?_⟩
    simp [emit, member, memberOf, getKey, kJsonrpc, kId, kResult]
  · intro hi; subst hi; rfl

/-- `SamplingHandler.handle_create_message_request`: a result exists exactly when the request was not
rejected and a provider is configured; its `model` is the selector's answer when a selector is set and
model preferences were given, `"default-model"` otherwise; role / content / stopReason are the
provider's; wrapped by `create_response` it is an emitted message carrying the result unchanged. -/
theorem c02_sampling_result (approval : Option Bool) (selected : Option Json) (prefs role content stop : Json) (id : Id) :
    (∀ r, samplingResult approval selected prefs (some (role, content, stop)) = .ok r →
      approval ≠ some false ∧ getKey kRole r = some role ∧ getKey kContent r = some content ∧ getKey kStopReason r = some stop ∧
      getKey kModel r = some (selectedModel selected prefs) ∧
      ∃ m, createResponse (some id) (.obj r) = .ok m ∧ Built m ∧ memberOf kResult (emit m) = some (.obj r)) ∧
    (approval = some false → samplingResult approval selected prefs (some (role, content, stop)) = .error .rejected) ∧
    (approval ≠ some false → samplingResult approval selected prefs none = .error .noProvider) := by
  refine ⟨?_, ?_, ?_⟩
  · intro r hr
    have hne : approval ≠ some false := by
      intro h; subst h; simp [samplingResult] at hr
    have hr' : r = [(kRole, role), (kContent, content), (kModel, selectedModel selected prefs), (kStopReason, stop)] := by
      cases approval with
      | none => simp [samplingResult] at hr; exact hr.symm
      | some b => cases b <;> simp_all [samplingResult]
    subst hr'
    refine ⟨hne, by simp [getKey], by simp [getKey, kRole, kContent], by simp [getKey, kRole, kContent, kModel, kStopReason],
      by simp [getKey, kRole, kContent, kModel], ?_⟩
    exact ⟨_, rfl, .createResponse (id := some id) (result := .obj _) rfl, by simp [emit, member, memberOf, getKey, kJsonrpc, kId, kResult]⟩
  · intro h; subst h; rfl
  · intro h
    cases approval with
    | none => rfl
    | some b => cases b <;> simp_all [samplingResult]

open Verif.Gen.Methods in
/-- `CompletionProvider.handle_completion_request`: at most `completionLimit` (regenerated: 100) values
are returned, they are a prefix of the handler's list, `hasMore` says whether something was cut and
`total` is the full count exactly when nothing was. -/
theorem c02_completion_truncation {α : Type} (values : List α) :
    (completionResult completionLimit values).1 = values.take completionLimit ∧
    (completionResult completionLimit values).1.length ≤ completionLimit ∧
    (completionResult completionLimit values).2.2 = decide (values.length > completionLimit) ∧
    (completionResult completionLimit values).2.1 = (if values.length > completionLimit then none else some values.length) :=
  completionResult_spec completionLimit values

/-- `complete_enum_value`: exactly the allowed values that start with the current value (compared
case-insensitively unless asked otherwise), in their original order. -/
theorem c02_complete_enum (cs : Bool) (cur : Str) (allowed : List Str) :
    let key : Str → Str := fun v => if cs then v else v.map lowerAscii
    (∀ v, v ∈ completeEnum cs cur allowed ↔ (v ∈ allowed ∧ (key cur).isPrefixOf (key v) = true)) ∧
    (completeEnum cs cur allowed).Sublist allowed := by
  cases cs <;> simp [completeEnum, List.mem_filter]

/-- `RootsManager`: at most one list-changed notification per operation (adding always notifies,
removing only when the uri was present, clearing only when there was something to clear). -/
theorem c02_roots_manager_notifications (ops : List RmOp) : (rmRun ops).2 ≤ ops.length := by
  have key : ∀ (ops : List RmOp) (st : List (Str × Json) × Nat), (ops.foldl rmStep st).2 ≤ st.2 + ops.length := by
    intro ops
    induction ops with
    | nil => intro st; simp
    | cons op rest ih =>
      intro st
      simp only [List.foldl_cons, List.length_cons]
      have h1 := ih (rmStep st op)
      have h2 : (rmStep st op).2 ≤ st.2 + 1 := by
        cases op <;> simp [rmStep] <;> split <;> simp
      omega
  simpa [rmRun] using key ops ([], 0)

/-- `to_specific_type()` turns every emitted message that has an id or a method into the envelope
class of its kind (and refuses the null-id error dicts, which have neither). -/
theorem c02_to_specific_type (m : Msg) (h : Built m) :
    ((view m).id.isSome = true ∨ (view m).method.isSome = true → toSpecificKind (view m) = some (kind m)) ∧
    ((view m).id = none → (view m).method = none → toSpecificKind (view m) = none) := by
  have hk := built_ok h
  cases m with
  | request id method params => simp [view, kind, toSpecificKind]
  | notification method params => simp [view, kind, toSpecificKind]
  | response id r => cases r <;> simp_all [Ok, view, kind, toSpecificKind]
  | error id e => cases id <;> simp [view, kind, toSpecificKind]

/-- `parse_message` on a list: a batch is refused as "mixed" as soon as one item took the legacy path
(which every ordinary request, notification and dict-result response does) unless the batch is empty.
(The transports iterate over batch items themselves and never hand a list to `parse_message`.) -/
theorem c02_parse_batch_legacy_items (items : List Json) (cs : List Cls)
    (h : items.mapM parseClass = .ok cs) (hl : Cls.legacy ∈ cs) : parseBatch items = .mixed := by
  have h1 : cs.all (fun c => c = .request || c = .notification) = false := by
    simp only [List.all_eq_false]
    exact ⟨.legacy, hl, by decide⟩
  have h2 : cs.all (fun c => c = .response || c = .error) = false := by
    simp only [List.all_eq_false]
    exact ⟨.legacy, hl, by decide⟩
  simp [parseBatch, h, h1, h2]

/-- Instances are independent: two `RootsManager`s (or two `NotificationHandler` registries) driven alternately
end in exactly the states each reaches on its own operations — nothing is shared between instances. -/
theorem c02_instances_independent (ops : List (Bool × RmOp)) (regs : List (Bool × (Str × Nat)))
    (a b : List (Str × Json) × Nat) (ha hb : List (Str × Nat)) :
    ops.foldl (stepTwo rmStep) (a, b) =
      (((ops.filter (fun o => o.1)).map (·.2)).foldl rmStep a, ((ops.filter (fun o => !o.1)).map (·.2)).foldl rmStep b) ∧
    regs.foldl (stepTwo fun hs r => nhRegister hs r.1 r.2) (ha, hb) =
      (((regs.filter (fun o => o.1)).map (·.2)).foldl (fun hs r => nhRegister hs r.1 r.2) ha,
       ((regs.filter (fun o => !o.1)).map (·.2)).foldl (fun hs r => nhRegister hs r.1 r.2) hb) :=
  ⟨foldl_two rmStep ops a b, foldl_two _ regs ha hb⟩

/-! Non-vacuity of the extension -/
example : handleProgress ['p'] [(kMethod, .str ['p']), (kParams, .null)] = .error .paramsNotDict := rfl
example : handleProgress ['p'] [(kMethod, .str ['p'])] = .ok (some [.null, .int 0, .null, .null]) := rfl
example : handleResourcesUpdated ['u'] [(kMethod, .str ['u']), (kParams, .obj [(kUri, .str [])])] = .ok none := rfl
example : nhHandle (nhRegister (nhRegister [] ['m'] 1) ['m'] 2) [(kMethod, .str ['m'])] = .ok (some 2) := rfl
example : nhHandle ([] : List (Str × Nat)) [(kMethod, .arr [.int 1])] = .error .methodUnhashable := rfl
example : (completionResult 2 [1, 2, 3]) = ([1, 2], none, true) ∧ (completionResult 2 [1, 2]) = ([1, 2], some 2, false) := ⟨rfl, rfl⟩
example : isResponse (view (.error none [])) = false := rfl
example : parseBatch [] = .ok 0 := rfl
example : parseBatch [emit (.request (.int 1) ['m'] none)] = .mixed := by decide
example : parseBatch [emit (.response (.int 1) (.arr []))] = .ok 1 := by decide
example : (rmRun [.add ['a'] .null, .add ['a'] .null, .remove ['b'], .clear, .clear]).2 = 3 := by decide
example : Verif.Gen.Methods.completionLimit = 100 ∧ Verif.Gen.Methods.pairs.length ≥ 2 := by decide

end Verif.Props.C02
