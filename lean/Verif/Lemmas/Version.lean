import Verif.Model.Version

/-! Helper lemmas about `Model/Version.lean` (core tactics only). -/
namespace Verif.Lemmas.Version
open Verif.Model.Version

theorem proposed_mem {sup : List String} {pref : Option String} {p : String}
    (h : proposed sup pref = some p) : p ∈ sup := by
  unfold proposed at h
  split at h
  · split at h
    · simp_all
    · exact List.mem_of_mem_head? (by simp [h])
  · exact List.mem_of_mem_head? (by simp [h])

theorem proposed_isSome {sup : List String} (pref : Option String) (h : sup ≠ []) :
    ∃ p, proposed sup pref = some p := by
  cases sup with
  | nil => exact absurd rfl h
  | cons a t =>
    unfold proposed
    split
    · split
      · exact ⟨_, rfl⟩
      · exact ⟨a, rfl⟩
    · exact ⟨a, rfl⟩

theorem headD_mem {sup : List String} (h : sup ≠ []) : sup.headD "" ∈ sup := by
  cases sup with
  | nil => exact absurd rfl h
  | cons a t => simp

theorem serverAnswer_mem (sup : List String) (dflt : Option String) (r : Requested)
    (h : sup ≠ []) : serverAnswer sup dflt r ∈ sup := by
  unfold serverAnswer
  have := headD_mem h
  split
  · split
    · assumption
    · exact this
  · exact this

/-- the shape of every run of `clientInit` that has something to propose -/
theorem clientInit_cases (sup : List String) (pref : Option String) (ans : Answer) (p : String)
    (hp : proposed sup pref = some p) :
    (∃ v, ans = .version v ∧ v ∈ sup ∧
        clientInit sup pref ans = (.ok v, [.sent (.initialize p), .answered, .sent .initialized]))
    ∨ ((clientInit sup pref ans).1 ≠ .noVersions ∧ (∀ v, (clientInit sup pref ans).1 ≠ .ok v)
        ∧ ((clientInit sup pref ans).2 = [.sent (.initialize p), .answered]
           ∨ ((ans = .silence ∨ ans = .closed) ∧ (clientInit sup pref ans).2 = [.sent (.initialize p)]))) := by
  have hm := proposed_mem hp
  unfold clientInit
  rw [hp]
  cases ans with
  | silence => simp
  | closed => simp
  | malformed => simp
  | rpcError c m =>
    simp only []
    split <;> simp
  | version s =>
    simp only []
    split
    · rename_i h
      left
      refine ⟨s, rfl, ?_, rfl⟩
      rcases h with h | h
      · exact h ▸ hm
      · exact h
    · simp

/-- a successful run: the answer was a version string of the list, and it is what is returned -/
theorem clientInit_ok {sup : List String} {pref : Option String} {ans : Answer} {v : String}
    {w : List Ev} (h : clientInit sup pref ans = (.ok v, w)) : v ∈ sup ∧ ans = .version v := by
  cases hp : proposed sup pref with
  | none => simp [clientInit, hp] at h
  | some p =>
    rcases clientInit_cases sup pref ans p hp with ⟨v', ha, hm, he⟩ | ⟨_, hno, _⟩
    · rw [he] at h
      simp only [Prod.mk.injEq, Outcome.ok.injEq] at h
      exact ⟨h.1 ▸ hm, h.1 ▸ ha⟩
    · exact absurd (by rw [h]) (hno v)

end Verif.Lemmas.Version
