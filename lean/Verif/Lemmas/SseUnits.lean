import Verif.Lemmas.SseReq
import Verif.Model.SseUnits

/-! Helper lemmas for the supplementary C12 theorems (`Model/SseUnits.lean`). No Mathlib. -/
namespace Verif.Model.SseUnits
open Verif.Model.SseReq

theorem startsWith_append (p s : Str) : startsWith p (p ++ s) = true := by
  simp [startsWith, stripPrefix_append]

theorem hasSub_singleton (c : Char) (s : Str) : hasSub [c] s = s.contains c := by
  induction s with
  | nil => simp [hasSub]
  | cons x xs ih =>
    simp only [hasSub, ih, startsWith, stripPrefix, List.contains_cons]
    by_cases h : c = x
    · subst h; simp [stripPrefix]
    · have h' : (x == c) = false := by simp [Ne.symm h]
      simp [h, h']

theorem hasSub_mid (pat a b : Str) : hasSub pat (a ++ pat ++ b) = true := by
  induction a with
  | nil =>
    cases hp : pat ++ b with
    | nil =>
      have : pat = [] := by cases pat <;> simp_all
      subst this; simp_all [hasSub]
    | cons c cs =>
      simp only [List.nil_append, hp, hasSub]
      rw [← hp, startsWith_append]; simp
  | cons x xs ih =>
    simp only [List.cons_append, hasSub]
    simp only [List.append_assoc] at ih
    simp [ih]

theorem lower_append (a b : Str) : lower (a ++ b) = lower a ++ lower b := by simp [lower]

theorem afterFirst_none_iff (pat s : Str) : afterFirst pat s = none ↔ hasSub pat s = false := by
  induction s with
  | nil => cases pat <;> simp [afterFirst, hasSub]
  | cons c cs ih =>
    simp only [afterFirst, hasSub, startsWith]
    cases h : stripPrefix pat (c :: cs) with
    | none => simp [ih]
    | some r => simp

theorem dropWhile_idem (p : Char → Bool) (s : Str) : (s.dropWhile p).dropWhile p = s.dropWhile p := by
  induction s with
  | nil => rfl
  | cons x xs ih =>
    by_cases h : p x
    · simp [List.dropWhile_cons, h, ih]
    · simp [List.dropWhile_cons, h]

theorem rdrop_idem (p : Char → Bool) (s : Str) : rdrop p (rdrop p s) = rdrop p s := by
  simp [rdrop, dropWhile_idem]

theorem isAuthKey_mentions (k : Str) (h : isAuthKey k = true) : mentionsAuth k = true := by
  have : lower k = sAuthLower := by simpa [isAuthKey] using h
  unfold mentionsAuth
  rw [this]
  decide

theorem any_mentions_of_any_auth (h : Headers) (ha : h.any (fun kv => isAuthKey kv.1) = true) :
    h.any (fun kv => mentionsAuth kv.1) = true := by
  obtain ⟨kv, hkv, hk⟩ := List.any_eq_true.mp ha
  exact List.any_eq_true.mpr ⟨kv, hkv, isAuthKey_mentions _ hk⟩

theorem ite_single_nil {α : Type} (c : Bool) (x : α) : (if c = true then [x] else []) = [] ↔ c = false := by
  cases c <;> simp

theorem badFields_nil_iff (R : NumRules) (p : ParamIn) :
    badFields R p = [] ↔
      ((p.url = [] || !(startsWith sHttpScheme p.url || startsWith sHttpsScheme p.url)) = false
       ∧ R.timeout p.timeout = false ∧ R.maxReconnect p.maxReconnect = false
       ∧ R.reconnectDelay p.reconnectDelay = false ∧ R.keepAlive p.keepAlive = false) := by
  unfold badFields
  simp only [List.append_eq_nil_iff, ite_single_nil, and_assoc]

theorem validate_ok_iff (R : NumRules) (p : ParamIn) : (∃ o, validate R p = .ok o) ↔ badFields R p = [] := by
  unfold validate
  by_cases h : badFields R p = [] <;> simp [h]

end Verif.Model.SseUnits
