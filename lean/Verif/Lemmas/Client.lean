import Verif.Model.Client

/-! # Lemmas about the `MCPClient` model -/
set_option linter.unusedVariables false
set_option linter.unusedSimpArgs false
namespace Verif.Model.Client
variable {ι ρ ε : Type}

def isOtherReq : Ev → Bool
  | .request .init => false
  | .request _ => true
  | .setVersion _ => false

/-- the shape of everything a client does to its transport: failed `initialize` attempts, then
(if one succeeds) that `initialize`, `set_protocol_version` with the answered version, and from
then on only the helpers of the operations -/
def Shape (a : Answers ι ρ ε) (n0 : Nat) (tr : List Ev) : Prop :=
  ∃ k, (∀ j, j < k → ∃ e, a.inits (n0 + j) = .error e) ∧
    (tr = List.replicate k (Ev.request .init) ∨
     ∃ v info rest, a.inits (n0 + k) = .ok (v, info) ∧ rest.all isOtherReq = true ∧
       tr = List.replicate k (Ev.request .init) ++ Ev.request .init :: Ev.setVersion v :: rest)

theorem initOp_initialized (a : Answers ι ρ ε) (st : St ι) (h : st.initialized = true) :
    initOp a st = (st, .cached st.info, []) := by
  simp [initOp, h]

theorem call_initialized (a : Answers ι ρ ε) (st : St ι) (op : Op) (h : st.initialized = true) :
    (call a st op).1.initialized = true ∧ (call a st op).1.nInit = st.nInit
    ∧ ((call a st op).2.2 = [.request op] ∨ (call a st op).2.2 = []) := by
  unfold call
  simp only [h, if_true]
  cases a.rejects st.nOp <;> simp [h]
  cases a.calls st.nCall <;> simp [h]

theorem step_initialized (a : Answers ι ρ ε) (st : St ι) (op : Op) (h : st.initialized = true) :
    (step a st op).1.initialized = true ∧ (step a st op).1.nInit = st.nInit ∧
      (step a st op).2.2.all isOtherReq = true ∧ (step a st op).2.2.length ≤ 1 := by
  by_cases ho : op = .init
  · subst ho; simp [step, step1, initOp_initialized a st h, h]
  · have hs : step1 a st op = call a st op := by cases op <;> simp_all [step1]
    obtain ⟨h1, h2, h3⟩ := call_initialized a st op h
    simp only [step, hs]
    refine ⟨h1, h2, ?_, ?_⟩
    · rcases h3 with h3 | h3 <;> rw [h3]
      · cases op <;> simp_all [isOtherReq]
      · rfl
    · rcases h3 with h3 | h3 <;> simp [h3]

/-- an initialised client never initialises again: only the operations' own helpers run, at most
one request per operation -/
theorem run_initialized (a : Answers ι ρ ε) (st : St ι) (ops : List Op) (h : st.initialized = true) :
    (run a st ops).1.initialized = true ∧ (run a st ops).2.2.all isOtherReq = true
    ∧ (run a st ops).2.2.length ≤ ops.length := by
  induction ops generalizing st with
  | nil => simp [run, h]
  | cons op ops ih =>
    obtain ⟨h1, _, h3, h4⟩ := step_initialized a st op h
    obtain ⟨i1, i2, i3⟩ := ih (step a st op).1 h1
    refine ⟨by simpa [run] using i1, ?_, ?_⟩
    · simp only [run, List.all_append, h3, i2, Bool.and_self]
    · simp only [run, List.length_append, List.length_cons]; omega

theorem shape_succ (a : Answers ι ρ ε) (n0 : Nat) (tr : List Ev) (e : ε) (he : a.inits n0 = .error e)
    (h : Shape a (n0 + 1) tr) : Shape a n0 (Ev.request .init :: tr) := by
  obtain ⟨k, hk, h⟩ := h
  refine ⟨k + 1, ?_, ?_⟩
  · intro j hj
    cases j with
    | zero => exact ⟨e, by simpa using he⟩
    | succ j => obtain ⟨e', he'⟩ := hk j (by omega); exact ⟨e', by rw [← he']; congr 1; omega⟩
  · rcases h with h | ⟨v, info, rest, h1, h2, h3⟩
    · left; simp [h, List.replicate_succ]
    · right; exact ⟨v, info, rest, by rw [← h1]; congr 1; omega, h2, by simp [h3, List.replicate_succ]⟩

/-- the step of a client that is not initialised: either the `initialize` attempt fails (one
request, nothing else, still not initialised) or it succeeds (the request, `set_protocol_version`,
then the operation's helper if it has one) -/
theorem step_fresh (a : Answers ι ρ ε) (st : St ι) (op : Op) (h : st.initialized = false) :
    (∃ e, a.inits st.nInit = .error e ∧ (step a st op).1.initialized = false ∧
        (step a st op).1.nInit = st.nInit + 1 ∧ (step a st op).2.2 = [.request .init]) ∨
    (∃ v info rest, a.inits st.nInit = .ok (v, info) ∧ (step a st op).1.initialized = true ∧ rest.all isOtherReq = true ∧
        (step a st op).2.2 = Ev.request .init :: Ev.setVersion v :: rest) := by
  cases hi : a.inits st.nInit with
  | error e =>
    left
    refine ⟨e, rfl, ?_⟩
    cases op <;> simp [step, step1, call, initOp, h, hi]
  | ok p =>
    right
    obtain ⟨v, info⟩ := p
    by_cases ho : op = .init
    · subst ho
      exact ⟨v, info, [], rfl, by simp [step, step1, initOp, h, hi], rfl, by simp [step, step1, initOp, h, hi]⟩
    · cases hr : a.rejects st.nOp with
      | some e =>
        refine ⟨v, info, [], rfl, ?_, rfl, ?_⟩ <;> cases op <;> simp_all [step, step1, call, initOp]
      | none =>
        refine ⟨v, info, [.request op], rfl, ?_, ?_, ?_⟩
        · cases op <;> simp_all [step, step1, call, initOp] <;> (cases a.calls st.nCall <;> simp)
        · cases op <;> simp_all [isOtherReq]
        · cases op <;> simp_all [step, step1, call, initOp] <;> (cases a.calls st.nCall <;> simp)

theorem run_shape (a : Answers ι ρ ε) (st : St ι) (ops : List Op) (h : st.initialized = false) :
    Shape a st.nInit (run a st ops).2.2 := by
  induction ops generalizing st with
  | nil => exact ⟨0, by intro j hj; omega, Or.inl (by simp [run])⟩
  | cons op ops ih =>
    rcases step_fresh a st op h with ⟨e, he, h1, h2, h3⟩ | ⟨v, info, rest, hv, h1, hrest, h3⟩
    · have := ih (step a st op).1 h1
      rw [h2] at this
      have := shape_succ a st.nInit _ e he this
      simpa [run, h3] using this
    · obtain ⟨_, r2, _⟩ := run_initialized a (step a st op).1 ops h1
      refine ⟨0, by intro j hj; omega, Or.inr ⟨v, info, rest ++ (run a (step a st op).1 ops).2.2,
        by simpa using hv, ?_, ?_⟩⟩
      · simp only [List.all_append, hrest, r2, Bool.and_self]
      · simp only [run, h3, List.replicate_zero, List.nil_append, List.cons_append]

end Verif.Model.Client
