import Verif.Model.StdioOut
import Verif.Lemmas.StdioIn
import Verif.Lemmas.StdioCodec
import Verif.Lemmas.Json
import Verif.Lemmas.Rpc

/-! Helper lemmas for C06: UTF-8 encoding introduces no LF/CR byte, the byte stream splits back into
the lines, lines decode (UTF-8 then `Json.dec`) to the values, interleavings of two writers.  The
JSON facts (`enc_noBreak`, `dec_enc`) are C17's (`Lemmas/Json.lean`), `wf_emit` is C02's. -/
set_option linter.unusedVariables false
set_option linter.unusedSimpArgs false
namespace Verif.Lemmas.StdioOut
open Verif.Model.StdioIn Verif.Model.StdioOut Verif.Lemmas.StdioIn Verif.Model.Json
open Verif.Model.Carrier (codes chars)
open Verif.Lemmas.StdioCodec (lf_notin_codes validText_codes chars_codes)

/-! ### UTF-8 encoding introduces no LF / CR byte -/

theorem encodeChar_small (c b : Nat) (hb : b ∈ encodeChar c) (h : b < 128) : b = c := by
  unfold encodeChar at hb
  split at hb
  · simpa using hb
  · split at hb
    · simp at hb; omega
    · split at hb
      · simp at hb; omega
      · simp at hb; omega

theorem encode_small (l : List Nat) (b : Nat) (hb : b ∈ encode l) (h : b < 128) : b ∈ l := by
  simp only [encode, List.mem_flatMap] at hb
  obtain ⟨c, hc, hbc⟩ := hb
  have := encodeChar_small c b hbc h
  exact this ▸ hc

theorem encode_no_lf (l : List Nat) (h : LF ∉ l) : LF ∉ encode l :=
  fun hb => h (encode_small l LF hb (by decide))

theorem encode_append (a b : List Nat) : encode (a ++ b) = encode a ++ encode b := by
  simp [encode, List.flatMap_append]

theorem encode_lf : encode [LF] = [LF] := by decide

/-- the byte stream of LF-terminated lines splits back into the (encoded) lines -/
theorem split_lines (lines : List (List Char)) (h : ∀ l ∈ lines, '\n' ∉ l) :
    split LF (lines.map (fun l => encode (codes l ++ [LF]))).flatten = (lines.map (fun l => encode (codes l)), []) := by
  induction lines with
  | nil => simp [split]
  | cons l ls ih =>
    have hl := encode_no_lf (codes l) (lf_notin_codes l (h l (by simp)))
    have ih' := ih (fun x hx => h x (by simp [hx]))
    simp only [List.map_cons, List.flatten_cons]
    have e : encode (codes l ++ [LF]) = encode (codes l) ++ [LF] := by rw [encode_append, encode_lf]
    rw [e, List.append_assoc, List.singleton_append, split_line LF _ _ hl, ih']

/-- UTF-8 decoding then `chars` gives the text back -/
theorem decBytes_codes (l : List Char) : decBytes [] (encode (codes l)) = .ok (codes l, []) :=
  dec_encode (codes l) (validText_codes l)

theorem decLine_codes (l : List Char) : decLine (encode (codes l)) = dec l := by
  simp [decLine, decBytes_codes, chars_codes]

/-- the accepted lines, in order -/
theorem sends_eq (sty : Style) (items : List Outbound) :
    sends sty items = (items.filterMap (ser sty)).map (fun l => encode (codes l ++ [LF])) := by
  induction items with
  | nil => rfl
  | cons it rest ih =>
    simp only [sends, List.filterMap_cons] at *
    cases ser sty it <;> simp [ih]

/-! ### two writers -/

theorem interleaving_left_nil {α : Type} (a : List α) : Interleaving a [] a := by
  induction a with
  | nil => exact .nil
  | cons x xs ih => exact .left x ih

theorem interleaving_right_nil {α : Type} (b : List α) : Interleaving [] b b := by
  induction b with
  | nil => exact .nil
  | cons x xs ih => exact .right x ih

theorem interleaving_append {α : Type} (a b : List α) : Interleaving a b (a ++ b) := by
  induction a with
  | nil => exact interleaving_right_nil b
  | cons x xs ih => exact .left x ih

/-- every schedule yields an interleaving … -/
theorem mergeAll_interleaving {α : Type} (s : List Bool) (a b : List α) :
    Interleaving a b (mergeAll s a b) := by
  fun_induction mergeAll s a b with
  | case1 _ b => exact interleaving_right_nil b
  | case2 _ a _ => exact interleaving_left_nil a
  | case3 a b _ _ => exact interleaving_append a b
  | case4 s x a b _ ih => exact .left x ih
  | case5 s a y b _ ih => exact .right y ih

theorem interleaving_mem {α : Type} {a b m : List α} (h : Interleaving a b m) (x : α) (hx : x ∈ m) :
    x ∈ a ∨ x ∈ b := by
  induction h with
  | nil => simp at hx
  | left y _ ih =>
    simp only [List.mem_cons] at hx ⊢
    rcases hx with hx | hx
    · exact Or.inl (Or.inl hx)
    · rcases ih hx with h | h
      · exact Or.inl (Or.inr h)
      · exact Or.inr h
  | right y _ ih =>
    simp only [List.mem_cons] at hx ⊢
    rcases hx with hx | hx
    · exact Or.inr (Or.inl hx)
    · rcases ih hx with h | h
      · exact Or.inl h
      · exact Or.inr (Or.inr h)

/-- both writers' orders survive: each is a subsequence of the interleaving -/
theorem interleaving_sublist_left {α : Type} {a b m : List α} (h : Interleaving a b m) : a.Sublist m := by
  induction h with
  | nil => exact List.Sublist.slnil
  | left x _ ih => exact ih.cons_cons x
  | right y _ ih => exact ih.cons y

theorem interleaving_sublist_right {α : Type} {a b m : List α} (h : Interleaving a b m) : b.Sublist m := by
  induction h with
  | nil => exact List.Sublist.slnil
  | left x _ ih => exact ih.cons x
  | right y _ ih => exact ih.cons_cons y

theorem interleaving_length {α : Type} {a b m : List α} (h : Interleaving a b m) :
    m.length = a.length + b.length := by
  induction h with
  | nil => rfl
  | left x _ ih => simp [ih]; omega
  | right y _ ih => simp [ih]; omega

theorem interleaving_map {α β : Type} (f : α → β) {a b m : List α} (h : Interleaving a b m) :
    Interleaving (a.map f) (b.map f) (m.map f) := by
  induction h with
  | nil => exact .nil
  | left x _ ih => exact .left (f x) ih
  | right y _ ih => exact .right (f y) ih

/-- an interleaving of two mapped lists is the map of an interleaving -/
theorem interleaving_map_inv {α β : Type} (f : α → β) (m : List β) :
    ∀ (a b : List α), Interleaving (a.map f) (b.map f) m →
      ∃ ls, Interleaving a b ls ∧ m = ls.map f := by
  induction m with
  | nil =>
    intro a b h
    have := interleaving_length h
    simp only [List.length_nil, List.length_map] at this
    have ha : a = [] := List.eq_nil_of_length_eq_zero (by omega)
    have hb : b = [] := List.eq_nil_of_length_eq_zero (by omega)
    subst ha hb
    exact ⟨[], .nil, rfl⟩
  | cons z m ih =>
    intro a b h
    generalize ha : a.map f = A at h
    generalize hb : b.map f = B at h
    cases h with
    | left x h' =>
      cases a with
      | nil => simp at ha
      | cons a0 at' =>
        simp only [List.map_cons, List.cons.injEq] at ha
        obtain ⟨h0, hat⟩ := ha
        subst hb
        rw [← hat] at h'
        obtain ⟨ls, hl, hm⟩ := ih at' b h'
        exact ⟨a0 :: ls, .left a0 hl, by simp [hm, h0]⟩
    | right y h' =>
      cases b with
      | nil => simp at hb
      | cons b0 bt =>
        simp only [List.map_cons, List.cons.injEq] at hb
        obtain ⟨h0, hbt⟩ := hb
        subst ha
        rw [← hbt] at h'
        obtain ⟨ls, hl, hm⟩ := ih a bt h'
        exact ⟨b0 :: ls, .right b0 hl, by simp [hm, h0]⟩

theorem rejectionSends_eq (sty : Style) (rejs : List Json) :
    rejectionSends sty rejs = (rejs.map (enc sty)).map (fun l => encode (codes l ++ [LF])) := by
  unfold rejectionSends
  rw [sends_eq]
  congr 1
  induction rejs with
  | nil => rfl
  | cons r rs ih => simp [List.filterMap_cons, ser, ih]

end Verif.Lemmas.StdioOut
