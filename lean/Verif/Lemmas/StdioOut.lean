import Verif.Model.StdioOut
import Verif.Lemmas.StdioIn

/-! Helper lemmas for C06: the JSON encoder never emits a raw LF/CR, UTF-8 encoding introduces no
LF/CR byte, the byte stream splits back into the lines. -/
set_option linter.unusedVariables false
set_option linter.unusedSimpArgs false
namespace Verif.Lemmas.StdioOut
open Verif.Model.StdioIn Verif.Model.StdioOut Verif.Lemmas.StdioIn

theorem noBreak_nil : NoBreak [] := by simp [NoBreak]

theorem noBreak_append {a b : List Nat} (ha : NoBreak a) (hb : NoBreak b) : NoBreak (a ++ b) := by
  simp only [NoBreak, List.mem_append] at *; grind

theorem noBreak_cons {c : Nat} {a : List Nat} (hc : c ≠ LF ∧ c ≠ CR) (ha : NoBreak a) : NoBreak (c :: a) := by
  simp only [NoBreak, List.mem_cons] at *; grind

theorem hex_ne (n : Nat) (h : n < 16) : hex n ≠ LF ∧ hex n ≠ CR := by
  have : ∀ n, n < 16 → hex n ≠ LF ∧ hex n ≠ CR := by decide
  exact this n h

theorem u4_noBreak (n : Nat) : NoBreak (u4 n) := by
  have h1 := hex_ne (n / 4096 % 16) (by omega)
  have h2 := hex_ne (n / 256 % 16) (by omega)
  have h3 := hex_ne (n / 16 % 16) (by omega)
  have h4 := hex_ne (n % 16) (by omega)
  unfold u4
  refine noBreak_cons (by decide) (noBreak_cons (by decide) (noBreak_cons h1 (noBreak_cons h2
    (noBreak_cons h3 (noBreak_cons h4 noBreak_nil)))))

theorem escChar_noBreak (a : Bool) (c : Nat) : NoBreak (escChar a c) := by
  unfold escChar
  split; · simp [NoBreak, LF, CR]
  split; · simp [NoBreak, LF, CR]
  split; · simp [NoBreak, LF, CR]
  split; · simp [NoBreak, LF, CR]
  split; · simp [NoBreak, LF, CR]
  split; · simp [NoBreak, LF, CR]
  split; · simp [NoBreak, LF, CR]
  split; · exact u4_noBreak c
  split
  · split
    · exact u4_noBreak c
    · exact noBreak_append (u4_noBreak _) (u4_noBreak _)
  · rename_i h10 h13 _ _ _ _ _
    simp only [NoBreak, List.mem_singleton, LF, CR]
    omega

theorem flatMap_noBreak (a : Bool) (s : List Nat) : NoBreak (s.flatMap (escChar a)) := by
  induction s with
  | nil => simp [NoBreak]
  | cons c cs ih => simp only [List.flatMap_cons]; exact noBreak_append (escChar_noBreak a c) ih

theorem encStr_noBreak (a : Bool) (s : List Nat) : NoBreak (encStr a s) := by
  unfold encStr
  exact noBreak_cons (by decide) (noBreak_append (flatMap_noBreak a s) (noBreak_cons (by decide) noBreak_nil))

theorem natDigits_range (n : Nat) : ∀ c ∈ natDigits n, 48 ≤ c ∧ c ≤ 57 := by
  fun_induction natDigits n with
  | case1 n h => intro c hc; simp at hc; omega
  | case2 n h ih =>
    intro c hc
    simp only [List.mem_append, List.mem_singleton] at hc
    rcases hc with hc | hc
    · exact ih c hc
    · omega

theorem natDigits_noBreak (n : Nat) : NoBreak (natDigits n) := by
  constructor <;> intro h <;> have := natDigits_range n _ h <;> simp [LF, CR] at this

theorem intText_noBreak (i : Int) : NoBreak (intText i) := by
  unfold intText
  split
  · exact noBreak_cons (by decide) (natDigits_noBreak _)
  · exact natDigits_noBreak _

mutual
theorem enc_noBreak (sty : Style) (h1 : NoBreak sty.itemSep) (h2 : NoBreak sty.kvSep) :
    ∀ v : Json, NoBreak (enc sty v)
  | .null => by simp [enc, NoBreak, LF, CR]
  | .bool true => by simp [enc, NoBreak, LF, CR]
  | .bool false => by simp [enc, NoBreak, LF, CR]
  | .int i => by simp only [enc]; exact intText_noBreak i
  | .str s => by simp only [enc]; exact encStr_noBreak _ s
  | .arr xs => by
      simp only [enc]
      exact noBreak_cons (by decide) (noBreak_append (encList_noBreak sty h1 h2 xs) (noBreak_cons (by decide) noBreak_nil))
  | .obj kvs => by
      simp only [enc]
      exact noBreak_cons (by decide) (noBreak_append (encKvs_noBreak sty h1 h2 kvs) (noBreak_cons (by decide) noBreak_nil))
theorem encList_noBreak (sty : Style) (h1 : NoBreak sty.itemSep) (h2 : NoBreak sty.kvSep) :
    ∀ xs : List Json, NoBreak (encList sty xs)
  | [] => by simp [encList, NoBreak]
  | [x] => by simp only [encList]; exact enc_noBreak sty h1 h2 x
  | x :: y :: xs => by
      simp only [encList]
      exact noBreak_append (enc_noBreak sty h1 h2 x) (noBreak_append h1 (encList_noBreak sty h1 h2 (y :: xs)))
theorem encKvs_noBreak (sty : Style) (h1 : NoBreak sty.itemSep) (h2 : NoBreak sty.kvSep) :
    ∀ kvs : List (List Nat × Json), NoBreak (encKvs sty kvs)
  | [] => by simp [encKvs, NoBreak]
  | [(k, v)] => by
      simp only [encKvs]
      exact noBreak_append (encStr_noBreak _ k) (noBreak_append h2 (enc_noBreak sty h1 h2 v))
  | (k, v) :: kv :: kvs => by
      simp only [encKvs]
      exact noBreak_append (encStr_noBreak _ k) (noBreak_append h2
        (noBreak_append (enc_noBreak sty h1 h2 v) (noBreak_append h1 (encKvs_noBreak sty h1 h2 (kv :: kvs)))))
end

theorem compact_seps : NoBreak Style.compact.itemSep ∧ NoBreak Style.compact.kvSep := by
  simp [Style.compact, NoBreak, LF, CR]

theorem std_seps : NoBreak Style.std.itemSep ∧ NoBreak Style.std.kvSep := by
  simp [Style.std, NoBreak, LF, CR]

/-! ### UTF-8 encoding introduces no LF / CR byte -/

theorem encodeChar_small (c b : Nat) (hb : b ∈ encodeChar c) (h : b < 128) : b = c := by
  unfold encodeChar at hb
  split at hb
  · simpa using hb
  · split at hb
    · simp at hb; omega
    · split at hb
      · simp at hb; omega
      · simp at hb; omega

theorem encode_small (l : List Nat) (b : Nat) (hb : b ∈ encode l) (h : b < 128) : b ∈ l := by
  simp only [encode, List.mem_flatMap] at hb
  obtain ⟨c, hc, hbc⟩ := hb
  have := encodeChar_small c b hbc h
  exact this ▸ hc

theorem encode_no_lf (l : List Nat) (h : LF ∉ l) : LF ∉ encode l :=
  fun hb => h (encode_small l LF hb (by decide))

theorem encode_append (a b : List Nat) : encode (a ++ b) = encode a ++ encode b := by
  simp [encode, List.flatMap_append]

theorem encode_lf : encode [LF] = [LF] := by decide

/-- the byte stream of LF-terminated lines splits back into the (encoded) lines -/
theorem split_lines (lines : List (List Nat)) (h : ∀ l ∈ lines, LF ∉ l) :
    split LF (lines.map (fun l => encode (l ++ [LF]))).flatten = (lines.map encode, []) := by
  induction lines with
  | nil => simp [split]
  | cons l ls ih =>
    have hl := encode_no_lf l (h l (by simp))
    have ih' := ih (fun x hx => h x (by simp [hx]))
    simp only [List.map_cons, List.flatten_cons]
    have e : encode (l ++ [LF]) = encode l ++ [LF] := by rw [encode_append, encode_lf]
    rw [e, List.append_assoc, List.singleton_append, split_line LF _ _ hl, ih']

/-- the accepted lines, in order -/
theorem sends_eq (sty : Style) (items : List Outbound) :
    sends sty items = (items.filterMap (ser sty)).map (fun l => encode (l ++ [LF])) := by
  induction items with
  | nil => rfl
  | cons it rest ih =>
    simp only [sends, List.filterMap_cons] at *
    cases ser sty it <;> simp [ih]

/-! ### two writers -/

theorem interleaving_left_nil {α : Type} (a : List α) : Interleaving a [] a := by
  induction a with
  | nil => exact .nil
  | cons x xs ih => exact .left x ih

theorem interleaving_right_nil {α : Type} (b : List α) : Interleaving [] b b := by
  induction b with
  | nil => exact .nil
  | cons x xs ih => exact .right x ih

theorem interleaving_append {α : Type} (a b : List α) : Interleaving a b (a ++ b) := by
  induction a with
  | nil => exact interleaving_right_nil b
  | cons x xs ih => exact .left x ih

/-- every schedule yields an interleaving … -/
theorem mergeAll_interleaving {α : Type} (s : List Bool) (a b : List α) :
    Interleaving a b (mergeAll s a b) := by
  fun_induction mergeAll s a b with
  | case1 _ b => exact interleaving_right_nil b
  | case2 _ a _ => exact interleaving_left_nil a
  | case3 a b _ _ => exact interleaving_append a b
  | case4 s x a b _ ih => exact .left x ih
  | case5 s a y b _ ih => exact .right y ih

theorem interleaving_mem {α : Type} {a b m : List α} (h : Interleaving a b m) (x : α) (hx : x ∈ m) :
    x ∈ a ∨ x ∈ b := by
  induction h with
  | nil => simp at hx
  | left y _ ih =>
    simp only [List.mem_cons] at hx ⊢
    rcases hx with hx | hx
    · exact Or.inl (Or.inl hx)
    · rcases ih hx with h | h
      · exact Or.inl (Or.inr h)
      · exact Or.inr h
  | right y _ ih =>
    simp only [List.mem_cons] at hx ⊢
    rcases hx with hx | hx
    · exact Or.inr (Or.inl hx)
    · rcases ih hx with h | h
      · exact Or.inl h
      · exact Or.inr (Or.inr h)

/-- both writers' orders survive: each is a subsequence of the interleaving -/
theorem interleaving_sublist_left {α : Type} {a b m : List α} (h : Interleaving a b m) : a.Sublist m := by
  induction h with
  | nil => exact List.Sublist.slnil
  | left x _ ih => exact ih.cons_cons x
  | right y _ ih => exact ih.cons y

theorem interleaving_sublist_right {α : Type} {a b m : List α} (h : Interleaving a b m) : b.Sublist m := by
  induction h with
  | nil => exact List.Sublist.slnil
  | left x _ ih => exact ih.cons x
  | right y _ ih => exact ih.cons_cons y

theorem interleaving_length {α : Type} {a b m : List α} (h : Interleaving a b m) :
    m.length = a.length + b.length := by
  induction h with
  | nil => rfl
  | left x _ ih => simp [ih]; omega
  | right y _ ih => simp [ih]; omega

theorem interleaving_map {α β : Type} (f : α → β) {a b m : List α} (h : Interleaving a b m) :
    Interleaving (a.map f) (b.map f) (m.map f) := by
  induction h with
  | nil => exact .nil
  | left x _ ih => exact .left (f x) ih
  | right y _ ih => exact .right (f y) ih

/-- an interleaving of two mapped lists is the map of an interleaving -/
theorem interleaving_map_inv {α β : Type} (f : α → β) (m : List β) :
    ∀ (a b : List α), Interleaving (a.map f) (b.map f) m →
      ∃ ls, Interleaving a b ls ∧ m = ls.map f := by
  induction m with
  | nil =>
    intro a b h
    have := interleaving_length h
    simp only [List.length_nil, List.length_map] at this
    have ha : a = [] := List.eq_nil_of_length_eq_zero (by omega)
    have hb : b = [] := List.eq_nil_of_length_eq_zero (by omega)
    subst ha hb
    exact ⟨[], .nil, rfl⟩
  | cons z m ih =>
    intro a b h
    generalize ha : a.map f = A at h
    generalize hb : b.map f = B at h
    cases h with
    | left x h' =>
      cases a with
      | nil => simp at ha
      | cons a0 at' =>
        simp only [List.map_cons, List.cons.injEq] at ha
        obtain ⟨h0, hat⟩ := ha
        subst hb
        rw [← hat] at h'
        obtain ⟨ls, hl, hm⟩ := ih at' b h'
        exact ⟨a0 :: ls, .left a0 hl, by simp [hm, h0]⟩
    | right y h' =>
      cases b with
      | nil => simp at hb
      | cons b0 bt =>
        simp only [List.map_cons, List.cons.injEq] at hb
        obtain ⟨h0, hbt⟩ := hb
        subst ha
        rw [← hbt] at h'
        obtain ⟨ls, hl, hm⟩ := ih a bt h'
        exact ⟨b0 :: ls, .right b0 hl, by simp [hm, h0]⟩

theorem rejectionSends_eq (sty : Style) (rejs : List Json) :
    rejectionSends sty rejs = (rejs.map (enc sty)).map (fun l => encode (l ++ [LF])) := by
  unfold rejectionSends
  rw [sends_eq]
  congr 1
  induction rejs with
  | nil => rfl
  | cons r rs ih => simp [List.filterMap_cons, ser, ih]

end Verif.Lemmas.StdioOut
