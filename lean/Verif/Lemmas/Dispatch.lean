import Verif.Model.Dispatch

/-! # Lemmas about the dispatcher model (C08) -/
set_option linter.unusedSimpArgs false
set_option linter.unusedVariables false
namespace Verif.Model.Dispatch

theorem respond_ret (m : Msg) (p : Payload) (s : Option Sid) (r : Option Resp) (s' : Option Sid) (i : Id)
    (h : respond m p s = .ret r s') (hid : m.id = some i) : ∃ resp, r = some resp ∧ resp.id = i := by
  simp only [respond, mkResult, hid] at h
  cases h
  exact ⟨_, rfl, rfl⟩

theorem respond_faithful (p : Payload) (s : Option Sid) : Faithful (fun m => respond m p s) := by
  intro m r s' i h hid
  exact respond_ret m p s r s' i h hid

theorem respondErr_ret (m : Msg) (c : Int) (r : Option Resp) (s' : Option Sid) (i : Id)
    (h : respondErr m c = .ret r s') (hid : m.id = some i) : ∃ resp, r = some resp ∧ resp.id = i := by
  simp only [respondErr, mkError, hid] at h
  cases h
  exact ⟨_, rfl, rfl⟩

theorem hToolsCall_faithful (S : Server) : Faithful (hToolsCall S) := by
  intro m resp s i h hid
  unfold hToolsCall at h
  split at h
  · cases h
  · split at h
    · exact respondErr_ret _ _ _ _ _ h hid
    · split at h
      · exact respond_ret _ _ _ _ _ _ h hid
      · exact respondErr_ret _ _ _ _ _ h hid
  · exact respondErr_ret _ _ _ _ _ h hid
  · exact respondErr_ret _ _ _ _ _ h hid

theorem hResourcesRead_faithful (S : Server) : Faithful (hResourcesRead S) := by
  intro m resp s i h hid
  unfold hResourcesRead at h
  split at h
  · cases h
  · split at h
    · exact respondErr_ret _ _ _ _ _ h hid
    · split at h
      · exact respond_ret _ _ _ _ _ _ h hid
      · exact respondErr_ret _ _ _ _ _ h hid
  · exact respondErr_ret _ _ _ _ _ h hid
  · exact respondErr_ret _ _ _ _ _ h hid

theorem hCustom_faithful (b : CBeh) (hb : b.Proper) : Faithful (hCustom b) := by
  intro m resp s i h hid
  cases b with
  | answers r => exact respond_ret _ _ _ _ _ _ h hid
  | silent => exact absurd hb (by simp [CBeh.Proper])
  | acks j t => exact absurd hb (by simp [CBeh.Proper])
  | echoes r =>
    simp only [hCustom, hid, Option.getD_some] at h
    cases h
    exact ⟨_, rfl, rfl⟩
  | raises => simp [hCustom] at h
  | returnsNonsense => simp [hCustom] at h

theorem hInitialized_faithful : Faithful hInitialized := by
  intro m r s i h hid
  simp only [hInitialized, hid] at h
  exact respond_ret _ _ _ _ _ _ h hid

/-- every handler an `MCPServer` can have in its table is faithful, whatever the application's
tools, resources and custom methods do — except a custom method that chooses to stay silent -/
theorem serverReg_faithful (S : Server) (meth : String) (h : Handler)
    (hs : ∀ b, S.custom meth = some b → b.Proper) (hr : serverReg S meth = some h) : Faithful h := by
  unfold serverReg serverRegWith at hr
  split at hr
  · rename_i b hb
    cases hr; exact hCustom_faithful _ (hs b hb)
  · split at hr
    · cases hr; exact respond_faithful _ _
    · split at hr
      · cases hr; exact hInitialized_faithful
      · split at hr
        · cases hr; exact respond_faithful _ _
        · split at hr
          · cases hr; exact respond_faithful _ _
          · split at hr
            · cases hr; exact hToolsCall_faithful S
            · split at hr
              · cases hr; exact respond_faithful _ _
              · split at hr
                · cases hr; exact hResourcesRead_faithful S
                · cases hr

end Verif.Model.Dispatch
