import Verif.Model.StdioRoute
import Verif.Lemmas.StdioIn
import Verif.Lemmas.StdioCodec

/-! Lemmas for the routing layer (`Model/StdioRoute.lean`): projections of one routing step, the
refinement to `Model/StdioIn.lean`, and the "routed" invariant that ties every run to `routeSeq`
over its own main stream. -/
set_option linter.unusedVariables false
set_option linter.unusedSimpArgs false
namespace Verif.Lemmas.StdioRoute
open Verif.Model.StdioIn Verif.Model.StdioRoute Verif.Lemmas.StdioIn
variable {μ : Type}

/-! ### projections distribute over concatenation -/

theorem mainOf_append (a b : List (ROut μ)) : mainOf (a ++ b) = mainOf a ++ mainOf b := by
  induction a with
  | nil => rfl
  | cons x xs ih => cases x <;> simp [mainOf, ih]

theorem notifOf_append (a b : List (ROut μ)) : notifOf (a ++ b) = notifOf a ++ notifOf b := by
  induction a with
  | nil => rfl
  | cons x xs ih => cases x <;> simp [notifOf, ih]

theorem requestOf_append (k : Key) (a b : List (ROut μ)) : requestOf k (a ++ b) = requestOf k a ++ requestOf k b := by
  induction a with
  | nil => rfl
  | cons x xs ih =>
    cases x with
    | request k' m => by_cases h : k' = k <;> simp [requestOf, h, ih]
    | _ => simp [requestOf, ih]

/-! ### one routing step -/

theorem routeP_erase (rc : RCfg μ) (pend : List Key) (m : μ) :
    (routeP rc pend m).1.filterMap erase = route rc.toCfg m := by
  unfold routeP route RCfg.toCfg
  cases h : rc.key m with
  | none => simp [erase, h]
  | some k => by_cases hk : k ∈ pend <;> simp [hk, erase, h, List.filterMap_cons]

theorem mainOf_routeP (rc : RCfg μ) (pend : List Key) (m : μ) : mainOf (routeP rc pend m).1 = [m] := by
  unfold routeP
  cases h : rc.key m with
  | none => simp [mainOf]
  | some k => by_cases hk : k ∈ pend <;> simp [hk, mainOf]

theorem notifOf_routeP (rc : RCfg μ) (pend : List Key) (m : μ) :
    notifOf (routeP rc pend m).1 = if (rc.key m).isNone then [m] else [] := by
  unfold routeP
  cases h : rc.key m with
  | none => simp [notifOf]
  | some k => by_cases hk : k ∈ pend <;> simp [hk, notifOf]

theorem requestOf_routeP (rc : RCfg μ) (pend : List Key) (m : μ) (k : Key) :
    requestOf k (routeP rc pend m).1 = if rc.key m = some k ∧ k ∈ pend then [m] else [] := by
  unfold routeP
  cases h : rc.key m with
  | none => simp [requestOf]
  | some k' =>
    by_cases hk : k' ∈ pend
    · by_cases he : k' = k
      · subst he; simp [hk, requestOf]
      · simp [hk, requestOf, he]
    · by_cases he : k' = k
      · subst he; simp [hk, requestOf]
      · simp [hk, requestOf, he]

theorem pend_routeP (rc : RCfg μ) (pend : List Key) (m : μ) :
    (routeP rc pend m).2 = match rc.key m with | some k => remove k pend | none => pend := by
  unfold routeP
  cases h : rc.key m with
  | none => rfl
  | some k =>
    by_cases hk : k ∈ pend
    · simp [hk]
    · have : remove k pend = pend := by
        unfold remove
        apply List.filter_eq_self.mpr
        intro x hx; simp; intro e; exact hk (e ▸ hx)
      simp [hk, this]

/-! ### sequences -/

theorem routeSeq_append (rc : RCfg μ) (pend : List Key) (a b : List μ) :
    routeSeq rc pend (a ++ b) =
      ((routeSeq rc pend a).1 ++ (routeSeq rc (routeSeq rc pend a).2 b).1, (routeSeq rc (routeSeq rc pend a).2 b).2) := by
  induction a generalizing pend with
  | nil => simp [routeSeq]
  | cons m ms ih => simp [routeSeq, ih, List.append_assoc]

theorem routeSeq_erase (rc : RCfg μ) (pend : List Key) (ms : List μ) :
    (routeSeq rc pend ms).1.filterMap erase = ms.flatMap (route rc.toCfg) := by
  induction ms generalizing pend with
  | nil => rfl
  | cons m ms ih => simp [routeSeq, List.filterMap_append, routeP_erase, ih]

theorem mainOf_routeSeq (rc : RCfg μ) (pend : List Key) (ms : List μ) : mainOf (routeSeq rc pend ms).1 = ms := by
  induction ms generalizing pend with
  | nil => rfl
  | cons m ms ih => simp [routeSeq, mainOf_append, mainOf_routeP, ih]

theorem notifOf_routeSeq (rc : RCfg μ) (pend : List Key) (ms : List μ) :
    notifOf (routeSeq rc pend ms).1 = ms.filter (fun m => (rc.key m).isNone) := by
  induction ms generalizing pend with
  | nil => rfl
  | cons m ms ih =>
    simp only [routeSeq, notifOf_append, notifOf_routeP, ih, List.filter_cons]
    by_cases h : (rc.key m).isNone = true <;> simp [h]

theorem not_mem_remove (k : Key) (pend : List Key) : k ∉ remove k pend := by
  simp [remove]

theorem mem_remove_ne (k k' : Key) (pend : List Key) (h : k ≠ k') : k ∈ remove k' pend ↔ k ∈ pend := by
  simp [remove, h]

/-- **A per-request stream receives at most one message: the first one bearing its key** -/
theorem requestOf_routeSeq (rc : RCfg μ) (k : Key) (ms : List μ) :
    ∀ pend : List Key,
      requestOf k (routeSeq rc pend ms).1 =
        if k ∈ pend then (ms.find? (fun m => decide (rc.key m = some k))).toList else [] := by
  induction ms with
  | nil => intro pend; simp [routeSeq, requestOf]
  | cons m ms ih =>
    intro pend
    have hp2 := pend_routeP rc pend m
    simp only [routeSeq, requestOf_append, requestOf_routeP]
    cases hk : rc.key m with
    | none =>
      rw [hk] at hp2
      simp only [hp2, reduceCtorEq, false_and, if_false, List.nil_append]
      rw [ih pend]
      simp [List.find?_cons, hk]
    | some k' =>
      rw [hk] at hp2
      simp only at hp2
      rw [hp2]
      have ih' := ih (remove k' pend)
      by_cases he : k' = k
      · subst he
        by_cases hp : k' ∈ pend
        · simp only [true_and, hp, if_true]
          rw [ih']
          simp [not_mem_remove, List.find?_cons, hk]
        · simp only [true_and, hp, if_false, List.nil_append]
          rw [ih']
          simp [not_mem_remove]
      · simp only [Option.some.injEq, he, false_and, if_false, List.nil_append]
        rw [ih']
        have : k ∈ remove k' pend ↔ k ∈ pend := mem_remove_ne k k' pend (fun h => he h.symm)
        simp [this, List.find?_cons, hk, he]

/-! ### the "routed" invariant: outputs and table are those of `routeSeq` over the outputs' own main stream -/

/-- `outs` (produced from table `pend`, leaving `pend'`) routes its own main-stream messages as `routeSeq` does -/
def Routed (rc : RCfg μ) (pend : List Key) (outs : List (ROut μ)) (pend' : List Key) : Prop :=
  (∀ k, requestOf k outs = requestOf k (routeSeq rc pend (mainOf outs)).1)
  ∧ notifOf outs = notifOf (routeSeq rc pend (mainOf outs)).1
  ∧ pend' = (routeSeq rc pend (mainOf outs)).2

theorem routed_nil (rc : RCfg μ) (pend : List Key) : Routed rc pend [] pend := by
  simp [Routed, mainOf, routeSeq, requestOf, notifOf]

theorem routed_reject (rc : RCfg μ) (pend : List Key) : Routed rc pend [.reject] pend := by
  simp [Routed, mainOf, routeSeq, requestOf, notifOf]

theorem routed_seq (rc : RCfg μ) (pend : List Key) (ms : List μ) :
    Routed rc pend (routeSeq rc pend ms).1 (routeSeq rc pend ms).2 := by
  simp [Routed, mainOf_routeSeq]

theorem routed_routeP (rc : RCfg μ) (pend : List Key) (m : μ) :
    Routed rc pend (routeP rc pend m).1 (routeP rc pend m).2 := by
  have := routed_seq rc pend [m]
  simpa [routeSeq] using this

theorem routed_append (rc : RCfg μ) (p0 p1 p2 : List Key) (o1 o2 : List (ROut μ))
    (h1 : Routed rc p0 o1 p1) (h2 : Routed rc p1 o2 p2) : Routed rc p0 (o1 ++ o2) p2 := by
  obtain ⟨a1, b1, c1⟩ := h1
  obtain ⟨a2, b2, c2⟩ := h2
  refine ⟨?_, ?_, ?_⟩
  · intro k
    rw [mainOf_append, routeSeq_append, requestOf_append, requestOf_append, a1 k, ← c1, a2 k]
  · rw [mainOf_append, routeSeq_append, notifOf_append, notifOf_append, b1, ← c1, b2]
  · rw [mainOf_append, routeSeq_append, ← c1]; exact c2

theorem routed_line (rc : RCfg μ) (b : Bool) (pend : List Key) (line : List Nat) :
    Routed rc pend (processLineP rc b pend line).1 (processLineP rc b pend line).2 := by
  unfold processLineP
  simp only
  split
  · exact routed_nil rc pend
  · split
    · exact routed_nil rc pend
    · exact routed_routeP rc pend _
    · split
      · exact routed_seq rc pend _
      · exact routed_reject rc pend

theorem routed_lines (rc : RCfg μ) (b : Bool) (lines : List (List Nat)) :
    ∀ pend, Routed rc pend (processLinesP rc b pend lines).1 (processLinesP rc b pend lines).2 := by
  induction lines with
  | nil => intro pend; exact routed_nil rc pend
  | cons l ls ih =>
    intro pend
    simp only [processLinesP]
    exact routed_append rc _ _ _ _ _ (routed_line rc b pend l) (ih _)

theorem routed_feed (rc : RCfg μ) (s : RSt) (bytes : List Nat) :
    Routed rc s.pend (feedP rc s bytes).2 (feedP rc s bytes).1.pend := by
  unfold feedP
  split
  · exact routed_nil rc _
  · split
    · exact routed_nil rc _
    · exact routed_lines rc _ _ _

/-- events that do not register a stream -/
def noRegister : REv → Bool
  | .register _ => false
  | _ => true

theorem routed_run (rc : RCfg μ) (evs : List REv) (h : evs.all noRegister = true) :
    ∀ s : RSt, Routed rc s.pend (runP rc s evs).2 (runP rc s evs).1.pend := by
  induction evs with
  | nil => intro s; exact routed_nil rc _
  | cons e es ih =>
    intro s
    simp only [List.all_cons, Bool.and_eq_true] at h
    simp only [runP]
    refine routed_append rc _ (stepP rc s e).1.pend _ _ _ ?_ (ih h.2 _)
    cases e with
    | chunk bytes => exact routed_feed rc s bytes
    | setVersion v => exact routed_nil rc _
    | register k => simp [noRegister] at h

/-! ### refinement: forgetting the per-request streams gives the reader of `Model/StdioIn.lean` -/

theorem members_erase (rc : RCfg μ) (pend : List Key) (items : List (Option μ)) :
    (routeMembers rc pend items).1.filterMap erase = items.flatMap (routeMember rc.toCfg) := by
  unfold routeMembers
  rw [routeSeq_erase]
  induction items with
  | nil => rfl
  | cons x xs ih => cases x <;> simp [List.filterMap_cons, List.flatMap_cons, routeMember, ih]

theorem line_erase (rc : RCfg μ) (b : Bool) (pend : List Key) (line : List Nat) :
    (processLineP rc b pend line).1.filterMap erase = processLine rc.toCfg b line := by
  unfold processLineP processLine
  have hp : rc.toCfg.parse = rc.parse := rfl
  simp only [hp]
  by_cases he : strip line = []
  · simp [he]
  · simp only [he, if_false]
    cases hq : rc.parse (strip line) with
    | junk => rfl
    | single m => exact routeP_erase rc pend m
    | batch items =>
      cases b with
      | true => simpa using members_erase rc pend items
      | false => rfl

theorem lines_erase (rc : RCfg μ) (b : Bool) (lines : List (List Nat)) :
    ∀ pend, (processLinesP rc b pend lines).1.filterMap erase = lines.flatMap (processLine rc.toCfg b) := by
  induction lines with
  | nil => intro _; rfl
  | cons l ls ih => intro pend; simp [processLinesP, List.filterMap_append, line_erase, ih]

theorem feed_erase (rc : RCfg μ) (s : RSt) (bytes : List Nat) :
    (feedP rc s bytes).1.st = (feed rc.toCfg s.st bytes).1
    ∧ (feedP rc s bytes).2.filterMap erase = (feed rc.toCfg s.st bytes).2 := by
  unfold feedP feed
  by_cases ha : (!s.st.alive) = true
  · simp [ha]
  · simp only [ha, if_false]
    cases hd : decBytes s.st.pend bytes with
    | error e => simp
    | ok r => obtain ⟨cs, p⟩ := r; simp [lines_erase]

theorem run_erase (rc : RCfg μ) (evs : List REv) :
    ∀ s : RSt, (runP rc s evs).1.st = (run rc.toCfg s.st (evs.filterMap REv.toEv)).1
      ∧ (runP rc s evs).2.filterMap erase = (run rc.toCfg s.st (evs.filterMap REv.toEv)).2 := by
  induction evs with
  | nil => intro s; simp [runP, run]
  | cons e es ih =>
    intro s
    cases e with
    | chunk bytes =>
      have hf := feed_erase rc s bytes
      have := ih (feedP rc s bytes).1
      simp only [runP, stepP, List.filterMap_cons, REv.toEv, run, step, List.filterMap_append]
      rw [this.1, this.2, hf.1, hf.2]
      exact ⟨rfl, rfl⟩
    | setVersion v =>
      have := ih { s with st := { s.st with batching := Verif.Model.Batching.supportsBatching v } }
      simp only [runP, stepP, List.filterMap_cons, REv.toEv, run, step, List.nil_append]
      exact this
    | register k =>
      have := ih { s with pend := if k ∈ s.pend then s.pend else k :: s.pend }
      simp only [runP, stepP, List.filterMap_cons, REv.toEv, List.nil_append]
      exact this

/-- the routing model of consecutive connections erases to the reader model of consecutive connections -/
theorem runSessions_erase (rc : RCfg μ) (ss : List (List REv)) :
    ∀ prev : RSt, (runSessionsP rc prev ss).map (fun r => r.2.filterMap erase)
      = runSessions rc.toCfg prev.st (ss.map (fun evs => evs.filterMap REv.toEv)) := by
  induction ss with
  | nil => intro prev; simp [runSessionsP, runSessions]
  | cons evs rest ih =>
    intro prev
    have h := run_erase rc evs (enterP prev)
    have := ih (runP rc (enterP prev) evs).1
    simp only [runSessionsP, runSessions, List.map_cons]
    rw [this, h.1, h.2]
    rfl

theorem mainOf_erase (o : List (ROut μ)) : delivered (o.filterMap erase) = mainOf o := by
  induction o with
  | nil => rfl
  | cons x xs ih => cases x <;> simp [List.filterMap_cons, erase, delivered, mainOf, ih]

theorem notifOf_erase (o : List (ROut μ)) : offered (o.filterMap erase) = notifOf o := by
  induction o with
  | nil => rfl
  | cons x xs ih => cases x <;> simp [List.filterMap_cons, erase, offered, notifOf, ih]

/-! ### the real codec: the members loop of `_process_message_data` -/
section real
open Verif.Model.Json Verif.Model.Rpc Verif.Model.Carrier

theorem membersE_spec (xs : List Json) : ∀ pend : List Key,
    membersE pend xs = .ok (routeMembers realRoute pend (xs.map (fun x => parsedOpt (parseMsg x)))) := by
  induction xs with
  | nil => intro pend; rfl
  | cons x xs ih =>
    intro pend
    unfold membersE
    have hm : ∀ p, routeMembers realRoute p ((x :: xs).map (fun x => parsedOpt (parseMsg x)))
        = match parseMsg x with
          | .ok v => ((routeP realRoute p v).1 ++ (routeMembers realRoute (routeP realRoute p v).2
                        (xs.map (fun x => parsedOpt (parseMsg x)))).1,
                      (routeMembers realRoute (routeP realRoute p v).2 (xs.map (fun x => parsedOpt (parseMsg x)))).2)
          | .error _ => routeMembers realRoute p (xs.map (fun x => parsedOpt (parseMsg x))) := by
      intro p
      cases hq : parseMsg x <;> simp [routeMembers, parsedOpt, hq, routeSeq, List.filterMap_cons]
    rw [hm pend]
    cases hp : parseMsg x with
    | error e =>
      simp only [parseAndRoute, hp, tryExcept]
      rw [ih pend]
      simp
    | ok v =>
      simp only [parseAndRoute, hp, tryExcept]
      rw [ih]

end real

end Verif.Lemmas.StdioRoute
