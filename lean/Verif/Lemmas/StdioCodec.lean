import Verif.Model.Carrier
import Verif.Lemmas.StdioIn
import Verif.Lemmas.Rpc
import Verif.Lemmas.Json

/-! # The stdio line of the real codec

Code points of a text, `strip` on a clean wire text (with optional surrounding blanks), and the
reader's real parser (`Json.dec` + `Rpc.parseMsg`, `Model/Carrier.realStdio`) on the line
`Json.enc st (Rpc.emit m)`.  Shared by `Props/C05`, `Props/C06` and `Lemmas/Carrier.lean` (C15).
Imports lemma files only (no `Props/*`).
-/
set_option linter.unusedSimpArgs false
set_option linter.unusedVariables false
namespace Verif.Lemmas.StdioCodec
open Verif.Model Verif.Model.Carrier

section stdio
open Verif.Model.StdioIn Verif.Lemmas.StdioIn

theorem isScalar_toNat (c : Char) : isScalar c.toNat = true := by
  have := c.valid
  simp only [isScalar, Bool.or_eq_true, decide_eq_true_eq, Bool.and_eq_true]
  rcases this with h | ⟨h1, h2⟩
  · left; exact h
  · right; exact ⟨h1, h2⟩

theorem validText_codes (t : List Char) : ValidText (codes t) := by
  intro n hn
  simp only [codes, List.mem_map] at hn
  obtain ⟨c, _, rfl⟩ := hn
  exact isScalar_toNat c

theorem lf_notin_codes (t : List Char) (h : '\n' ∉ t) : LF ∉ codes t := by
  intro hn
  simp only [codes, List.mem_map] at hn
  obtain ⟨c, hc, he⟩ := hn
  have : c = '\n' := by
    apply Char.ext; apply UInt32.toNat_inj.mp
    simpa [LF] using he
  exact h (this ▸ hc)

theorem dropSpaces_head (s : List Nat) (h : ∀ c, s.head? = some c → isPySpace c = false) : dropSpaces s = s := by
  cases s with
  | nil => rfl
  | cons c r => simp [dropSpaces, h c rfl]

theorem strip_clean (s : List Nat) (h1 : ∀ c, s.head? = some c → isPySpace c = false)
    (h2 : ∀ c, s.getLast? = some c → isPySpace c = false) : strip s = s := by
  unfold strip
  rw [dropSpaces_head s h1, dropSpaces_head s.reverse (by simpa using h2)]
  simp

theorem strip_codes (t : List Char) (h : CleanWire t) : strip (codes t) = codes t ∧ codes t ≠ [] := by
  obtain ⟨_, _, hh, hl⟩ := h
  constructor
  · apply strip_clean
    · intro c hc
      simp only [codes, List.head?_map, hh, Option.map_some, Option.some.injEq] at hc
      subst hc; decide
    · intro c hc
      simp only [codes, List.getLast?_map, hl, Option.map_some, Option.some.injEq] at hc
      subst hc; decide
  · intro he
    simp only [codes, List.map_eq_nil_iff] at he
    simp [he] at hh

/-- blanks a serialiser may put around a JSON text on its line: spaces and tabs -/
def Blank (l : List Nat) : Prop := ∀ c ∈ l, c = 32 ∨ c = 9

theorem dropSpaces_blank (pre s : List Nat) (h : Blank pre) : dropSpaces (pre ++ s) = dropSpaces s := by
  induction pre with
  | nil => rfl
  | cons c cs ih =>
    have hc : isPySpace c = true := by rcases h c (by simp) with rfl | rfl <;> decide
    simp [dropSpaces, hc, ih (fun x hx => h x (by simp [hx]))]

/-- `strip` removes the blanks around a clean wire text and nothing else -/
theorem strip_padded (t : List Char) (pre post : List Nat) (h : CleanWire t) (hpre : Blank pre) (hpost : Blank post) :
    strip (pre ++ codes t ++ post) = codes t ∧ codes t ≠ [] := by
  obtain ⟨hs, hne⟩ := strip_codes t h
  refine ⟨?_, hne⟩
  obtain ⟨_, _, hh, hl⟩ := h
  have hd1 : dropSpaces (codes t ++ post) = codes t ++ post := by
    apply dropSpaces_head
    intro c hc
    cases ht : t with
    | nil => simp [ht] at hh
    | cons a r =>
      simp only [ht, List.head?_cons, Option.some.injEq] at hh
      subst hh
      subst ht
      simp only [codes, List.map_cons, List.cons_append, List.head?_cons, Option.some.injEq] at hc
      subst hc; decide
  have hd2 : dropSpaces (codes t).reverse = (codes t).reverse := by
    apply dropSpaces_head
    intro c hc
    simp only [List.head?_reverse, codes, List.getLast?_map, hl, Option.map_some, Option.some.injEq] at hc
    subst hc; decide
  have hpr : Blank post.reverse := fun c hc => hpost c (by simpa using hc)
  unfold strip
  rw [List.append_assoc, dropSpaces_blank pre _ hpre, hd1, List.reverse_append,
    dropSpaces_blank post.reverse _ hpr, hd2, List.reverse_reverse]

theorem blank_valid (l : List Nat) (h : Blank l) : ValidText l ∧ LF ∉ l := by
  constructor
  · intro c hc; rcases h c hc with rfl | rfl <;> decide
  · intro hc; rcases h LF hc with h | h <;> simp [LF] at h

end stdio

section real
open Verif.Model.Json Verif.Model.Rpc

theorem emit_obj (m : Msg) : ∃ o, emit m = .obj o := by
  cases m with
  | request id method params => exact ⟨_, rfl⟩
  | notification method params => exact ⟨_, rfl⟩
  | response id r => exact ⟨_, rfl⟩
  | error id e => cases id <;> exact ⟨_, rfl⟩

theorem getLast_wrap (a b : Char) (l : List Char) : (a :: (l ++ [b])).getLast? = some b := by
  rw [← List.cons_append, List.getLast?_append]; simp

theorem cleanWire_emit (st : Style) (m : Msg) (hw : wfMsg m = true) : CleanWire (enc st (emit m)) := by
  obtain ⟨o, ho⟩ := emit_obj m
  have hb := enc_noBreak st (emit m) (wf_emit m hw)
  refine ⟨hb.1, hb.2, ?_, ?_⟩
  · rw [ho]; simp [enc]
  · rw [ho]; simp only [enc]; exact getLast_wrap _ _ _

theorem chars_codes (t : List Char) : chars (codes t) = t := by
  simp [chars, codes, Function.comp_def]

theorem real_stdio_decodes (st : Style) (m : Msg) (hb : Built m) (hw : wfMsg m = true) :
    StdioDecodes realStdio (rpcWire st) m := by
  refine ⟨cleanWire_emit st m hw, ?_⟩
  have hp := parse_emit_of_ok m (built_ok hb)
  obtain ⟨o, ho⟩ := emit_obj m
  simp only [rpcWire, realStdio, chars_codes, dec_enc st (emit m) (wf_emit m hw)]
  rw [ho] at hp ⊢
  simp only [hp]

end real

end Verif.Lemmas.StdioCodec
