import Verif.Model.ClientApi
import Verif.Lemmas.Await
/-! Lemmas about consecutive requests on one connection and the `MCPClient` state machine. -/
namespace Verif.Lemmas.ClientApi
open Verif.Model.Await Verif.Model.ClientApi
variable {α : Type}

theorem run_returned_sound (R : Int → Bool) (cfg : Cfg α) (ev : List (Nat × In α)) (p : α)
    (h : (run R cfg ev).outcome = .returned p) :
    ∃ pre a post, ev = pre ++ (a, In.resp cfg.reqId p) :: post ∧ NoMatch cfg pre := by
  unfold run at h
  split at h
  · simp at h
  · exact loop_returned_sound R cfg 0 ev _ _ _ p h

theorem run_raised_sound (R : Int → Bool) (cfg : Cfg α) (ev : List (Nat × In α)) (r : Bool) (c : Int)
    (s : Option String) (h : (run R cfg ev).outcome = .raised r c s) :
    ∃ pre a post code, ev = pre ++ (a, In.err cfg.reqId code s) :: post ∧ NoMatch cfg pre
      ∧ c = code.getD (-32603) ∧ r = R c := by
  unfold run at h
  split at h
  · simp at h
  · obtain ⟨pre, a, post, code, he, hn⟩ := loop_raised_sound R cfg 0 ev _ _ _ r c s h
    exact ⟨pre, a, post, code, he, hn⟩

/-- undoing `shift`: a decomposition of the shifted stream is one of the stream itself -/
theorem shift_decomp (s : Nat) (ev pre post : List (Nat × In α)) (a : Nat) (m : In α) (cfg : Cfg α)
    (h : shift s ev = pre ++ (a, m) :: post) (hn : NoMatch cfg pre) :
    ∃ pre' a' post', ev = pre' ++ (a', m) :: post' ∧ NoMatch cfg pre' ∧ pre'.length = pre.length := by
  unfold shift at h
  rw [List.map_eq_append_iff] at h
  obtain ⟨l1, l2, rfl, h1, h2⟩ := h
  rw [List.map_eq_cons_iff] at h2
  obtain ⟨x, l3, rfl, hx, _⟩ := h2
  refine ⟨l1, x.1, l3, ?_, ?_, ?_⟩
  · have : x = (x.1, m) := by
      have := congrArg Prod.snd hx
      simp at this
      exact Prod.ext rfl this
    rw [← this]
  · intro y hy
    have := hn (y.1 - s, y.2) (by rw [← h1]; exact List.mem_map.mpr ⟨y, hy, rfl⟩)
    simpa using this
  · rw [← h1]; simp

theorem run_consumed_le (R : Int → Bool) (cfg : Cfg α) (ev : List (Nat × In α)) :
    (run R cfg ev).consumed ≤ ev.length := by
  unfold run
  split
  · simp
  · have := loop_consumed_le R cfg 0 ev [.request] [] 0
    simpa using this

end Verif.Lemmas.ClientApi
