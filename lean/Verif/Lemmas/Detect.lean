import Verif.Model.Detect

/-! # Lemmas about the transport-selection model -/
set_option linter.unusedVariables false
set_option linter.unusedSimpArgs false
namespace Verif.Model.Detect
open Verif.Gen.UrlRules

theorem toNat_ofNat_small (n : Nat) (h : n < 55296) : (Char.ofNat n).toNat = n := by
  simp [Char.ofNat, Char.ofNatAux, Char.toNat, Nat.isValidChar, h]

theorem lowerChar_idem (c : Char) : lowerChar (lowerChar c) = lowerChar c := by
  unfold lowerChar
  by_cases h : 'A' ≤ c ∧ c ≤ 'Z'
  · have h1 : 65 ≤ c.toNat := h.1
    have h2 : c.toNat ≤ 90 := h.2
    simp only [h, and_self, if_true]
    have hv : (Char.ofNat (c.toNat + 32)).toNat = c.toNat + 32 := toNat_ofNat_small _ (by omega)
    have : ¬ ('A' ≤ Char.ofNat (c.toNat + 32) ∧ Char.ofNat (c.toNat + 32) ≤ 'Z') := by
      intro hh
      have : (Char.ofNat (c.toNat + 32)).toNat ≤ 90 := hh.2
      omega
    simp [this]
  · simp [h]

theorem lower_idem (s : Str) : lower (lower s) = lower s := by
  simp [lower, List.map_map, Function.comp_def, lowerChar_idem]

/-- the GET probes: found iff some probed URL works; the loop stops at the first one -/
theorem probeGets_spec (get : Str → Probe) (us : List Str) :
    ((probeGets get us).1 = true ↔ ∃ u ∈ us, works getStatuses getTypes (get u) = true)
    ∧ (probeGets get us).2 ≤ us.length
    ∧ ((probeGets get us).1 = false → (probeGets get us).2 = us.length)
    ∧ ((probeGets get us).1 = true →
        ∃ pre u post, us = pre ++ u :: post ∧ (probeGets get us).2 = pre.length + 1
          ∧ works getStatuses getTypes (get u) = true ∧ ∀ v ∈ pre, works getStatuses getTypes (get v) = false) := by
  induction us with
  | nil => simp [probeGets]
  | cons u us ih =>
    by_cases hw : works getStatuses getTypes (get u) = true
    · simp only [probeGets, hw, if_true]
      refine ⟨by simp [hw], by simp, by simp, ?_⟩
      intro _
      exact ⟨[], u, us, rfl, rfl, hw, by simp⟩
    · have hw' : works getStatuses getTypes (get u) = false := by simpa using hw
      simp only [probeGets, hw', Bool.false_eq_true, if_false]
      obtain ⟨i1, i2, i3, i4⟩ := ih
      refine ⟨?_, by simp; omega, ?_, ?_⟩
      · rw [i1]; simp [hw']
      · intro h; simp [i3 h]
      · intro h
        obtain ⟨pre, v, post, e, hn, hv, hp⟩ := i4 h
        refine ⟨u :: pre, v, post, by simp [e], by simp [hn], hv, ?_⟩
        intro x hx
        rcases List.mem_cons.mp hx with rfl | hx
        · exact hw'
        · exact hp x hx

end Verif.Model.Detect
