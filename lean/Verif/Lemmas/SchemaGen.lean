import Verif.Gen.Schemas
import Verif.Lemmas.Schema

/-! Facts about the GENERATED class table shared by `Props/C09` and `Props/C10`
(kept outside the property modules so that neither depends on the other building). -/
namespace Verif.Lemmas.SchemaGen
open Verif.Model.Schema Verif.Gen.Schemas Verif.Lemmas.Schema

/-- The modelled backend over the generated class table; `inv` is the invariant the classes'
post-init hooks enforce (arbitrary: the theorems hold for whatever the hooks check). -/
def cfgOf (inv : String → Obj → Bool) : Cfg := { classes := classes, calls := fallbackCalls, inv := inv }

/-- every generated class is well formed (decided on every run) -/
theorem schemas_wellformed : ∀ c ∈ classes, classWF c = true := by decide +kernel

theorem cfgOf_wf (inv : String → Obj → Bool) : CfgWF (cfgOf inv) := cfgWF_of_all schemas_wellformed

end Verif.Lemmas.SchemaGen
