import Verif.Model.SseReq

/-! Helper lemmas for C12 (no Mathlib). -/
namespace Verif.Model.SseReq

/-! ### line splitting -/

theorem splitLF_append (a b : Str) :
    splitLF (a ++ b) =
      ((splitLF a).1 ++ (splitLF ((splitLF a).2 ++ b)).1, (splitLF ((splitLF a).2 ++ b)).2) := by
  induction a with
  | nil => simp [splitLF]
  | cons x xs ih =>
    simp only [List.cons_append, splitLF]
    rw [ih]
    by_cases hx : x = '\n'
    · simp [hx]
    · simp only [hx, if_false]
      cases h1 : (splitLF xs).1 with
      | nil =>
        simp only [List.nil_append]
        cases h2 : (splitLF ((splitLF xs).2 ++ b)).1 with
        | nil => simp [splitLF, hx, h2]
        | cons l ls => simp [splitLF, hx, h2]
      | cons l ls => simp

/-- the tail returned by `splitLF` contains no LF: splitting it again is a no-op -/
theorem splitLF_tail (l : Str) : splitLF (splitLF l).2 = ([], (splitLF l).2) := by
  induction l with
  | nil => simp [splitLF]
  | cons x xs ih =>
    simp only [splitLF]
    by_cases hx : x = '\n'
    · simp [hx, ih]
    · simp only [hx, if_false]
      cases h1 : (splitLF xs).1 with
      | nil => simp [splitLF, hx, ih]
      | cons l ls => simp [ih]

theorem stepLines_append (st : LSt) (a b : List Str) :
    stepLines st (a ++ b) =
      ((stepLines (stepLines st a).1 b).1, (stepLines st a).2 ++ (stepLines (stepLines st a).1 b).2) := by
  induction a generalizing st with
  | nil => simp [stepLines]
  | cons l ls ih => simp [stepLines, ih, List.append_assoc]

/-- the buffer never holds a line feed -/
def PSt.Clean (st : PSt) : Prop := splitLF st.buf = ([], st.buf)

theorem PSt.init_clean : PSt.init.Clean := by simp [PSt.Clean, PSt.init, splitLF]

theorem feed_eq (st : PSt) (h : st.Clean) (chunk : Str) :
    feed st chunk =
      ({ buf := (splitLF (st.buf ++ chunk)).2, ls := (stepLines st.ls (splitLF (st.buf ++ chunk)).1).1 },
       (stepLines st.ls (splitLF (st.buf ++ chunk)).1).2) := by
  unfold feed
  by_cases hc : chunk = []
  · subst hc
    simp only [if_true, List.append_nil]
    rw [h]
    simp [stepLines]
  · simp [hc]

theorem feed_clean (st : PSt) (h : st.Clean) (chunk : Str) : (feed st chunk).1.Clean := by
  rw [feed_eq st h]
  exact splitLF_tail _

/-- the reader over any chunk list = one split of the whole text, then the per-line fold -/
theorem runChunks_eq (st : PSt) (h : st.Clean) (chunks : List Str) :
    runChunks st chunks =
      ({ buf := (splitLF (st.buf ++ chunks.flatten)).2,
         ls := (stepLines st.ls (splitLF (st.buf ++ chunks.flatten)).1).1 },
       (stepLines st.ls (splitLF (st.buf ++ chunks.flatten)).1).2) := by
  induction chunks generalizing st with
  | nil =>
    simp only [runChunks, List.flatten_nil, List.append_nil]
    rw [h]
    simp [stepLines]
  | cons c cs ih =>
    simp only [runChunks, List.flatten_cons]
    rw [ih _ (feed_clean st h c), feed_eq st h c]
    simp only
    rw [← List.append_assoc, splitLF_append (st.buf ++ c), stepLines_append]

theorem runTimed_acts (st : PSt) (tcs : List (Nat × Str)) :
    (runTimed st tcs).map (·.2) = (runChunks st (tcs.map (·.2))).2 := by
  induction tcs generalizing st with
  | nil => simp [runTimed, runChunks]
  | cons tc tcs ih =>
    obtain ⟨t, c⟩ := tc
    simp [runTimed, runChunks, ih, List.map_append, Function.comp_def]

/-! ### endpoint -/

theorem stripPrefix_cons_slash (p : Str) (h : startsWith ['/'] p = true) : p ≠ [] := by
  cases p <;> simp_all [startsWith, stripPrefix]

theorem resolveEndpoint_eq_nil (base data : Str) :
    resolveEndpoint base data = [] ↔ strip data = [] := by
  unfold resolveEndpoint
  simp only
  constructor
  · intro h
    split at h
    · rename_i h1
      have := stripPrefix_cons_slash _ h1
      simp_all
    · split at h
      · split at h <;> simp [sMessagesQ] at h
      · exact h
  · intro h
    rw [h]
    simp [startsWith, stripPrefix]

/-! ### the pending-future machine -/
variable {α : Type}

theorem run_append (st : St α) (a b : List (Action α)) : run st (a ++ b) = run (run st a) b := by
  simp [run, List.foldl_append]

theorem run_cons (st : St α) (a : Action α) (as : List (Action α)) : run st (a :: as) = run (step st a) as := rfl

theorem run_nil (st : St α) : run st [] = st := rfl

theorem oks_nil : oks ([] : List (Msg α)) = [] := rfl

theorem oks_cons (m : Msg α) (ms : List (Msg α)) :
    oks (m :: ms) = (if m.ok then [Out.routed m] else []) ++ oks ms := by
  by_cases h : m.ok <;> simp [oks, h]

theorem oks_append (a b : List (Msg α)) : oks (a ++ b) = oks a ++ oks b := by
  simp [oks]

/-- event-stream messages that do not answer the request in flight are routed, in order, and
change nothing else -/
theorem run_bg (st : St α) (bg : List (Msg α))
    (h : st.inDict = false ∨ ∀ m ∈ bg, m.key ≠ some st.key) :
    run st (bg.map .event) = { st with out := st.out ++ oks bg } := by
  induction bg generalizing st with
  | nil => simp [run, oks]
  | cons m ms ih =>
    simp only [List.map_cons, run_cons]
    have hm : (st.inDict && decide (m.key = some st.key)) = false := by
      rcases h with h | h
      · simp [h]
      · have := h m (by simp)
        simp [this]
    have hs : step st (.event m) = route st m := by simp [step, hm]
    rw [hs]
    have h' : (route st m).inDict = false ∨ ∀ x ∈ ms, x.key ≠ some (route st m).key := by
      rcases h with h | h
      · left; unfold route; split <;> simp [h]
      · right; intro x hx
        have := h x (by simp [hx])
        unfold route; split <;> simpa using this
    rw [ih _ h', oks_cons]
    unfold route
    by_cases hok : m.ok <;> simp [hok, List.append_assoc]

/-- a POST completing, in any way, after the request's future was resolved by the event `m` -/
theorem step_post_resolved (k : Str) (m : Msg α) (X : List (Out α)) (p : Post α)
    (hm : m.ok = true)
    (hp : match p with | .ok200 (some b) => b.ok = true ∧ b.key = some k | _ => True) :
    (step { phase := .posting, key := k, inDict := false, fut := Fut.resolved m, out := X } (.post p)).out
        = X ++ [postTerminal k m p]
    ∧ (step { phase := .posting, key := k, inDict := false, fut := Fut.resolved m, out := X } (.post p)).phase = .idle
    ∧ (step { phase := .posting, key := k, inDict := false, fut := Fut.resolved m, out := X } (.post p)).inDict = false
    ∧ (step { phase := .posting, key := k, inDict := false, fut := Fut.resolved m, out := X } (.post p)).key = k := by
  cases p with
  | ok200 b =>
    cases b with
    | none => simp [step, emit, finish, postTerminal]
    | some b => simp [step, route, finish, postTerminal, hp.1]
  | accepted => simp [step, route, finish, postTerminal, hm]
  | other b =>
    cases b with
    | none => simp [step, emit, finish, postTerminal]
    | some b =>
      by_cases ha : answers k b = true
      · have hok : b.ok = true := by simp [answers] at ha; exact ha.1
        simp [step, route, finish, postTerminal, ha, hok]
      · simp [step, emit, finish, postTerminal, ha]
  | exc => simp [step, emit, finish, postTerminal]

/-- The outcome of one request, for every mode and both orders of the race: the read stream
grows by the background messages (in order), and by exactly the terminal message, and the machine
is idle again with an empty pending table. -/
theorem run_sched (st : St α) (k : Str) (mode : Mode α) (bg0 bg1 bg2 : List (Msg α))
    (hwf : mode.wf k) (hbg : ∀ m ∈ bg0 ++ bg1 ++ bg2, m.key ≠ some k) :
    (run st (sched k mode bg0 bg1 bg2)).out = st.out ++ reqOut k mode bg0 bg1 bg2
    ∧ (run st (sched k mode bg0 bg1 bg2)).phase = .idle
    ∧ (run st (sched k mode bg0 bg1 bg2)).inDict = false := by
  have h0 : ∀ m ∈ bg0, m.key ≠ some k := fun m hm => hbg m (by simp [hm])
  have h1 : ∀ m ∈ bg1, m.key ≠ some k := fun m hm => hbg m (by simp [hm])
  have h2 : ∀ m ∈ bg2, m.key ≠ some k := fun m hm => hbg m (by simp [hm])
  unfold sched
  simp only [run_append, run_cons, run_nil]
  -- after registration and the first background block
  have e0 : run (step st (.register k)) (bg0.map .event) =
      { phase := .posting, key := k, inDict := true, fut := .waiting, out := st.out ++ oks bg0 } := by
    rw [run_bg _ _ (Or.inr (by simpa [step] using h0))]
    simp [step]
  rw [e0]
  cases mode with
  | body b =>
    obtain ⟨hok, hkey⟩ := hwf
    simp only [run_cons, run_nil]
    have e1 : step { phase := .posting, key := k, inDict := true, fut := Fut.waiting, out := st.out ++ oks bg0 }
        (.post (.ok200 (some b))) =
        { phase := .idle, key := k, inDict := false, fut := .cancelled, out := st.out ++ oks bg0 ++ [.routed b] } := by
      simp [step, route, finish, hok]
    rw [e1, run_bg _ _ (Or.inl rfl)]
    simp [reqOut, mid, terminal, List.append_assoc]
  | bodyUnreadable =>
    simp only [run_cons, run_nil]
    have e1 : step { phase := .posting, key := k, inDict := true, fut := Fut.waiting, out := st.out ++ oks bg0 }
        (.post (.ok200 none)) =
        { phase := .idle, key := k, inDict := false, fut := (.waiting : Fut α), out := st.out ++ oks bg0 ++ [.failErr k] } := by
      simp [step, emit, finish]
    rw [e1, run_bg _ _ (Or.inl rfl)]
    simp [reqOut, mid, terminal, List.append_assoc]
  | evThenAck m =>
    obtain ⟨hok, hkey⟩ := hwf
    simp only [run_append, run_cons, run_nil]
    have e1 : step { phase := .posting, key := k, inDict := true, fut := Fut.waiting, out := st.out ++ oks bg0 }
        (.event m) =
        { phase := .posting, key := k, inDict := false, fut := .resolved m, out := st.out ++ oks bg0 } := by
      simp [step, hkey]
    rw [e1, run_bg _ bg1 (Or.inl rfl)]
    have e2 : step { phase := .posting, key := k, inDict := false, fut := Fut.resolved m, out := st.out ++ oks bg0 ++ oks bg1 }
        (.post .accepted) =
        { phase := .idle, key := k, inDict := false, fut := .resolved m, out := st.out ++ oks bg0 ++ oks bg1 ++ [.routed m] } := by
      simp [step, route, finish, hok]
    simp only [e2]
    rw [run_bg _ bg2 (Or.inl rfl)]
    simp [reqOut, mid, terminal, List.append_assoc]
  | ackThenEv m =>
    obtain ⟨hok, hkey⟩ := hwf
    simp only [run_append, run_cons, run_nil]
    have e1 : step { phase := .posting, key := k, inDict := true, fut := Fut.waiting, out := st.out ++ oks bg0 }
        (.post .accepted) =
        { phase := .awaiting, key := k, inDict := true, fut := (.waiting : Fut α), out := st.out ++ oks bg0 } := by
      simp [step]
    rw [e1, run_bg _ bg1 (Or.inr (by simpa using h1))]
    have e2 : step { phase := .awaiting, key := k, inDict := true, fut := Fut.waiting, out := st.out ++ oks bg0 ++ oks bg1 }
        (.event m) =
        { phase := .idle, key := k, inDict := false, fut := .resolved m, out := st.out ++ oks bg0 ++ oks bg1 ++ [.routed m] } := by
      simp [step, route, finish, hok, hkey]
    simp only [e2]
    rw [run_bg _ bg2 (Or.inl rfl)]
    simp [reqOut, mid, terminal, List.append_assoc]
  | silence =>
    simp only [run_append, run_cons, run_nil]
    have e1 : step { phase := .posting, key := k, inDict := true, fut := Fut.waiting, out := st.out ++ oks bg0 }
        (.post .accepted) =
        { phase := .awaiting, key := k, inDict := true, fut := (.waiting : Fut α), out := st.out ++ oks bg0 } := by
      simp [step]
    rw [e1, run_bg _ bg1 (Or.inr (by simpa using h1))]
    have e2 : step { phase := .awaiting, key := k, inDict := true, fut := Fut.waiting, out := st.out ++ oks bg0 ++ oks bg1 }
        .timeout =
        { phase := .idle, key := k, inDict := false, fut := (.waiting : Fut α), out := st.out ++ oks bg0 ++ oks bg1 ++ [.timeoutErr k] } := by
      simp [step, emit, finish]
    simp only [e2]
    rw [run_bg _ bg2 (Or.inl rfl)]
    simp [reqOut, mid, terminal, List.append_assoc]
  | otherStatus b =>
    simp only [run_cons, run_nil]
    have e1 : step { phase := .posting, key := k, inDict := true, fut := Fut.waiting, out := st.out ++ oks bg0 }
        (.post (.other b)) =
        { phase := .idle, key := k, inDict := false, fut := (.waiting : Fut α),
          out := st.out ++ oks bg0 ++ [terminal k (.otherStatus b)] } := by
      cases b with
      | none => simp [step, emit, finish, terminal]
      | some b =>
        by_cases ha : answers k b = true
        · have hok : b.ok = true := by simp [answers] at ha; exact ha.1
          simp [step, route, finish, terminal, ha, hok]
        · simp [step, emit, finish, terminal, ha]
    rw [e1, run_bg _ _ (Or.inl rfl)]
    simp [reqOut, mid, List.append_assoc]
  | exception =>
    simp only [run_cons, run_nil]
    have e1 : step { phase := .posting, key := k, inDict := true, fut := Fut.waiting, out := st.out ++ oks bg0 }
        (.post .exc) =
        { phase := .idle, key := k, inDict := false, fut := (.waiting : Fut α), out := st.out ++ oks bg0 ++ [.failErr k] } := by
      simp [step, emit, finish]
    rw [e1, run_bg _ _ (Or.inl rfl)]
    simp [reqOut, mid, terminal, List.append_assoc]
  | evThenPost m p =>
    obtain ⟨⟨hok, hkey⟩, hp⟩ := hwf
    simp only [run_append, run_cons, run_nil]
    have e1 : step { phase := .posting, key := k, inDict := true, fut := Fut.waiting, out := st.out ++ oks bg0 }
        (.event m) =
        { phase := .posting, key := k, inDict := false, fut := .resolved m, out := st.out ++ oks bg0 } := by
      simp [step, hkey]
    rw [e1, run_bg _ bg1 (Or.inl rfl)]
    obtain ⟨h1, h2, h3, _⟩ := step_post_resolved k m (st.out ++ oks bg0 ++ oks bg1) p hok hp
    rw [run_bg _ bg2 (Or.inl h3)]
    simp only [h1, h2, h3]
    simp [reqOut, mid, terminal, List.append_assoc]

theorem terminal_key (k : Str) (mode : Mode α) (hwf : mode.wf k) : (terminal k mode).key = some k := by
  cases mode with
  | body b => exact hwf.2
  | evThenAck m => exact hwf.2
  | ackThenEv m => exact hwf.2
  | otherStatus b =>
    cases b with
    | none => rfl
    | some b =>
      by_cases ha : answers k b = true
      · have : b.key = some k := by simp [answers] at ha; exact ha.2
        simp [terminal, ha, Out.key, this]
      · simp [terminal, ha, Out.key]
  | evThenPost m p =>
    obtain ⟨⟨_, hkey⟩, hp⟩ := hwf
    cases p with
    | ok200 b =>
      cases b with
      | none => rfl
      | some b => exact hp.2
    | accepted => exact hkey
    | other b =>
      cases b with
      | none => rfl
      | some b =>
        by_cases ha : answers k b = true
        · have : b.key = some k := by simp [answers] at ha; exact ha.2
          simp [terminal, postTerminal, ha, Out.key, this]
        · simp [terminal, postTerminal, ha, Out.key]
    | exc => rfl
  | _ => rfl

theorem filter_oks_foreign (k : Str) (ms : List (Msg α)) (h : ∀ m ∈ ms, m.key ≠ some k) :
    (oks ms).filter (hasKey k) = [] := by
  induction ms with
  | nil => rfl
  | cons m ms ih =>
    rw [oks_cons, List.filter_append, ih (fun x hx => h x (by simp [hx]))]
    have := h m (by simp)
    by_cases hok : m.ok <;> simp [hok, hasKey, Out.key, this]

theorem filter_not_oks_foreign (k : Str) (ms : List (Msg α)) (h : ∀ m ∈ ms, m.key ≠ some k) :
    (oks ms).filter (fun o => !hasKey k o) = oks ms := by
  induction ms with
  | nil => rfl
  | cons m ms ih =>
    rw [oks_cons, List.filter_append, ih (fun x hx => h x (by simp [hx]))]
    have := h m (by simp)
    by_cases hok : m.ok <;> simp [hok, hasKey, Out.key, this]

theorem mid_foreign (k : Str) (mode : Mode α) (bg1 : List (Msg α)) (h : ∀ m ∈ bg1, m.key ≠ some k) :
    (mid mode bg1).filter (hasKey k) = [] := by
  cases mode <;> simp [mid, filter_oks_foreign k bg1 h]

/-- entries of one request's contribution bearing an id `k'` -/
theorem filter_reqOut (k' k : Str) (mode : Mode α) (bg0 bg1 bg2 : List (Msg α)) (hwf : mode.wf k)
    (hbg : ∀ m ∈ bg0 ++ bg1 ++ bg2, m.key ≠ some k') :
    (reqOut k mode bg0 bg1 bg2).filter (hasKey k') = if k = k' then [terminal k mode] else [] := by
  have h0 : ∀ m ∈ bg0, m.key ≠ some k' := fun m hm => hbg m (by simp [hm])
  have h1 : ∀ m ∈ bg1, m.key ≠ some k' := fun m hm => hbg m (by simp [hm])
  have h2 : ∀ m ∈ bg2, m.key ≠ some k' := fun m hm => hbg m (by simp [hm])
  unfold reqOut
  simp only [List.filter_append, filter_oks_foreign k' _ h0, filter_oks_foreign k' _ h2,
    mid_foreign k' mode bg1 h1, List.nil_append, List.append_nil]
  have := terminal_key k mode hwf
  by_cases hk : k = k'
  · subst hk
    simp [hasKey, this]
  · simp [hasKey, this, hk]

/-! ### serial requests -/

def Req.Ok (r : Req α) : Prop := r.mode.wf r.key ∧ ∀ m ∈ r.bg, m.key ≠ some r.key

theorem runReqs_out (st : St α) (rs : List (Req α)) (h : ∀ r ∈ rs, r.Ok) :
    (runReqs st rs).out = st.out ++ rs.flatMap Req.out := by
  induction rs generalizing st with
  | nil => simp [runReqs]
  | cons r rs ih =>
    have hr := h r (by simp)
    have := run_sched st r.key r.mode r.bg0 r.bg1 r.bg2 hr.1 (by simpa [Req.bg] using hr.2)
    have e : runReqs st (r :: rs) = runReqs (run st r.actions) rs := rfl
    rw [e, ih _ (fun x hx => h x (by simp [hx]))]
    simp only [Req.actions, this.1, List.flatMap_cons, Req.out, List.append_assoc]

theorem filter_flatMap_out (k : Str) (rs : List (Req α)) (hwf : ∀ r ∈ rs, r.mode.wf r.key)
    (hbg : ∀ r ∈ rs, ∀ m ∈ r.bg, m.key ≠ some k) :
    (rs.flatMap Req.out).filter (hasKey k) =
      (rs.filter (fun r => decide (r.key = k))).map (fun r => terminal r.key r.mode) := by
  induction rs with
  | nil => rfl
  | cons r rs ih =>
    simp only [List.flatMap_cons, List.filter_append]
    rw [ih (fun x hx => hwf x (by simp [hx])) (fun x hx => hbg x (by simp [hx]))]
    rw [Req.out, filter_reqOut k r.key r.mode r.bg0 r.bg1 r.bg2 (hwf r (by simp))
      (by simpa [Req.bg] using hbg r (by simp))]
    by_cases hk : r.key = k <;> simp [hk]

theorem filter_key_nodup (rs : List (Req α)) (hnd : (rs.map (·.key)).Nodup) (r : Req α) (hr : r ∈ rs) :
    rs.filter (fun x => decide (x.key = r.key)) = [r] := by
  induction rs with
  | nil => simp at hr
  | cons x xs ih =>
    simp only [List.map_cons, List.nodup_cons] at hnd
    rcases List.mem_cons.mp hr with h | h
    · subst h
      have : xs.filter (fun x => decide (x.key = r.key)) = [] := by
        apply List.filter_eq_nil_iff.mpr
        intro y hy
        simp only [decide_eq_true_eq]
        intro hyk
        exact hnd.1 (by rw [← hyk]; exact List.mem_map_of_mem hy)
      simp [this]
    · have hx : x.key ≠ r.key := by
        intro hxk
        exact hnd.1 (by rw [hxk]; exact List.mem_map_of_mem h)
      simp [hx, ih hnd.2 h]

/-! ### what is not a terminal message of any request -/

/-- the entry bears the id of one of the requests -/
def anyKey (rs : List (Req α)) (o : Out α) : Bool := rs.any (fun r => hasKey r.key o)

theorem filter_keep_oks (P : Out α → Bool) (ms : List (Msg α)) (h : ∀ m ∈ ms, P (.routed m) = true) :
    (oks ms).filter P = oks ms := by
  induction ms with
  | nil => rfl
  | cons m ms ih =>
    rw [oks_cons, List.filter_append, ih (fun x hx => h x (by simp [hx]))]
    have := h m (by simp)
    by_cases hok : m.ok <;> simp [hok, this]

theorem mid_keep (P : Out α → Bool) (mode : Mode α) (bg1 : List (Msg α)) (h : ∀ m ∈ bg1, P (.routed m) = true) :
    (mid mode bg1).filter P = mid mode bg1 := by
  cases mode <;> simp [mid, filter_keep_oks P bg1 h]

theorem filter_flatMap_bg (rs all : List (Req α)) (hsub : ∀ r ∈ rs, r ∈ all)
    (hwf : ∀ r ∈ rs, r.mode.wf r.key)
    (hbg : ∀ r ∈ rs, ∀ m ∈ r.bg, ∀ r' ∈ all, m.key ≠ some r'.key) :
    (rs.flatMap Req.out).filter (fun o => !anyKey all o) = rs.flatMap Req.bgOut := by
  induction rs with
  | nil => rfl
  | cons r rs ih =>
    simp only [List.flatMap_cons, List.filter_append]
    rw [ih (fun x hx => hsub x (by simp [hx])) (fun x hx => hwf x (by simp [hx]))
      (fun x hx => hbg x (by simp [hx]))]
    let P : Out α → Bool := fun o => !anyKey all o
    have keep : ∀ m ∈ r.bg, P (Out.routed m) = true := by
      intro m hm
      simp only [P, anyKey, Bool.not_eq_eq_eq_not, Bool.not_true, List.any_eq_false, hasKey, Out.key]
      intro r' hr'
      have := hbg r (by simp) m hm r' hr'
      simp [this]
    have k0 : ∀ m ∈ r.bg0, P (Out.routed m) = true :=
      fun m hm => keep m (by simp [Req.bg, hm])
    have k1 : ∀ m ∈ r.bg1, P (Out.routed m) = true :=
      fun m hm => keep m (by simp [Req.bg, hm])
    have k2 : ∀ m ∈ r.bg2, P (Out.routed m) = true :=
      fun m hm => keep m (by simp [Req.bg, hm])
    have hterm : P (terminal r.key r.mode) = false := by
      simp only [P, anyKey, Bool.not_eq_eq_eq_not, Bool.not_false, List.any_eq_true]
      exact ⟨r, hsub r (by simp), by simp [hasKey, terminal_key r.key r.mode (hwf r (by simp))]⟩
    show List.filter P (Req.out r) ++ _ = _
    simp only [Req.out, reqOut, Req.bgOut, List.filter_append, filter_keep_oks P _ k0,
      filter_keep_oks P _ k2, mid_keep P _ _ k1]
    simp [hterm]


/-! ### rendered event streams -/

theorem rdrop_snoc (p : Char → Bool) (s : Str) (c : Char) :
    rdrop p (s ++ [c]) = if p c then rdrop p s else s ++ [c] := by
  unfold rdrop
  by_cases h : p c <;> simp [List.reverse_append, h]

theorem rdrop_id (p : Char → Bool) (s : Str) (h : ∀ c, s.getLast? = some c → p c = false) :
    rdrop p s = s := by
  rcases List.eq_nil_or_concat s with rfl | ⟨init, c, rfl⟩
  · simp [rdrop]
  · have := h c (by simp)
    simp [rdrop_snoc, this]

theorem rstripCR_cr (s : Str) (crlf : Bool) (h : ∀ c, s.getLast? = some c → c ≠ '\r') :
    rstripCR (s ++ (if crlf then ['\r'] else [])) = s := by
  have hid : rstripCR s = s := rdrop_id _ s (by intro c hc; simpa using h c hc)
  cases crlf
  · simpa using hid
  · simp only [if_true, rstripCR]
    rw [rdrop_snoc]
    simpa [rstripCR] using hid

theorem strip_clean (d : Str) (h : CleanText d) : strip d = d := by
  obtain ⟨_, hh, hl⟩ := h
  have h1 : d.dropWhile isWs = d := by
    cases d with
    | nil => rfl
    | cons x xs =>
      have := hh x rfl
      simp [this]
  unfold strip
  rw [h1]
  exact rdrop_id _ d hl

theorem stripPrefix_append (p s : Str) : stripPrefix p (p ++ s) = some s := by
  induction p with
  | nil => cases s <;> simp [stripPrefix]
  | cons x xs ih => simp [stripPrefix, ih]

/-- the three event names the transport knows -/
def KnownName (n : Str) : Prop := n = sEndpoint ∨ n = sMessage ∨ n = sKeepalive

theorem partitionColon_field (name v : Str) (hn : ':' ∉ name) :
    partitionColon (name ++ ':' :: v) = (name, v) := by
  induction name with
  | nil => simp [partitionColon]
  | cons c cs ih =>
    have hc : c ≠ ':' := by intro h; simp [h] at hn
    have hcs : ':' ∉ cs := by intro h; exact hn (List.mem_cons_of_mem _ h)
    simp [partitionColon, hc, ih hcs]

theorem dropOneSpace_value (v : Str) (space : Bool) (h : space = true ∨ v.head? ≠ some ' ') :
    dropOneSpace (if space then ' ' :: v else v) = v := by
  cases space with
  | true => simp [dropOneSpace]
  | false =>
    rcases h with h | h
    · simp at h
    · cases v with
      | nil => simp [dropOneSpace]
      | cons x xs =>
        have : x ≠ ' ' := by intro hx; simp [hx] at h
        simp only [Bool.false_eq_true, if_false]
        unfold dropOneSpace
        split <;> simp_all

/-- one `field:value` line in any style, for the two fields the transport reads -/
theorem stepLine_field (st : LSt) (name v : Str) (s : Style) (hname : name = sEvent ∨ name = sData)
    (hv : OkLine v s) :
    stepLine st (fieldLine name v s) =
      (if name = sEvent then ({ st with cur := some { st.cur.getD Acc.empty with ty := some (strip v) } }, [])
       else ({ st with cur := some { st.cur.getD Acc.empty with data := (st.cur.getD Acc.empty).data ++ [v] } }, [])) := by
  obtain ⟨_, hcr, hsp⟩ := hv
  have hcolon : ':' ∉ name := by rcases hname with h | h <;> subst h <;> decide
  have hhead : ∀ rest, (name ++ rest).head? ≠ some ':' := by
    intro rest; rcases hname with h | h <;> subst h <;> simp [sEvent, sData]
  have hne : ∀ rest, name ++ rest ≠ [] := by
    intro rest; rcases hname with h | h <;> subst h <;> simp [sEvent, sData]
  have hlast : ∀ c, (name ++ ':' :: (if s.space then ' ' :: v else v)).getLast? = some c → c ≠ '\r' := by
    intro c hc
    rw [List.getLast?_append] at hc
    cases hvl : v.getLast? with
    | none =>
      have hv0 : v = [] := by cases v <;> simp_all
      subst hv0
      cases hs : s.space <;> simp [hs] at hc <;> subst hc <;> decide
    | some x =>
      have hx := hcr x hvl
      have : (':' :: (if s.space then ' ' :: v else v)).getLast? = some x := by
        cases hs : s.space <;> simp [List.getLast?_cons, hvl]
      rw [this] at hc
      simp at hc
      subst hc
      exact hx
  unfold stepLine fieldLine Style.cr
  simp only [List.append_assoc] at *
  have hl : rstripCR (name ++ (':' :: (if s.space then ' ' :: v else v) ++ if s.crlf then ['\r'] else [])) =
      name ++ ':' :: (if s.space then ' ' :: v else v) := by
    rw [← List.append_assoc]
    exact rstripCR_cr _ s.crlf hlast
  simp only [hl, hne, if_false, hhead, partitionColon_field _ _ hcolon, dropOneSpace_value v s.space hsp]
  rcases hname with h | h
  · subst h; simp
  · subst h
    have : sData ≠ sEvent := by decide
    simp [this]

theorem stepLine_blank (st : LSt) (crlf : Bool) :
    stepLine st (if crlf then ['\r'] else []) = dispatch st := by
  cases crlf <;> simp [stepLine, rstripCR, rdrop]

theorem dropWhile_snoc_keep (p : Char → Bool) (r : Str) (x : Char) (hx : p x = false) :
    List.dropWhile p (r ++ [x]) = List.dropWhile p r ++ [x] := by
  induction r with
  | nil => simp [hx]
  | cons y ys ih =>
    by_cases hy : p y <;> simp [hy, ih]

theorem rdrop_cons_keep (p : Char → Bool) (x : Char) (s : Str) (hx : p x = false) :
    rdrop p (x :: s) = x :: rdrop p s := by
  simp [rdrop, dropWhile_snoc_keep p _ x hx]

theorem stepLine_comment (st : LSt) (c : Str) (crlf : Bool) :
    stepLine st (':' :: c ++ (if crlf then ['\r'] else [])) = (st, []) := by
  unfold stepLine
  have : rstripCR (':' :: c ++ (if crlf then ['\r'] else [])) =
      ':' :: rstripCR (c ++ (if crlf then ['\r'] else [])) := by
    simp only [List.cons_append, rstripCR]
    exact rdrop_cons_keep _ ':' _ (by decide)
  rw [this]
  simp

theorem splitLF_line (l rest : Str) (h : '\n' ∉ l) :
    splitLF (l ++ '\n' :: rest) = (l :: (splitLF rest).1, (splitLF rest).2) := by
  induction l with
  | nil => simp [splitLF]
  | cons x xs ih =>
    have hx : x ≠ '\n' := by intro e; simp [e] at h
    have hxs : '\n' ∉ xs := by intro e; exact h (List.mem_cons_of_mem _ e)
    simp [splitLF, hx, ih hxs]

theorem splitLF_join (lines : List Str) (h : ∀ l ∈ lines, '\n' ∉ l) :
    splitLF (joinLF lines) = (lines, []) := by
  induction lines with
  | nil => simp [joinLF, splitLF]
  | cons l ls ih =>
    simp only [joinLF]
    rw [splitLF_line l _ (h l (by simp)), ih (fun x hx => h x (by simp [hx]))]


theorem fieldLine_noLF (name v : Str) (s : Style) (hn : '\n' ∉ name) (hv : '\n' ∉ v) :
    '\n' ∉ fieldLine name v s := by
  unfold fieldLine Style.cr
  cases s.space <;> cases s.crlf <;> simp [hn, hv]

theorem evLinesX_noLF (e : EvX) (s : Style) (h : e.Ok s) : ∀ l ∈ evLinesX e s, '\n' ∉ l := by
  have hcr : '\n' ∉ s.cr := by unfold Style.cr; cases s.crlf <;> simp
  have hE : '\n' ∉ sEvent := by decide
  have hD : '\n' ∉ sData := by decide
  intro l hl
  cases e with
  | endpoint d =>
    simp only [evLinesX, List.mem_cons, List.not_mem_nil, or_false] at hl
    rcases hl with rfl | rfl | rfl
    · exact fieldLine_noLF _ _ s hE (by decide)
    · exact fieldLine_noLF _ _ s hD h.1
    · exact hcr
  | message ds =>
    simp only [evLinesX, List.mem_cons, List.mem_append, List.mem_map, List.not_mem_nil, or_false] at hl
    rcases hl with rfl | ⟨d, hd, rfl⟩ | rfl
    · exact fieldLine_noLF _ _ s hE (by decide)
    · exact fieldLine_noLF _ _ s hD (h d hd).1
    · exact hcr
  | keepalive d =>
    simp only [evLinesX, List.mem_cons, List.not_mem_nil, or_false] at hl
    rcases hl with rfl | rfl | rfl
    · exact fieldLine_noLF _ _ s hE (by decide)
    · exact fieldLine_noLF _ _ s hD h.1
    · exact hcr
  | comment c =>
    simp only [evLinesX, List.mem_cons, List.not_mem_nil, or_false] at hl
    subst hl
    have : '\n' ∉ c := h
    unfold Style.cr
    cases s.crlf <;> simp [this]

theorem okLine_name (n : Str) (s : Style) (hn : KnownName n) : OkLine n s := by
  rcases hn with h | h | h <;> subst h <;>
    refine ⟨by decide, ?_, Or.inr (by decide)⟩ <;> intro c hc <;>
    simp [sEndpoint, sMessage, sKeepalive] at hc <;> subst hc <;> decide

theorem strip_name (n : Str) (hn : KnownName n) : strip n = n := by
  rcases hn with h | h | h <;> subst h <;> decide

/-- data lines are collected, nothing is dispatched -/
theorem stepLines_data (st : LSt) (a : Acc) (hcur : st.cur = some a) (ds : List Str) (s : Style)
    (h : ∀ d ∈ ds, OkLine d s) :
    stepLines st (ds.map (fun d => fieldLine sData d s)) =
      ({ st with cur := some { a with data := a.data ++ ds } }, []) := by
  induction ds generalizing st a with
  | nil =>
    cases st
    simp_all [stepLines]
  | cons d ds ih =>
    simp only [List.map_cons, stepLines]
    rw [stepLine_field st sData d s (Or.inr rfl) (h d (by simp))]
    have hne : sData ≠ sEvent := by decide
    simp only [hne, if_false, hcur, Option.getD_some]
    rw [ih _ { a with data := a.data ++ [d] } rfl (fun x hx => h x (by simp [hx]))]
    simp [List.append_assoc]

/-- one rendered event, read by the parser between events: exactly the event's action -/
theorem stepLines_eventX (st : LSt) (hcur : st.cur = none) (e : EvX) (s : Style) (h : e.Ok s) :
    (stepLines st (evLinesX e s)).2 = e.act.toList ∧ (stepLines st (evLinesX e s)).1.cur = none := by
  have blank : ∀ st' : LSt, stepLine st' s.cr = dispatch st' := by
    intro st'; unfold Style.cr; exact stepLine_blank st' s.crlf
  cases e with
  | endpoint d =>
    simp only [evLinesX, stepLines]
    rw [stepLine_field st sEvent sEndpoint s (Or.inl rfl) (okLine_name _ s (Or.inl rfl))]
    simp only [if_true]
    rw [stepLine_field _ sData d s (Or.inr rfl) h]
    have hne : sData ≠ sEvent := by decide
    simp only [hne, if_false, blank]
    simp [dispatch, hcur, Acc.empty, joinNL, strip_name sEndpoint (Or.inl rfl), EvX.act]
  | message ds =>
    simp only [evLinesX, stepLines]
    rw [stepLine_field st sEvent sMessage s (Or.inl rfl) (okLine_name _ s (Or.inr (Or.inl rfl)))]
    simp only [if_true, stepLines_append]
    rw [stepLines_data _ _ rfl ds s h]
    simp only [stepLines, blank]
    have hm : sMessage ≠ sEndpoint := by decide
    by_cases hds : ds = []
    · simp [dispatch, hcur, Acc.empty, hds, EvX.act]
    · simp [dispatch, hcur, Acc.empty, hds, EvX.act, strip_name sMessage (Or.inr (Or.inl rfl)), hm]
  | keepalive d =>
    simp only [evLinesX, stepLines]
    rw [stepLine_field st sEvent sKeepalive s (Or.inl rfl) (okLine_name _ s (Or.inr (Or.inr rfl)))]
    simp only [if_true]
    rw [stepLine_field _ sData d s (Or.inr rfl) h]
    have hne : sData ≠ sEvent := by decide
    have h1 : sKeepalive ≠ sEndpoint := by decide
    have h2 : sKeepalive ≠ sMessage := by decide
    simp only [hne, if_false, blank]
    simp [dispatch, hcur, Acc.empty, strip_name sKeepalive (Or.inr (Or.inr rfl)), EvX.act, h1, h2]
  | comment c =>
    have := stepLine_comment st c s.crlf
    simp only [List.cons_append] at this
    simp [evLinesX, stepLines, Style.cr, this, EvX.act, hcur]

theorem stepLines_eventsX (st : LSt) (hcur : st.cur = none) (evs : List (EvX × Style))
    (h : ∀ p ∈ evs, p.1.Ok p.2) :
    (stepLines st (evs.flatMap (fun p => evLinesX p.1 p.2))).2 = evs.filterMap (fun p => p.1.act) := by
  induction evs generalizing st with
  | nil => simp [stepLines]
  | cons p ps ih =>
    have hp := stepLines_eventX st hcur p.1 p.2 (h p (by simp))
    simp only [List.flatMap_cons, stepLines_append, List.filterMap_cons]
    rw [ih _ hp.2 (fun x hx => h x (by simp [hx])), hp.1]
    cases p.1.act <;> simp

/-! the rendering with a space after every colon and one data line per event (used by C15) -/

def Ev.toX : Ev → EvX
  | .endpoint d => .endpoint d
  | .message d => .message [d]
  | .keepalive d => .keepalive d
  | .comment c => .comment c

theorem okLine_clean (d : Str) (crlf : Bool) (h : CleanText d) : OkLine d { crlf := crlf, space := true } := by
  refine ⟨h.1, ?_, Or.inl rfl⟩
  intro c hc
  have := h.2.2 c hc
  intro hx; subst hx; revert this; decide

theorem ev_ok (e : Ev) (crlf : Bool) (h : e.Clean) : e.toX.Ok { crlf := crlf, space := true } := by
  cases e with
  | endpoint d => exact okLine_clean d crlf h
  | message d =>
    intro x hx
    simp only [List.mem_cons, List.not_mem_nil, or_false] at hx
    subst hx
    exact okLine_clean _ crlf h
  | keepalive d => exact okLine_clean d crlf h
  | comment c => exact h

theorem evLines_toX (e : Ev) (crlf : Bool) : evLines e crlf = evLinesX e.toX { crlf := crlf, space := true } := by
  cases e <;> simp [evLines, evLinesX, Ev.toX, fieldLine, Style.cr, sEventPfx, sDataPfx, sEvent, sData]

theorem ev_act (e : Ev) (h : e.Clean) : e.toX.act = e.act := by
  cases e with
  | endpoint d => simp [Ev.toX, EvX.act, Ev.act, strip_clean d h]
  | message d => simp [Ev.toX, EvX.act, Ev.act, joinNL, strip_clean d h]
  | keepalive d => rfl
  | comment c => rfl

theorem evLines_noLF (e : Ev) (crlf : Bool) (h : e.Clean) : ∀ l ∈ evLines e crlf, '\n' ∉ l := by
  rw [evLines_toX]
  exact evLinesX_noLF _ _ (ev_ok e crlf h)

theorem stepLines_event (st : LSt) (hcur : st.cur = none) (e : Ev) (crlf : Bool) (h : e.Clean) :
    (stepLines st (evLines e crlf)).2 = e.act.toList ∧ (stepLines st (evLines e crlf)).1.cur = none := by
  rw [evLines_toX, ← ev_act e h]
  exact stepLines_eventX st hcur _ _ (ev_ok e crlf h)

theorem stepLines_events (st : LSt) (hcur : st.cur = none) (evs : List (Ev × Bool))
    (h : ∀ p ∈ evs, p.1.Clean) :
    (stepLines st (evs.flatMap (fun p => evLines p.1 p.2))).2 = evs.filterMap (fun p => p.1.act) := by
  induction evs generalizing st with
  | nil => simp [stepLines]
  | cons p ps ih =>
    have hp := stepLines_event st hcur p.1 p.2 (h p (by simp))
    simp only [List.flatMap_cons, stepLines_append, List.filterMap_cons]
    rw [ih _ hp.2 (fun x hx => h x (by simp [hx])), hp.1]
    cases p.1.act <;> simp

/-! ### several transports in one process -/

theorem applyAt_get {α : Type} (sts : List (St α)) (i j : Nat) (a : Action α) :
    (applyAt sts j a)[i]? = if i = j then (sts[i]?).map (fun s => step s a) else sts[i]? := by
  induction sts generalizing i j with
  | nil => cases j <;> simp [applyAt]
  | cons s ss ih =>
    cases j with
    | zero =>
      cases i with
      | zero => simp [applyAt]
      | succ i => simp [applyAt]
    | succ j =>
      cases i with
      | zero => simp [applyAt]
      | succ i => simp [applyAt, ih]

theorem runTagged_get {α : Type} (sts : List (St α)) (acts : List (Nat × Action α)) (i : Nat) :
    (runTagged sts acts)[i]? = (sts[i]?).map (fun s => run s (projActs i acts)) := by
  induction acts generalizing sts with
  | nil => simp [runTagged, projActs, run]
  | cons p ps ih =>
    have e : runTagged sts (p :: ps) = runTagged (applyAt sts p.1 p.2) ps := rfl
    rw [e, ih, applyAt_get]
    by_cases h : i = p.1
    · subst h
      cases hs : sts[p.1]? <;> simp [projActs, run]
    · have h' : ¬ p.1 = i := fun x => h x.symm
      simp [h, h', projActs]

end Verif.Model.SseReq
