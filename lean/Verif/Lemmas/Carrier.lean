import Verif.Model.Carrier
import Verif.Lemmas.Await
import Verif.Lemmas.Rpc
import Verif.Lemmas.StdioIn
import Verif.Lemmas.HttpDecide
import Verif.Lemmas.SseReq
import Verif.Lemmas.StdioCodec

/-! # Composition lemmas for C15

Bookkeeping (`zipD`, `flatMap` / `map`, `strip` on clean text) and the four per-carrier
compositions.  They rest on the lemma-level facts behind the carriers' property theorems (not on
the `Props` statements, whose shape follows each property's wording):

* stdio: `runChunks_valid`, `split_render`, `processLine_lineOf` (behind `c05_delivers_good_lines`);
* Streamable HTTP: `internal_passthrough`, `outcome_of_internal_ne`, `run_outs`, `routeAll_batch`,
  `sseMsgs_render` (behind `c11_json_body_messages`, `c11_sse_body_messages`, `c11_every_request_processed`);
* legacy SSE: `runChunks_eq`, `splitLF_join`, `stepLines_events` (behind `c12_stream_delivers_rendered`)
  and `run_sched` (behind `c12_race_exactly_once`);
* the real codec: `dec_enc`, `enc_noBreak` (C17), `parse_emit_of_ok`, `built_ok`, `wf_emit` (C02);
* helpers: `loop_complete` (C01).
-/
set_option linter.unusedSimpArgs false
set_option linter.unusedVariables false
namespace Verif.Lemmas.Carrier
open Verif.Model Verif.Model.Carrier
-- the stdio line of the real codec (`strip_codes`, `cleanWire_emit`, `real_stdio_decodes`, …): shared with C05 / C06
open Verif.Lemmas.StdioCodec
export Verif.Lemmas.StdioCodec (isScalar_toNat validText_codes lf_notin_codes dropSpaces_head strip_clean strip_codes
  emit_obj getLast_wrap cleanWire_emit chars_codes real_stdio_decodes)

variable {σ μ γ β δ ε : Type}

/-! ## bookkeeping -/

theorem zipD_mem (dflt : γ) (f : γ → β → δ) (bs : List β) (cs : List γ) :
    ∀ x ∈ zipD dflt f bs cs, ∃ b ∈ bs, ∃ c, (c = dflt ∨ c ∈ cs) ∧ x = f c b := by
  induction bs generalizing cs with
  | nil => intro x hx; simp [zipD] at hx
  | cons b bs ih =>
    cases cs with
    | nil =>
      intro x hx
      simp only [zipD, List.mem_cons] at hx
      rcases hx with rfl | hx
      · exact ⟨b, by simp, dflt, Or.inl rfl, rfl⟩
      · obtain ⟨b', hb', c, hc, rfl⟩ := ih [] x hx
        exact ⟨b', by simp [hb'], c, hc, rfl⟩
    | cons c cs =>
      intro x hx
      simp only [zipD, List.mem_cons] at hx
      rcases hx with rfl | hx
      · exact ⟨b, by simp, c, Or.inr (by simp), rfl⟩
      · obtain ⟨b', hb', c', hc', rfl⟩ := ih cs x hx
        refine ⟨b', by simp [hb'], c', ?_, rfl⟩
        rcases hc' with h | h
        · exact Or.inl h
        · exact Or.inr (by simp [h])

theorem zipD_flatMap (dflt : γ) (f : γ → β → δ) (g : δ → List ε) (h : β → List ε) (bs : List β) (cs : List γ)
    (hyp : ∀ b ∈ bs, ∀ c, (c = dflt ∨ c ∈ cs) → g (f c b) = h b) :
    (zipD dflt f bs cs).flatMap g = bs.flatMap h := by
  induction bs generalizing cs with
  | nil => simp [zipD]
  | cons b bs ih =>
    cases cs with
    | nil =>
      simp only [zipD, List.flatMap_cons]
      rw [hyp b (by simp) dflt (Or.inl rfl), ih [] (fun b' hb' c hc => hyp b' (by simp [hb']) c hc)]
    | cons c cs =>
      simp only [zipD, List.flatMap_cons]
      rw [hyp b (by simp) c (Or.inr (by simp)),
        ih cs (fun b' hb' c' hc' => hyp b' (by simp [hb']) c' (by rcases hc' with h | h; exact Or.inl h; exact Or.inr (by simp [h])))]

theorem zipD_map (dflt : γ) (f : γ → β → δ) (g : δ → ε) (h : β → ε) (bs : List β) (cs : List γ)
    (hyp : ∀ b ∈ bs, ∀ c, (c = dflt ∨ c ∈ cs) → g (f c b) = h b) :
    (zipD dflt f bs cs).map g = bs.map h := by
  have := zipD_flatMap dflt f (fun d => [g d]) (fun b => [h b]) bs cs (by intro b hb c hc; simp [hyp b hb c hc])
  rw [List.map_eq_flatMap, List.map_eq_flatMap]; exact this

theorem zipD_ne_nil (dflt : γ) (f : γ → β → δ) (bs : List β) (cs : List γ) (h : bs ≠ []) :
    zipD dflt f bs cs ≠ [] := by
  cases bs with
  | nil => exact absurd rfl h
  | cons b bs => cases cs <;> simp [zipD]

theorem filterMap_eq_flatMap (f : β → Option ε) (l : List β) : l.filterMap f = l.flatMap (fun x => (f x).toList) := by
  induction l with
  | nil => rfl
  | cons x xs ih => cases h : f x <;> simp [List.filterMap_cons, h, ih]

theorem expected_eq (W : Wire σ μ) (conv : List (Exchange σ)) :
    expected W conv = conv.flatMap (fun e => e.msgs.map (fun s => Seen.msg (W.obs s))) := by
  simp [expected, msgsOf, List.map_flatMap]

theorem mem_msgsOf (conv : List (Exchange σ)) (e : Exchange σ) (s : σ) (he : e ∈ conv) (hs : s ∈ e.msgs) :
    s ∈ msgsOf conv := by
  simp only [msgsOf, List.mem_flatMap]
  exact ⟨e, he, hs⟩

theorem cutAt_flatten {α : Type} (l : List α) (cuts : List Nat) (pos : Nat) : (cutAt l cuts pos).flatten = l := by
  induction cuts generalizing l pos with
  | nil => simp [cutAt]
  | cons c cs ih => simp [cutAt, ih]

/-! ## stdio -/
section stdio
open Verif.Model.StdioIn Verif.Lemmas.StdioIn

/-- what the reader delivers for the line of one message -/
theorem stdio_line (cfg : StdioIn.Cfg μ) (W : Wire σ μ) (s : σ) (b : Bool) (h : StdioDecodes cfg W s) :
    delivered (processLine cfg b (codes (W.enc s))) = [W.obs s] := by
  obtain ⟨hc, hp⟩ := h
  obtain ⟨h1, h2⟩ := strip_codes _ hc
  simp [processLine, h1, h2, hp, route_delivered]

/-- the read stream is the per-line contribution of the written lines, whatever the chunking -/
theorem stdio_lines (cfg : StdioIn.Cfg μ) (items : List Item) (chunks : List (List Nat))
    (hi : ∀ it ∈ items, ValidItem it) (hc : chunks.flatten = encode (render items)) :
    delivered (runChunks cfg init chunks).2 = items.flatMap (fun it => delivered (processLine cfg true it.text)) := by
  have h := runChunks_valid cfg true (render items) chunks (validText_render items hi) hc
  have hinit : ({ init with batching := true } : St) = init := by simp [init, Verif.Model.Batching.supportsBatching]
  rw [hinit] at h
  rw [h, split_render items (fun it h => (hi it h).2), delivered_flatMap]
  simp only [List.flatMap_map, processLine_lineOf]

theorem stdio_transcript (cfg : StdioIn.Cfg μ) (W : Wire σ μ) (conv : List (Exchange σ)) (crlf : List Bool)
    (chunks : List (List Nat)) (hdec : ∀ s ∈ msgsOf conv, StdioDecodes cfg W s)
    (hc : chunks.flatten = stdioBytes W conv crlf) :
    stdioObserve cfg chunks = expected W conv := by
  unfold stdioObserve expected
  rw [stdio_lines cfg (stdioItems W (msgsOf conv) crlf) chunks ?_ hc]
  · unfold stdioItems
    rw [zipD_flatMap false _ _ (fun s => [W.obs s])]
    · simp [List.map_eq_flatMap, List.flatMap_assoc]
    · intro s hs b _
      exact stdio_line cfg W s true (hdec s hs)
  · intro it hit
    obtain ⟨s, hs, b, _, rfl⟩ := zipD_mem _ _ _ _ it hit
    exact ⟨validText_codes _, lf_notin_codes _ (hdec s hs).1.1⟩
end stdio

/-! ## Streamable HTTP -/
section http
open Verif.Model.HttpDecide Verif.Model.Sse

/-- an accepted JSON or SSE answer that contains messages: exactly those are delivered -/
theorem passthrough (dec : Dec μ) (id : Option Id) (r : Resp) (hs : r.status < 400)
    (hct : r.ctype = .json ∨ r.ctype = .sse) (hne : contained dec r ≠ []) :
    outcome dec id (.resp r) = (contained dec r).map .pass := by
  have hi := internal_passthrough dec id r hs hne (by rcases hct with h | h <;> simp [h])
  rw [outcome_of_internal_ne dec id _ (by simp [hi, hne]), hi]

theorem json_outcome (dec : Dec μ) (W : Wire σ μ) (c : PostChoice) (e : Exchange σ)
    (hs : c.status < 400) (he : e.notifs = []) (hd : HttpDecodes dec W e.reply) :
    outcome dec (jsonPost W c e).1.id (jsonPost W c e).2 = e.msgs.map (fun s => .pass (W.http s)) := by
  obtain ⟨_, h1, h2⟩ := hd
  have hcont : contained dec (⟨c.status, .json, c.session, ⟨jsonBody W c e, true⟩⟩ : Resp) = [W.http e.reply] := by
    cases hb : c.batch <;> simp [contained, jsonBody, hb, h1, h2, routeAll, routeList]
  simp only [jsonPost, Exchange.msgs, he, List.nil_append, List.map_cons, List.map_nil]
  rw [passthrough dec c.id _ hs (Or.inl rfl) (by simp [hcont]), hcont]
  rfl

theorem httpJson_transcript (dec : Dec μ) (W : Wire σ μ) (s0 : Option String) (conv : List (Exchange σ))
    (choices : List PostChoice) (hexp : Expressible W .httpJson conv)
    (hst : ∀ c ∈ choices, c.status < 400) (hdec : ∀ s ∈ msgsOf conv, HttpDecodes dec W s) :
    httpObserve dec s0 (zipD PostChoice.dflt (jsonPost W) conv choices) = expected W conv := by
  unfold httpObserve
  rw [run_outs dec s0 _,
    zipD_flatMap PostChoice.dflt (jsonPost W) _ (fun e => e.msgs.map (fun s => Out.pass (W.http s))), expected_eq]
  · simp [List.map_flatMap, httpSeen, Wire.http, Function.comp_def]
  · intro e he c hc
    refine json_outcome dec W c e ?_ (hexp e he) (hdec _ (mem_msgsOf conv e _ he (by simp [Exchange.msgs])))
    rcases hc with rfl | hc
    · decide
    · exact hst c hc

theorem okVal_clean (t : List Char) (sp : Bool) (h : CleanWire t) : okVal t sp = true := by
  obtain ⟨h1, h2, h3, _⟩ := h
  simp [okVal, noBreak, h1, h2, h3]

theorem conformant_sseEvent (W : Wire σ μ) (c : EvChoice) (s : σ) (hc : c.ok = true)
    (hw : CleanWire (W.enc s)) : Conformant (sseEvent W c s) = true := by
  simp only [EvChoice.ok, Bool.and_eq_true] at hc
  have hv := okVal_clean _ c.dataChoice.space hw
  cases hn : c.name <;> cases hsp : c.nameChoice.space <;>
    simp [Conformant, sseEvent, okData, hv, hc.1.1.1, hc.1.1.2, hc.1.2, hn, EvName.str, hsp] <;> decide

theorem strip_cleanWire (t : List Char) (h : CleanWire t) : Sse.strip t = t := by
  apply Verif.Model.Sse.strip_id
  obtain ⟨_, _, h3, h4⟩ := h
  simp [okName, h3, h4]; decide

/-- the messages one event of a body hands over (`sseMsgs_render`'s summand) -/
def evMsgs (dec : Dec μ) (e : Event) : List (Msg μ) :=
  if e.data = [] then [] else sseEventMsgs dec (effType e.name, joinNl e.data)

theorem evMsgs_sseEvent (dec : Dec μ) (W : Wire σ μ) (c : EvChoice) (s : σ) (hd : HttpDecodes dec W s) :
    evMsgs dec (sseEvent W c s) = [W.http s] := by
  obtain ⟨hw, h1, _⟩ := hd
  have hty : effType c.name.str = "message".toList ∨ effType c.name.str = "response".toList := by
    cases hn : c.name <;> simp [EvName.str, effType, sMessage] <;> decide
  simp only [evMsgs, sseEventMsgs, sseEvent, joinNl]
  rw [if_neg (by simp), if_pos hty]
  simp only [strip_cleanWire _ hw, hw.2.2.1, if_true, h1, routeAll]

/-- an interleaved event hands over nothing, for every decoder -/
theorem evMsgs_noise (dec : Dec μ) (e : Event) (h : isNoise e = true) : evMsgs dec e = [] := by
  simp only [isNoise, Bool.and_eq_true, Bool.or_eq_true, decide_eq_true_eq, List.isEmpty_iff] at h
  rcases h.2 with hd | ht
  · simp [evMsgs, hd]
  · simp only [evMsgs, sseEventMsgs]
    split
    · rfl
    · rw [if_neg (by intro h'; rcases h' with h' | h'; exact ht.1 h'; exact ht.2 h')]

theorem evMsgs_noises (dec : Dec μ) (l : List Event) (h : l.all isNoise = true) : l.flatMap (evMsgs dec) = [] := by
  simp only [List.all_eq_true] at h
  simp only [List.flatMap_eq_nil_iff]
  exact fun e he => evMsgs_noise dec e (h e he)

theorem sse_outcome (dec : Dec μ) (W : Wire σ μ) (c : SseBodyChoice) (e : Exchange σ)
    (hok : c.ok = true) (hd : ∀ s ∈ e.msgs, HttpDecodes dec W s) :
    outcome dec (sseBodyPost W c e).1.id (sseBodyPost W c e).2 = e.msgs.map (fun s => .pass (W.http s)) := by
  simp only [SseBodyChoice.ok, Bool.and_eq_true, decide_eq_true_eq, List.all_eq_true] at hok
  obtain ⟨⟨hst, hevs⟩, htr⟩ := hok
  have hch : ∀ ch, (ch = EvChoice.dflt ∨ ch ∈ c.evs) → ch.ok = true := by
    intro ch h; rcases h with rfl | h
    · decide
    · exact hevs ch h
  have hconf : ∀ e' ∈ sseBodyEvents W c e, Conformant e' = true := by
    intro e' he'
    simp only [sseBodyEvents, List.mem_append, List.mem_flatMap, id] at he'
    rcases he' with ⟨l, hl, he'⟩ | he'
    · obtain ⟨s, hs, ch, hc, rfl⟩ := zipD_mem _ _ _ _ l hl
      have hk := hch ch hc
      simp only [sseEvents, List.mem_append, List.mem_singleton] at he'
      rcases he' with he' | rfl
      · simp only [EvChoice.ok, Bool.and_eq_true, List.all_eq_true] at hk
        have := hk.2 e' he'
        simp only [isNoise, Bool.and_eq_true] at this
        exact this.1
      · exact conformant_sseEvent W ch s hk (hd s hs).1
    · have := htr e' he'
      simp only [isNoise, Bool.and_eq_true] at this
      exact this.1
  have hcont : contained dec (⟨c.post.status, .sse, c.post.session, ⟨sseBodyText W c e, true⟩⟩ : Resp)
      = e.msgs.map W.http := by
    simp only [contained, sseBodyText, sseMsgs_render dec _ c.eols c.tail hconf]
    change (sseBodyEvents W c e).flatMap (evMsgs dec) = _
    simp only [sseBodyEvents, List.flatMap_append, evMsgs_noises dec _ (List.all_eq_true.mpr htr), List.append_nil,
      List.flatMap_assoc, id]
    rw [zipD_flatMap EvChoice.dflt (sseEvents W) _ (fun s => [W.http s]), List.map_eq_flatMap]
    intro s hs ch hc
    have hk := hch ch hc
    simp only [EvChoice.ok, Bool.and_eq_true] at hk
    simp [sseEvents, List.flatMap_append, evMsgs_noises dec _ hk.2, evMsgs_sseEvent dec W ch s (hd s hs)]
  simp only [sseBodyPost]
  rw [passthrough dec c.post.id _ hst (Or.inr rfl) (by simp [hcont, Exchange.msgs]), hcont, List.map_map]
  rfl

theorem httpSse_transcript (dec : Dec μ) (W : Wire σ μ) (s0 : Option String) (conv : List (Exchange σ))
    (choices : List SseBodyChoice) (hok : ∀ c ∈ choices, c.ok = true)
    (hdec : ∀ s ∈ msgsOf conv, HttpDecodes dec W s) :
    httpObserve dec s0 (zipD SseBodyChoice.dflt (sseBodyPost W) conv choices) = expected W conv := by
  unfold httpObserve
  rw [run_outs dec s0 _,
    zipD_flatMap SseBodyChoice.dflt (sseBodyPost W) _ (fun e => e.msgs.map (fun s => Out.pass (W.http s))), expected_eq]
  · simp [List.map_flatMap, httpSeen, Wire.http, Function.comp_def]
  · intro e he c hc
    refine sse_outcome dec W c e ?_ (fun s hs => hdec s (mem_msgsOf conv e s he hs))
    rcases hc with rfl | hc
    · decide
    · exact hok c hc
end http

/-! ## legacy SSE -/
section sse
open Verif.Model.SseReq

theorem cleanText_of_cleanWire (t : List Char) (h : CleanWire t) : CleanText t := by
  obtain ⟨h1, _, h3, h4⟩ := h
  refine ⟨h1, ?_, ?_⟩
  · intro c hc; rw [h3] at hc; cases hc; decide
  · intro c hc; rw [h4] at hc; cases hc; decide

/-- every chunking of a rendered event stream: one action per endpoint / message event, in order -/
theorem stream_rendered (evs : List (Ev × Bool)) (hclean : ∀ p ∈ evs, p.1.Clean)
    (chunks : List (List Char)) (h : chunks.flatten = renderText evs) :
    (runChunks PSt.init chunks).2 = evs.filterMap (fun p => p.1.act) := by
  rw [runChunks_eq _ PSt.init_clean, h]
  simp only [PSt.init, List.nil_append, renderText]
  rw [splitLF_join _ (by
    intro l hl
    obtain ⟨p, hp, hlp⟩ := List.mem_flatMap.mp hl
    exact evLines_noLF p.1 p.2 (hclean p hp) l hlp)]
  exact stepLines_events _ rfl evs hclean

/-- the event-stream parser hands over one message action per message of the conversation -/
theorem sse_stream_acts (W : Wire σ μ) (pre : List (Ev × Bool)) (conv : List (Exchange σ)) (crlf : List Bool)
    (chunks : List (List Char)) (hpre : ∀ p ∈ pre, p.1.Clean)
    (hclean : ∀ s ∈ msgsOf conv, CleanWire (W.enc s)) (hc : chunks.flatten = sseText W pre conv crlf) :
    (runChunks PSt.init chunks).2
      = pre.filterMap (fun p => p.1.act) ++ (msgsOf conv).map (fun s => Act.message (W.enc s)) := by
  rw [stream_rendered (sseStream W pre conv crlf) ?_ chunks hc]
  · simp only [sseStream, List.filterMap_append]
    congr 1
    rw [filterMap_eq_flatMap, zipD_flatMap false _ _ (fun s => [Act.message (W.enc s)]), List.map_eq_flatMap]
    intro s _ b _
    rfl
  · intro p hp
    simp only [sseStream, List.mem_append] at hp
    rcases hp with hp | hp
    · exact hpre p hp
    · obtain ⟨s, hs, b, _, rfl⟩ := zipD_mem _ _ _ _ p hp
      exact cleanText_of_cleanWire _ (hclean s hs)

theorem sse_decoded (dec : List Char → Option (Msg μ)) (W : Wire σ μ) (pre : List (Ev × Bool)) (msgs : List σ)
    (hpre : ∀ p ∈ pre, ∀ d, p.1 ≠ .message d) (hdec : ∀ s ∈ msgs, SseDecodes dec W s) :
    sseDecoded dec (pre.filterMap (fun p => p.1.act) ++ msgs.map (fun s => Act.message (W.enc s)))
      = msgs.map W.sse := by
  unfold sseDecoded
  rw [List.filterMap_append]
  have h1 : (pre.filterMap (fun p => p.1.act)).filterMap (decodeAct dec) = [] := by
    rw [List.filterMap_eq_nil_iff]
    intro a ha
    obtain ⟨p, hp, hpa⟩ := List.mem_filterMap.mp ha
    cases hev : p.1 with
    | message d => exact absurd hev (hpre p hp d)
    | endpoint d => simp [hev, Ev.act] at hpa; subst hpa; rfl
    | keepalive d => simp [hev, Ev.act] at hpa
    | comment c => simp [hev, Ev.act] at hpa
  rw [h1, List.nil_append, List.filterMap_map]
  clear h1
  induction msgs with
  | nil => rfl
  | cons s ss ih =>
    simp only [List.filterMap_cons, Function.comp, decodeAct, (hdec s (by simp)).2, List.map_cons]
    rw [ih (fun x hx => hdec x (by simp [hx]))]

theorem oks_sse (W : Wire σ μ) (l : List σ) : oks (l.map W.sse) = l.map (fun s => Out.routed (W.sse s)) := by
  simp [oks, Wire.sse, List.filter_eq_self.mpr, Function.comp_def]

/-- one exchange on the pending-future machine, for every position of the 202 -/
theorem sse_exchange (W : Wire σ μ) (e : Exchange σ) (ack : Nat) (st : St μ)
    (hk : (W.key e.reply).isSome = true) (hn : ∀ n ∈ e.notifs, W.key n ≠ W.key e.reply) :
    (run st (sseSteps ((W.key e.reply).getD []) ack (e.msgs.map W.sse))).out
      = st.out ++ e.msgs.map (fun s => Out.routed (W.sse s)) := by
  obtain ⟨k, hk'⟩ := Option.isSome_iff_exists.mp hk
  have hkey : (W.sse e.reply).key = some k := by simp [Wire.sse, hk']
  have hbg : ∀ l : List σ, (∀ n ∈ l, n ∈ e.notifs) → ∀ m ∈ l.map W.sse, m.key ≠ some k := by
    intro l hl m hm
    obtain ⟨n, hn', rfl⟩ := List.mem_map.mp hm
    have := hn n (hl n hn')
    simpa [Wire.sse, hk'] using this
  simp only [hk', Option.getD_some]
  by_cases h : ack ≤ e.notifs.length
  · have hs : sseSteps k ack (e.msgs.map W.sse)
        = sched k (.ackThenEv (W.sse e.reply)) ((e.notifs.take ack).map W.sse) ((e.notifs.drop ack).map W.sse) [] := by
      simp [sseSteps, sched, Exchange.msgs, List.take_append_of_le_length, List.drop_append_of_le_length, h, List.map_take, List.map_drop]
    rw [hs, (run_sched st k (.ackThenEv (W.sse e.reply)) ((e.notifs.take ack).map W.sse) ((e.notifs.drop ack).map W.sse) []
      (show Mode.wf k (Mode.ackThenEv (W.sse e.reply)) from ⟨rfl, hkey⟩) (by
      intro m hm
      simp only [List.append_nil, List.mem_append] at hm
      rcases hm with hm | hm
      · exact hbg _ (fun n hn' => List.mem_of_mem_take hn') m hm
      · exact hbg _ (fun n hn' => List.mem_of_mem_drop hn') m hm)).1]
    simp only [reqOut, mid, terminal, oks_sse, Exchange.msgs, List.map_append, List.map_cons, List.map_nil, oks_nil,
      List.append_nil, List.append_assoc]
    rw [← List.append_assoc (List.map _ (List.take ack e.notifs)), ← List.map_append, List.take_append_drop]
  · have hlen : (e.msgs.map W.sse).length ≤ ack := by simp [Exchange.msgs]; omega
    have hs : sseSteps k ack (e.msgs.map W.sse)
        = sched k (.evThenAck (W.sse e.reply)) (e.notifs.map W.sse) [] [] := by
      unfold sseSteps
      rw [List.take_of_length_le hlen, List.drop_of_length_le hlen]
      simp [sched, Exchange.msgs]
    rw [hs, (run_sched st k (.evThenAck (W.sse e.reply)) (e.notifs.map W.sse) [] []
      (show Mode.wf k (Mode.evThenAck (W.sse e.reply)) from ⟨rfl, hkey⟩) (by
      intro m hm
      simp only [List.append_nil] at hm
      exact hbg _ (fun n hn' => hn') m hm)).1]
    simp [reqOut, mid, terminal, oks_sse, Exchange.msgs, oks_nil]

theorem run_append' (st : St μ) (a b : List (Action μ)) : run st (a ++ b) = run (run st a) b := by
  simp [run, List.foldl_append]

theorem sse_machine (W : Wire σ μ) (conv : List (Exchange σ)) (acks : List Nat) (st : St μ)
    (hexp : Expressible W .sse conv) :
    (run st (sseSchedule (sseShape W conv acks) ((msgsOf conv).map W.sse))).out
      = st.out ++ (msgsOf conv).map (fun s => Out.routed (W.sse s)) := by
  induction conv generalizing acks st with
  | nil => simp [sseShape, zipD, sseSchedule, msgsOf, run]
  | cons e conv ih =>
    have he := hexp e (by simp)
    have hrest : Expressible W .sse conv := fun x hx => hexp x (by simp [hx])
    have hlen : (e.msgs.map W.sse).length = e.notifs.length + 1 := by simp [Exchange.msgs]
    have hm : (msgsOf (e :: conv)).map W.sse = e.msgs.map W.sse ++ (msgsOf conv).map W.sse := by
      simp [msgsOf]
    have key : ∀ ack acks', (run st (sseSchedule (((W.key e.reply).getD [], e.notifs.length + 1, ack) :: sseShape W conv acks')
          ((msgsOf (e :: conv)).map W.sse))).out
        = st.out ++ (msgsOf (e :: conv)).map (fun s => Out.routed (W.sse s)) := by
      intro ack acks'
      rw [hm]
      simp only [sseSchedule, ← hlen, List.take_left', List.drop_left']
      rw [run_append', ih acks' _ hrest, sse_exchange W e ack st he.1 he.2]
      simp [msgsOf, List.append_assoc]
    cases acks with
    | nil => exact key 0 []
    | cons a as => exact key a as


theorem sse_transcript (dec : List Char → Option (Msg μ)) (W : Wire σ μ) (pre : List (Ev × Bool))
    (conv : List (Exchange σ)) (crlf : List Bool) (chunks : List (List Char)) (acks : List Nat)
    (hexp : Expressible W .sse conv)
    (hpre : ∀ p ∈ pre, p.1.Clean ∧ ∀ d, p.1 ≠ .message d)
    (hdec : ∀ s ∈ msgsOf conv, SseDecodes dec W s)
    (hc : chunks.flatten = sseText W pre conv crlf) :
    sseObserve dec (sseShape W conv acks) chunks = expected W conv := by
  unfold sseObserve
  rw [sse_stream_acts W pre conv crlf chunks (fun p hp => (hpre p hp).1) (fun s hs => (hdec s hs).1) hc,
    sse_decoded dec W pre (msgsOf conv) (fun p hp => (hpre p hp).2) hdec,
    sse_machine W conv acks St.init hexp]
  simp [St.init, expected, sseSeen, Wire.sse, Function.comp_def]
end sse

/-! ## the real codec -/
section real
open Verif.Model.Json Verif.Model.Rpc

theorem legacy_emit (m : Msg) (h : Ok m) (hr : ObjResult m) :
    ∃ o, emit m = .obj o ∧ legacyValidate o = some (view m) ∧ idKey o = (view m).id.map keyOfId := by
  cases m with
  | request id method params =>
    refine ⟨_, rfl, ?_, ?_⟩
    · cases params <;>
        simp [legacyValidate, view, getKey, optParams, optId_toJson, optStr, optObj,
          kJsonrpc, kId, kMethod, kParams, kResult, kError, v20]
    · cases id <;> simp [idKey, getKey, view, keyOfId, Id.toJson, kJsonrpc, kId]
  | notification method params =>
    refine ⟨_, rfl, ?_, ?_⟩
    · cases params <;>
        simp [legacyValidate, view, getKey, optParams, optId, optStr, optObj,
          kJsonrpc, kId, kMethod, kParams, kResult, kError, v20]
    · cases params <;> simp [idKey, getKey, view, optParams, kJsonrpc, kId, kMethod, kParams]
  | response id r =>
    cases r with
    | obj o =>
      refine ⟨_, rfl, ?_, ?_⟩
      · simp [member, legacyValidate, view, getKey, optId_toJson, optStr, optObj,
          kJsonrpc, kId, kMethod, kParams, kResult, kError, v20]
      · cases id <;> simp [idKey, getKey, view, keyOfId, Id.toJson, kJsonrpc, kId]
    | null => exact absurd hr (by simp [ObjResult])
    | bool b => exact absurd hr (by simp [ObjResult])
    | int i => exact absurd hr (by simp [ObjResult])
    | flt t => exact absurd hr (by simp [ObjResult])
    | str s => exact absurd hr (by simp [ObjResult])
    | arr xs => exact absurd hr (by simp [ObjResult])
  | error id e =>
    simp only [Ok] at h
    have hk := validErr_keys e h
    cases id with
    | some i =>
      refine ⟨_, rfl, ?_, ?_⟩
      · simp [legacyValidate, view, getKey, optId_toJson, optStr, optObj, hk.1, hk.2,
          kJsonrpc, kId, kMethod, kParams, kResult, kError, v20]
      · cases i <;> simp [idKey, getKey, view, keyOfId, Id.toJson, kJsonrpc, kId]
    | none =>
      refine ⟨_, rfl, ?_, ?_⟩
      · simp [legacyValidate, view, getKey, optId, optStr, optObj, hk.1, hk.2,
          kJsonrpc, kId, kMethod, kParams, kResult, kError, v20]
      · simp [idKey, getKey, view, kJsonrpc, kId]

theorem real_http_decodes (st : Style) (m : Msg) (hb : Built m) (hw : wfMsg m = true) (hr : ObjResult m) :
    HttpDecodes realHttp (rpcWire st) m := by
  obtain ⟨o, ho, hl, _⟩ := legacy_emit m (built_ok hb) hr
  have hwf := wf_emit m hw
  have hde : dec (enc st (emit m)) = some (emit m) := dec_enc st (emit m) hwf
  refine ⟨cleanWire_emit st m hw, ?_, ?_⟩
  · simp only [rpcWire, realHttp, hde, Option.map_some]
    simp only [ho, classify, hl]
    rfl
  · have h2 : ('[' :: (enc st (emit m) ++ [']'])) = enc st (.arr [emit m]) := by simp [enc, encList]
    simp only [rpcWire, realHttp]
    rw [h2, dec_enc st (.arr [emit m]) (by simp [wf, wfList, hwf])]
    simp only [Option.map_some, ho, classify, classifyList, hl]
    rfl

theorem real_sse_decodes (st : Style) (m : Msg) (hb : Built m) (hw : wfMsg m = true) (hr : ObjResult m) :
    SseDecodes realSse (rpcWire st) m := by
  obtain ⟨o, ho, hl, hk⟩ := legacy_emit m (built_ok hb) hr
  have hde : dec (enc st (emit m)) = some (emit m) := dec_enc st (emit m) (wf_emit m hw)
  refine ⟨cleanWire_emit st m hw, ?_⟩
  simp only [rpcWire, realSse, hde]
  simp only [ho, hl, Wire.sse, Option.isSome_some, Option.getD_some]
  rw [hk]

end real

/-! ## request helpers -/
section helpers
open Verif.Model.Await
variable {α : Type}

theorem noMatch_of_same (cfg : Cfg α) (p₁ p₂ : List (Nat × In α)) (h : p₁.map (·.2) = p₂.map (·.2))
    (hn : NoMatch cfg p₁) : NoMatch cfg p₂ := by
  intro x hx
  have : x.2 ∈ p₂.map (·.2) := List.mem_map.mpr ⟨x, hx, rfl⟩
  rw [← h] at this
  obtain ⟨y, hy, hyx⟩ := List.mem_map.mp this
  rw [← hyx]; exact hn y hy

theorem helpers_agree (R : Int → Bool) (cfg : Cfg α) (hpre : cfg.preCancelled = false) (hc : cfg.cancelAt = none)
    (pre₁ pre₂ post₁ post₂ : List (Nat × In α)) (a₁ a₂ : Nat) (m : In α)
    (hsame : pre₁.map (·.2) = pre₂.map (·.2))
    (hno : NoMatch cfg pre₁) (hm : isMatch cfg m = true)
    (hs₁ : Sorted (pre₁ ++ [(a₁, m)])) (hs₂ : Sorted (pre₂ ++ [(a₂, m)]))
    (h₁ : a₁ < cfg.D) (h₂ : a₂ < cfg.D) :
    let o₁ := run R cfg (pre₁ ++ (a₁, m) :: post₁)
    let o₂ := run R cfg (pre₂ ++ (a₂, m) :: post₂)
    o₁.outcome = o₂.outcome ∧ o₁.outcome = final R cfg m ∧ o₁.writes = o₂.writes ∧ o₁.callbacks = o₂.callbacks
      ∧ o₁.consumed = o₂.consumed ∧ o₁.time = a₁ ∧ o₂.time = a₂ := by
  have hrun : ∀ ev, run R cfg ev = loop R cfg 0 ev [.request] [] 0 := by intro ev; simp [run, hpre]
  have e₁ := loop_complete R cfg hc 0 _ [.request] [] 0 pre₁ a₁ m post₁ rfl hno hm hs₁ (by intro x _; exact Nat.zero_le _) h₁
  have e₂ := loop_complete R cfg hc 0 _ [.request] [] 0 pre₂ a₂ m post₂ rfl (noMatch_of_same cfg _ _ hsame hno) hm hs₂
    (by intro x _; exact Nat.zero_le _) h₂
  have hcb : pre₁.filterMap (fun x => cbArgs cfg x.2) = pre₂.filterMap (fun x => cbArgs cfg x.2) := by
    have : ∀ p : List (Nat × In α), p.filterMap (fun x => cbArgs cfg x.2) = (p.map (·.2)).filterMap (cbArgs cfg) := by
      intro p; rw [List.filterMap_map]; rfl
    rw [this, this, hsame]
  have hl : pre₁.length = pre₂.length := by simpa using congrArg List.length hsame
  simp only [hrun, e₁, e₂, hcb, hl]
  simp

end helpers

end Verif.Lemmas.Carrier
