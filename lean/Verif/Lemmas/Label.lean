import Verif.Model.Label

/-! # The declared metadata of a reply does not matter (lemmas for C15) -/

namespace Verif.Model.Label
open Verif.Model

theorem contains_prefix (n x : Str) : contains n (n ++ x) = true := by
  cases h : n ++ x with
  | nil =>
    have : n = [] := (List.append_eq_nil_iff.mp h).1
    subst this; simp [contains]
  | cons a t =>
    have : n.isPrefixOf (a :: t) = true := by rw [← h]; simp
    simp [contains, this]

theorem lower_append (a b : Str) : lower (a ++ b) = lower a ++ lower b := by simp [lower]

/-- a JSON media type in any spelling, with any parameters -/
theorem ctypeOf_json (m p : Str) (h : lower m = jsonT) : ctypeOf (some (m ++ p)) = .json := by
  simp [ctypeOf, lower_append, h, contains_prefix]

/-- an event-stream media type in any spelling, with any parameters that do not themselves spell
`application/json` -/
theorem ctypeOf_sse (m p : Str) (h : lower m = sseT) (hp : contains jsonT (sseT ++ lower p) = false) :
    ctypeOf (some (m ++ p)) = .sse := by
  simp [ctypeOf, lower_append, h, hp, contains_prefix]

theorem stripBom_raw (l : Label) (t : Str) (h : t.head? ≠ some bom) : stripBom (raw l t) = t := by
  unfold raw
  cases hb : l.bomFirst with
  | true => simp [stripBom]
  | false =>
    cases t with
    | nil => simp [stripBom]
    | cons c t =>
      have : c ≠ bom := by intro hc; apply h; simp [hc]
      simp [stripBom, this]

theorem received_eq (l : Label) (r : HttpDecide.Resp) (hk : ctypeOf l.header = r.ctype)
    (hb : r.body.text.head? ≠ some bom) : received l r = r := by
  unfold received
  rw [hk, stripBom_raw l _ hb]

theorem relabel_eq (l : Label) (p : Post) (h : agrees l p = true) : relabel l p = p := by
  obtain ⟨q, b⟩ := p
  cases b with
  | exc e => rfl
  | resp r =>
    simp only [agrees, Bool.and_eq_true, decide_eq_true_eq] at h
    simp only [relabel, received_eq l r h.1 h.2]

theorem relabelAll_eq (ls : List Label) (ps : List Post) (h : agreeAll ls ps = true) : relabelAll ls ps = ps := by
  induction ls generalizing ps with
  | nil => cases ps <;> rfl
  | cons l ls ih =>
    cases ps with
    | nil => rfl
    | cons p ps =>
      simp only [agreeAll, Bool.and_eq_true] at h
      simp only [relabelAll, relabel_eq l p h.1, ih ps h.2]

/-- two labellings of the same replies that both name the right kind of body are received alike -/
theorem relabelAll_congr (ls₁ ls₂ : List Label) (ps : List Post)
    (h₁ : agreeAll ls₁ ps = true) (h₂ : agreeAll ls₂ ps = true) : relabelAll ls₁ ps = relabelAll ls₂ ps := by
  rw [relabelAll_eq ls₁ ps h₁, relabelAll_eq ls₂ ps h₂]

end Verif.Model.Label
