import Verif.Model.Json

/-! # Lemmas about the JSON model: no raw line break, leaf round trips, `dec ∘ enc`. -/
set_option linter.unusedSimpArgs false
set_option linter.unusedVariables false
namespace Verif.Model.Json

/-! ## A. no raw line break -/

def NoBreak (l : List Char) : Prop := '\n' ∉ l ∧ '\r' ∉ l

theorem noBreak_nil : NoBreak [] := by simp [NoBreak]

theorem noBreak_append {a b : List Char} (ha : NoBreak a) (hb : NoBreak b) : NoBreak (a ++ b) := by
  simp only [NoBreak, List.mem_append] at *; grind

theorem noBreak_cons {c : Char} {a : List Char} (hc : c ≠ '\n' ∧ c ≠ '\r') (ha : NoBreak a) :
    NoBreak (c :: a) := by
  simp only [NoBreak, List.mem_cons] at *; grind

theorem hexDigit_ne (n : Nat) (h : n < 16) : hexDigit n ≠ '\n' ∧ hexDigit n ≠ '\r' := by
  have : ∀ n, n < 16 → hexDigit n ≠ '\n' ∧ hexDigit n ≠ '\r' := by decide
  exact this n h

theorem u4_noBreak (n : Nat) (h : n < 65536) : NoBreak (u4 n) := by
  have h1 := hexDigit_ne (n / 4096) (by omega)
  have h2 := hexDigit_ne (n / 256 % 16) (by omega)
  have h3 := hexDigit_ne (n / 16 % 16) (by omega)
  have h4 := hexDigit_ne (n % 16) (by omega)
  unfold u4
  exact noBreak_cons (by decide) (noBreak_cons (by decide) (noBreak_cons h1 (noBreak_cons h2
    (noBreak_cons h3 (noBreak_cons h4 noBreak_nil)))))

theorem char_lt (c : Char) : c.toNat < 1114112 := by
  have := c.valid
  simp only [Char.toNat, UInt32.isValidChar, Nat.isValidChar] at *
  omega

theorem escChar_noBreak (a : Bool) (c : Char) : NoBreak (escChar a c) := by
  unfold escChar
  split <;> try (simp [NoBreak]; done)
  split <;> try (simp [NoBreak]; done)
  split <;> try (simp [NoBreak]; done)
  split <;> try (simp [NoBreak]; done)
  split <;> try (simp [NoBreak]; done)
  split <;> try (simp [NoBreak]; done)
  split <;> try (simp [NoBreak]; done)
  split
  · exact u4_noBreak _ (by omega)
  split
  · split
    · exact u4_noBreak _ (by omega)
    · have := char_lt c
      exact noBreak_append (u4_noBreak _ (by omega)) (u4_noBreak _ (by omega))
  · rename_i h1 h2 h3 h4 h5 h6 h7 h8 h9
    exact noBreak_cons ⟨h3, h4⟩ noBreak_nil

theorem flatMap_noBreak (a : Bool) (s : List Char) : NoBreak (s.flatMap (escChar a)) := by
  induction s with
  | nil => simp [NoBreak]
  | cons c cs ih =>
    simp only [List.flatMap_cons]
    exact noBreak_append (escChar_noBreak a c) ih

theorem encStr_noBreak (a : Bool) (s : List Char) : NoBreak (encStr a s) := by
  unfold encStr
  exact noBreak_cons (by decide) (noBreak_append (flatMap_noBreak a s) (by simp [NoBreak]))

theorem digitChar_isDig (n : Nat) (h : n < 10) : isDig (digitChar n) = true ∧ digitVal (digitChar n) = n := by
  have : ∀ n, n < 10 → isDig (digitChar n) = true ∧ digitVal (digitChar n) = n := by decide
  exact this n h

theorem natDigits_allDig (n : Nat) : ∀ c ∈ natDigits n, isDig c = true := by
  induction n using Nat.strongRecOn with
  | _ n ih =>
    unfold natDigits
    split
    · rename_i h; intro c hc; simp at hc; subst hc; exact (digitChar_isDig n h).1
    · rename_i h
      intro c hc
      simp only [List.mem_append, List.mem_singleton] at hc
      rcases hc with hc | hc
      · exact ih (n / 10) (by omega) c hc
      · subst hc; exact (digitChar_isDig (n % 10) (by omega)).1

theorem isNumChar_ne (c : Char) (h : isNumChar c = true) : c ≠ '\n' ∧ c ≠ '\r' := by
  constructor <;> (intro hc; subst hc; revert h; decide)

theorem allNum_noBreak (l : List Char) (h : ∀ c ∈ l, isNumChar c = true) : NoBreak l := by
  constructor <;> intro hm <;> have := isNumChar_ne _ (h _ hm) <;> simp at this

theorem isDig_isNumChar (c : Char) (h : isDig c = true) : isNumChar c = true := by
  simp [isNumChar, h]

theorem intTok_allNum (i : Int) : ∀ c ∈ intTok i, isNumChar c = true := by
  cases i with
  | ofNat n => intro c hc; exact isDig_isNumChar c (natDigits_allDig n c hc)
  | negSucc n =>
    intro c hc
    simp only [intTok, List.mem_cons] at hc
    rcases hc with hc | hc
    · subst hc; decide
    · exact isDig_isNumChar c (natDigits_allDig _ c hc)

theorem sep_noBreak (st : Style) : NoBreak (sep st) := by
  unfold sep; split <;> simp [NoBreak]

mutual
theorem enc_noBreak (st : Style) : ∀ v : Json, wf v = true → NoBreak (enc st v)
  | .null, _ => by simp [enc, NoBreak]
  | .bool true, _ => by simp [enc, NoBreak]
  | .bool false, _ => by simp [enc, NoBreak]
  | .int i, _ => by simp only [enc]; exact allNum_noBreak _ (intTok_allNum i)
  | .flt tok, h => by
      simp only [enc]
      simp only [wf, fltTokOk, Bool.and_eq_true, List.all_eq_true] at h
      exact allNum_noBreak _ h.1.1
  | .str s, _ => by simp only [enc]; exact encStr_noBreak _ s
  | .arr xs, h => by
      simp only [enc]
      simp only [wf] at h
      exact noBreak_cons (by decide) (noBreak_append (encList_noBreak st xs h) (by simp [NoBreak]))
  | .obj kvs, h => by
      simp only [enc]
      simp only [wf] at h
      exact noBreak_cons (by decide) (noBreak_append (encKvs_noBreak st kvs h) (by simp [NoBreak]))
theorem encList_noBreak (st : Style) : ∀ xs : List Json, wfList xs = true → NoBreak (encList st xs)
  | [], _ => by simp [encList, NoBreak]
  | [x], h => by
      simp only [encList]
      simp only [wfList, Bool.and_eq_true] at h
      exact enc_noBreak st x h.1
  | x :: y :: xs, h => by
      simp only [encList]
      rw [wfList, Bool.and_eq_true] at h
      exact noBreak_append (enc_noBreak st x h.1)
        (noBreak_cons (by decide) (noBreak_append (sep_noBreak st) (encList_noBreak st (y :: xs) h.2)))
theorem encKvs_noBreak (st : Style) : ∀ kvs : List (List Char × Json), wfKvs kvs = true → NoBreak (encKvs st kvs)
  | [], _ => by simp [encKvs, NoBreak]
  | [(k, v)], h => by
      simp only [encKvs]
      simp only [wfKvs, Bool.and_eq_true] at h
      exact noBreak_append (encStr_noBreak _ k) (noBreak_cons (by decide)
        (noBreak_append (sep_noBreak st) (enc_noBreak st v h.1)))
  | (k, v) :: kv :: kvs, h => by
      simp only [encKvs]
      rw [wfKvs, Bool.and_eq_true] at h
      exact noBreak_append (encStr_noBreak _ k) (noBreak_cons (by decide)
        (noBreak_append (sep_noBreak st) (noBreak_append (enc_noBreak st v h.1)
          (noBreak_cons (by decide) (noBreak_append (sep_noBreak st) (encKvs_noBreak st (kv :: kvs) h.2))))))
end

theorem dumps_noBreak (cfg : Config) (b : Backend) (v : Json) (h : wf v = true) : NoBreak (dumps cfg b v) := by
  unfold dumps
  cases b
  · simp only; split <;> exact enc_noBreak _ v h
  · exact enc_noBreak _ v h

/-! ## B. leaf round trips -/

theorem hexVal_hexDigit (d : Nat) (h : d < 16) : hexVal (hexDigit d) = some d := by
  have : ∀ d, d < 16 → hexVal (hexDigit d) = some d := by decide
  exact this d h

theorem scan_u4 (n : Nat) (h : n < 65536) (tail : List Char) (us : List CU) (r : List Char)
    (ih : scanAux .norm tail = some (us, r)) :
    scanAux .norm (u4 n ++ tail) = some (.esc n :: us, r) := by
  have h1 := hexVal_hexDigit (n / 4096) (by omega)
  have h2 := hexVal_hexDigit (n / 256 % 16) (by omega)
  have h3 := hexVal_hexDigit (n / 16 % 16) (by omega)
  have h4 := hexVal_hexDigit (n % 16) (by omega)
  have hn : ((n / 4096 * 16 + n / 256 % 16) * 16 + n / 16 % 16) * 16 + n % 16 = n := by omega
  simp [u4, scanAux, h1, h2, h3, h4, ih, hn, consCU]

/-- the code units the decoder sees for one encoded character -/
def cuOf (ascii : Bool) (c : Char) : List CU :=
  if c = '"' ∨ c = '\\' ∨ c = '\n' ∨ c = '\r' ∨ c = '\t' ∨ c = '\x08' ∨ c = '\x0c' then [.raw c]
  else if c.toNat < 32 then [.esc c.toNat]
  else if ascii && decide (127 ≤ c.toNat) then
    (if c.toNat < 65536 then [.esc c.toNat]
     else [.esc (55296 + (c.toNat - 65536) / 1024), .esc (56320 + (c.toNat - 65536) % 1024)])
  else [.raw c]

theorem scan_esc (a : Bool) (c : Char) (tail : List Char) (us : List CU) (r : List Char)
    (ih : scanAux .norm tail = some (us, r)) :
    scanAux .norm (escChar a c ++ tail) = some (cuOf a c ++ us, r) := by
  unfold escChar cuOf
  split
  · subst_vars; simp [scanAux, simpleEsc, ih, consCU]
  split
  · subst_vars; simp [scanAux, simpleEsc, ih, consCU]
  split
  · subst_vars; simp [scanAux, simpleEsc, ih, consCU]
  split
  · subst_vars; simp [scanAux, simpleEsc, ih, consCU]
  split
  · subst_vars; simp [scanAux, simpleEsc, ih, consCU]
  split
  · subst_vars; simp [scanAux, simpleEsc, ih, consCU]
  split
  · subst_vars; simp [scanAux, simpleEsc, ih, consCU]
  rename_i h1 h2 h3 h4 h5 h6 h7
  have hno : ¬ (c = '"' ∨ c = '\\' ∨ c = '\n' ∨ c = '\r' ∨ c = '\t' ∨ c = '\x08' ∨ c = '\x0c') := by
    simp [h1, h2, h3, h4, h5, h6, h7]
  rw [if_neg hno]
  split
  · rename_i hlt
    simpa using scan_u4 _ (by omega) tail us r ih
  split
  · split
    · rename_i hlt
      simpa using scan_u4 _ (by omega) tail us r ih
    · have := char_lt c
      rw [List.append_assoc]
      have h2 := scan_u4 (56320 + (c.toNat - 65536) % 1024) (by omega) tail us r ih
      simpa using scan_u4 (55296 + (c.toNat - 65536) / 1024) (by omega) _ _ r h2
  · rename_i h8 h9
    simp [scanAux, h1, h2, h8, ih, consCU]

theorem char_valid' (c : Char) : c.toNat < 55296 ∨ (57343 < c.toNat ∧ c.toNat < 1114112) := by
  have := c.valid
  simp only [Char.toNat, UInt32.isValidChar, Nat.isValidChar] at *
  omega

theorem combine_esc_self (c : Char) (us : List CU) (s : List Char) (ih : combineAux none us = some s) :
    combineAux none (.esc c.toNat :: us) = some (c :: s) := by
  have hv := char_valid' c
  have h1 : ¬ (55296 ≤ c.toNat ∧ c.toNat < 56320) := by omega
  have h2 : ¬ (56320 ≤ c.toNat ∧ c.toNat < 57344) := by omega
  simp [combineAux, h1, h2, ih, Char.ofNat_toNat, consCh]

theorem combine_pair (c : Char) (hi lo : Nat) (us : List CU) (s : List Char)
    (ih : combineAux none us = some s)
    (h1 : 55296 ≤ hi ∧ hi < 56320) (h2 : 56320 ≤ lo ∧ lo < 57344)
    (h3 : 65536 + (hi - 55296) * 1024 + (lo - 56320) = c.toNat) :
    combineAux none (.esc hi :: .esc lo :: us) = some (c :: s) := by
  rw [combineAux, if_pos h1, combineAux, if_pos h2, h3, ih, Char.ofNat_toNat]
  rfl

theorem combine_cu (a : Bool) (c : Char) (us : List CU) (s : List Char) (ih : combineAux none us = some s) :
    combineAux none (cuOf a c ++ us) = some (c :: s) := by
  unfold cuOf
  split
  · simp [combineAux, ih, consCh]
  split
  · exact combine_esc_self c us s ih
  split
  · split
    · exact combine_esc_self c us s ih
    · rename_i hge
      have := char_lt c
      exact combine_pair c _ _ us s ih (by omega) (by omega) (by omega)
  · simp [combineAux, ih, consCh]

theorem scan_flatMap (a : Bool) (s rest : List Char) :
    scanAux .norm (s.flatMap (escChar a) ++ '"' :: rest) = some (s.flatMap (cuOf a), rest) := by
  induction s with
  | nil => simp [scanAux]
  | cons c cs ih =>
    simp only [List.flatMap_cons, List.append_assoc]
    exact scan_esc a c _ _ rest ih

theorem combine_flatMap (a : Bool) (s : List Char) : combineAux none (s.flatMap (cuOf a)) = some s := by
  induction s with
  | nil => simp [combineAux]
  | cons c cs ih =>
    simp only [List.flatMap_cons]
    exact combine_cu a c _ cs ih

/-- string bodies round-trip under both escaping disciplines -/
theorem parseStrBody_esc (a : Bool) (s rest : List Char) :
    parseStrBody (s.flatMap (escChar a) ++ '"' :: rest) = some (s, rest) := by
  simp [parseStrBody, scanStr, combine, scan_flatMap, combine_flatMap]

/-! ### numbers -/

/-- what may follow a number: nothing, or a character that cannot continue it -/
def RestOk (rest : List Char) : Prop := ∀ c, rest.head? = some c → isNumChar c = false

theorem restOk_nil : RestOk [] := by simp [RestOk]
theorem restOk_cons (c : Char) (r : List Char) (h : isNumChar c = false) : RestOk (c :: r) := by
  simp [RestOk, h]

theorem takeWhile_all (p : Char → Bool) (l rest : List Char) (hl : ∀ c ∈ l, p c = true)
    (hr : ∀ c, rest.head? = some c → p c = false) :
    (l ++ rest).takeWhile p = l ∧ (l ++ rest).dropWhile p = rest := by
  induction l with
  | nil =>
    cases rest with
    | nil => simp
    | cons r rs => simp [List.takeWhile, List.dropWhile, hr r (by simp)]
  | cons c cs ih =>
    have hc := hl c (by simp)
    have := ih (fun x hx => hl x (by simp [hx]))
    simp [List.takeWhile, List.dropWhile, hc, this]

theorem dropWhile_all (p : Char → Bool) (l : List Char) (hl : ∀ c ∈ l, p c = true) :
    l.dropWhile p = [] := by
  have := (takeWhile_all p l [] hl (by simp)).2
  simpa using this

theorem digitsVal_append (acc : Nat) (l m : List Char) :
    digitsVal acc (l ++ m) = digitsVal (digitsVal acc l) m := by
  induction l generalizing acc with
  | nil => rfl
  | cons c cs ih =>
    simp only [List.cons_append, digitsVal]
    exact ih _

theorem digitsVal_natDigits (n : Nat) : digitsVal 0 (natDigits n) = n := by
  induction n using Nat.strongRecOn with
  | _ n ih =>
    unfold natDigits
    split
    · rename_i h
      have := (digitChar_isDig n h).2
      simp only [digitsVal, this]; omega
    · rename_i h
      rw [digitsVal_append, ih (n / 10) (by omega)]
      have := (digitChar_isDig (n % 10) (by omega)).2
      simp only [digitsVal, this]
      omega

/-- shape of a decimal numeral: a digit, then digits; a leading `0` only for zero itself -/
theorem natDigits_shape (n : Nat) : ∃ c r, natDigits n = c :: r ∧ isDig c = true ∧
    (∀ x ∈ r, isDig x = true) ∧ (c = '0' → n = 0 ∧ r = []) := by
  induction n using Nat.strongRecOn with
  | _ n ih =>
    unfold natDigits
    split
    · rename_i h
      refine ⟨digitChar n, [], rfl, (digitChar_isDig n h).1, by simp, ?_⟩
      have : ∀ n, n < 10 → digitChar n = '0' → n = 0 := by decide
      intro h0; exact ⟨this n h h0, rfl⟩
    · rename_i h
      obtain ⟨c, r, hc, hd, hr, h0⟩ := ih (n / 10) (by omega)
      refine ⟨c, r ++ [digitChar (n % 10)], by simp [hc], hd, ?_, ?_⟩
      · intro x hx
        simp only [List.mem_append, List.mem_singleton] at hx
        rcases hx with hx | hx
        · exact hr x hx
        · subst hx; exact (digitChar_isDig (n % 10) (by omega)).1
      · intro hc0; have := (h0 hc0).1; omega

theorem isDig_not_fracExp (c : Char) (h : isDig c = true) : isFracExp c = false := by
  simp only [isFracExp, Bool.or_eq_false_iff, decide_eq_false_iff_not]
  refine ⟨⟨?_, ?_⟩, ?_⟩ <;> (intro hc; subst hc; revert h; decide)

theorem isDig_ne_minus (c : Char) (h : isDig c = true) : c ≠ '-' := by
  intro hc; subst hc; revert h; decide

theorem unsignedOk_natDigits (n : Nat) : unsignedOk (natDigits n) = true := by
  obtain ⟨c, r, hc, hd, hr, h0⟩ := natDigits_shape n
  rw [hc]
  by_cases hz : c = '0'
  · obtain ⟨_, rfl⟩ := h0 hz
    subst hz
    simp [unsignedOk, fracOk]
  · simp [unsignedOk, hz, hd, dropWhile_all isDig r hr, fracOk]

theorem natDigits_noFrac (n : Nat) : (natDigits n).any isFracExp = false := by
  simp only [List.any_eq_false]
  intro c hc
  simp [isDig_not_fracExp c (natDigits_allDig n c hc)]

theorem intTok_props (i : Int) : numGrammar (intTok i) = true ∧ (intTok i).any isFracExp = false ∧
    intVal (intTok i) = i := by
  cases i with
  | ofNat n =>
    obtain ⟨c, r, hc, hd, hr, h0⟩ := natDigits_shape n
    have hm := isDig_ne_minus c hd
    have hu := unsignedOk_natDigits n
    have hv := digitsVal_natDigits n
    have hf := natDigits_noFrac n
    simp only [intTok]
    rw [hc] at hu hv hf ⊢
    refine ⟨by simp [numGrammar, hm, hu], hf, ?_⟩
    simp [intVal, hm, hv]
  | negSucc n =>
    have hu := unsignedOk_natDigits (n + 1)
    have hv := digitsVal_natDigits (n + 1)
    have hf := natDigits_noFrac (n + 1)
    simp only [intTok]
    refine ⟨by simp [numGrammar, hu], ?_, ?_⟩
    · simp only [List.any_cons, hf, Bool.or_false]; decide
    · simp only [intVal, hv, if_true]
      rfl

theorem parseNumber_tok (tok rest : List Char) (hall : ∀ c ∈ tok, isNumChar c = true) (hr : RestOk rest) :
    parseNumber (tok ++ rest) =
      if numGrammar tok then
        if tok.any isFracExp then some (.flt tok, rest) else some (.int (intVal tok), rest)
      else none := by
  have := takeWhile_all isNumChar tok rest hall hr
  simp only [parseNumber, this.1, this.2]

theorem parseNumber_int (i : Int) (rest : List Char) (hr : RestOk rest) :
    parseNumber (intTok i ++ rest) = some (.int i, rest) := by
  have h := intTok_props i
  rw [parseNumber_tok _ _ (intTok_allNum i) hr]
  simp [h.1, h.2.1, h.2.2]

theorem parseNumber_flt (tok rest : List Char) (h : fltTokOk tok = true) (hr : RestOk rest) :
    parseNumber (tok ++ rest) = some (.flt tok, rest) := by
  simp only [fltTokOk, Bool.and_eq_true, List.all_eq_true] at h
  rw [parseNumber_tok _ _ h.1.1 hr]
  simp [h.1.2, h.2]

/-- a number token starts with `-` or a digit -/
def numStart (c : Char) : Prop := c = '-' ∨ isDig c = true

theorem numGrammar_head (tok : List Char) (h : numGrammar tok = true) :
    ∃ c r, tok = c :: r ∧ numStart c := by
  cases tok with
  | nil => simp [numGrammar] at h
  | cons c r =>
    refine ⟨c, r, rfl, ?_⟩
    by_cases hm : c = '-'
    · exact Or.inl hm
    · right
      simp only [numGrammar, hm, if_false, unsignedOk] at h
      by_cases hz : c = '0'
      · subst hz; decide
      · simp only [hz, if_false] at h
        by_cases hd : isDig c = true
        · exact hd
        · simp [hd] at h

theorem numStart_facts (c : Char) (h : numStart c) :
    isWs c = false ∧ c ≠ 'n' ∧ c ≠ 't' ∧ c ≠ 'f' ∧ c ≠ '"' ∧ c ≠ '[' ∧ c ≠ '{' ∧ c ≠ ']' ∧ c ≠ '}' := by
  rcases h with h | h
  · subst h; decide
  · refine ⟨?_, ?_, ?_, ?_, ?_, ?_, ?_, ?_, ?_⟩
    · cases hw : isWs c with
      | false => rfl
      | true =>
        simp only [isWs, Bool.or_eq_true, decide_eq_true_eq] at hw
        rcases hw with ((hw | hw) | hw) | hw <;> (subst hw; revert h; decide)
    all_goals (intro hc; subst hc; revert h; decide)

/-! ## C. the recursive round trip -/

mutual
def size : Json → Nat
  | .arr xs => 1 + sizeL xs
  | .obj kvs => 1 + sizeK kvs
  | _ => 1
def sizeL : List Json → Nat
  | [] => 0
  | x :: xs => 1 + size x + sizeL xs
def sizeK : List (List Char × Json) → Nat
  | [] => 0
  | (_, v) :: kvs => 1 + size v + sizeK kvs
end

theorem skipWs_sep (st : Style) (l : List Char) : skipWs (sep st ++ l) = skipWs l := by
  unfold sep; split <;> simp [skipWs, isWs]

theorem skipWs_cons (c : Char) (r : List Char) (h : isWs c = false) : skipWs (c :: r) = c :: r := by
  simp [skipWs, h]

theorem parseValue_sep (st : Style) (n : Nat) (l : List Char) :
    parseValue n (sep st ++ l) = parseValue n l := by
  cases n with
  | zero => simp [parseValue]
  | succ n => simp only [parseValue, skipWs_sep]

theorem parseElems_sep (st : Style) (n : Nat) (l : List Char) :
    parseElems n (sep st ++ l) = parseElems n l := by
  cases n with
  | zero => simp [parseElems]
  | succ n => simp only [parseElems, parseValue_sep]

theorem parseMembers_sep (st : Style) (n : Nat) (l : List Char) :
    parseMembers n (sep st ++ l) = parseMembers n l := by
  cases n with
  | zero => simp [parseMembers]
  | succ n => simp only [parseMembers, skipWs_sep]

/-- first character of an encoded value: never whitespace, never a closing bracket -/
def valStart (c : Char) : Prop := isWs c = false ∧ c ≠ ']' ∧ c ≠ '}'

theorem enc_head (st : Style) (v : Json) (h : wf v = true) :
    ∃ c r, enc st v = c :: r ∧ valStart c := by
  cases v with
  | null => exact ⟨'n', ['u', 'l', 'l'], by simp [enc], by unfold valStart; decide⟩
  | bool b =>
    cases b
    · exact ⟨'f', ['a', 'l', 's', 'e'], by simp [enc], by unfold valStart; decide⟩
    · exact ⟨'t', ['r', 'u', 'e'], by simp [enc], by unfold valStart; decide⟩
  | int i =>
    obtain ⟨c, r, hc, hs⟩ := numGrammar_head _ (intTok_props i).1
    have := numStart_facts c hs
    exact ⟨c, r, by simp [enc, hc], this.1, this.2.2.2.2.2.2.2.1, this.2.2.2.2.2.2.2.2⟩
  | flt tok =>
    simp only [wf, fltTokOk, Bool.and_eq_true] at h
    obtain ⟨c, r, hc, hs⟩ := numGrammar_head _ h.1.2
    have := numStart_facts c hs
    exact ⟨c, r, by simp [enc, hc], this.1, this.2.2.2.2.2.2.2.1, this.2.2.2.2.2.2.2.2⟩
  | str s => exact ⟨'"', _, by simp only [enc, encStr]; rfl, by unfold valStart; decide⟩
  | arr xs => exact ⟨'[', _, by simp only [enc]; rfl, by unfold valStart; decide⟩
  | obj kvs => exact ⟨'{', _, by simp only [enc]; rfl, by unfold valStart; decide⟩

theorem lit_ok (p : List Char) (v : Json) (rest : List Char) : lit p v (p ++ rest) = some (v, rest) := by
  have : ∀ p : List Char, stripPrefix p (p ++ rest) = some rest := by
    intro p; induction p with
    | nil => cases rest <;> simp [stripPrefix]
    | cons c cs ih => simp [stripPrefix, ih]
  simp [lit, this]

theorem parseValue_num (n : Nat) (c : Char) (r : List Char) (hs : numStart c) :
    parseValue (n + 1) (c :: r) = parseNumber (c :: r) := by
  have f := numStart_facts c hs
  simp only [parseValue, skipWs_cons c r f.1, if_neg f.2.1, if_neg f.2.2.1, if_neg f.2.2.2.1,
    if_neg f.2.2.2.2.1, if_neg f.2.2.2.2.2.1, if_neg f.2.2.2.2.2.2.1]

theorem parseValue_arr (n : Nat) (c : Char) (r : List Char) (hv : valStart c) :
    parseValue (n + 1) ('[' :: c :: r) =
      match parseElems n (c :: r) with
      | some (xs, r'') => some (.arr xs, r'')
      | none => none := by
  have hw : isWs '[' = false := by decide
  simp only [parseValue, skipWs_cons '[' _ hw, skipWs_cons c r hv.1, if_neg hv.2.1,
    if_neg (by decide : ¬ '[' = 'n'), if_neg (by decide : ¬ '[' = 't'), if_neg (by decide : ¬ '[' = 'f'),
    if_neg (by decide : ¬ '[' = '"'), if_pos]
  rfl

theorem parseValue_obj (n : Nat) (r : List Char) :
    parseValue (n + 1) ('{' :: '"' :: r) =
      match parseMembers n ('"' :: r) with
      | some (kvs, r'') => some (.obj kvs, r'')
      | none => none := by
  have hw : isWs '{' = false := by decide
  have hq : isWs '"' = false := by decide
  simp only [parseValue, skipWs_cons '{' _ hw, skipWs_cons '"' r hq,
    if_neg (by decide : ¬ '{' = 'n'), if_neg (by decide : ¬ '{' = 't'), if_neg (by decide : ¬ '{' = 'f'),
    if_neg (by decide : ¬ '{' = '"'), if_neg (by decide : ¬ '{' = '['), if_neg (by decide : ¬ '"' = '}'), if_pos]
  rfl

theorem parseElems_last (n : Nat) (l rest : List Char) (x : Json)
    (h : parseValue n (l ++ ']' :: rest) = some (x, ']' :: rest)) :
    parseElems (n + 1) (l ++ ']' :: rest) = some ([x], rest) := by
  simp [parseElems, h, skipWs, isWs]

theorem parseElems_more (st : Style) (n : Nat) (l tail rest : List Char) (x : Json) (ys : List Json)
    (h : parseValue n (l ++ ',' :: (sep st ++ tail)) = some (x, ',' :: (sep st ++ tail)))
    (h2 : parseElems n tail = some (ys, rest)) :
    parseElems (n + 1) (l ++ ',' :: (sep st ++ tail)) = some (x :: ys, rest) := by
  simp [parseElems, h, skipWs, isWs, parseElems_sep, h2]

theorem parseMembers_last (st : Style) (n : Nat) (k l rest : List Char) (v : Json)
    (h : parseValue n (l ++ '}' :: rest) = some (v, '}' :: rest)) :
    parseMembers (n + 1) (encStr st.ascii k ++ ':' :: (sep st ++ (l ++ '}' :: rest))) = some ([(k, v)], rest) := by
  simp [parseMembers, encStr, skipWs, isWs, parseStrBody_esc, parseValue_sep, h]

theorem parseMembers_more (st : Style) (n : Nat) (k l tail rest : List Char) (v : Json)
    (kvs : List (List Char × Json))
    (h : parseValue n (l ++ ',' :: (sep st ++ tail)) = some (v, ',' :: (sep st ++ tail)))
    (h2 : parseMembers n tail = some (kvs, rest)) :
    parseMembers (n + 1) (encStr st.ascii k ++ ':' :: (sep st ++ (l ++ ',' :: (sep st ++ tail)))) =
      some ((k, v) :: kvs, rest) := by
  simp [parseMembers, encStr, skipWs, isWs, parseStrBody_esc, parseValue_sep, h, parseMembers_sep, h2]

theorem restOk_comma (r : List Char) : RestOk (',' :: r) := restOk_cons _ _ (by decide)
theorem restOk_rbrack (r : List Char) : RestOk (']' :: r) := restOk_cons _ _ (by decide)
theorem restOk_rbrace (r : List Char) : RestOk ('}' :: r) := restOk_cons _ _ (by decide)

theorem encList_head (st : Style) (x : Json) (xs : List Json) (tail : List Char) (h : wf x = true) :
    ∃ c r, encList st (x :: xs) ++ tail = c :: r ∧ valStart c := by
  obtain ⟨c, r, hc, hv⟩ := enc_head st x h
  cases xs with
  | nil => exact ⟨c, r ++ tail, by simp [encList, hc], hv⟩
  | cons y ys => exact ⟨c, _, by simp only [encList, hc, List.cons_append]; rfl, hv⟩

theorem encKvs_head (st : Style) (kv : List Char × Json) (kvs : List (List Char × Json)) (tail : List Char) :
    ∃ r, encKvs st (kv :: kvs) ++ tail = '"' :: r := by
  obtain ⟨k, v⟩ := kv
  cases kvs with
  | nil => exact ⟨_, by simp only [encKvs, encStr, List.cons_append]; rfl⟩
  | cons y ys => obtain ⟨k2, v2⟩ := y; exact ⟨_, by simp only [encKvs, encStr, List.cons_append]; rfl⟩

mutual
theorem parseValue_enc (st : Style) : ∀ v : Json, wf v = true → ∀ (n : Nat) (rest : List Char),
    size v ≤ n → RestOk rest → parseValue n (enc st v ++ rest) = some (v, rest)
  | .null, _, n, rest, hn, _ => by
      obtain ⟨m, rfl⟩ : ∃ m, n = m + 1 := ⟨n - 1, by simp [size] at hn; omega⟩
      simpa [enc, parseValue, skipWs, isWs] using lit_ok ['u', 'l', 'l'] .null rest
  | .bool true, _, n, rest, hn, _ => by
      obtain ⟨m, rfl⟩ : ∃ m, n = m + 1 := ⟨n - 1, by simp [size] at hn; omega⟩
      simpa [enc, parseValue, skipWs, isWs] using lit_ok ['r', 'u', 'e'] (.bool true) rest
  | .bool false, _, n, rest, hn, _ => by
      obtain ⟨m, rfl⟩ : ∃ m, n = m + 1 := ⟨n - 1, by simp [size] at hn; omega⟩
      simpa [enc, parseValue, skipWs, isWs] using lit_ok ['a', 'l', 's', 'e'] (.bool false) rest
  | .int i, _, n, rest, hn, hr => by
      obtain ⟨m, rfl⟩ : ∃ m, n = m + 1 := ⟨n - 1, by simp [size] at hn; omega⟩
      obtain ⟨c, r, hc, hs⟩ := numGrammar_head _ (intTok_props i).1
      have := parseNumber_int i rest hr
      simp only [enc]
      rw [hc] at this ⊢
      rw [List.cons_append, parseValue_num m c _ hs, ← List.cons_append]
      exact this
  | .flt tok, h, n, rest, hn, hr => by
      obtain ⟨m, rfl⟩ : ∃ m, n = m + 1 := ⟨n - 1, by simp [size] at hn; omega⟩
      simp only [wf] at h
      have h' := h
      simp only [fltTokOk, Bool.and_eq_true] at h'
      obtain ⟨c, r, hc, hs⟩ := numGrammar_head _ h'.1.2
      have := parseNumber_flt tok rest h hr
      simp only [enc]
      subst hc
      rw [List.cons_append, parseValue_num m c _ hs, ← List.cons_append]
      exact this
  | .str s, _, n, rest, hn, _ => by
      obtain ⟨m, rfl⟩ : ∃ m, n = m + 1 := ⟨n - 1, by simp [size] at hn; omega⟩
      simp [enc, encStr, parseValue, skipWs, isWs, parseStrBody_esc]
  | .arr [], _, n, rest, hn, _ => by
      obtain ⟨m, rfl⟩ : ∃ m, n = m + 1 := ⟨n - 1, by simp [size] at hn; omega⟩
      simp [enc, encList, parseValue, skipWs, isWs]
  | .arr (x :: xs), h, n, rest, hn, _ => by
      obtain ⟨m, rfl⟩ : ∃ m, n = m + 1 := ⟨n - 1, by simp [size] at hn; omega⟩
      simp only [wf] at h
      have hx : wf x = true := by rw [wfList, Bool.and_eq_true] at h; exact h.1
      obtain ⟨c, r, hc, hv⟩ := encList_head st x xs (']' :: rest) hx
      have ih := parseElems_enc st (x :: xs) (by simp) h m rest (by simp only [size] at hn; omega)
      simp only [enc, List.cons_append, List.append_assoc, List.nil_append]
      rw [hc] at ih ⊢
      rw [parseValue_arr m c r hv, ih]
  | .obj [], _, n, rest, hn, _ => by
      obtain ⟨m, rfl⟩ : ∃ m, n = m + 1 := ⟨n - 1, by simp [size] at hn; omega⟩
      simp [enc, encKvs, parseValue, skipWs, isWs]
  | .obj (kv :: kvs), h, n, rest, hn, _ => by
      obtain ⟨m, rfl⟩ : ∃ m, n = m + 1 := ⟨n - 1, by simp [size] at hn; omega⟩
      simp only [wf] at h
      obtain ⟨r, hc⟩ := encKvs_head st kv kvs ('}' :: rest)
      have ih := parseMembers_enc st (kv :: kvs) (by simp) h m rest (by simp only [size] at hn; omega)
      simp only [enc, List.cons_append, List.append_assoc, List.nil_append]
      rw [hc] at ih ⊢
      rw [parseValue_obj m r, ih]
theorem parseElems_enc (st : Style) : ∀ xs : List Json, xs ≠ [] → wfList xs = true →
    ∀ (n : Nat) (rest : List Char), sizeL xs ≤ n →
    parseElems n (encList st xs ++ ']' :: rest) = some (xs, rest)
  | [], hne, _, _, _, _ => absurd rfl hne
  | [x], _, h, n, rest, hn => by
      obtain ⟨m, rfl⟩ : ∃ m, n = m + 1 := ⟨n - 1, by simp [sizeL] at hn; omega⟩
      simp only [wfList, Bool.and_eq_true] at h
      simp only [encList]
      exact parseElems_last m _ rest x
        (parseValue_enc st x h.1 m _ (by simp [sizeL] at hn; omega) (restOk_rbrack rest))
  | x :: y :: ys, _, h, n, rest, hn => by
      obtain ⟨m, rfl⟩ : ∃ m, n = m + 1 := ⟨n - 1, by simp [sizeL] at hn; omega⟩
      rw [wfList, Bool.and_eq_true] at h
      rw [sizeL] at hn
      simp only [encList, List.append_assoc, List.cons_append]
      exact parseElems_more st m _ _ rest x (y :: ys)
        (parseValue_enc st x h.1 m _ (by omega) (restOk_comma _))
        (parseElems_enc st (y :: ys) (by simp) h.2 m rest (by omega))
theorem parseMembers_enc (st : Style) : ∀ kvs : List (List Char × Json), kvs ≠ [] → wfKvs kvs = true →
    ∀ (n : Nat) (rest : List Char), sizeK kvs ≤ n →
    parseMembers n (encKvs st kvs ++ '}' :: rest) = some (kvs, rest)
  | [], hne, _, _, _, _ => absurd rfl hne
  | [(k, v)], _, h, n, rest, hn => by
      obtain ⟨m, rfl⟩ : ∃ m, n = m + 1 := ⟨n - 1, by simp [sizeK] at hn; omega⟩
      simp only [wfKvs, Bool.and_eq_true] at h
      simp only [encKvs, List.append_assoc, List.cons_append]
      exact parseMembers_last st m k _ rest v
        (parseValue_enc st v h.1 m _ (by simp [sizeK] at hn; omega) (restOk_rbrace rest))
  | (k, v) :: kv :: kvs, _, h, n, rest, hn => by
      obtain ⟨m, rfl⟩ : ∃ m, n = m + 1 := ⟨n - 1, by simp [sizeK] at hn; omega⟩
      rw [wfKvs, Bool.and_eq_true] at h
      rw [sizeK] at hn
      simp only [encKvs, List.append_assoc, List.cons_append]
      exact parseMembers_more st m k _ _ rest v (kv :: kvs)
        (parseValue_enc st v h.1 m _ (by omega) (restOk_comma _))
        (parseMembers_enc st (kv :: kvs) (by simp) h.2 m rest (by omega))
end

theorem enc_length_pos (st : Style) (v : Json) (h : wf v = true) : 1 ≤ (enc st v).length := by
  obtain ⟨c, r, hc, _⟩ := enc_head st v h
  simp [hc]

mutual
theorem size_le (st : Style) : ∀ v : Json, wf v = true → size v ≤ (enc st v).length
  | .null, _ => by simp [size, enc]
  | .bool true, _ => by simp [size, enc]
  | .bool false, _ => by simp [size, enc]
  | .int i, h => by simpa [size] using enc_length_pos st (.int i) h
  | .flt tok, h => by simpa [size] using enc_length_pos st (.flt tok) h
  | .str s, _ => by simp [size, enc, encStr]
  | .arr xs, h => by
      simp only [wf] at h
      have := sizeL_le st xs h
      simp only [size, enc, List.length_cons, List.length_append, List.length_nil]
      omega
  | .obj kvs, h => by
      simp only [wf] at h
      have := sizeK_le st kvs h
      simp only [size, enc, List.length_cons, List.length_append, List.length_nil]
      omega
theorem sizeL_le (st : Style) : ∀ xs : List Json, wfList xs = true → sizeL xs ≤ (encList st xs).length + 1
  | [], _ => by simp [sizeL]
  | [x], h => by
      simp only [wfList, Bool.and_eq_true] at h
      have := size_le st x h.1
      simp only [sizeL, encList]
      omega
  | x :: y :: xs, h => by
      rw [wfList, Bool.and_eq_true] at h
      have h1 := size_le st x h.1
      have h2 := sizeL_le st (y :: xs) h.2
      rw [sizeL]
      simp only [encList, List.length_cons, List.length_append]
      omega
theorem sizeK_le (st : Style) : ∀ kvs : List (List Char × Json), wfKvs kvs = true →
    sizeK kvs ≤ (encKvs st kvs).length + 1
  | [], _ => by simp [sizeK]
  | [(k, v)], h => by
      simp only [wfKvs, Bool.and_eq_true] at h
      have := size_le st v h.1
      simp only [sizeK, encKvs, List.length_cons, List.length_append]
      omega
  | (k, v) :: kv :: kvs, h => by
      rw [wfKvs, Bool.and_eq_true] at h
      have h1 := size_le st v h.1
      have h2 := sizeK_le st (kv :: kvs) h.2
      rw [sizeK]
      simp only [encKvs, List.length_cons, List.length_append]
      omega
end

/-- the decoder inverts both encoders on every well-formed value -/
theorem dec_enc (st : Style) (v : Json) (h : wf v = true) : dec (enc st v) = some v := by
  have hs := size_le st v h
  have := parseValue_enc st v h ((enc st v).length + 1) [] (by omega) restOk_nil
  simp only [List.append_nil] at this
  simp [dec, this, skipWs]

end Verif.Model.Json
