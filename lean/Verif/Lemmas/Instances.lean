import Verif.Model.Carrier

/-! # Several instances of one machine alive at once are independent -/
set_option linter.unusedSimpArgs false
namespace Verif.Lemmas.Instances
open Verif.Model.Carrier
variable {S E O : Type}

theorem forInst_append {α : Type} (i : Nat) (a b : List (Nat × α)) : forInst i (a ++ b) = forInst i a ++ forInst i b := by
  simp [forInst, List.filter_append]

theorem forInst_tag_self {α : Type} (i : Nat) (l : List α) : forInst i (l.map (fun o => (i, o))) = l := by
  induction l with
  | nil => rfl
  | cons x xs ih => simp [forInst, List.filter_cons] at ih ⊢; exact ih

theorem forInst_tag_other {α : Type} (i j : Nat) (h : j ≠ i) (l : List α) : forInst i (l.map (fun o => (j, o))) = [] := by
  induction l with
  | nil => rfl
  | cons x xs ih => simp [forInst, List.filter_cons, h] at ih ⊢

/-- **Instances are independent**: whatever the interleaving of the inputs of any number of
instances, instance `i` ends in the state and has produced the outputs it would have alone on its
own inputs. -/
theorem instances_independent (step : Machine S E O) (sts : Nat → S) (evs : List (Nat × E)) (i : Nat) :
    (runTagged step sts evs).1 i = (runM step (sts i) (forInst i evs)).1
    ∧ forInst i (runTagged step sts evs).2 = (runM step (sts i) (forInst i evs)).2 := by
  induction evs generalizing sts with
  | nil => simp [runTagged, runM, forInst]
  | cons p es ih =>
    obtain ⟨j, e⟩ := p
    by_cases h : j = i
    · subst h
      have := ih (fun k => if k = j then (step (sts j) e).1 else sts k)
      simp only [if_true] at this
      simp only [runTagged, forInst_append, forInst_tag_self]
      have hf : forInst j ((j, e) :: es) = e :: forInst j es := by simp [forInst, List.filter_cons]
      rw [hf]
      simp only [runM]
      exact ⟨this.1, by rw [this.2]⟩
    · have := ih (fun k => if k = j then (step (sts j) e).1 else sts k)
      have hi : (if i = j then (step (sts j) e).1 else sts i) = sts i := by simp [Ne.symm h]
      simp only [hi] at this
      have hf : forInst i ((j, e) :: es) = forInst i es := by simp [forInst, List.filter_cons, h]
      simp only [runTagged, forInst_append, forInst_tag_other i j h, List.nil_append, hf]
      exact this

theorem runM_stdio {μ : Type} (cfg : Verif.Model.StdioIn.Cfg μ) (st : Verif.Model.StdioIn.St) (evs : List Verif.Model.StdioIn.Ev) :
    runM (Verif.Model.StdioIn.step cfg) st evs = Verif.Model.StdioIn.run cfg st evs := by
  induction evs generalizing st with
  | nil => rfl
  | cons e es ih => simp [runM, Verif.Model.StdioIn.run, ih]

end Verif.Lemmas.Instances
