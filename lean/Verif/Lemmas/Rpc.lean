import Verif.Model.Rpc
import Verif.Lemmas.Json

/-! # Lemmas about the JSON-RPC envelope model -/
set_option linter.unusedSimpArgs false
set_option linter.unusedVariables false
namespace Verif.Model.Rpc
open Verif.Model.Json

/-- what every emitted message satisfies: a response has a non-null result, an error object
has an integer code and a string message -/
def Ok : Msg → Prop
  | .response _ r => r ≠ .null
  | .error _ e => validErr (.obj e) = true
  | _ => True

theorem validErr_errObj (code : Int) (message : Str) (data : Json) :
    validErr (.obj (errObj code message data)) = true := by
  simp [validErr, errObj, getKey, kCode, kMessage]

theorem result_default_ne_null (result : Json) :
    (match result with | .null => Json.obj [] | r => r) ≠ .null := by
  cases result <;> simp

theorem built_ok {m : Msg} (h : Built m) : Ok m := by
  cases h with
  | createRequest h =>
    rename_i method params id fresh tok
    unfold createRequest at h
    cases tok with
    | none => simp at h; subst h; trivial
    | some t =>
      simp only at h
      split at h
      · simp at h; subst h; trivial
      · simp at h
  | createNotification => trivial
  | createResponse h =>
    rename_i id result
    unfold createResponse at h
    cases id with
    | none => simp at h
    | some i => simp at h; subst h; exact result_default_ne_null result
  | createErrorResponse h =>
    rename_i id code message data
    unfold createErrorResponse at h
    cases id with
    | none => simp at h
    | some i => simp at h; subst h; exact validErr_errObj code message data
  | legacyCreateRequest => trivial
  | legacyCreateNotification => trivial
  | legacyCreateResponse id result => simp [legacyCreateResponse, Ok]
  | legacyCreateErrorResponse id code message data => exact validErr_errObj code message data
  | serverResponse h =>
    rename_i id result
    unfold serverResponse createResponse at h
    cases id with
    | none => simp at h
    | some i => simp at h; subst h; exact result_default_ne_null result
  | serverErrorResponse h =>
    rename_i id code message
    unfold serverErrorResponse createErrorResponse at h
    cases id with
    | none => simp at h
    | some i => simp at h; subst h; exact validErr_errObj code message .null
  | sendMessageRequest h =>
    rename_i method params mid f1 f2 progress
    unfold sendMessageRequest at h
    cases progress with
    | false => simp at h; subst h; trivial
    | true =>
      simp only [if_true] at h
      split at h
      · simp at h; subst h; trivial
      · simp at h
  | sendNotification => trivial
  | dictError id code message data => exact validErr_errObj code message data
  | dictEmptyResult id => simp [dictEmptyResult, Ok]

theorem member_ne_null (k : Str) (r : Json) (h : r ≠ .null) : member k r = [(k, r)] := by
  cases r <;> simp_all [member]

theorem isIdJson_toJson (id : Id) : isIdJson id.toJson = true := by
  cases id <;> rfl

theorem emit_valid_of_ok (m : Msg) (h : Ok m) : valid (emit m) = true := by
  cases m with
  | request id method params =>
    cases params <;> simp [emit, valid, getKey, optParams, kJsonrpc, kId, kMethod, kParams, kResult, kError, v20, isIdJson_toJson]
  | notification method params =>
    cases params <;> simp [emit, valid, getKey, optParams, kJsonrpc, kId, kMethod, kParams, kResult, kError, v20]
  | response id r =>
    simp only [Ok] at h
    simp [emit, member_ne_null _ r h, valid, getKey, kJsonrpc, kId, kMethod, kParams, kResult, kError, v20, isIdJson_toJson]
  | error id e =>
    simp only [Ok] at h
    cases id with
    | some i => simp [emit, valid, getKey, kJsonrpc, kId, kMethod, kParams, kResult, kError, v20, isIdJson_toJson, h]
    | none => simp [emit, valid, getKey, kJsonrpc, kId, kMethod, kParams, kResult, kError, v20, isNullJson, isIdJson, h]

theorem optId_toJson (id : Id) : optId (some id.toJson) = some (some id) := by cases id <;> rfl
theorem reqId_toJson (id : Id) : reqId (some id.toJson) = some id := by cases id <;> rfl

theorem validErr_keys (e : Obj) (h : validErr (.obj e) = true) :
    (getKey kCode e).isSome = true ∧ (getKey kMessage e).isSome = true := by
  simp only [validErr, Bool.and_eq_true] at h
  constructor
  · cases hc : getKey kCode e with
    | none => simp [hc] at h
    | some _ => rfl
  · cases hc : getKey kMessage e with
    | none => simp [hc] at h
    | some _ => rfl

theorem parse_emit_of_ok (m : Msg) (h : Ok m) : parseMsg (emit m) = .ok (view m) := by
  cases m with
  | request id method params =>
    cases params <;>
      simp [emit, parseMsg, legacyValidate, view, getKey, optParams, optId_toJson, optStr, optObj,
        kJsonrpc, kId, kMethod, kParams, kResult, kError, v20]
  | notification method params =>
    cases params <;>
      simp [emit, parseMsg, legacyValidate, view, getKey, optParams, optId, optStr, optObj,
        kJsonrpc, kId, kMethod, kParams, kResult, kError, v20]
  | response id r =>
    simp only [Ok] at h
    cases r with
    | null => exact absurd rfl h
    | obj o =>
      simp [emit, member, parseMsg, legacyValidate, view, getKey, optId_toJson, optStr, optObj,
        kJsonrpc, kId, kMethod, kParams, kResult, kError, v20]
    | bool b =>
      simp [emit, member, parseMsg, legacyValidate, view, getKey, optId_toJson, reqId_toJson, optStr, optObj, nonNull,
        kJsonrpc, kId, kMethod, kParams, kResult, kError, v20]
    | int i =>
      simp [emit, member, parseMsg, legacyValidate, view, getKey, optId_toJson, reqId_toJson, optStr, optObj, nonNull,
        kJsonrpc, kId, kMethod, kParams, kResult, kError, v20]
    | flt t =>
      simp [emit, member, parseMsg, legacyValidate, view, getKey, optId_toJson, reqId_toJson, optStr, optObj, nonNull,
        kJsonrpc, kId, kMethod, kParams, kResult, kError, v20]
    | str s =>
      simp [emit, member, parseMsg, legacyValidate, view, getKey, optId_toJson, reqId_toJson, optStr, optObj, nonNull,
        kJsonrpc, kId, kMethod, kParams, kResult, kError, v20]
    | arr xs =>
      simp [emit, member, parseMsg, legacyValidate, view, getKey, optId_toJson, reqId_toJson, optStr, optObj, nonNull,
        kJsonrpc, kId, kMethod, kParams, kResult, kError, v20]
  | error id e =>
    simp only [Ok] at h
    have hk := validErr_keys e h
    cases id with
    | some i =>
      simp [emit, parseMsg, legacyValidate, view, getKey, optId_toJson, optStr, optObj, hk.1, hk.2,
        kJsonrpc, kId, kMethod, kParams, kResult, kError, v20]
    | none =>
      simp [emit, parseMsg, legacyValidate, view, getKey, optId, optStr, optObj, hk.1, hk.2,
        kJsonrpc, kId, kMethod, kParams, kResult, kError, v20]

theorem kind_view_of_ok (m : Msg) (h : Ok m) : kindOfView (view m) = kind m := by
  cases m with
  | request id method params => simp [view, kindOfView, kind]
  | notification method params => simp [view, kindOfView, kind]
  | response id r =>
    simp only [Ok] at h
    cases r <;> simp_all [view, kindOfView, kind]
  | error id e => simp [view, kindOfView, kind]


/-! ## payload members and the wire -/

def memberOf (k : Str) : Json → Option Json
  | .obj o => getKey k o
  | _ => none

theorem members_of_ok (m : Msg) (h : Ok m) :
    memberOf kParams (emit m) = (view m).params ∧ memberOf kResult (emit m) = (view m).result ∧
    memberOf kError (emit m) = (view m).error := by
  cases m with
  | request id method params =>
    cases params <;> simp [emit, memberOf, view, getKey, optParams, kJsonrpc, kId, kMethod, kParams, kResult, kError]
  | notification method params =>
    cases params <;> simp [emit, memberOf, view, getKey, optParams, kJsonrpc, kId, kMethod, kParams, kResult, kError]
  | response id r =>
    simp only [Ok] at h
    cases r <;> simp_all [emit, member, memberOf, view, getKey, kJsonrpc, kId, kMethod, kParams, kResult, kError]
  | error id e =>
    cases id <;> simp [emit, memberOf, view, getKey, kJsonrpc, kId, kMethod, kParams, kResult, kError]

theorem wf_toJson (id : Id) : wf id.toJson = true := by cases id <;> rfl

theorem wf_emit (m : Msg) (h : wfMsg m = true) : wf (emit m) = true := by
  cases m with
  | request id method params =>
    cases params with
    | none => simp [emit, optParams, wf, wfKvs, wf_toJson]
    | some p => simp only [wfMsg, wfObj] at h; simp [emit, optParams, wf, wfKvs, wf_toJson] at h ⊢; exact h
  | notification method params =>
    cases params with
    | none => simp [emit, optParams, wf, wfKvs]
    | some p => simp only [wfMsg, wfObj] at h; simp [emit, optParams, wf, wfKvs] at h ⊢; exact h
  | response id r =>
    simp only [wfMsg] at h
    cases r <;> simp_all [emit, member, wf, wfKvs, wf_toJson]
  | error id e =>
    simp only [wfMsg, wfObj] at h
    cases id <;> simp [emit, wf, wfKvs, wf_toJson] at h ⊢ <;> exact h

end Verif.Model.Rpc
