import Verif.Model.HttpHeaders
/-! Lemmas about the header dictionaries. -/
namespace Verif.Model.HttpHeaders

theorem dictGet_dictSet_eq (h : Hdrs) (k v : Str) : dictGet (dictSet h k v) k = some v := by
  induction h with
  | nil => simp [dictSet, dictGet]
  | cons p ps ih =>
    obtain ⟨k', v'⟩ := p
    by_cases hk : k' = k <;> simp [dictSet, dictGet, hk, ih]

theorem dictGet_dictSet_ne (h : Hdrs) (k k2 v : Str) (hne : k ≠ k2) :
    dictGet (dictSet h k v) k2 = dictGet h k2 := by
  induction h with
  | nil => simp [dictSet, dictGet, hne]
  | cons p ps ih =>
    obtain ⟨k', v'⟩ := p
    by_cases hk : k' = k
    · subst hk; simp [dictSet, dictGet, hne]
    · by_cases hk2 : k' = k2
      · subst hk2; simp [dictSet, dictGet, hk]
      · simp [dictSet, dictGet, hk, hk2, ih]

theorem dictGet_dictSet (h : Hdrs) (k k2 v : Str) :
    dictGet (dictSet h k v) k2 = if k = k2 then some v else dictGet h k2 := by
  by_cases hk : k = k2
  · subst hk; simp [dictGet_dictSet_eq]
  · simp [hk, dictGet_dictSet_ne h k k2 v hk]

theorem dictGet_append (a b : Hdrs) (k : Str) :
    dictGet (a ++ b) k = (dictGet a k).or (dictGet b k) := by
  induction a with
  | nil => simp [dictGet]
  | cons p ps ih =>
    obtain ⟨k', v'⟩ := p
    by_cases hk : k' = k <;> simp [dictGet, hk, ih]

/-- a key that is not there is appended -/
theorem dictSet_append (h : Hdrs) (k v : Str) (hk : dictGet h k = none) : dictSet h k v = h ++ [(k, v)] := by
  induction h with
  | nil => simp [dictSet]
  | cons p ps ih =>
    obtain ⟨k', v'⟩ := p
    by_cases hk' : k' = k
    · simp [dictGet, hk'] at hk
    · simp [dictGet, hk'] at hk
      simp [dictSet, hk', ih hk]

theorem dictGet_none_of_noCI (h : Hdrs) (k : Str) (hci : hasCI h (lower k) = false) : dictGet h k = none := by
  induction h with
  | nil => simp [dictGet]
  | cons p ps ih =>
    obtain ⟨k', v'⟩ := p
    simp only [hasCI, List.any_cons, Bool.or_eq_false_iff] at hci
    have hne : k' ≠ k := by
      intro e; subst e; simp at hci
    simp only [dictGet, hne, if_false]
    exact ih (by simpa [hasCI] using hci.2)

/-- the copy loop, key by key -/
theorem dictGet_copyCfg (base cfg : Hdrs) (k : Str) :
    dictGet (copyCfg base cfg) k =
      if k = kContentType ∨ k = kAccept then dictGet base k
      else (dictGetLast cfg k).or (dictGet base k) := by
  unfold copyCfg dictGetLast
  induction cfg generalizing base with
  | nil => simp [dictGet]
  | cons p ps ih =>
    obtain ⟨k', v'⟩ := p
    simp only [List.foldl_cons, List.reverse_cons, dictGet_append]
    rw [ih]
    by_cases hprot : k = kContentType ∨ k = kAccept
    · simp only [hprot, if_true]
      by_cases hp : k' = kContentType ∨ k' = kAccept
      · simp [hp]
      · simp only [hp, if_false]
        have : k' ≠ k := by
          intro e; subst e; exact hp hprot
        exact dictGet_dictSet_ne base k' k v' this
    · simp only [hprot, if_false]
      by_cases hp : k' = kContentType ∨ k' = kAccept
      · have : k' ≠ k := by
          intro e; subst e; exact hprot hp
        simp [hp, dictGet, this]
      · simp only [hp, if_false, dictGet_dictSet]
        by_cases hk : k' = k
        · subst hk; simp [dictGet]
        · simp [hk, dictGet]

theorem wireValues_append (a b : Hdrs) (n : Str) : wireValues (a ++ b) n = wireValues a n ++ wireValues b n := by
  simp [wireValues]

theorem wireValues_nil_of_noCI (h : Hdrs) (n : Str) (hci : hasCI h (lower n) = false) : wireValues h n = [] := by
  induction h with
  | nil => rfl
  | cons p ps ih =>
    simp only [hasCI, List.any_cons, Bool.or_eq_false_iff] at hci
    simp only [wireValues, List.filter_cons, hci.1]
    simpa [wireValues] using ih (by simpa [hasCI] using hci.2)

/-- entries of `dictSet h k v` are entries of `h` or the new binding -/
theorem hasCI_dictSet (h : Hdrs) (k v n : Str) (hci : hasCI h n = false) (hk : lower k ≠ n) :
    hasCI (dictSet h k v) n = false := by
  induction h with
  | nil => simp [dictSet, hasCI, hk]
  | cons p ps ih =>
    obtain ⟨k', v'⟩ := p
    simp only [hasCI, List.any_cons, Bool.or_eq_false_iff] at hci
    by_cases hk' : k' = k
    · subst hk'; simp [dictSet, hasCI] at *; exact ⟨hk, hci.2⟩
    · have := ih (by simpa [hasCI] using hci.2)
      simp only [dictSet, hk', if_false, hasCI, List.any_cons, Bool.or_eq_false_iff]
      exact ⟨hci.1, by simpa [hasCI] using this⟩

theorem hasCI_copyCfg (base cfg : Hdrs) (n : Str) (hb : hasCI base n = false) (hc : hasCI cfg n = false) :
    hasCI (copyCfg base cfg) n = false := by
  unfold copyCfg
  induction cfg generalizing base with
  | nil => simpa using hb
  | cons p ps ih =>
    obtain ⟨k', v'⟩ := p
    simp only [hasCI, List.any_cons, Bool.or_eq_false_iff] at hc
    simp only [List.foldl_cons]
    apply ih
    · split
      · exact hb
      · exact hasCI_dictSet base k' v' n hb (by simpa using hc.1)
    · simpa [hasCI] using hc.2

/-! ### key facts (closed terms) -/

theorem ne_auth_ct : kAuthorization ≠ kContentType := by decide
theorem ne_auth_acc : kAuthorization ≠ kAccept := by decide
theorem ne_sess_ct : kSession ≠ kContentType := by decide
theorem ne_sess_acc : kSession ≠ kAccept := by decide
theorem ne_auth_sess : kAuthorization ≠ kSession := by decide
theorem ne_acc_ct : kAccept ≠ kContentType := by decide
theorem ne_auth_ua : kAuthorization ≠ kUserAgent := by decide
theorem lower_session : lower kSession = ciSession := by decide
theorem lower_auth : lower kAuthorization = ciAuthorization := by decide
theorem lower_ua : lower kUserAgent = ciUserAgent := by decide

theorem base_get (k : Str) : dictGet baseHeaders k =
    if kContentType = k then some vJson else if kAccept = k then some vAccept else none := by
  simp only [baseHeaders, dictGet]

theorem copy_get_ct (cfg : Hdrs) : dictGet (copyCfg baseHeaders cfg) kContentType = some vJson := by
  rw [dictGet_copyCfg, base_get]; simp

theorem copy_get_acc (cfg : Hdrs) : dictGet (copyCfg baseHeaders cfg) kAccept = some vAccept := by
  rw [dictGet_copyCfg, base_get]; simp [Ne.symm ne_acc_ct]

theorem copy_get_other (cfg : Hdrs) (k : Str) (h1 : k ≠ kContentType) (h2 : k ≠ kAccept) :
    dictGet (copyCfg baseHeaders cfg) k = dictGetLast cfg k := by
  rw [dictGet_copyCfg, base_get]
  simp [h1, h2, Ne.symm h1, Ne.symm h2]

/-- the three stages of `postHeaders`, named -/
def stageAuth (h1 : Hdrs) (env : Option Str) : Hdrs :=
  if dictHas h1 kAuthorization then h1 else
    match truthy env with
    | some e => dictSet h1 kAuthorization (bearerFmt e)
    | none => h1

def stageSession (h2 : Hdrs) (session : Option Str) : Hdrs :=
  match truthy session with
  | some s => dictSet h2 kSession s
  | none => h2

theorem postHeaders_stages (cfg : Hdrs) (env session : Option Str) :
    postHeaders cfg env session = stageSession (stageAuth (copyCfg baseHeaders cfg) env) session := rfl

theorem stageAuth_get (h : Hdrs) (env : Option Str) (k : Str) (hk : k ≠ kAuthorization) :
    dictGet (stageAuth h env) k = dictGet h k := by
  unfold stageAuth
  split
  · rfl
  · cases truthy env with
    | none => rfl
    | some e => exact dictGet_dictSet_ne h _ _ _ (Ne.symm hk)

theorem stageSession_get (h : Hdrs) (session : Option Str) (k : Str) (hk : k ≠ kSession) :
    dictGet (stageSession h session) k = dictGet h k := by
  unfold stageSession
  cases truthy session with
  | none => rfl
  | some e => exact dictGet_dictSet_ne h _ _ _ (Ne.symm hk)

theorem post_protocol_headers (cfg : Hdrs) (env session : Option Str) :
    dictGet (postHeaders cfg env session) kContentType = some vJson ∧
    dictGet (postHeaders cfg env session) kAccept = some vAccept := by
  rw [postHeaders_stages]
  constructor
  · rw [stageSession_get _ _ _ (Ne.symm ne_sess_ct), stageAuth_get _ _ _ (Ne.symm ne_auth_ct), copy_get_ct]
  · rw [stageSession_get _ _ _ (Ne.symm ne_sess_acc), stageAuth_get _ _ _ (Ne.symm ne_auth_acc), copy_get_acc]

theorem post_custom (cfg : Hdrs) (env session : Option Str) (k : Str)
    (h1 : k ≠ kContentType) (h2 : k ≠ kAccept) (h3 : k ≠ kAuthorization) (h4 : k ≠ kSession) :
    dictGet (postHeaders cfg env session) k = dictGetLast cfg k := by
  rw [postHeaders_stages, stageSession_get _ _ _ h4, stageAuth_get _ _ _ h3, copy_get_other _ _ h1 h2]

theorem post_session_get (cfg : Hdrs) (env session : Option Str) :
    dictGet (postHeaders cfg env session) kSession = (truthy session).or (dictGetLast cfg kSession) := by
  rw [postHeaders_stages]
  unfold stageSession
  cases truthy session with
  | some v => simp [dictGet_dictSet_eq]
  | none =>
    simp only [Option.none_or]
    rw [stageAuth_get _ _ _ (Ne.symm ne_auth_sess), copy_get_other _ _ ne_sess_ct ne_sess_acc]

theorem post_authorization (cfg : Hdrs) (env session : Option Str) :
    dictGet (postHeaders cfg env session) kAuthorization =
      (dictGetLast cfg kAuthorization).or ((truthy env).map bearerFmt) := by
  rw [postHeaders_stages, stageSession_get _ _ _ ne_auth_sess]
  have hc := copy_get_other cfg kAuthorization ne_auth_ct ne_auth_acc
  unfold stageAuth
  split
  · rename_i hh
    simp only [dictHas, hc] at hh
    rw [hc]
    cases hg : dictGetLast cfg kAuthorization with
    | none => simp [hg] at hh
    | some v => simp
  · rename_i hh
    simp only [dictHas, hc, Bool.not_eq_true, Option.isSome_eq_false_iff, Option.isNone_iff_eq_none] at hh
    cases truthy env with
    | none => simp [hc, hh]
    | some e => simp [dictGet_dictSet_eq, hh]

theorem hasCI_stageAuth (h : Hdrs) (env : Option Str) (n : Str) (hh : hasCI h n = false)
    (hn : lower kAuthorization ≠ n) : hasCI (stageAuth h env) n = false := by
  unfold stageAuth
  split
  · exact hh
  · cases truthy env with
    | none => exact hh
    | some e => exact hasCI_dictSet h _ _ n hh hn

theorem post_session_wire (cfg : Hdrs) (env session : Option Str)
    (hci : hasCI cfg ciSession = false) :
    wireValues (postHeaders cfg env session) kSession = (truthy session).toList := by
  rw [postHeaders_stages]
  have h1 : hasCI (copyCfg baseHeaders cfg) (lower kSession) = false := by
    rw [lower_session]; exact hasCI_copyCfg _ _ _ (by decide) hci
  have h2 : hasCI (stageAuth (copyCfg baseHeaders cfg) env) (lower kSession) = false :=
    hasCI_stageAuth _ _ _ h1 (by rw [lower_auth, lower_session]; decide)
  generalize stageAuth (copyCfg baseHeaders cfg) env = h at h2
  unfold stageSession
  cases truthy session with
  | none => simpa using wireValues_nil_of_noCI h kSession h2
  | some v =>
    simp only [Option.toList_some]
    rw [dictSet_append h kSession v (dictGet_none_of_noCI h kSession h2), wireValues_append,
      wireValues_nil_of_noCI h kSession h2]
    simp [wireValues]

/-! ### parameters stage -/

def stageUA (c : Cfg) : Hdrs :=
  if hasCI c.headers ciUserAgent then c.headers else dictSet c.headers kUserAgent c.userAgent

theorem stageUA_append (c : Cfg) :
    stageUA c = c.headers ++ (if hasCI c.headers ciUserAgent then [] else [(kUserAgent, c.userAgent)]) := by
  unfold stageUA
  by_cases h : hasCI c.headers ciUserAgent = true
  · simp [h]
  · have h' : hasCI c.headers ciUserAgent = false := by simpa using h
    simp only [h', Bool.false_eq_true, if_false]
    exact dictSet_append _ _ _ (dictGet_none_of_noCI _ _ (by rw [lower_ua]; exact h'))

theorem setupAuth_stages (c : Cfg) : setupAuth c =
    match c.bearer with
    | some b => if b ≠ [] ∧ hasCI (stageUA c) ciAuthorization = false
                then dictSet (stageUA c) kAuthorization (bearerFmt b) else stageUA c
    | none => stageUA c := rfl

theorem setupAuth_append (c : Cfg) : ∃ extra, setupAuth c = c.headers ++ extra := by
  rw [setupAuth_stages]
  cases c.bearer with
  | none => exact ⟨_, stageUA_append c⟩
  | some b =>
    simp only []
    split
    · rename_i hc
      rw [dictSet_append _ _ _ (dictGet_none_of_noCI _ _ (by rw [lower_auth]; exact hc.2)), stageUA_append]
      exact ⟨_, List.append_assoc _ _ _⟩
    · exact ⟨_, stageUA_append c⟩

theorem hasCI_stageUA_auth (c : Cfg) (hci : hasCI c.headers ciAuthorization = false) :
    hasCI (stageUA c) ciAuthorization = false := by
  rw [stageUA_append]
  simp only [hasCI, List.any_append, Bool.or_eq_false_iff]
  refine ⟨by simpa [hasCI] using hci, ?_⟩
  by_cases h : (List.any c.headers fun p => lower p.fst == ciUserAgent) = true
  · simp only [h, if_true]; rfl
  · have hl : (lower kUserAgent == ciAuthorization) = false := by decide
    simp [h, hl]

theorem setupAuth_bearer (c : Cfg) : ∀ b, c.bearer = some b → b ≠ [] →
    hasCI c.headers ciAuthorization = false →
    dictGet (setupAuth c) kAuthorization = some (bearerFmt b) := by
  intro b hb hne hci
  rw [setupAuth_stages, hb]
  simp only [hne, ne_eq, not_false_eq_true, hasCI_stageUA_auth c hci, and_self, if_true]
  exact dictGet_dictSet_eq _ _ _

theorem setupAuth_userAgent (c : Cfg) (hci : hasCI c.headers ciUserAgent = false) :
    dictGet (setupAuth c) kUserAgent = some c.userAgent := by
  have hget : dictGet (stageUA c) kUserAgent = some c.userAgent := by
    rw [stageUA_append, dictGet_append, dictGet_none_of_noCI _ _ (by rw [lower_ua]; exact hci)]
    simp [hci, dictGet]
  rw [setupAuth_stages]
  cases c.bearer with
  | none => exact hget
  | some b =>
    simp only []
    split
    · rw [dictGet_dictSet_ne _ _ _ _ ne_auth_ua]; exact hget
    · exact hget

end Verif.Model.HttpHeaders
