import Verif.Model.Config

/-! Helper lemmas for C20 (configuration → launch). -/
namespace Verif.Lemmas.Config
open Verif.Model.Config

/-- the JSON spelling of an argument list / an environment mapping -/
def argsJ (a : List String) : J := .arr (a.map .str)
def envJ (e : Env) : J := .obj (e.map fun kv => (kv.1, J.str kv.2))

theorem strs_map (a : List String) : strs (a.map J.str) = some a := by
  induction a with
  | nil => rfl
  | cons x xs ih => simp [strs, ih]

theorem strList_argsJ (a : List String) : strList (argsJ a) = some a := by
  simp [strList, argsJ, strs_map]

theorem strPairs_map (e : Env) : strPairs (e.map fun kv => (kv.1, J.str kv.2)) = some e := by
  induction e with
  | nil => rfl
  | cons x xs ih => simp [strPairs, ih]

theorem optEnv_envJ (e : Env) : optEnv (envJ e) = some (some e) := by
  simp [optEnv, envJ, strPairs_map]

theorem get_some_ne_nil {kvs : List (String × J)} {k : String} {v : J} (h : jget kvs k = some v) :
    kvs ≠ [] := by
  intro hn; subst hn; simp [jget] at h

theorem get_none_of_all_ne (kvs : List (String × J)) (k : String) (h : ∀ p ∈ kvs, p.1 ≠ k) :
    jget kvs k = none := by
  induction kvs with
  | nil => rfl
  | cons x xs ih =>
    obtain ⟨k', v⟩ := x
    have h1 : k' ≠ k := h (k', v) (by simp)
    have h2 := ih (fun p hp => h p (by simp [hp]))
    simp [jget, h2, h1]

/-- adding a member under another name does not change what `get` finds -/
theorem get_cons_ne (kvs : List (String × J)) (k k' : String) (v : J) (h : k' ≠ k) :
    jget ((k', v) :: kvs) k = jget kvs k := by
  cases hg : jget kvs k <;> simp [jget, hg, h]

end Verif.Lemmas.Config
