import Verif.Model.Token
namespace Verif.Model.Token

theorem run_append (r : Nat → Bool) (t : Tok) (a b : List Op) :
    run r t (a ++ b) = ((run r (run r t a).1 b).1, (run r t a).2 ++ (run r (run r t a).1 b).2) := by
  induction a generalizing t with
  | nil => simp [run]
  | cons op a ih => simp [run, ih]

theorem step_cancelled (r : Nat → Bool) (t : Tok) (op : Op) :
    (step r t op).1.cancelled = (t.cancelled || decide (op = .cancel)) := by
  cases op <;> simp [step] <;> (try split) <;> simp

theorem run_cancelled (r : Nat → Bool) (t : Tok) (ops : List Op) :
    (run r t ops).1.cancelled = true ↔ (t.cancelled = true ∨ Op.cancel ∈ ops) := by
  induction ops generalizing t with
  | nil => simp [run]
  | cons op ops ih =>
    simp only [run, ih, step_cancelled, List.mem_cons]
    cases op <;> simp

def added : List Op → List Nat
  | [] => []
  | .add i :: rest => i :: added rest
  | _ :: rest => added rest

theorem step_cbs (r : Nat → Bool) (t : Tok) (op : Op) :
    (step r t op).1.cbs = t.cbs ++ added [op] := by
  cases op <;> simp [step, added] <;> (try split) <;> simp

theorem added_cons (op : Op) (ops : List Op) : added (op :: ops) = added [op] ++ added ops := by
  cases op <;> simp [added]

theorem run_cbs (r : Nat → Bool) (t : Tok) (ops : List Op) :
    (run r t ops).1.cbs = t.cbs ++ added ops := by
  induction ops generalizing t with
  | nil => simp [run, added]
  | cons op ops ih =>
    simp only [run, ih, step_cbs]
    rw [added_cons op ops, List.append_assoc]

end Verif.Model.Token
