import Verif.Model.SseStream
import Verif.Lemmas.Sse
namespace Verif.Model.SseStream
open Verif.Model.Sse

theorem feedChunk_append (s : Str × St) (a b : Str) : feedChunk s (a ++ b) = feedChunk (feedChunk s a) b := by
  simp [feedChunk, List.foldl_append]

theorem foldl_feedChunk_flatten (s : Str × St) (chunks : List Str) :
    chunks.foldl feedChunk s = feedChunk s chunks.flatten := by
  induction chunks generalizing s with
  | nil => simp [feedChunk]
  | cons c cs ih => simp [List.foldl_cons, ih, feedChunk_append]

/-- the stream parser does not depend on how the body is cut into chunks -/
theorem parseStream_chunks (chunks : List Str) : parseStream chunks = parseStream [chunks.flatten] := by
  simp [parseStream, foldl_feedChunk_flatten]

theorem feed_line (cur l rest : Str) (st : St) (h : '\n' ∉ l) :
    feedChunk (cur, st) (l ++ '\n' :: rest) = feedChunk ([], legacyStep st (rstripCR (cur ++ l))) rest := by
  induction l generalizing cur with
  | nil => simp [feedChunk, feedChar]
  | cons c cs ih =>
    have hc : c ≠ '\n' := by intro e; simp [e] at h
    have hcs : '\n' ∉ cs := by intro e; exact h (List.mem_cons_of_mem _ e)
    have := ih (cur ++ [c]) hcs
    simp only [feedChunk, List.cons_append, List.foldl_cons, feedChar, hc, if_false] at this ⊢
    simpa using this

/-- complete lines, each with its LF or CRLF terminator, are interpreted one by one -/
theorem feed_withEols (ls : List Str) (bs : List Bool) (st : St) (h : NoBreakLines ls) :
    feedChunk ([], st) (withEols ls bs) = ([], ls.foldl legacyStep st) := by
  induction ls generalizing bs st with
  | nil => simp [withEols, feedChunk]
  | cons l ls ih =>
    have hl := h l (by simp)
    have hls : NoBreakLines ls := fun x hx => h x (by simp [hx])
    have hlf := noBreak_lf hl
    have hcr := noBreak_cr hl
    cases bs with
    | nil =>
      simp only [withEols, eol, Bool.false_eq_true, if_false, List.append_assoc, List.singleton_append]
      rw [feed_line [] l _ st hlf]
      simp [rstripCR_id l hcr, ih [] _ hls]
    | cons b bs =>
      cases b with
      | false =>
        simp only [withEols, eol, Bool.false_eq_true, if_false, List.append_assoc, List.singleton_append]
        rw [feed_line [] l _ st hlf]
        simp [rstripCR_id l hcr, ih bs _ hls]
      | true =>
        simp only [withEols, eol, if_true, List.append_assoc, List.cons_append, List.nil_append]
        have e : l ++ '\r' :: '\n' :: withEols ls bs = (l ++ ['\r']) ++ '\n' :: withEols ls bs := by simp
        rw [e, feed_line [] (l ++ ['\r']) _ st (by simp [hlf])]
        simp [rstripCR_cr l hcr, ih bs _ hls]

theorem isPrefixOf_append_self (p v : Str) : p.isPrefixOf (p ++ v) = true := by
  induction p with
  | nil => simp
  | cons c cs ih => simp [ih]

theorem step_event (st : St) (n : Str) (hn : okName n = true) :
    legacyStep st (pEvent ++ n) = { st with ev := some n } := by
  have h1 : pEvent ++ n ≠ [] := by simp [pEvent]
  have h2 : pEvent.isPrefixOf (pEvent ++ n) = true := isPrefixOf_append_self _ _
  have h3 : (pEvent ++ n).drop 7 = n := by simp [pEvent]
  simp [legacyStep, h1, h2, h3, strip_id n hn]

theorem step_data (st : St) (d : Str) :
    legacyStep st (pData ++ d) = { st with data := st.data ++ [d] } := by
  have h1 : pData ++ d ≠ [] := by simp [pData]
  have h0 : pEvent.isPrefixOf (pData ++ d) = false := by simp [pEvent, pData, List.isPrefixOf]
  have h2 : pData.isPrefixOf (pData ++ d) = true := isPrefixOf_append_self _ _
  have h3 : (pData ++ d).drop 6 = d := by simp [pData]
  simp [legacyStep, h1, h0, h2, h3]

theorem fold_data (st : St) (ds : List Str) :
    (ds.map (pData ++ ·)).foldl legacyStep st = { st with data := st.data ++ ds } := by
  induction ds generalizing st with
  | nil => simp
  | cons d ds ih => simp [List.foldl_cons, step_data, ih]

theorem fold_plainEvent (out : List (Str × Str)) (e : PlainEvent) (h : PlainOk e = true) :
    (plainLines e).foldl legacyStep (clean out) = clean (out ++ [(e.name, joinNl e.data)]) := by
  simp only [PlainOk, Bool.and_eq_true] at h
  obtain ⟨⟨⟨⟨_, hn⟩, hne⟩, hd⟩, _⟩ := h
  have hne' : e.name ≠ [] := by intro e0; simp [e0] at hne
  have hd' : e.data ≠ [] := by intro e0; simp [e0] at hd
  simp only [plainLines, List.foldl_cons, List.foldl_append, step_event _ _ hn, fold_data, List.foldl_nil]
  simp [legacyStep, legacyDispatch, clean, hne', hd']

theorem noBreak_plainLines (e : PlainEvent) (h : PlainOk e = true) : NoBreakLines (plainLines e) := by
  simp only [PlainOk, Bool.and_eq_true] at h
  obtain ⟨⟨⟨⟨hn, _⟩, _⟩, _⟩, hd⟩ := h
  have key : ∀ (p v : Str), noBreak p = true → noBreak v = true → noBreak (p ++ v) = true := by
    intro p v hp hv
    simp only [noBreak, Bool.and_eq_true, Bool.not_eq_true', List.contains_eq_mem, decide_eq_false_iff_not] at *
    simp [hp.1, hp.2, hv.1, hv.2]
  intro l hl
  simp only [plainLines, List.mem_cons, List.mem_append, List.mem_map] at hl
  rcases hl with (rfl | ⟨d, hdm, rfl⟩) | hl
  · exact key _ _ (by decide) hn
  · exact key _ _ (by decide) (by simp only [List.all_eq_true] at hd; exact hd d hdm)
  · simp at hl; subst hl; decide

theorem fold_plain (out : List (Str × Str)) (evs : List PlainEvent) (h : ∀ e ∈ evs, PlainOk e = true) :
    (evs.flatMap plainLines).foldl legacyStep (clean out) = clean (out ++ evs.map (fun e => (e.name, joinNl e.data))) := by
  induction evs generalizing out with
  | nil => simp
  | cons e es ih =>
    simp only [List.flatMap_cons, List.foldl_append, fold_plainEvent out e (h e (by simp))]
    rw [ih _ (fun x hx => h x (by simp [hx]))]
    simp

/-- on renderings the legacy grammar understands, cut into chunks in any way, the streaming
    branch yields exactly the events -/
theorem parseStream_plain (evs : List PlainEvent) (eols : List Bool) (chunks : List Str)
    (h : ∀ e ∈ evs, PlainOk e = true) (hc : chunks.flatten = withEols (evs.flatMap plainLines) eols) :
    parseStream chunks = evs.map (fun e => (e.name, joinNl e.data)) := by
  have hnb : NoBreakLines (evs.flatMap plainLines) := by
    intro l hl
    simp only [List.mem_flatMap] at hl
    obtain ⟨e, he, hl⟩ := hl
    exact noBreak_plainLines e (h e he) l hl
  rw [parseStream_chunks, hc]
  simp only [parseStream, List.foldl_cons, List.foldl_nil, feed_withEols _ eols _ hnb, fold_plain [] evs h]
  simp [legacyDispatch, clean]

end Verif.Model.SseStream
