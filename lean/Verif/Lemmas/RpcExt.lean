import Verif.Model.RpcExt
import Verif.Lemmas.Rpc

/-! # Lemmas about the extension of the JSON-RPC model -/
set_option linter.unusedSimpArgs false
set_option linter.unusedVariables false
namespace Verif.Model.Rpc
open Verif.Model.Json

/-- the dict a handler receives: the members of the wire object -/
def objOf : Json → Obj
  | .obj o => o
  | _ => []

theorem getOrNull_member_same (k : Str) (v : Json) (rest : Obj) (h : getKey k rest = none) :
    getOrNull k (member k v ++ rest) = v := by
  cases v <;> simp [member, getOrNull, getKey, h]

theorem getKey_member_other (k k' : Str) (v : Json) (rest : Obj) (h : k' ≠ k) :
    getKey k (member k' v ++ rest) = getKey k rest := by
  cases v <;> simp [member, getKey, h]

theorem methodIs_emit_notification (m : Str) (p : Option Obj) :
    methodIs (objOf (emit (sendNotification m p))) m = true := by
  cases p <;> simp [sendNotification, createNotification, emit, objOf, methodIs, getKey, optParams, kJsonrpc, kMethod]

theorem paramsOf_emit_notification (m : Str) (p : Obj) :
    paramsOf (objOf (emit (sendNotification m (some p)))) = .ok p := by
  simp [sendNotification, createNotification, emit, objOf, paramsOf, getKey, optParams, kJsonrpc, kMethod, kParams]

theorem progress_delivered (m : Str) (tok : Id) (p t msg : Json) :
    handleProgress m (objOf (emit (sendProgress m tok p t msg))) = .ok (some [tok.toJson, p, t, msg]) := by
  unfold handleProgress sendProgress
  rw [methodIs_emit_notification, paramsOf_emit_notification]
  have h1 : getOrNull kProgressToken (progressParams tok p t msg) = tok.toJson := by
    simp [progressParams, getOrNull, getKey]
  have h2 : getOr kProgress (.int 0) (progressParams tok p t msg) = p := by
    simp [progressParams, getOr, getKey, kProgressToken, kProgress]
  have h3 : getOrNull kTotal (progressParams tok p t msg) = t := by
    have : getKey kTotal (member kMessage msg ++ []) = none := by
      cases msg <;> simp [member, getKey, kMessage, kTotal]
    simp only [progressParams, getOrNull, getKey, kProgressToken, kProgress, kTotal] at this ⊢
    cases t <;> cases msg <;> simp [member, getKey, kMessage, kTotal]
  have h4 : getOrNull kMessage (progressParams tok p t msg) = msg := by
    simp only [progressParams, getOrNull]
    cases t <;> cases msg <;> simp [member, getKey, kMessage, kTotal, kProgressToken, kProgress]
  simp [h1, h2, h3, h4]

theorem cancelled_delivered (m : Str) (rid : Id) (reason : Json) :
    handleCancelled m (objOf (emit (sendCancelled m rid reason))) = .ok (some [rid.toJson, reason]) := by
  unfold handleCancelled sendCancelled
  rw [methodIs_emit_notification, paramsOf_emit_notification]
  have h1 : getOrNull kRequestId (cancelledParams rid reason) = rid.toJson := by
    simp [cancelledParams, getOrNull, getKey]
  have h2 : getOrNull kReason (cancelledParams rid reason) = reason := by
    cases reason <;> simp [cancelledParams, member, getOrNull, getKey, kRequestId, kReason]
  simp [h1, h2]

theorem listChanged_delivered (m : Str) :
    handleListChanged m (objOf (emit (sendListChanged m))) = .ok (some []) := by
  unfold handleListChanged sendListChanged
  rw [methodIs_emit_notification]; rfl

/-! NotificationHandler: a dict -/

theorem nhLookup_register_same {α : Type} (hs : List (Str × α)) (m : Str) (h : α) :
    nhLookup (nhRegister hs m h) m = some h := by
  induction hs with
  | nil => simp [nhRegister, nhLookup]
  | cons x xs ih =>
    obtain ⟨m', h'⟩ := x
    by_cases hm : m' = m <;> simp [nhRegister, nhLookup, hm, ih]

theorem nhLookup_register_other {α : Type} (hs : List (Str × α)) (m m' : Str) (h : α) (hne : m' ≠ m) :
    nhLookup (nhRegister hs m h) m' = nhLookup hs m' := by
  induction hs with
  | nil => simp [nhRegister, nhLookup, Ne.symm hne]
  | cons x xs ih =>
    obtain ⟨m2, h2⟩ := x
    by_cases hm : m2 = m
    · subst hm; simp [nhRegister, nhLookup, Ne.symm hne]
    · by_cases hm' : m2 = m'
      · subst hm'; simp [nhRegister, nhLookup, hm]
      · simp [nhRegister, nhLookup, hm, hm', ih]

theorem nhLookup_registerAll {α : Type} (ms : List Str) (h : α) :
    ∀ (hs : List (Str × α)) (m : Str), m ∈ ms → nhLookup (nhRegisterAll hs ms h) m = some h := by
  induction ms with
  | nil => intro hs m hm; cases hm
  | cons x xs ih =>
    intro hs m hm
    simp only [nhRegisterAll, List.foldl_cons]
    by_cases hx : m ∈ xs
    · exact ih _ m hx
    · have : m = x := by simpa [hx] using hm
      subst this
      -- registered first, never overwritten by a different key afterwards
      have key : ∀ (ys : List Str) (acc : List (Str × α)), m ∉ ys → nhLookup acc m = some h →
          nhLookup (ys.foldl (fun acc m => nhRegister acc m h) acc) m = some h := by
        intro ys
        induction ys with
        | nil => intro acc _ ha; simpa using ha
        | cons y ys ihy =>
          intro acc hy ha
          simp only [List.foldl_cons]
          apply ihy
          · intro hc; exact hy (by simp [hc])
          · rw [nhLookup_register_other _ _ _ _ (by intro he; exact hy (by simp [he]))]; exact ha
      exact key xs _ hx (nhLookup_register_same hs m h)

theorem completionResult_spec {α : Type} (limit : Nat) (values : List α) :
    (completionResult limit values).1 = values.take limit ∧
    (completionResult limit values).1.length ≤ limit ∧
    (completionResult limit values).2.2 = decide (values.length > limit) ∧
    (completionResult limit values).2.1 = (if values.length > limit then none else some values.length) := by
  unfold completionResult
  by_cases h : values.length > limit
  · simp [h]; omega
  · simp [h]
    have : values.length ≤ limit := by omega
    exact ⟨(List.take_of_length_le this).symm, this⟩

/-- two instances of a stateful object driven alternately: the pair of states reached is the pair of the states
each instance reaches on its own operations alone -/
def stepTwo {σ α : Type} (f : σ → α → σ) (st : σ × σ) (op : Bool × α) : σ × σ :=
  if op.1 then (f st.1 op.2, st.2) else (st.1, f st.2 op.2)

theorem foldl_two {σ α : Type} (f : σ → α → σ) (ops : List (Bool × α)) (a b : σ) :
    ops.foldl (stepTwo f) (a, b) =
      (((ops.filter (fun o => o.1)).map (·.2)).foldl f a, ((ops.filter (fun o => !o.1)).map (·.2)).foldl f b) := by
  induction ops generalizing a b with
  | nil => rfl
  | cons op rest ih =>
    obtain ⟨t, x⟩ := op
    cases t <;> simp [stepTwo, ih]

end Verif.Model.Rpc
