import Verif.Model.Batching

/-! Helper lemmas for C13 (decision part): digit characters, `split("-")` / `int()` on the padded
format, string order vs digit order. -/
set_option linter.unusedVariables false
namespace Verif.Lemmas.Batching
open Verif.Model.Batching Verif.Gen.Versions

theorem digitChar_toNat : ∀ n, n < 10 → (digitChar n).toNat = 48 + n := by decide
theorem digitChar_ne_dash : ∀ n, n < 10 → digitChar n ≠ '-' := by decide
theorem digitChar_ne_plus : ∀ n, n < 10 → digitChar n ≠ '+' := by decide
theorem digitChar_ne_us : ∀ n, n < 10 → digitChar n ≠ '_' := by decide
theorem digitChar_notSpace : ∀ n, n < 10 → isCSpace (digitChar n) = false := by decide
theorem digitVal_digitChar : ∀ n, n < 10 → digitVal (digitChar n) = some n := by decide
theorem digitChar_isDigit : ∀ n, n < 10 → isAsciiDigit (digitChar n) = true := by decide
theorem digitChar_inj : ∀ n, n < 10 → ∀ m, m < 10 → (digitChar n = digitChar m ↔ n = m) := by decide

/-- `"abcd-ef-gh".split("-")` -/
theorem split_fmt (a b c d e f g h : Nat) (ha : a < 10) (hb : b < 10) (hc : c < 10) (hd : d < 10)
    (he : e < 10) (hf : f < 10) (hg : g < 10) (hh : h < 10) :
    splitOn '-' (fmt a b c d e f g h) =
      [[digitChar a, digitChar b, digitChar c, digitChar d], [digitChar e, digitChar f],
       [digitChar g, digitChar h]] := by
  simp [fmt, splitOn, digitChar_ne_dash, *]

theorem strip_digits2 (a b : Nat) (ha : a < 10) (hb : b < 10) :
    stripC [digitChar a, digitChar b] = [digitChar a, digitChar b] := by
  simp [stripC, dropSpace, digitChar_notSpace, *]

theorem strip_digits4 (a b c d : Nat) (ha : a < 10) (hb : b < 10) (hc : c < 10) (hd : d < 10) :
    stripC [digitChar a, digitChar b, digitChar c, digitChar d]
      = [digitChar a, digitChar b, digitChar c, digitChar d] := by
  simp [stripC, dropSpace, digitChar_notSpace, *]

/-- `int("ef") = 10e+f` -/
theorem pyInt_digits2 (a b : Nat) (ha : a < 10) (hb : b < 10) :
    pyInt [digitChar a, digitChar b] = some ((10 * a + b : Nat) : Int) := by
  have h1 := digitChar_ne_dash a ha
  have h2 := digitChar_ne_plus a ha
  unfold pyInt
  rw [strip_digits2 a b ha hb]
  split
  · simp_all
  · simp_all
  · simp [readDigits, digitChar_ne_us, digitVal_digitChar, *]

/-- `int("abcd") = 1000a+100b+10c+d` -/
theorem pyInt_digits4 (a b c d : Nat) (ha : a < 10) (hb : b < 10) (hc : c < 10) (hd : d < 10) :
    pyInt [digitChar a, digitChar b, digitChar c, digitChar d]
      = some ((1000 * a + 100 * b + 10 * c + d : Nat) : Int) := by
  have h1 := digitChar_ne_dash a ha
  have h2 := digitChar_ne_plus a ha
  unfold pyInt
  rw [strip_digits4 a b c d ha hb hc hd]
  split
  · simp_all
  · simp_all
  · simp [readDigits, digitChar_ne_us, digitVal_digitChar, *]; omega

/-- on the padded format the hand-modelled guards pass and the decision is the generated chain -/
theorem supports_fmt (a b c d e f g h : Nat) (ha : a < 10) (hb : b < 10) (hc : c < 10) (hd : d < 10)
    (he : e < 10) (hf : f < 10) (hg : g < 10) (hh : h < 10) :
    supportsBatching (some (fmt a b c d e f g h)) =
      supportsBatchingGen ((1000 * a + 100 * b + 10 * c + d : Nat) : Int) ((10 * e + f : Nat) : Int)
        ((10 * g + h : Nat) : Int) := by
  have hs := split_fmt a b c d e f g h ha hb hc hd he hf hg hh
  simp only [fmt] at hs
  simp only [supportsBatching, fmt, hs]
  simp [pyInt_digits2, pyInt_digits4, *]

theorem valid_fmt (a b c d e f g h : Nat) (ha : a < 10) (hb : b < 10) (hc : c < 10) (hd : d < 10)
    (he : e < 10) (hf : f < 10) (hg : g < 10) (hh : h < 10) :
    validFormat (fmt a b c d e f g h) = true := by
  simp [validFormat, fmt, digitChar_isDigit, *]

theorem valid_cutoff : validFormat cutoff = true := by decide

theorem cutoff_chars : cutoff = ['2', '0', '2', '5', '-', '0', '6', '-', '1', '8'] := by decide

/-- Python's string `<` against the cutoff = digit-wise lexicographic order -/
theorem strLt_fmt_cutoff (a b c d e f g h : Nat) (ha : a < 10) (hb : b < 10) (hc : c < 10) (hd : d < 10)
    (he : e < 10) (hf : f < 10) (hg : g < 10) (hh : h < 10) :
    strLt (fmt a b c d e f g h) cutoff = lexLt [a, b, c, d, e, f, g, h] cutoffDigits := by
  simp only [cutoff_chars, fmt, strLt, lexLt, cutoffDigits, digitChar_toNat, *]
  simp
  grind (splits := 80)

theorem strLt_cutoff_fmt (a b c d e f g h : Nat) (ha : a < 10) (hb : b < 10) (hc : c < 10) (hd : d < 10)
    (he : e < 10) (hf : f < 10) (hg : g < 10) (hh : h < 10) :
    strLt cutoff (fmt a b c d e f g h) = lexLt cutoffDigits [a, b, c, d, e, f, g, h] := by
  simp only [cutoff_chars, fmt, strLt, lexLt, cutoffDigits, digitChar_toNat, *]
  simp
  grind (splits := 80)

theorem fmt_eq_cutoff (a b c d e f g h : Nat) (ha : a < 10) (hb : b < 10) (hc : c < 10) (hd : d < 10)
    (he : e < 10) (hf : f < 10) (hg : g < 10) (hh : h < 10) :
    fmt a b c d e f g h = cutoff ↔ [a, b, c, d, e, f, g, h] = cutoffDigits := by
  have k : ∀ n, n < 10 → ∀ m, m < 10 → (digitChar n = Char.ofNat (48 + m) ↔ n = m) := digitChar_inj
  have e2 : '2' = Char.ofNat (48 + 2) := by decide
  have e0 : '0' = Char.ofNat (48 + 0) := by decide
  have e5 : '5' = Char.ofNat (48 + 5) := by decide
  have e6 : '6' = Char.ofNat (48 + 6) := by decide
  have e1 : '1' = Char.ofNat (48 + 1) := by decide
  have e8 : '8' = Char.ofNat (48 + 8) := by decide
  simp only [cutoff_chars, fmt, cutoffDigits, List.cons.injEq, and_true, true_and]
  rw [e2, e0, e5, e6, e1, e8]
  simp only [k _ ha, k _ hb, k _ hc, k _ hd, k _ he, k _ hf, k _ hg, k _ hh, Nat.reduceLT]

/-- trichotomy of the digit order against the cutoff -/
theorem lex_trichotomy (a b c d e f g h : Nat) :
    (lexLt [a, b, c, d, e, f, g, h] cutoffDigits = true ∧ lexLt cutoffDigits [a, b, c, d, e, f, g, h] = false
        ∧ [a, b, c, d, e, f, g, h] ≠ cutoffDigits)
    ∨ (lexLt [a, b, c, d, e, f, g, h] cutoffDigits = false ∧ lexLt cutoffDigits [a, b, c, d, e, f, g, h] = false
        ∧ [a, b, c, d, e, f, g, h] = cutoffDigits)
    ∨ (lexLt [a, b, c, d, e, f, g, h] cutoffDigits = false ∧ lexLt cutoffDigits [a, b, c, d, e, f, g, h] = true
        ∧ [a, b, c, d, e, f, g, h] ≠ cutoffDigits) := by
  simp only [lexLt, cutoffDigits, List.cons.injEq, and_true]
  grind (splits := 80)

end Verif.Lemmas.Batching
