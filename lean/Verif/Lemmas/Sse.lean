import Verif.Model.Sse
/-! Lemmas about the SSE text parser: line splitting, field lines, events, whole streams. -/
namespace Verif.Model.Sse

/-! ### split / rstrip -/

theorem splitLF_ne_nil (s : Str) : splitLF s ≠ [] := by
  induction s with
  | nil => simp [splitLF]
  | cons c cs ih =>
    simp only [splitLF]
    split
    · simp
    · split <;> simp

theorem splitLF_noLF (l : Str) (h : '\n' ∉ l) : splitLF l = [l] := by
  induction l with
  | nil => simp [splitLF]
  | cons c cs ih =>
    have hc : c ≠ '\n' := by intro h'; simp [h'] at h
    have hcs : '\n' ∉ cs := by intro h'; exact h (List.mem_cons_of_mem _ h')
    simp [splitLF, hc, ih hcs]

theorem splitLF_line (l rest : Str) (h : '\n' ∉ l) :
    splitLF (l ++ '\n' :: rest) = l :: splitLF rest := by
  induction l with
  | nil => simp [splitLF]
  | cons c cs ih =>
    have hc : c ≠ '\n' := by intro h'; simp [h'] at h
    have hcs : '\n' ∉ cs := by intro h'; exact h (List.mem_cons_of_mem _ h')
    simp [splitLF, hc, ih hcs]

theorem dropWhile_none {α} (p : α → Bool) (l : List α) (h : ∀ x ∈ l, p x = false) :
    l.dropWhile p = l := by
  cases l with
  | nil => rfl
  | cons a as => simp [List.dropWhile, h a (by simp)]

theorem rstripCR_id (l : Str) (h : '\r' ∉ l) : rstripCR l = l := by
  unfold rstripCR
  rw [dropWhile_none]
  · simp
  · intro x hx
    have : x ∈ l := by simpa using hx
    have : x ≠ '\r' := by intro e; exact h (e ▸ this)
    simpa using this

theorem rstripCR_cr (l : Str) (h : '\r' ∉ l) : rstripCR (l ++ ['\r']) = l := by
  have := rstripCR_id l h
  unfold rstripCR at *
  simpa [List.dropWhile] using this

theorem noBreak_lf {s : Str} (h : noBreak s = true) : '\n' ∉ s := by
  simp [noBreak] at h; exact h.1

theorem noBreak_cr {s : Str} (h : noBreak s = true) : '\r' ∉ s := by
  simp [noBreak] at h; exact h.2

/-- a line as the parser sees it after `split("\n")` + `rstrip("\r")`, whatever its terminator -/
def NoBreakLines (ls : List Str) : Prop := ∀ l ∈ ls, noBreak l = true

theorem split_withEols (ls : List Str) (bs : List Bool) (h : NoBreakLines ls) :
    (splitLF (withEols ls bs)).map rstripCR = ls ++ [[]] := by
  induction ls generalizing bs with
  | nil => simp [withEols, splitLF, rstripCR]
  | cons l ls ih =>
    have hl := h l (by simp)
    have hls : NoBreakLines ls := fun x hx => h x (by simp [hx])
    have hlf := noBreak_lf hl
    have hcr := noBreak_cr hl
    cases bs with
    | nil =>
      simp only [withEols, eol, Bool.false_eq_true, if_false, List.append_assoc, List.singleton_append]
      rw [splitLF_line l _ hlf]
      simp [rstripCR_id l hcr, ih [] hls]
    | cons b bs =>
      cases b with
      | false =>
        simp only [withEols, eol, Bool.false_eq_true, if_false, List.append_assoc, List.singleton_append]
        rw [splitLF_line l _ hlf]
        simp [rstripCR_id l hcr, ih bs hls]
      | true =>
        simp only [withEols, eol, if_true, List.append_assoc, List.cons_append, List.nil_append]
        have : l ++ '\r' :: '\n' :: withEols ls bs = (l ++ ['\r']) ++ '\n' :: withEols ls bs := by simp
        rw [this, splitLF_line (l ++ ['\r']) _ (by simp [hlf])]
        simp [rstripCR_cr l hcr, ih bs hls]

theorem split_joinEols (ls : List Str) (bs : List Bool) (h : NoBreakLines ls) (hne : ls ≠ []) :
    (splitLF (joinEols ls bs)).map rstripCR = ls := by
  induction ls generalizing bs with
  | nil => exact absurd rfl hne
  | cons l ls ih =>
    have hl := h l (by simp)
    have hls : NoBreakLines ls := fun x hx => h x (by simp [hx])
    have hlf := noBreak_lf hl
    have hcr := noBreak_cr hl
    cases ls with
    | nil => simp [joinEols, splitLF_noLF l hlf, rstripCR_id l hcr]
    | cons l2 ls2 =>
      have ih' := fun bs => ih bs hls (by simp)
      cases bs with
      | nil =>
        simp only [joinEols, eol, Bool.false_eq_true, if_false, List.append_assoc, List.singleton_append]
        rw [splitLF_line l _ hlf]
        simp [rstripCR_id l hcr, ih' []]
      | cons b bs =>
        cases b with
        | false =>
          simp only [joinEols, eol, Bool.false_eq_true, if_false, List.append_assoc, List.singleton_append]
          rw [splitLF_line l _ hlf]
          simp [rstripCR_id l hcr, ih' bs]
        | true =>
          simp only [joinEols, eol, if_true, List.append_assoc, List.cons_append, List.nil_append]
          have : l ++ '\r' :: '\n' :: joinEols (l2 :: ls2) bs
              = (l ++ ['\r']) ++ '\n' :: joinEols (l2 :: ls2) bs := by simp
          rw [this, splitLF_line (l ++ ['\r']) _ (by simp [hlf])]
          simp [rstripCR_cr l hcr, ih' bs]

/-! ### strip -/

theorem strip_id (n : Str) (h : okName n = true) : strip n = n := by
  unfold strip
  have h1 : n.dropWhile pyIsSpace = n := by
    cases n with
    | nil => rfl
    | cons c cs => simp [okName] at h; simp [List.dropWhile, h.1]
  rw [h1]
  have h2 : n.reverse.dropWhile pyIsSpace = n.reverse := by
    cases hr : n.reverse with
    | nil => rfl
    | cons c cs =>
      have hl : n.getLast? = some c := by
        have := congrArg List.head? hr
        simpa [List.head?_reverse] using this
      simp [okName, hl] at h
      simp [List.dropWhile, h.2]
  rw [h2]; simp

/-! ### field lines -/

theorem partitionColon_field (name v : Str) (hn : ':' ∉ name) :
    partitionColon (name ++ ':' :: v) = (name, v) := by
  induction name with
  | nil => simp [partitionColon]
  | cons c cs ih =>
    have hc : c ≠ ':' := by intro h; simp [h] at hn
    have hcs : ':' ∉ cs := by intro h; exact hn (List.mem_cons_of_mem _ h)
    simp [partitionColon, hc, ih hcs]

theorem strip_value (v : Str) (sp : Bool) (h : okVal v sp = true) :
    stripOneSpace (if sp then ' ' :: v else v) = v := by
  cases sp with
  | true => simp [stripOneSpace]
  | false =>
    cases v with
    | nil => simp [stripOneSpace]
    | cons x xs =>
      have : x ≠ ' ' := by intro hx; simp [okVal, hx] at h
      simp only [Bool.false_eq_true, if_false]
      unfold stripOneSpace
      split <;> simp_all

theorem step_field_line (st : St) (name v : Str) (sp : Bool) (hn : ':' ∉ name) (hne : name ≠ [])
    (hh : name.head? ≠ some ':') (hv : okVal v sp = true) :
    stepLine st (fieldLine name sp v) =
      (if name = sEvent then { st with ev := some (strip v) }
       else if name = sData then { st with data := st.data ++ [v] } else st) := by
  have h1 : fieldLine name sp v ≠ [] := by
    cases name <;> simp_all [fieldLine]
  have h2 : (fieldLine name sp v).head? ≠ some ':' := by
    cases name <;> simp_all [fieldLine]
  unfold stepLine
  simp only [h1, h2, if_false]
  unfold fieldLine
  simp only [partitionColon_field _ _ hn, strip_value v sp hv]

theorem step_ignored (st : St) (ig : Ignored) (h : ig.ok = true) : stepLine st ig.line = st := by
  cases ig with
  | comment b => simp [Ignored.line, stepLine]
  | idField sp v =>
    have := step_field_line st "id".toList v sp (by decide) (by decide) (by decide) (by simpa [Ignored.ok] using h)
    simpa [Ignored.line, sEvent, sData] using this
  | retryField sp v =>
    have := step_field_line st "retry".toList v sp (by decide) (by decide) (by decide) (by simpa [Ignored.ok] using h)
    simpa [Ignored.line, sEvent, sData] using this

theorem fold_ignored (st : St) (igs : List Ignored) (h : igs.all Ignored.ok = true) :
    (igs.map Ignored.line).foldl stepLine st = st := by
  induction igs generalizing st with
  | nil => rfl
  | cons b bs ih =>
    simp only [List.all_cons, Bool.and_eq_true] at h
    simp [List.foldl_cons, step_ignored st b h.1, ih st h.2]

theorem fold_renderField (st : St) (name v : Str) (c : FieldChoice) (hn : ':' ∉ name) (hne : name ≠ [])
    (hh : name.head? ≠ some ':') (hv : okVal v c.space = true) (hc : c.ok = true) :
    (renderField name v c).foldl stepLine st =
      (if name = sEvent then { st with ev := some (strip v) }
       else if name = sData then { st with data := st.data ++ [v] } else st) := by
  simp only [renderField, List.foldl_append, fold_ignored st _ hc, List.foldl_cons, List.foldl_nil]
  exact step_field_line st name v c.space hn hne hh hv

theorem fold_renderData (st : St) (ds : List Str) (cs : List FieldChoice) (h : okData ds cs = true) :
    (renderData ds cs).foldl stepLine st = { st with data := st.data ++ ds } := by
  induction ds generalizing st cs with
  | nil => simp [renderData]
  | cons d ds ih =>
    cases cs with
    | nil =>
      simp only [okData, Bool.and_eq_true] at h
      simp only [renderData, List.foldl_append]
      rw [fold_renderField st _ d dflt (by decide) (by decide) (by decide) (by simpa [dflt] using h.1)
        (by simp [dflt, FieldChoice.ok]), ih _ [] h.2]
      simp [sData, sEvent]
    | cons c cs =>
      simp only [okData, Bool.and_eq_true] at h
      simp only [renderData, List.foldl_append]
      rw [fold_renderField st _ d c (by decide) (by decide) (by decide) h.1.1 h.1.2, ih _ cs h.2]
      simp [sData, sEvent]

/-- the state after the field lines of one conformant event, started from a clean state -/
theorem fold_renderEventBody (out : List (Str × Str)) (e : Event) (h : Conformant e = true) :
    (renderEventBody e).foldl stepLine (clean out) =
      { ev := e.name, data := e.data, out := out } := by
  simp only [Conformant, Bool.and_eq_true] at h
  obtain ⟨⟨ha, hd⟩, hn⟩ := h
  simp only [renderEventBody, List.foldl_append]
  cases hname : e.name with
  | none =>
    simp only [List.foldl_nil]
    rw [fold_renderData _ _ _ hd, fold_ignored _ _ ha]
    simp [clean]
  | some n =>
    simp only [hname, Bool.and_eq_true] at hn
    rw [fold_renderField _ _ n e.nameChoice (by decide) (by decide) (by decide) hn.1.1 hn.2]
    rw [fold_renderData _ _ _ hd, fold_ignored _ _ ha]
    simp [clean, sEvent, strip_id n hn.1.2]

def evOut (e : Event) : Str × Str := (effType e.name, joinNl e.data)

/-- what one event dispatches: nothing when it has no data line -/
def evOuts (e : Event) : List (Str × Str) := if e.data = [] then [] else [evOut e]

theorem dispatch_event (out : List (Str × Str)) (e : Event) :
    dispatch { ev := e.name, data := e.data, out := out } = clean (out ++ evOuts e) := by
  by_cases hne : e.data = [] <;> simp [dispatch, evOuts, evOut, clean, hne]

theorem fold_renderEvent (out : List (Str × Str)) (e : Event) (h : Conformant e = true) :
    (renderEvent e).foldl stepLine (clean out) = clean (out ++ evOuts e) := by
  simp only [renderEvent, List.foldl_append, fold_renderEventBody out e h, List.foldl_cons, List.foldl_nil]
  simp only [stepLine, if_true]
  exact dispatch_event out e

theorem fold_renderLines (out : List (Str × Str)) (evs : List Event)
    (h : ∀ e ∈ evs, Conformant e = true) :
    (renderLines evs).foldl stepLine (clean out) = clean (out ++ evs.flatMap evOuts) := by
  induction evs generalizing out with
  | nil => simp [renderLines]
  | cons e es ih =>
    simp only [renderLines, List.flatMap_cons, List.foldl_append] at *
    rw [fold_renderEvent out e (h e (by simp)), ih _ (fun x hx => h x (by simp [hx]))]
    simp

theorem dispatch_clean (out : List (Str × Str)) : dispatch (clean out) = clean out := by
  simp [dispatch, clean]

/-- line level: every event of every conformant rendering is recovered, in order -/
theorem parseLines_render (evs : List Event) (h : ∀ e ∈ evs, Conformant e = true) :
    parseLines (renderLines evs) = evs.flatMap evOuts := by
  unfold parseLines
  rw [fold_renderLines [] evs h, dispatch_clean]
  simp [clean]

/-- a final blank line changes nothing: end of input dispatches anyway -/
theorem parseLines_snoc_blank (ls : List Str) : parseLines (ls ++ [[]]) = parseLines ls := by
  simp only [parseLines, List.foldl_append, List.foldl_cons, List.foldl_nil, stepLine, if_true]
  generalize ls.foldl stepLine (clean []) = st
  unfold dispatch
  split <;> simp_all [clean]

/-! ### the rendered lines contain no line break -/

theorem noBreak_fieldLine (name v : Str) (sp : Bool) (hn : noBreak name = true) (hv : noBreak v = true) :
    noBreak (fieldLine name sp v) = true := by
  simp only [noBreak, Bool.and_eq_true, Bool.not_eq_true', List.contains_eq_mem,
    decide_eq_false_iff_not] at *
  cases sp <;> simp [fieldLine, hn.1, hn.2, hv.1, hv.2]

theorem okVal_noBreak {v : Str} {sp : Bool} (h : okVal v sp = true) : noBreak v = true := by
  simp only [okVal, Bool.and_eq_true] at h; exact h.1

theorem noBreak_ignored (ig : Ignored) (h : ig.ok = true) : noBreak ig.line = true := by
  cases ig with
  | comment b =>
    simp only [Ignored.ok] at h
    simp only [noBreak, Bool.and_eq_true, Bool.not_eq_true', List.contains_eq_mem,
      decide_eq_false_iff_not] at *
    simp [Ignored.line, h.1, h.2]
  | idField sp v => exact noBreak_fieldLine _ _ _ (by decide) (okVal_noBreak (by simpa [Ignored.ok] using h))
  | retryField sp v => exact noBreak_fieldLine _ _ _ (by decide) (okVal_noBreak (by simpa [Ignored.ok] using h))

theorem noBreak_renderField (name v : Str) (c : FieldChoice) (hn : noBreak name = true)
    (hv : okVal v c.space = true) (hc : c.ok = true) : NoBreakLines (renderField name v c) := by
  intro l hl
  simp only [renderField, List.mem_append, List.mem_map, List.mem_singleton] at hl
  rcases hl with ⟨ig, hig, rfl⟩ | rfl
  · exact noBreak_ignored ig (by
      simp only [FieldChoice.ok, List.all_eq_true] at hc
      exact hc ig hig)
  · exact noBreak_fieldLine _ _ _ hn (okVal_noBreak hv)

theorem noBreak_renderData (ds : List Str) (cs : List FieldChoice) (h : okData ds cs = true) :
    NoBreakLines (renderData ds cs) := by
  induction ds generalizing cs with
  | nil => intro l hl; simp [renderData] at hl
  | cons d ds ih =>
    cases cs with
    | nil =>
      simp only [okData, Bool.and_eq_true] at h
      intro l hl
      simp only [renderData, List.mem_append] at hl
      rcases hl with hl | hl
      · exact noBreak_renderField sData d dflt (by decide) (by simpa [dflt] using h.1)
          (by simp [dflt, FieldChoice.ok]) l hl
      · exact ih [] h.2 l hl
    | cons c cs =>
      simp only [okData, Bool.and_eq_true] at h
      intro l hl
      simp only [renderData, List.mem_append] at hl
      rcases hl with hl | hl
      · exact noBreak_renderField sData d c (by decide) h.1.1 h.1.2 l hl
      · exact ih cs h.2 l hl

theorem noBreak_renderEvent (e : Event) (h : Conformant e = true) : NoBreakLines (renderEvent e) := by
  simp only [Conformant, Bool.and_eq_true] at h
  obtain ⟨⟨ha, hd⟩, hn⟩ := h
  intro l hl
  simp only [renderEvent, renderEventBody, List.mem_append, List.mem_singleton, List.mem_map] at hl
  rcases hl with ((hl | hl) | ⟨ig, hig, rfl⟩) | rfl
  · cases hname : e.name with
    | none => simp [hname] at hl
    | some n =>
      simp only [hname, Bool.and_eq_true] at hn hl
      exact noBreak_renderField sEvent n e.nameChoice (by decide) hn.1.1 hn.2 l hl
  · exact noBreak_renderData _ _ hd l hl
  · exact noBreak_ignored ig (by
      simp only [List.all_eq_true] at ha
      exact ha ig hig)
  · decide

theorem noBreak_renderLines (evs : List Event) (h : ∀ e ∈ evs, Conformant e = true) :
    NoBreakLines (renderLines evs) := by
  intro l hl
  simp only [renderLines, List.mem_flatMap] at hl
  obtain ⟨e, he, hl⟩ := hl
  exact noBreak_renderEvent e (h e he) l hl

theorem renderLines_dropLast (evs : List Event) (hne : evs ≠ []) :
    (renderLines evs).dropLast ++ [[]] = renderLines evs := by
  induction evs with
  | nil => exact absurd rfl hne
  | cons e es ih =>
    cases es with
    | nil => simp [renderLines, renderEvent]
    | cons e2 es2 =>
      have ih' := ih (by simp)
      have hne2 : renderLines (e2 :: es2) ≠ [] := by simp [renderLines, renderEvent]
      have : renderLines (e :: e2 :: es2) = renderEvent e ++ renderLines (e2 :: es2) := by
        simp [renderLines]
      rw [this, List.dropLast_append_of_ne_nil hne2, List.append_assoc, ih']

/-- text level: the parser recovers every event of every conformant rendering -/
theorem parseText_render (evs : List Event) (eols : List Bool) (tail : Tail)
    (h : ∀ e ∈ evs, Conformant e = true) :
    parseText (renderText evs eols tail) = evs.flatMap evOuts := by
  have hnb := noBreak_renderLines evs h
  cases tail with
  | full =>
    simp only [parseText, renderText, split_withEols _ eols hnb, parseLines_snoc_blank]
    exact parseLines_render evs h
  | noBlank =>
    by_cases hne : evs = []
    · subst hne; simp [parseText, renderText, renderLines, withEols, splitLF, rstripCR, parseLines, stepLine, dispatch, clean]
    · have hnb' : NoBreakLines (renderLines evs).dropLast :=
        fun l hl => hnb l (List.dropLast_subset _ hl)
      simp only [parseText, renderText, split_withEols _ eols hnb', renderLines_dropLast evs hne]
      exact parseLines_render evs h
  | noEol =>
    by_cases hne : evs = []
    · subst hne; simp [parseText, renderText, renderLines, joinEols, splitLF, rstripCR, parseLines, stepLine, dispatch, clean]
    · have hnb' : NoBreakLines (renderLines evs).dropLast :=
        fun l hl => hnb l (List.dropLast_subset _ hl)
      by_cases hd : (renderLines evs).dropLast = []
      · -- nothing but the final blank line was rendered (data-less, nameless events only)
        have h1 : renderLines evs = [[]] := by rw [← renderLines_dropLast evs hne, hd]; rfl
        have h2 : parseText (renderText evs eols Tail.noEol) = parseLines [[]] := by
          simp [parseText, renderText, hd, joinEols, splitLF, rstripCR]
        rw [h2, ← h1]
        exact parseLines_render evs h
      · simp only [parseText, renderText, split_joinEols _ eols hnb' hd]
        rw [← parseLines_snoc_blank, renderLines_dropLast evs hne]
        exact parseLines_render evs h

end Verif.Model.Sse
