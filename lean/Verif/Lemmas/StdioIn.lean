import Verif.Model.StdioIn

/-! Helper lemmas for C05 / C13 (transport part): the incremental UTF-8 decoder inverts the
encoder on every cutting, the split-and-keep-last line buffer, `strip`, the reader's run. -/
set_option linter.unusedVariables false
set_option linter.unusedSimpArgs false
namespace Verif.Lemmas.StdioIn
open Verif.Model.StdioIn Verif.Model.Batching


theorem decBytes_append (p : List Nat) (a b : List Nat) :
    decBytes p (a ++ b) =
      match decBytes p a with
      | .error e => .error e
      | .ok (c1, p1) =>
        match decBytes p1 b with
        | .error e => .error e
        | .ok (c2, p2) => .ok (c1 ++ c2, p2) := by
  induction a generalizing p with
  | nil =>
    simp only [List.nil_append, decBytes]
    cases decBytes p b with
    | error e => rfl
    | ok r => simp
  | cons x xs ih =>
    simp only [List.cons_append, decBytes]
    cases h : decStep p x with
    | error e => rfl
    | ok r =>
      obtain ⟨o, p'⟩ := r
      simp only
      rw [ih]
      cases decBytes p' xs with
      | error e => rfl
      | ok r2 =>
        obtain ⟨c1, p1⟩ := r2
        simp only
        cases decBytes p1 b with
        | error e => rfl
        | ok r3 => simp


theorem dec1 (b : Nat) (rest : List Nat) (hb : b < 0x80) :
    decBytes [] (b :: rest) =
      match decBytes [] rest with
      | .error e => .error e
      | .ok (cs, p) => .ok (b :: cs, p) := by
  simp [decBytes, decStep, hb]
  cases decBytes [] rest <;> simp

theorem dec2 (l b : Nat) (rest : List Nat) (hl : 0xC2 ≤ l) (hl2 : l < 0xE0) (hb : 0x80 ≤ b) (hb2 : b < 0xC0) :
    decBytes [] (l :: b :: rest) =
      match decBytes [] rest with
      | .error e => .error e
      | .ok (cs, p) => .ok (((l - 0xC0) * 64 + (b - 0x80)) :: cs, p) := by
  have e1 : ¬ l < 0x80 := by omega
  have e2 : l < 0xF5 := by omega
  have e3 : l ≠ 0xE0 ∧ l ≠ 0xF0 ∧ l ≠ 0xF4 := by omega
  simp [decBytes, decStep, secondOk, isCont, e1, e2, e3, hl, hl2, hb, hb2]
  cases decBytes [] rest <;> simp

theorem dec3 (l b1 b2 : Nat) (rest : List Nat) (hl : 0xE0 ≤ l) (hl2 : l < 0xF0)
    (h1 : 0x80 ≤ b1) (h1' : b1 < 0xC0) (hE0 : l = 0xE0 → 0xA0 ≤ b1) (hED : l = 0xED → b1 < 0xA0)
    (h2 : 0x80 ≤ b2) (h2' : b2 < 0xC0) :
    decBytes [] (l :: b1 :: b2 :: rest) =
      match decBytes [] rest with
      | .error e => .error e
      | .ok (cs, p) => .ok (((l - 0xE0) * 4096 + (b1 - 0x80) * 64 + (b2 - 0x80)) :: cs, p) := by
  have e1 : ¬ l < 0x80 := by omega
  have e2 : l < 0xF5 ∧ 0xC2 ≤ l := by omega
  have e3 : l ≠ 0xF0 ∧ l ≠ 0xF4 ∧ ¬ l < 0xE0 := by omega
  have e4 : ¬ (l = 0xED ∧ 0xA0 ≤ b1) := by omega
  by_cases hq : l = 0xE0
  · subst hq
    have := hE0 rfl
    simp [decBytes, decStep, secondOk, isCont, *]
    cases decBytes [] rest <;> simp
  · simp [decBytes, decStep, secondOk, isCont, *]
    cases decBytes [] rest <;> simp

theorem dec4 (l b1 b2 b3 : Nat) (rest : List Nat) (hl : 0xF0 ≤ l) (hl2 : l < 0xF5)
    (h1 : 0x80 ≤ b1) (h1' : b1 < 0xC0) (hF0 : l = 0xF0 → 0x90 ≤ b1) (hF4 : l = 0xF4 → b1 < 0x90)
    (h2 : 0x80 ≤ b2) (h2' : b2 < 0xC0) (h3 : 0x80 ≤ b3) (h3' : b3 < 0xC0) :
    decBytes [] (l :: b1 :: b2 :: b3 :: rest) =
      match decBytes [] rest with
      | .error e => .error e
      | .ok (cs, p) =>
        .ok (((l - 0xF0) * 262144 + (b1 - 0x80) * 4096 + (b2 - 0x80) * 64 + (b3 - 0x80)) :: cs, p) := by
  have e1 : ¬ l < 0x80 := by omega
  have e2 : 0xC2 ≤ l := by omega
  have e3 : l ≠ 0xE0 ∧ ¬ l < 0xE0 ∧ ¬ l < 0xF0 ∧ l ≠ 0xED := by omega
  by_cases hq : l = 0xF0
  · subst hq
    have := hF0 rfl
    simp [decBytes, decStep, secondOk, isCont, *]
    cases decBytes [] rest <;> simp
  · by_cases hq4 : l = 0xF4
    · subst hq4
      have := hF4 rfl
      simp [decBytes, decStep, secondOk, isCont, *]
      cases decBytes [] rest <;> simp
    · simp [decBytes, decStep, secondOk, isCont, *]
      cases decBytes [] rest <;> simp

theorem dec_encodeChar (n : Nat) (h : isScalar n = true) (rest : List Nat) :
    decBytes [] (encodeChar n ++ rest) =
      match decBytes [] rest with
      | .error e => .error e
      | .ok (cs, p) => .ok (n :: cs, p) := by
  unfold encodeChar
  simp only [isScalar, Bool.or_eq_true, Bool.and_eq_true, decide_eq_true_eq] at h
  split
  · rename_i h1
    exact dec1 n rest h1
  · split
    · rename_i h1 h2
      have := dec2 (0xC0 + n / 64) (0x80 + n % 64) rest (by omega) (by omega) (by omega) (by omega)
      simp only [List.cons_append, List.nil_append]
      rw [this]
      have e : (0xC0 + n / 64 - 0xC0) * 64 + (0x80 + n % 64 - 0x80) = n := by omega
      rw [e]
    · split
      · rename_i h1 h2 h3
        have := dec3 (0xE0 + n / 4096) (0x80 + n / 64 % 64) (0x80 + n % 64) rest (by omega) (by omega)
          (by omega) (by omega) (by omega) (by omega) (by omega) (by omega)
        simp only [List.cons_append, List.nil_append]
        rw [this]
        have e : (0xE0 + n / 4096 - 0xE0) * 4096 + (0x80 + n / 64 % 64 - 0x80) * 64 + (0x80 + n % 64 - 0x80) = n := by omega
        rw [e]
      · rename_i h1 h2 h3
        have := dec4 (0xF0 + n / 262144) (0x80 + n / 4096 % 64) (0x80 + n / 64 % 64) (0x80 + n % 64) rest
          (by omega) (by omega) (by omega) (by omega) (by omega) (by omega) (by omega) (by omega) (by omega) (by omega)
        simp only [List.cons_append, List.nil_append]
        rw [this]
        have e : (0xF0 + n / 262144 - 0xF0) * 262144 + (0x80 + n / 4096 % 64 - 0x80) * 4096
            + (0x80 + n / 64 % 64 - 0x80) * 64 + (0x80 + n % 64 - 0x80) = n := by omega
        rw [e]

theorem dec_encode (cs : List Nat) (h : ∀ c ∈ cs, isScalar c = true) :
    decBytes [] (encode cs) = .ok (cs, []) := by
  induction cs with
  | nil => simp [encode, decBytes]
  | cons c cs ih =>
    have hc := h c (by simp)
    have ih' := ih (fun x hx => h x (by simp [hx]))
    simp only [encode, List.flatMap_cons] at *
    rw [dec_encodeChar c hc, ih']

theorem split_append (sep : Nat) (a b : List Nat) :
    split sep (a ++ b) =
      ((split sep a).1 ++ (split sep ((split sep a).2 ++ b)).1, (split sep ((split sep a).2 ++ b)).2) := by
  induction a with
  | nil => simp [split]
  | cons x xs ih =>
    simp only [List.cons_append, split]
    rw [ih]
    by_cases hx : x = sep
    · simp [hx]
    · simp only [hx, if_false]
      cases h1 : (split sep xs).1 with
      | nil =>
        simp only [List.nil_append]
        cases h2 : (split sep ((split sep xs).2 ++ b)).1 with
        | nil => simp [split, hx, h2]
        | cons l ls => simp [split, hx, h2]
      | cons l ls => simp

theorem split_tail (sep : Nat) (l : List Nat) :
    split sep (split sep l).2 = ([], (split sep l).2) := by
  induction l with
  | nil => simp [split]
  | cons x xs ih =>
    simp only [split]
    by_cases hx : x = sep
    · simp [hx, ih]
    · simp only [hx, if_false]
      cases h1 : (split sep xs).1 with
      | nil => simp [split, hx, ih]
      | cons l ls => simp [ih]

theorem split_noSep (sep : Nat) (l : List Nat) (h : sep ∉ l) : split sep l = ([], l) := by
  induction l with
  | nil => simp [split]
  | cons x xs ih =>
    have hx : x ≠ sep := by intro e; apply h; simp [e]
    have := ih (by intro hm; apply h; simp [hm])
    simp [split, hx, this]

theorem split_line (sep : Nat) (l rest : List Nat) (h : sep ∉ l) :
    split sep (l ++ sep :: rest) = (l :: (split sep rest).1, (split sep rest).2) := by
  induction l with
  | nil => simp [split]
  | cons x xs ih =>
    have hx : x ≠ sep := by intro e; apply h; simp [e]
    have := ih (by intro hm; apply h; simp [hm])
    simp [split, hx, this]

variable {μ : Type}

theorem runChunks_nil (cfg : Cfg μ) (st : St) : runChunks cfg st [] = (st, []) := by
  simp [runChunks, run]

theorem runChunks_cons (cfg : Cfg μ) (st : St) (c : List Nat) (rest : List (List Nat)) :
    runChunks cfg st (c :: rest) =
      ((runChunks cfg (feed cfg st c).1 rest).1, (feed cfg st c).2 ++ (runChunks cfg (feed cfg st c).1 rest).2) := by
  simp [runChunks, run, step]

theorem runChunks_spec (cfg : Cfg μ) (chunks : List (List Nat)) :
    ∀ (st : St) (cs p : List Nat), st.alive = true → split LF st.buf = ([], st.buf) →
      decBytes st.pend chunks.flatten = .ok (cs, p) →
      runChunks cfg st chunks =
        ({ st with pend := p, buf := (split LF (st.buf ++ cs)).2 },
         (split LF (st.buf ++ cs)).1.flatMap (processLine cfg st.batching)) := by
  induction chunks with
  | nil =>
    intro st cs p ha hb hd
    simp only [List.flatten_nil, decBytes, Except.ok.injEq, Prod.mk.injEq] at hd
    obtain ⟨h1, h2⟩ := hd
    subst h1 h2
    simp [runChunks_nil, hb]
  | cons c rest ih =>
    intro st cs p ha hb hd
    simp only [List.flatten_cons] at hd
    rw [decBytes_append] at hd
    cases h1 : decBytes st.pend c with
    | error e => simp [h1] at hd
    | ok r1 =>
      obtain ⟨c1, p1⟩ := r1
      simp only [h1] at hd
      cases h2 : decBytes p1 rest.flatten with
      | error e => simp [h2] at hd
      | ok r2 =>
        obtain ⟨c2, p2⟩ := r2
        simp only [h2, Except.ok.injEq, Prod.mk.injEq] at hd
        obtain ⟨hcs, hp⟩ := hd
        subst hcs hp
        have hfeed : feed cfg st c =
            ({ st with pend := p1, buf := (split LF (st.buf ++ c1)).2 },
             (split LF (st.buf ++ c1)).1.flatMap (processLine cfg st.batching)) := by
          simp [feed, ha, h1]
        rw [runChunks_cons, hfeed]
        have := ih { st with pend := p1, buf := (split LF (st.buf ++ c1)).2 } c2 p2 ha
          (split_tail LF (st.buf ++ c1)) h2
        rw [this]
        rw [← List.append_assoc, split_append LF (st.buf ++ c1) c2]
        simp

/-! ### the whole stream at once -/

theorem init_batching : init.batching = true := by simp [init, supportsBatching]

/-- every chunking of a valid UTF-8 stream: the reader's output is the per-line processing of
the lines of the decoded text; the unfinished last fragment stays in the buffer -/
theorem runChunks_valid (cfg : Cfg μ) (b : Bool) (text : List Nat) (chunks : List (List Nat))
    (hs : ∀ c ∈ text, isScalar c = true) (hc : chunks.flatten = encode text) :
    runChunks cfg { init with batching := b } chunks =
      ({ init with batching := b, buf := (split LF text).2 },
       (split LF text).1.flatMap (processLine cfg b)) := by
  have := runChunks_spec cfg chunks { init with batching := b } text [] (by simp [init])
    (by simp [init, split]) (by simp only [init]; rw [hc]; exact dec_encode text hs)
  simpa [init] using this

/-! ### strip -/

theorem dropSpaces_append (s t : List Nat) :
    dropSpaces (s ++ t) = if dropSpaces s = [] then dropSpaces t else dropSpaces s ++ t := by
  induction s with
  | nil => simp [dropSpaces]
  | cons c cs ih =>
    by_cases hc : isPySpace c = true
    · simp [dropSpaces, hc, ih]
    · simp [dropSpaces, hc]

theorem strip_snoc_space (s : List Nat) (c : Nat) (hc : isPySpace c = true) :
    strip (s ++ [c]) = strip s := by
  unfold strip
  rw [dropSpaces_append]
  by_cases h : dropSpaces s = []
  · simp [h, dropSpaces, hc]
  · simp [h, dropSpaces, hc]

theorem processLine_cr (cfg : Cfg μ) (b : Bool) (text : List Nat) :
    processLine cfg b (text ++ [CR]) = processLine cfg b text := by
  unfold processLine
  rw [strip_snoc_space text CR (by decide)]

/-! ### rendering -/

/-- the line the reader sees for an item: the text, plus the CR of a CRLF terminator -/
def lineOf (it : Item) : List Nat := it.text ++ (if it.crlf then [CR] else [])

theorem split_render (items : List Item) (h : ∀ it ∈ items, LF ∉ it.text) :
    split LF (render items) = (items.map lineOf, []) := by
  induction items with
  | nil => simp [render, split]
  | cons it rest ih =>
    have hit := h it (by simp)
    have ih' := ih (fun x hx => h x (by simp [hx]))
    simp only [render, List.flatMap_cons] at *
    by_cases hc : it.crlf = true
    · have hn : LF ∉ it.text ++ [CR] := by simp [hit]; decide
      have : it.rendered ++ List.flatMap Item.rendered rest
          = (it.text ++ [CR]) ++ LF :: List.flatMap Item.rendered rest := by
        simp [Item.rendered, hc]
      rw [this, split_line LF _ _ hn, ih']
      simp [lineOf, hc]
    · have : it.rendered ++ List.flatMap Item.rendered rest
          = it.text ++ LF :: List.flatMap Item.rendered rest := by
        simp [Item.rendered, hc]
      rw [this, split_line LF _ _ hit, ih']
      simp [lineOf, hc]

theorem processLine_lineOf (cfg : Cfg μ) (b : Bool) (it : Item) :
    processLine cfg b (lineOf it) = processLine cfg b it.text := by
  unfold lineOf
  by_cases hc : it.crlf = true
  · simp [hc, processLine_cr]
  · simp [hc]

/-! ### observables -/

theorem delivered_append (a b : List (Out μ)) : delivered (a ++ b) = delivered a ++ delivered b := by
  induction a with
  | nil => rfl
  | cons x xs ih => cases x <;> simp [delivered, ih]

theorem offered_append (a b : List (Out μ)) : offered (a ++ b) = offered a ++ offered b := by
  induction a with
  | nil => rfl
  | cons x xs ih => cases x <;> simp [offered, ih]

theorem rejections_append (a b : List (Out μ)) : rejections (a ++ b) = rejections a + rejections b := by
  induction a with
  | nil => simp [rejections]
  | cons x xs ih => cases x <;> simp [rejections, ih] <;> omega

theorem delivered_flatMap {α : Type} (l : List α) (f : α → List (Out μ)) :
    delivered (l.flatMap f) = l.flatMap (fun x => delivered (f x)) := by
  induction l with
  | nil => rfl
  | cons x xs ih => simp [List.flatMap_cons, delivered_append, ih]

theorem offered_flatMap {α : Type} (l : List α) (f : α → List (Out μ)) :
    offered (l.flatMap f) = l.flatMap (fun x => offered (f x)) := by
  induction l with
  | nil => rfl
  | cons x xs ih => simp [List.flatMap_cons, offered_append, ih]

theorem route_delivered (cfg : Cfg μ) (m : μ) : delivered (route cfg m) = [m] := by
  unfold route; split <;> simp [delivered]

theorem route_offered (cfg : Cfg μ) (m : μ) :
    offered (route cfg m) = if cfg.isNotif m then [m] else [] := by
  unfold route; split <;> simp_all [offered]

theorem route_rejections (cfg : Cfg μ) (m : μ) : rejections (route cfg m) = 0 := by
  unfold route; split <;> simp [rejections]

/-- members of a batch that the parser accepted, in order -/
theorem members_delivered (cfg : Cfg μ) (items : List (Option μ)) :
    delivered (items.flatMap (routeMember cfg))
      = items.filterMap id := by
  induction items with
  | nil => rfl
  | cons x xs ih =>
    cases x with
    | none => simp [List.flatMap_cons, delivered_append, ih, delivered, routeMember]
    | some m => simp [List.flatMap_cons, delivered_append, ih, route_delivered, routeMember]

theorem members_offered (cfg : Cfg μ) (items : List (Option μ)) :
    offered (items.flatMap (routeMember cfg))
      = (items.filterMap id).filter cfg.isNotif := by
  induction items with
  | nil => rfl
  | cons x xs ih =>
    cases x with
    | none => simp [List.flatMap_cons, offered_append, ih, offered, routeMember]
    | some m =>
      simp only [List.flatMap_cons, offered_append, ih, route_offered, List.filterMap_cons, id, routeMember]
      by_cases hn : cfg.isNotif m = true <;> simp [hn]

theorem members_rejections (cfg : Cfg μ) (items : List (Option μ)) :
    rejections (items.flatMap (routeMember cfg)) = 0 := by
  induction items with
  | nil => rfl
  | cons x xs ih =>
    cases x with
    | none => simp [List.flatMap_cons, rejections_append, ih, rejections, routeMember]
    | some m => simp [List.flatMap_cons, rejections_append, ih, route_rejections, routeMember]

/-- per line: what is offered on the notification stream is exactly the id-less part of what is
delivered -/
theorem processLine_offered (cfg : Cfg μ) (b : Bool) (line : List Nat) :
    offered (processLine cfg b line) = (delivered (processLine cfg b line)).filter cfg.isNotif := by
  unfold processLine
  simp only
  split
  · rfl
  · split
    · rfl
    · rename_i m _
      rw [route_offered, route_delivered]
      by_cases hn : cfg.isNotif m = true <;> simp [hn]
    · split
      · rw [members_offered, members_delivered]
      · rfl

theorem lines_offered (cfg : Cfg μ) (b : Bool) (lines : List (List Nat)) :
    offered (lines.flatMap (processLine cfg b))
      = (delivered (lines.flatMap (processLine cfg b))).filter cfg.isNotif := by
  induction lines with
  | nil => rfl
  | cons l ls ih =>
    simp [List.flatMap_cons, offered_append, delivered_append, ih, processLine_offered]

/-! ### vocabulary of the C05 / C13 theorems -/

/-- the text is made of Unicode scalar values (its encoding is valid UTF-8) -/
def ValidText (text : List Nat) : Prop := ∀ c ∈ text, isScalar c = true

/-- a line the child wrote: valid text without a raw LF (it may contain CR, U+0085, U+2028,
U+2029, VT, FF, … anywhere) -/
def ValidItem (it : Item) : Prop := ValidText it.text ∧ LF ∉ it.text

theorem validText_render (items : List Item) (h : ∀ it ∈ items, ValidItem it) :
    ValidText (render items) := by
  intro c hc
  simp only [render, List.mem_flatMap] at hc
  obtain ⟨it, hit, hc⟩ := hc
  simp only [Item.rendered, List.mem_append] at hc
  rcases hc with hc | hc
  · exact (h it hit).1 c hc
  · split at hc <;> simp [CR, LF] at hc <;> rcases hc with rfl | rfl <;> decide


/-! ### runs over event lists -/

theorem run_append (cfg : Cfg μ) (st : St) (a b : List Ev) :
    run cfg st (a ++ b) = ((run cfg (run cfg st a).1 b).1, (run cfg st a).2 ++ (run cfg (run cfg st a).1 b).2) := by
  induction a generalizing st with
  | nil => simp [run]
  | cons e es ih => simp [run, ih, List.append_assoc]

theorem run_setVersion (cfg : Cfg μ) (st : St) (v : Option (List Char)) (es : List Ev) :
    run cfg st (.setVersion v :: es) = run cfg { st with batching := supportsBatching v } es := by
  simp [run, step]

/-- after a handshake at version `v`: every chunking of a stream of complete lines is processed
line by line in the mode of `v`, and leaves the reader with empty buffers in that mode -/
theorem run_items (cfg : Cfg μ) (b : Bool) (items : List Item) (chunks : List (List Nat))
    (hi : ∀ it ∈ items, ValidItem it) (hc : chunks.flatten = encode (render items)) :
    run cfg { init with batching := b } (chunks.map Ev.chunk) =
      ({ init with batching := b }, items.flatMap (fun it => processLine cfg b it.text)) := by
  have h := runChunks_valid cfg b (render items) chunks (validText_render items hi) hc
  unfold runChunks at h
  rw [h, split_render items (fun it h => (hi it h).2)]
  simp [List.flatMap_map, processLine_lineOf, init]

end Verif.Lemmas.StdioIn
