import Verif.Lemmas.Shared
import Verif.Lemmas.Await
namespace Verif.Model.Shared
open Verif.Model.Await
variable {α : Type}

theorem modifyAt_getElem? (cs : List (CState α)) (i k : Nat) (f : CState α → CState α) :
    (modifyAt cs i f)[k]? = if k = i then (cs[k]?).map f else cs[k]? := by
  induction cs generalizing i k with
  | nil => simp [modifyAt]
  | cons x xs ih =>
    cases i with
    | zero =>
      cases k with
      | zero => simp [modifyAt]
      | succ k => simp [modifyAt]
    | succ i =>
      cases k with
      | zero => simp [modifyAt]
      | succ k => simp [modifyAt, ih]

theorem argminWaiting_spec (f : CState α → Nat) (cs : List (CState α)) (s j v : Nat)
    (h : argminWaiting f cs s = some (j, v)) :
    s ≤ j ∧ ∃ c, cs[j - s]? = some c ∧ c.st.isWaiting = true ∧ f c = v := by
  induction cs generalizing s j v with
  | nil => simp [argminWaiting] at h
  | cons x xs ih =>
    simp only [argminWaiting] at h
    split at h
    · rename_i hw
      split at h
      · simp at h
        obtain ⟨rfl, rfl⟩ := h
        exact ⟨Nat.le_refl _, x, by simp, hw, rfl⟩
      · rename_i j' v' hr
        split at h
        · simp at h
          obtain ⟨rfl, rfl⟩ := h
          exact ⟨Nat.le_refl _, x, by simp, hw, rfl⟩
        · simp at h
          obtain ⟨hj, hv⟩ := h
          obtain ⟨h1, c, h2, h3, h4⟩ := ih _ _ _ hr
          rw [← hj, ← hv]
          refine ⟨by omega, c, ?_, h3, h4⟩
          have : j' - s = (j' - (s + 1)) + 1 := by omega
          rw [this]; simpa using h2
    · obtain ⟨h1, c, h2, h3, h4⟩ := ih _ _ _ h
      refine ⟨by omega, c, ?_, h3, h4⟩
      have : j - s = (j - (s + 1)) + 1 := by omega
      rw [this]; simpa using h2

theorem argminWaiting_none (f : CState α → Nat) (cs : List (CState α)) (s : Nat)
    (h : argminWaiting f cs s = none) : ∀ c ∈ cs, c.st.isWaiting = false := by
  induction cs generalizing s with
  | nil => simp
  | cons x xs ih =>
    simp only [argminWaiting] at h
    split at h
    · split at h <;> (try split at h) <;> simp at h
    · rename_i hw
      intro c hc
      simp at hc
      rcases hc with rfl | hc
      · simpa using hw
      · exact ih _ h c hc

end Verif.Model.Shared

namespace Verif.Model.Shared
open Verif.Model.Await
variable {α : Type}

theorem pick_deadline {dl : Option (Nat × Nat)} {arr : Option Nat} {ex : Option (Nat × Nat)} {i t : Nat}
    (h : pick dl arr ex = .deadline i t) : dl = some (i, t) ∧ ∀ a, arr = some a → t ≤ a := by
  rcases dl with _ | ⟨j, d⟩ <;> rcases arr with _ | a <;> rcases ex with _ | ⟨k, e⟩ <;>
    simp only [pick] at h
  all_goals (repeat' (split at h))
  all_goals (first | (rename_i hq _; split at hq) | (rename_i hq; split at hq) | skip)
  all_goals (try simp_all)
  all_goals (try omega)

theorem pick_expiry {dl : Option (Nat × Nat)} {arr : Option Nat} {ex : Option (Nat × Nat)} {i t : Nat}
    (h : pick dl arr ex = .expiry i t) : ex = some (i, t) := by
  rcases dl with _ | ⟨j, d⟩ <;> rcases arr with _ | a <;> rcases ex with _ | ⟨k, e⟩ <;>
    simp only [pick] at h
  all_goals (repeat' (split at h))
  all_goals (first | (rename_i hq _; split at hq) | (rename_i hq; split at hq) | skip)
  all_goals (try simp_all)

theorem classifyFor_ne_timedOut (R : Int → Bool) (c : Caller) (m : In α) :
    classifyFor R c m ≠ some .timedOut := by
  cases m <;> simp [classifyFor, errOutcome] <;> split <;> simp

end Verif.Model.Shared

namespace Verif.Model.Shared
open Verif.Model.Await
variable {α : Type}

/-- bookkeeping invariant of the simulation: `proc` = arrivals already handled, `ev` = still to come -/
structure LossInv (hist proc ev : List (Nat × In α)) (cs : List (CState α)) : Prop where
  split : hist = proc ++ ev
  /-- every handled response addressed to caller `k` was consumed by ANOTHER caller, unless `k` had
  completed (normally at any time, or by its deadline no later than that arrival) -/
  lost : ∀ (k : Nat) (c : CState α), cs[k]? = some c → ∀ (a : Nat) (p : α), (a, In.resp c.caller.id p) ∈ proc →
      (∃ (k' : Nat) (c' : CState α), k' ≠ k ∧ cs[k']? = some c' ∧ a ∈ c'.got)
      ∨ (∃ o t, c.st = .done o t ∧ (o = .timedOut → t ≤ a))
  /-- a timed-out caller timed out at its deadline, and nothing still to come is earlier -/
  late : ∀ (k : Nat) (c : CState α), cs[k]? = some c → ∀ t, c.st = .done .timedOut t →
      t = c.caller.D ∧ ∀ x ∈ ev, t ≤ x.1

theorem deliver_caller (R : Int → Bool) (P : Nat) (c : CState α) (a : Nat) (m : In α) :
    (deliver R P c a m).caller = c.caller := by
  unfold deliver; split <;> rfl

theorem deliver_got (R : Int → Bool) (P : Nat) (c : CState α) (a : Nat) (m : In α) :
    (deliver R P c a m).got = c.got ++ [a] := by
  unfold deliver; split <;> rfl

theorem isWaiting_not_done {c : CState α} (h : c.st.isWaiting = true) (o : Outcome α) (t : Nat) :
    c.st ≠ .done o t := by
  intro he; rw [he] at h; simp [St.isWaiting] at h

/-- a step that only changes the state of a WAITING caller `i` (not what it consumed, not who it
is), making it anything but "timed out", or timed out at its deadline with nothing earlier to come -/
theorem LossInv.step_st {hist proc ev : List (Nat × In α)} {cs : List (CState α)} (inv : LossInv hist proc ev cs)
    (i : Nat) (ci : CState α) (hi : cs[i]? = some ci) (hw : ci.st.isWaiting = true)
    (f : CState α → CState α) (hg : ∀ c, (f c).got = c.got) (hc : ∀ c, (f c).caller = c.caller)
    (hto : ∀ t, (f ci).st = .done .timedOut t → t = ci.caller.D ∧ ∀ x ∈ ev, t ≤ x.1) :
    LossInv hist proc ev (modifyAt cs i f) := by
  refine ⟨inv.split, ?_, ?_⟩
  · intro k c hk a p hp
    rw [modifyAt_getElem?] at hk
    by_cases hki : k = i
    · subst hki
      simp only [if_true, hi, Option.map_some, Option.some.injEq] at hk
      subst hk
      rcases inv.lost k ci hi a p (by rw [hc] at hp; exact hp) with ⟨k', c', h1, h2, h3⟩ | ⟨o, t, h1, _⟩
      · left
        refine ⟨k', c', h1, ?_, h3⟩
        rw [modifyAt_getElem?]; simp [h1, h2]
      · exact absurd h1 (isWaiting_not_done hw o t)
    · simp only [hki, if_false] at hk
      rcases inv.lost k c hk a p hp with ⟨k', c', h1, h2, h3⟩ | h
      · left
        by_cases hk'i : k' = i
        · subst hk'i
          refine ⟨k', f c', h1, ?_, by rw [hg]; exact h3⟩
          rw [modifyAt_getElem?]; simp [h2]
        · refine ⟨k', c', h1, ?_, h3⟩
          rw [modifyAt_getElem?]; simp [hk'i, h2]
      · exact Or.inr h
  · intro k c hk t ht
    rw [modifyAt_getElem?] at hk
    by_cases hki : k = i
    · subst hki
      simp only [if_true, hi, Option.map_some, Option.some.injEq] at hk
      subst hk
      rw [hc]
      exact hto t ht
    · simp only [hki, if_false] at hk
      exact inv.late k c hk t ht

theorem sorted_head_le {ev : List (Nat × In α)} (hs : Sorted ev) (a : Nat)
    (h : ev.head?.map (·.1) = some a) : ∀ x ∈ ev, a ≤ x.1 := by
  cases ev with
  | nil => simp at h
  | cons y ys =>
    simp at h
    subst h
    intro x hx
    simp at hx
    rcases hx with rfl | hx
    · exact Nat.le_refl _
    · exact (List.pairwise_cons.mp hs).1 x hx

/-- the invariant is kept by the simulation -/
theorem sim_lossInv (R : Int → Bool) (P : Nat) (hist : List (Nat × In α)) :
    ∀ (fuel : Nat) (cs : List (CState α)) (proc ev : List (Nat × In α)), Sorted ev →
      LossInv hist proc ev cs → ∃ proc' ev', LossInv hist proc' ev' (sim R P fuel cs ev) := by
  intro fuel
  induction fuel with
  | zero => intro cs proc ev _ inv; exact ⟨proc, ev, by simpa [sim] using inv⟩
  | succ n ih =>
    intro cs proc ev hs inv
    unfold sim
    simp only
    split
    · exact ⟨proc, ev, inv⟩
    · -- a deadline
      rename_i i t hpick
      obtain ⟨hdl, harr⟩ := pick_deadline hpick
      obtain ⟨_, ci, hi, hw, hD⟩ := argminWaiting_spec _ _ _ _ _ hdl
      simp only [Nat.sub_zero] at hi
      apply ih _ proc ev hs
      apply inv.step_st i ci hi hw _ (by intro c; rfl) (by intro c; rfl)
      intro t' ht'
      simp at ht'
      refine ⟨ht'.symm, ?_⟩
      intro x hx
      cases hh : ev.head?.map (·.1) with
      | none => cases ev <;> simp_all
      | some a =>
        have := harr a hh
        have := sorted_head_le hs a hh x hx
        omega
    · -- a poll expiry
      rename_i i t hpick
      have hex := pick_expiry hpick
      obtain ⟨_, ci, hi, hw, _⟩ := argminWaiting_spec _ _ _ _ _ hex
      simp only [Nat.sub_zero] at hi
      apply ih _ proc ev hs
      apply inv.step_st i ci hi hw _ (by intro c; rfl) (by intro c; rfl)
      intro t' ht'
      simp at ht'
    · -- an arrival
      split
      · exact ⟨proc, [], inv⟩
      · rename_i a m rest _
        have hs' : Sorted rest := (List.pairwise_cons.mp hs).2
        have hsplit : hist = (proc ++ [(a, m)]) ++ rest := by rw [inv.split]; simp
        split
        · -- nobody is waiting: the message is dropped
          rename_i hnone
          have hdone := argminWaiting_none _ _ _ hnone
          apply ih cs (proc ++ [(a, m)]) rest hs'
          refine ⟨hsplit, ?_, ?_⟩
          · intro k c hk a' p hp
            simp at hp
            rcases hp with hp | ⟨rfl, rfl⟩
            · exact inv.lost k c hk a' p hp
            · right
              have hcm : c ∈ cs := List.mem_of_getElem? hk
              have hnw := hdone c hcm
              cases hst : c.st with
              | waiting s e => rw [hst] at hnw; simp [St.isWaiting] at hnw
              | done o t =>
                refine ⟨o, t, rfl, ?_⟩
                intro ho
                subst ho
                exact (inv.late k c hk t hst).2 (a', In.resp c.caller.id p) (by simp)
          · intro k c hk t ht
            obtain ⟨h1, h2⟩ := inv.late k c hk t ht
            exact ⟨h1, fun x hx => h2 x (by simp [hx])⟩
        · -- handed to the caller that has been waiting longest
          rename_i i v hsome
          obtain ⟨_, ci, hi, hw, _⟩ := argminWaiting_spec _ _ _ _ _ hsome
          simp only [Nat.sub_zero] at hi
          apply ih _ (proc ++ [(a, m)]) rest hs'
          refine ⟨hsplit, ?_, ?_⟩
          · intro k c hk a' p hp
            rw [modifyAt_getElem?] at hk
            simp at hp
            by_cases hki : k = i
            · subst hki
              simp only [if_true, hi, Option.map_some, Option.some.injEq] at hk
              subst hk
              rw [deliver_caller] at hp
              rcases hp with hp | ⟨rfl, rfl⟩
              · rcases inv.lost k ci hi a' p hp with ⟨k', c', h1, h2, h3⟩ | ⟨o, t, h1, _⟩
                · left
                  refine ⟨k', c', h1, ?_, h3⟩
                  rw [modifyAt_getElem?]; simp [h1, h2]
                · exact absurd h1 (isWaiting_not_done hw o t)
              · right
                refine ⟨.returned p, a', ?_, by intro h; cases h⟩
                simp [deliver, classifyFor]
            · simp only [hki, if_false] at hk
              rcases hp with hp | ⟨rfl, rfl⟩
              · rcases inv.lost k c hk a' p hp with ⟨k', c', h1, h2, h3⟩ | h
                · left
                  by_cases hk'i : k' = i
                  · subst hk'i
                    refine ⟨k', deliver R P c' a m, h1, ?_, by rw [deliver_got]; simp [h3]⟩
                    rw [modifyAt_getElem?]; simp [h2]
                  · refine ⟨k', c', h1, ?_, h3⟩
                    rw [modifyAt_getElem?]; simp [hk'i, h2]
                · exact Or.inr h
              · left
                refine ⟨i, deliver R P ci a' (In.resp c.caller.id p), fun h => hki h.symm, ?_, by rw [deliver_got]; simp⟩
                rw [modifyAt_getElem?]; simp [hi]
          · intro k c hk t ht
            rw [modifyAt_getElem?] at hk
            by_cases hki : k = i
            · subst hki
              simp only [if_true, hi, Option.map_some, Option.some.injEq] at hk
              subst hk
              exfalso
              unfold deliver at ht
              split at ht
              · rename_i o ho
                simp at ht
                exact classifyFor_ne_timedOut R ci.caller m (by rw [ho, ht.1])
              · simp at ht
            · simp only [hki, if_false] at hk
              obtain ⟨h1, h2⟩ := inv.late k c hk t ht
              exact ⟨h1, fun x hx => h2 x (by simp [hx])⟩

end Verif.Model.Shared
