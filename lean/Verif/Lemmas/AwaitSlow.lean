import Verif.Model.AwaitSlow
import Verif.Lemmas.Await
/-! Lemmas about the receive loop with callbacks that take time. -/
namespace Verif.Model.AwaitSlow
open Verif.Model.Await
variable {α : Type}

/-- with instantaneous callbacks `loopD` IS `loop`: everything proved about the receive loop of
`Model/Await.lean` is a statement about `loopD` at duration zero -/
theorem loopD_zero (R : Int → Bool) (cfg : Cfg α) (t : Nat) (ev : List (Nat × In α))
    (ws : List Write) (cbs) (n : Nat) :
    loopD R cfg (fun _ => 0) t ev ws cbs n = loop R cfg t ev ws cbs n := by
  fun_induction loopD R cfg (fun _ => 0) t ev ws cbs n <;> (rw [loop]; simp_all (config := { zetaDelta := true }))
  all_goals (first | (intro h; exfalso; omega) | (rw [if_neg (by omega), if_neg (by omega)]) | (rw [if_neg (by omega)]) | skip)
  all_goals (split <;> first | rfl | (exfalso; omega))

/-- completion time never exceeds the deadline, however long the callbacks take -/
theorem loopD_time_le_deadline (R : Int → Bool) (cfg : Cfg α) (dur : Nat → Nat) (t : Nat)
    (ev : List (Nat × In α)) (ws : List Write) (cbs) (n : Nat) :
    (loopD R cfg dur t ev ws cbs n).time ≤ cfg.D := by
  fun_induction loopD R cfg dur t ev ws cbs n
  case case2 t ev cbs n hD hv =>
    rcases onCancel_cases cfg t ws cbs n with ⟨e, _⟩ | ⟨e, _⟩ | ⟨e, _⟩ | ⟨r, e, _, h1, h2⟩ <;> rw [e] <;> simp <;> omega
  all_goals simp_all [arrivesInTime]
  all_goals try omega
  all_goals (first | (split <;> (try split) <;> (try split) <;> simp <;> omega) | (split at * <;> omega) | (rename_i h; rcases h with h | h <;> (try split at h) <;> omega) | skip)

/-- soundness of a normal return with slow callbacks: still the first matching message -/
theorem loopD_returned_sound (R : Int → Bool) (cfg : Cfg α) (dur : Nat → Nat) (t : Nat)
    (ev : List (Nat × In α)) (ws : List Write) (cbs) (n : Nat) (p : α)
    (h : (loopD R cfg dur t ev ws cbs n).outcome = .returned p) :
    ∃ pre a post, ev = pre ++ (a, In.resp cfg.reqId p) :: post ∧ NoMatch cfg pre := by
  fun_induction loopD R cfg dur t ev ws cbs n
  case case1 => simp at h
  case case2 t ev cbs n hD hv =>
    rcases onCancel_cases cfg t ws cbs n with ⟨e, _⟩ | ⟨e, _⟩ | ⟨e, _⟩ | ⟨r, e, _, h1, h2⟩ <;> rw [e] at h <;> simp at h
  case case3 => simp at h
  case case4 ih => exact ih h
  case case5 t cbs n _ _ lim a m rest _ t' p' hc =>
    simp at h
    subst h
    exact ⟨[], a, rest, by rw [classify_ret hc]; rfl, NoMatch.nil⟩
  case case6 => simp [errOutcome] at h
  case case7 t cbs n _ _ lim a m rest _ t' args hc ih =>
    obtain ⟨pre, a', post, he, hn⟩ := ih h
    exact ⟨(a, m) :: pre, a', post, by rw [he]; rfl, NoMatch.cons (classify_progress_nomatch hc) hn⟩
  case case8 t cbs n _ _ lim a m rest _ t' hc ih =>
    obtain ⟨pre, a', post, he, hn⟩ := ih h
    exact ⟨(a, m) :: pre, a', post, by rw [he]; rfl, NoMatch.cons (classify_skip_nomatch hc) hn⟩
  case case9 => simp at h
  case case10 ih => exact ih h

/-- does the loop hand this message to the progress callback? -/
def isProgress (cfg : Cfg α) (m : In α) : Bool :=
  match classify cfg m with
  | .progress _ => true
  | _ => false

/-- the callback invocations extend the ones made so far, one per consumed matching progress
notification, in order: nothing is invented, nothing is reported twice -/
theorem loopD_callbacks_prefix (R : Int → Bool) (cfg : Cfg α) (dur : Nat → Nat) (t : Nat)
    (ev : List (Nat × In α)) (ws : List Write) (cbs) (n : Nat) :
    ∃ more, (loopD R cfg dur t ev ws cbs n).callbacks = cbs ++ more
      ∧ more.length ≤ (ev.filter (fun x => isProgress cfg x.2)).length := by
  fun_induction loopD R cfg dur t ev ws cbs n
  case case2 t ev cbs n hD hv =>
    rcases onCancel_cases cfg t ws cbs n with ⟨e, _⟩ | ⟨e, _⟩ | ⟨e, _⟩ | ⟨r, e, _, h1, h2⟩ <;> rw [e] <;> exact ⟨[], by simp, by simp⟩
  case case7 t cbs n _ _ lim a m rest _ t' args hc ih =>
    obtain ⟨more, h1, h2⟩ := ih
    refine ⟨args :: more, by rw [h1]; simp, ?_⟩
    have hp : isProgress cfg m = true := by simp [isProgress, hc]
    simp only [List.filter_cons, hp, if_true, List.length_cons]; omega
  case case8 t cbs n _ _ lim a m rest _ t' hc ih =>
    obtain ⟨more, h1, h2⟩ := ih
    refine ⟨more, h1, ?_⟩
    have hp : isProgress cfg m = false := by simp [isProgress, hc]
    simp only [List.filter_cons, hp]; simpa using h2
  case case4 ih => simpa using ih
  case case10 ih => exact ih
  all_goals exact ⟨[], by simp, by simp⟩

end Verif.Model.AwaitSlow
