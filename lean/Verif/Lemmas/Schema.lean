import Verif.Model.Schema

/-! # Lemmas about the schema model (C09 / C10) -/
set_option linter.unusedSimpArgs false
set_option linter.unusedVariables false
namespace Verif.Lemmas.Schema
open Verif.Model.Schema

/-! ## association lists -/
section Assoc
variable {α β : Type}

@[simp] theorem lookup_nil (k : String) : lookup k ([] : List (String × α)) = none := rfl

theorem lookup_cons (k k' : String) (v : α) (r : List (String × α)) :
    lookup k ((k', v) :: r) = if k' == k then some v else lookup k r := rfl

@[simp] theorem hasKey_nil (k : String) : hasKey k ([] : List (String × α)) = false := rfl

theorem hasKey_cons (k k' : String) (v : α) (r : List (String × α)) :
    hasKey k ((k', v) :: r) = (k' == k || hasKey k r) := by
  simp [hasKey]

theorem hasKey_eq_isSome (k : String) (l : List (String × α)) : hasKey k l = (lookup k l).isSome := by
  induction l with
  | nil => rfl
  | cons p r ih =>
    obtain ⟨k', v⟩ := p
    rw [hasKey_cons, lookup_cons]
    by_cases h : (k' == k) = true <;> simp [h, ih]

theorem lookup_none_of_not_hasKey {k : String} {l : List (String × α)} (h : hasKey k l = false) :
    lookup k l = none := by
  rw [hasKey_eq_isSome] at h
  cases hl : lookup k l <;> simp_all

theorem hasKey_of_lookup {k : String} {l : List (String × α)} {v : α} (h : lookup k l = some v) :
    hasKey k l = true := by
  rw [hasKey_eq_isSome, h]; rfl

theorem lookup_mem {k : String} {l : List (String × α)} {v : α} (h : lookup k l = some v) : (k, v) ∈ l := by
  induction l with
  | nil => simp at h
  | cons p r ih =>
    obtain ⟨k', v'⟩ := p
    rw [lookup_cons] at h
    by_cases hk : (k' == k) = true
    · simp [hk] at h
      have : k' = k := by simpa using hk
      subst this; subst h; simp
    · simp [hk] at h
      exact List.mem_cons_of_mem _ (ih h)

theorem hasKey_of_mem {k : String} {l : List (String × α)} {v : α} (h : (k, v) ∈ l) : hasKey k l = true := by
  simp only [hasKey, List.any_eq_true]
  exact ⟨(k, v), h, by simp⟩

theorem lookup_of_mem_nodup {k : String} {l : List (String × α)} {v : α} (hn : keysNodup l = true)
    (h : (k, v) ∈ l) : lookup k l = some v := by
  induction l with
  | nil => simp at h
  | cons p r ih =>
    obtain ⟨k', v'⟩ := p
    simp only [keysNodup, Bool.and_eq_true, Bool.not_eq_true'] at hn
    rw [lookup_cons]
    rcases List.mem_cons.mp h with h | h
    · injection h with h1 h2; subst h1; subst h2; simp
    · have hk : hasKey k r = true := hasKey_of_mem h
      have : (k' == k) = false := by
        cases hkk : (k' == k)
        · rfl
        · have : k' = k := by simpa using hkk
          subst this; rw [hn.1] at hk; cases hk
      simp [this, ih hn.2 h]

theorem lookup_map_val (g : α → β) (k : String) (l : List (String × α)) :
    lookup k (l.map (fun p => (p.1, g p.2))) = (lookup k l).map g := by
  induction l with
  | nil => rfl
  | cons p r ih =>
    obtain ⟨k', v⟩ := p
    simp only [List.map_cons, lookup_cons]
    by_cases hk : (k' == k) = true <;> simp [hk, ih]

theorem hasKey_append (k : String) (l m : List (String × α)) : hasKey k (l ++ m) = (hasKey k l || hasKey k m) := by
  simp [hasKey]

theorem lookup_append (k : String) (l m : List (String × α)) :
    lookup k (l ++ m) = match lookup k l with | some v => some v | none => lookup k m := by
  induction l with
  | nil => rfl
  | cons p r ih =>
    obtain ⟨k', v⟩ := p
    simp only [List.cons_append, lookup_cons]
    by_cases hk : (k' == k) = true <;> simp [hk, ih]

theorem setKey_of_not_hasKey {k : String} {v : α} {l : List (String × α)} (h : hasKey k l = false) :
    setKey k v l = l ++ [(k, v)] := by
  induction l with
  | nil => rfl
  | cons p r ih =>
    obtain ⟨k', v'⟩ := p
    rw [hasKey_cons] at h
    simp only [Bool.or_eq_false_iff] at h
    simp [setKey, h.1, ih h.2]

theorem foldl_setKey_nodup (l acc : List (String × α)) (hn : keysNodup l = true)
    (hd : ∀ p ∈ l, hasKey p.1 acc = false) :
    l.foldl (fun acc p => setKey p.1 p.2 acc) acc = acc ++ l := by
  induction l generalizing acc with
  | nil => simp
  | cons p r ih =>
    obtain ⟨k, v⟩ := p
    simp only [keysNodup, Bool.and_eq_true, Bool.not_eq_true'] at hn
    simp only [List.foldl_cons]
    rw [setKey_of_not_hasKey (hd (k, v) (by simp))]
    rw [ih (acc ++ [(k, v)]) hn.2]
    · simp
    · intro p hp
      rw [hasKey_append, hd p (List.mem_cons_of_mem _ hp)]
      simp only [Bool.false_or]
      rw [hasKey_cons]
      simp only [hasKey_nil, Bool.or_false]
      cases hkk : (k == p.1)
      · rfl
      · have : k = p.1 := by simpa using hkk
        have h2 : hasKey k r = true := by rw [this]; exact hasKey_of_mem (v := p.2) hp
        rw [hn.1] at h2; cases h2

/-- successive dict assignment of distinct keys is the list itself -/
theorem collapse_of_nodup (l : List (String × α)) (hn : keysNodup l = true) : collapse l = l := by
  unfold collapse
  rw [foldl_setKey_nodup l [] hn (by intro p _; rfl)]
  simp

theorem keysNodup_map_key (g : String → String) (l : List (String × α))
    (hinj : ∀ p ∈ l, ∀ q ∈ l, g p.1 = g q.1 → p.1 = q.1) (hn : keysNodup l = true) :
    keysNodup (l.map (fun p => (g p.1, p.2))) = true := by
  induction l with
  | nil => rfl
  | cons p r ih =>
    obtain ⟨k, v⟩ := p
    simp only [keysNodup, Bool.and_eq_true, Bool.not_eq_true'] at hn
    simp only [List.map_cons, keysNodup, Bool.and_eq_true, Bool.not_eq_true']
    refine ⟨?_, ih (fun p hp q hq => hinj p (List.mem_cons_of_mem _ hp) q (List.mem_cons_of_mem _ hq)) hn.2⟩
    cases hh : hasKey (g k) (r.map (fun p => (g p.1, p.2)))
    · rfl
    · simp only [hasKey, List.any_eq_true, List.mem_map] at hh
      obtain ⟨q, ⟨p, hp, rfl⟩, hq⟩ := hh
      have hgeq : g p.1 = g k := by simpa using hq
      have := hinj (k, v) (by simp) p (List.mem_cons_of_mem _ hp) hgeq.symm
      have h2 : hasKey k r = true := by
        simp only at this
        rw [this]; exact hasKey_of_mem (v := p.2) hp
      rw [hn.1] at h2; cases h2

end Assoc

/-! ## well-formed classes -/

/-- well-formedness of a generated class table entry (decided by `classWF` on every run) -/
structure ClassWF (c : Class) : Prop where
  names_nodup : (c.fields.map (·.name)).Nodup
  wires_nodup : (c.fields.map (·.wire)).Nodup
  /-- a member that may be absent has a default or an `Optional[...]` type -/
  opt_or_default : ∀ f ∈ c.fields, f.required = false → f.default = none → f.ty.isOpt = true
  default_not_none : ∀ f ∈ c.fields, ∀ d, f.default = some d → d.isNone = false

theorem find?_name_of_mem {fs : List Field} {f : Field} (hn : (fs.map (·.name)).Nodup) (hf : f ∈ fs) :
    fs.find? (fun g => g.name == f.name) = some f := by
  induction fs with
  | nil => simp at hf
  | cons g r ih =>
    simp only [List.map_cons, List.nodup_cons] at hn
    rw [List.find?_cons]
    rcases List.mem_cons.mp hf with h | h
    · subst h; simp
    · have : (g.name == f.name) = false := by
        cases hg : (g.name == f.name)
        · rfl
        · exfalso; apply hn.1
          have : g.name = f.name := by simpa using hg
          rw [this]; exact List.mem_map_of_mem h
      simp [this, ih hn.2 h]

theorem find?_wire_of_mem {fs : List Field} {f : Field} (hn : (fs.map (·.wire)).Nodup) (hf : f ∈ fs) :
    fs.find? (fun g => g.wire == f.wire) = some f := by
  induction fs with
  | nil => simp at hf
  | cons g r ih =>
    simp only [List.map_cons, List.nodup_cons] at hn
    rw [List.find?_cons]
    rcases List.mem_cons.mp hf with h | h
    · subst h; simp
    · have : (g.wire == f.wire) = false := by
        cases hg : (g.wire == f.wire)
        · rfl
        · exfalso; apply hn.1
          have : g.wire = f.wire := by simpa using hg
          rw [this]; exact List.mem_map_of_mem h
      simp [this, ih hn.2 h]

theorem byName_of_mem {c : Class} (h : ClassWF c) {f : Field} (hf : f ∈ c.fields) : c.byName f.name = some f :=
  find?_name_of_mem h.names_nodup hf

theorem byWire_of_mem {c : Class} (h : ClassWF c) {f : Field} (hf : f ∈ c.fields) : c.byWire f.wire = some f :=
  find?_wire_of_mem h.wires_nodup hf

theorem byWire_some {c : Class} {k : String} {f : Field} (h : c.byWire k = some f) : f ∈ c.fields ∧ f.wire = k := by
  unfold Class.byWire at h
  exact ⟨List.mem_of_find?_eq_some h, by simpa using List.find?_some h⟩

theorem byName_some {c : Class} {k : String} {f : Field} (h : c.byName k = some f) : f ∈ c.fields ∧ f.name = k := by
  unfold Class.byName at h
  exact ⟨List.mem_of_find?_eq_some h, by simpa using List.find?_some h⟩

theorem byWire_none {c : Class} {k : String} (h : c.byWire k = none) : ∀ f ∈ c.fields, f.wire ≠ k := by
  unfold Class.byWire at h
  intro f hf he
  have := List.find?_eq_none.mp h f hf
  simp [he] at this

theorem byName_none {c : Class} {k : String} (h : c.byName k = none) : ∀ f ∈ c.fields, f.name ≠ k := by
  unfold Class.byName at h
  intro f hf he
  have := List.find?_eq_none.mp h f hf
  simp [he] at this

theorem attrOf_wire {c : Class} {k : String} {f : Field} (h : c.byWire k = some f) : c.attrOf k = f.name := by
  simp [Class.attrOf, h]

theorem attrOf_extra {c : Class} {k : String} (h : c.byWire k = none) : c.attrOf k = k := by
  simp [Class.attrOf, h]

/-- the side condition of `conformsMembers` on a member name: it is not the attribute name of an aliased field -/
def NotAttrName (c : Class) (k : String) : Prop := ∀ f ∈ c.fields, f.name = f.wire ∨ f.name ≠ k

/-- an unknown member (no field has this wire name, and it is no aliased attribute name) is no field at all -/
theorem byName_extra {c : Class} {k : String} (hw : c.byWire k = none) (hk : NotAttrName c k) : c.byName k = none := by
  cases hb : c.byName k with
  | none => rfl
  | some g =>
    obtain ⟨hg, hgn⟩ := byName_some hb
    rcases hk g hg with h | h
    · exact absurd (h ▸ hgn) (byWire_none hw g hg)
    · exact absurd hgn h

/-- `_process_aliases` is injective on the member names of a conforming object -/
theorem attrOf_inj {c : Class} (h : ClassWF c) {k₁ k₂ : String} (h₁ : NotAttrName c k₁) (h₂ : NotAttrName c k₂)
    (he : c.attrOf k₁ = c.attrOf k₂) : k₁ = k₂ := by
  cases hw₁ : c.byWire k₁ with
  | some f₁ =>
    obtain ⟨hf₁, hfw₁⟩ := byWire_some hw₁
    cases hw₂ : c.byWire k₂ with
    | some f₂ =>
      obtain ⟨hf₂, hfw₂⟩ := byWire_some hw₂
      rw [attrOf_wire hw₁, attrOf_wire hw₂] at he
      have e1 := byName_of_mem h hf₁
      have e2 := byName_of_mem h hf₂
      rw [he] at e1
      have : f₁ = f₂ := by rw [e1] at e2; injection e2
      subst this; rw [← hfw₁, ← hfw₂]
    | none =>
      rw [attrOf_wire hw₁, attrOf_extra hw₂] at he
      rcases h₂ f₁ hf₁ with hh | hh
      · exact absurd (by rw [← hh, he]) (byWire_none hw₂ f₁ hf₁)
      · exact absurd he hh
  | none =>
    cases hw₂ : c.byWire k₂ with
    | some f₂ =>
      obtain ⟨hf₂, hfw₂⟩ := byWire_some hw₂
      rw [attrOf_extra hw₁, attrOf_wire hw₂] at he
      rcases h₁ f₂ hf₂ with hh | hh
      · exact absurd (by rw [← hh, ← he]) (byWire_none hw₁ f₂ hf₂)
      · exact absurd he.symm hh
    | none =>
      rw [attrOf_extra hw₁, attrOf_extra hw₂] at he; exact he

/-! ## the round-trip statement and its container cases -/

/-- the statement proved for every type and every value: on a conforming, unambiguous value the
validator succeeds and dumping the result gives the specified value -/
def Good (cfg : Cfg) (t : Ty) (j : Json) : Prop :=
  conforms cfg t j = true → unamb cfg t j = true →
    ∃ v, validate cfg t j = .ok v ∧ dump cfg true true v = expected cfg t j ∧ v.isNone = j.isNull

variable {cfg : Cfg}

theorem good_list (t : Ty) (xs : List Json) (h : ∀ x ∈ xs, Good cfg t x)
    (hc : conformsList cfg t xs = true) (hu : unambList cfg t xs = true) :
    ∃ vs, validateList cfg t xs = .ok vs ∧ dumpList cfg true true vs = expectedList cfg t xs := by
  induction xs with
  | nil => exact ⟨[], by simp [validateList, dumpList, expectedList]⟩
  | cons x r ih =>
    simp only [conformsList, Bool.and_eq_true] at hc
    simp only [unambList, Bool.and_eq_true] at hu
    obtain ⟨v, hv, hd, _⟩ := h x (by simp) hc.1 hu.1
    obtain ⟨vs, hvs, hds⟩ := ih (fun y hy => h y (List.mem_cons_of_mem _ hy)) hc.2 hu.2
    refine ⟨v :: vs, ?_, ?_⟩
    · simp [validateList, hv, hvs]
    · simp [dumpList, expectedList, hd, hds]

theorem good_vals (t : Ty) (kvs : List (String × Json)) (h : ∀ p ∈ kvs, Good cfg t p.2)
    (hc : conformsVals cfg t kvs = true) (hu : unambVals cfg t kvs = true) :
    ∃ vs, validateVals cfg t kvs = .ok vs ∧ dumpVals cfg true true vs = expectedVals cfg t kvs := by
  induction kvs with
  | nil => exact ⟨[], by simp [validateVals, dumpVals, expectedVals]⟩
  | cons p r ih =>
    obtain ⟨k, x⟩ := p
    simp only [conformsVals, Bool.and_eq_true] at hc
    simp only [unambVals, Bool.and_eq_true] at hu
    obtain ⟨v, hv, hd, _⟩ := h (k, x) (by simp) hc.1 hu.1
    obtain ⟨vs, hvs, hds⟩ := ih (fun y hy => h y (List.mem_cons_of_mem _ hy)) hc.2 hu.2
    refine ⟨(k, v) :: vs, ?_, ?_⟩
    · simp [validateVals, hv, hvs]
    · simp [dumpVals, expectedVals, hd, hds]

theorem dumpList_leaf (b1 b2 : Bool) (xs : List Json) : dumpList cfg b1 b2 (xs.map .leaf) = xs := by
  induction xs with
  | nil => simp [dumpList]
  | cons x r ih => simp [dumpList, dump, ih]

theorem dumpVals_leaf (b1 b2 : Bool) (kvs : List (String × Json)) :
    dumpVals cfg b1 b2 (kvs.map (fun p => (p.1, .leaf p.2))) = kvs := by
  induction kvs with
  | nil => simp [dumpVals]
  | cons p r ih => obtain ⟨k, x⟩ := p; simp [dumpVals, dump, ih]

theorem expected_any (j : Json) : expected cfg .any j = j := by
  cases j <;> simp [expected]

theorem expectedList_any (xs : List Json) : expectedList cfg .any xs = xs := by
  induction xs with
  | nil => simp [expectedList]
  | cons x r ih => simp [expectedList, expected_any, ih]

theorem expectedVals_any (kvs : List (String × Json)) : expectedVals cfg .any kvs = kvs := by
  induction kvs with
  | nil => simp [expectedVals]
  | cons p r ih => obtain ⟨k, x⟩ := p; simp [expectedVals, expected_any, ih]
variable {cfg : Cfg}

theorem exactAny_null (t : Ty) : exactAny t .null = false := by
  induction t with
  | union a b iha ihb => simp [exactAny, iha, ihb]
  | _ => simp [exactAny]

theorem conforms_null_false (t : Ty) (h : t.isOpt = false) : conforms cfg t .null = false := by
  simp [conforms, h]

theorem expected_null (t : Ty) : expected cfg t .null = .null := by
  induction t with
  | opt t ih => simp [expected, ih]
  | union a b iha ihb =>
    simp only [expected, exactAny_null]
    split <;> simp_all
  | _ => simp [expected]

theorem good_null (t : Ty) : Good cfg t .null := by
  intro hc _
  have ho : t.isOpt = true := by simpa [conforms] using hc
  exact ⟨.leaf .null, by simp [validate, ho], by simp [dump, expected_null], rfl⟩

/-! ### generic list facts used by the model-object case -/
section
variable {α β : Type}

theorem lookup_map_dep (h : String × α → β) (k : String) (l : List (String × α)) :
    lookup k (l.map (fun p => (p.1, h p))) = (lookup k l).map (fun x => h (k, x)) := by
  induction l with
  | nil => rfl
  | cons p r ih =>
    obtain ⟨k', v⟩ := p
    simp only [List.map_cons, lookup_cons]
    by_cases hk : (k' == k) = true
    · have : k' = k := by simpa using hk
      subst this; simp
    · simp [hk, ih]

theorem lookup_map_key (g : String → String) (h : String × α → β) (a k : String) (l : List (String × α))
    (hiff : ∀ p ∈ l, (g p.1 = a ↔ p.1 = k)) :
    lookup a (l.map (fun p => (g p.1, h p))) = lookup k (l.map (fun p => (p.1, h p))) := by
  induction l with
  | nil => rfl
  | cons p r ih =>
    obtain ⟨k', v⟩ := p
    simp only [List.map_cons, lookup_cons]
    have := hiff (k', v) (by simp)
    simp only at this
    by_cases hk : k' = k
    · have hg : g k' = a := this.mpr hk
      simp [hk, hg]
      subst hk; simp [hg]
    · have hg : g k' ≠ a := fun e => hk (this.mp e)
      simp [hk, hg]
      exact ih (fun p hp => hiff p (List.mem_cons_of_mem _ hp))

theorem seqFields_ok (l : List (String × TVal)) : seqFields (l.map (fun p => (p.1, .ok p.2))) = .ok l := by
  induction l with
  | nil => rfl
  | cons p r ih => obtain ⟨k, v⟩ := p; simp [seqFields, ih]

theorem dumpFields_append (b1 b2 : Bool) (cls : String) (l m : List (String × TVal)) :
    dumpFields cfg b1 b2 cls (l ++ m) = dumpFields cfg b1 b2 cls l ++ dumpFields cfg b1 b2 cls m := by
  induction l with
  | nil => simp [dumpFields]
  | cons p r ih =>
    obtain ⟨k, v⟩ := p
    simp only [List.cons_append, dumpFields]
    split <;> simp [ih]
end
variable {cfg : Cfg}

/-! ## the model-object case -/

/-- result of one input member, as `validateMembers` computes it -/
def memberRes (cfg : Cfg) (c : Class) (p : String × Json) : Except String TVal :=
  match c.byName (c.attrOf p.1) with
  | some f => validate cfg f.ty p.2
  | none => .ok (.leaf p.2)

def memberVal (cfg : Cfg) (c : Class) (p : String × Json) : TVal :=
  match memberRes cfg c p with
  | .ok v => v
  | .error _ => .leaf .null

/-- specified output value of one input member -/
def expMember (cfg : Cfg) (c : Class) (p : String × Json) : Json :=
  match c.byWire p.1 with
  | some f => expected cfg f.ty p.2
  | none => p.2

theorem validateMembers_eq (c : Class) (kvs : List (String × Json)) :
    validateMembers cfg c kvs = kvs.map (fun p => (c.attrOf p.1, memberRes cfg c p)) := by
  induction kvs with
  | nil => simp [validateMembers]
  | cons p r ih =>
    obtain ⟨k, x⟩ := p
    rw [validateMembers, ih]
    simp only [List.map_cons, memberRes]
    rfl

theorem expectedMembers_eq (c : Class) (kvs : List (String × Json)) :
    expectedMembers cfg c kvs = kvs.map (fun p => (p.1, expMember cfg c p)) := by
  induction kvs with
  | nil => simp [expectedMembers]
  | cons p r ih =>
    obtain ⟨k, x⟩ := p
    rw [expectedMembers, ih]
    simp only [List.map_cons, expMember]
    rfl

theorem conformsMembers_mem {c : Class} {kvs : List (String × Json)} (h : conformsMembers cfg c kvs = true) :
    ∀ p ∈ kvs, p.2.isNull = false ∧ NotAttrName c p.1 ∧ (∀ f, c.byWire p.1 = some f → conforms cfg f.ty p.2 = true) := by
  induction kvs with
  | nil => intro p hp; simp at hp
  | cons q r ih =>
    obtain ⟨k, x⟩ := q
    rw [conformsMembers] at h
    simp only [Bool.and_eq_true, Bool.not_eq_true', List.all_eq_true, Bool.or_eq_true, beq_iff_eq, bne_iff_ne] at h
    obtain ⟨⟨⟨⟨h1, _⟩, h3⟩, h4⟩, h5⟩ := h
    intro p hp
    rcases List.mem_cons.mp hp with hp | hp
    · subst hp
      refine ⟨h1, fun f hf => h3 f hf, ?_⟩
      intro f hf
      simp only [hf] at h4
      exact h4
    · exact ih h5 p hp

theorem unambMembers_mem {c : Class} {kvs : List (String × Json)} (h : unambMembers cfg c kvs = true) :
    ∀ p ∈ kvs, ∀ f, c.byWire p.1 = some f → unamb cfg f.ty p.2 = true := by
  induction kvs with
  | nil => intro p hp; simp at hp
  | cons q r ih =>
    obtain ⟨k, x⟩ := q
    rw [unambMembers] at h
    simp only [Bool.and_eq_true] at h
    intro p hp
    rcases List.mem_cons.mp hp with hp | hp
    · subst hp
      intro f hf
      simp only [hf] at h
      exact h.1
    · exact ih h.2 p hp
variable {cfg : Cfg}

theorem keysNodup_map_key' {α β : Type} (g : String → String) (h : String × α → β) (l : List (String × α))
    (hinj : ∀ p ∈ l, ∀ q ∈ l, g p.1 = g q.1 → p.1 = q.1) (hn : keysNodup l = true) :
    keysNodup (l.map (fun p => (g p.1, h p))) = true := by
  induction l with
  | nil => rfl
  | cons p r ih =>
    obtain ⟨k, v⟩ := p
    simp only [keysNodup, Bool.and_eq_true, Bool.not_eq_true'] at hn
    simp only [List.map_cons, keysNodup, Bool.and_eq_true, Bool.not_eq_true']
    refine ⟨?_, ih (fun p hp q hq => hinj p (List.mem_cons_of_mem _ hp) q (List.mem_cons_of_mem _ hq)) hn.2⟩
    cases hh : hasKey (g k) (r.map (fun p => (g p.1, h p)))
    · rfl
    · simp only [hasKey, List.any_eq_true, List.mem_map] at hh
      obtain ⟨q, ⟨p, hp, rfl⟩, hq⟩ := hh
      have hgeq : g p.1 = g k := by simpa using hq
      have := hinj (k, v) (by simp) p (List.mem_cons_of_mem _ hp) hgeq.symm
      have h2 : hasKey k r = true := by
        simp only at this
        rw [this]; exact hasKey_of_mem (v := p.2) hp
      rw [hn.1] at h2; cases h2

/-- for a member of a conforming object: its attribute name is `f.name` exactly when it is `f`'s wire member -/
theorem attr_eq_name_iff {c : Class} (hwf : ClassWF c) {k : String} (hk : NotAttrName c k) {f : Field}
    (hf : f ∈ c.fields) : c.attrOf k = f.name ↔ k = f.wire := by
  constructor
  · intro he
    cases hw : c.byWire k with
    | some g =>
      obtain ⟨hg, hgw⟩ := byWire_some hw
      rw [attrOf_wire hw] at he
      have e1 := byName_of_mem hwf hg
      have e2 := byName_of_mem hwf hf
      rw [he] at e1
      have : g = f := by rw [e1] at e2; injection e2
      subst this; exact hgw.symm
    | none =>
      rw [attrOf_extra hw] at he
      rcases hk f hf with hh | hh
      · exact absurd (by rw [← hh, ← he]) (byWire_none hw f hf)
      · exact absurd he.symm hh
  · intro he
    subst he
    exact attrOf_wire (byWire_of_mem hwf hf)

/-- what the induction hypothesis gives for each member of a conforming object -/
theorem member_good {c : Class} (hwf : ClassWF c) {kvs : List (String × Json)}
    (ih : ∀ p ∈ kvs, ∀ t, Good cfg t p.2)
    (M : ∀ p ∈ kvs, p.2.isNull = false ∧ NotAttrName c p.1 ∧ (∀ f, c.byWire p.1 = some f → conforms cfg f.ty p.2 = true))
    (U : ∀ p ∈ kvs, ∀ f, c.byWire p.1 = some f → unamb cfg f.ty p.2 = true) :
    ∀ p ∈ kvs, memberRes cfg c p = .ok (memberVal cfg c p)
      ∧ dump cfg true true (memberVal cfg c p) = expMember cfg c p
      ∧ (memberVal cfg c p).isNone = false
      ∧ (c.byWire p.1 = none → c.attrOf p.1 = p.1 ∧ c.byName p.1 = none ∧ memberVal cfg c p = .leaf p.2) := by
  intro p hp
  obtain ⟨hnn, hna, hcf⟩ := M p hp
  cases hw : c.byWire p.1 with
  | some f =>
    obtain ⟨hf, hfw⟩ := byWire_some hw
    obtain ⟨v, hv, hd, hnone⟩ := ih p hp f.ty (hcf f hw) (U p hp f hw)
    have hres : memberRes cfg c p = .ok v := by
      simp only [memberRes, attrOf_wire hw, byName_of_mem hwf hf, hv]
    have hval : memberVal cfg c p = v := by simp only [memberVal, hres]
    refine ⟨by rw [hres, hval], ?_, ?_, by intro h; cases h⟩
    · rw [hval, hd]; simp only [expMember, hw]
    · rw [hval, hnone, hnn]
  | none =>
    have hbn := byName_extra hw hna
    have hres : memberRes cfg c p = .ok (.leaf p.2) := by
      simp only [memberRes, attrOf_extra hw, hbn]
    have hval : memberVal cfg c p = .leaf p.2 := by simp only [memberVal, hres]
    refine ⟨by rw [hres, hval], ?_, ?_, fun _ => ⟨attrOf_extra hw, hbn, hval⟩⟩
    · rw [hval]; simp only [expMember, hw, dump]
    · rw [hval]
      cases hx : p.2 <;> simp_all [TVal.isNone, Json.isNull]
variable {cfg : Cfg}

/-- value of a declared field in the constructed object -/
def fieldVal (cfg : Cfg) (c : Class) (kvs : List (String × Json)) (f : Field) : TVal :=
  match lookup f.wire kvs with
  | some x => memberVal cfg c (f.wire, x)
  | none => match f.default with
    | some d => d
    | none => .leaf .null

theorem find_id {cls : String} {c : Class} (h : cfg.find cls = some c) : cfg.find c.id = some c := by
  unfold Cfg.find at h ⊢
  have h1 : (c.id == cls) = true := List.find?_some (p := fun (c : Class) => c.id == cls) h
  have h2 : c.id = cls := by simpa using h1
  rw [h2]; exact h

theorem outKey_field {cls : String} {c : Class} (hwf : ClassWF c) (h : cfg.find cls = some c) {f : Field}
    (hf : f ∈ c.fields) : outKey cfg true c.id f.name = f.wire := by
  simp [outKey, find_id h, byName_of_mem hwf hf]

theorem outKey_extra {cls : String} {c : Class} (h : cfg.find cls = some c) {k : String}
    (hk : c.byName k = none) : outKey cfg true c.id k = k := by
  simp [outKey, find_id h, hk]

/-- extras: the unknown members, raw, in input order -/
theorem extras_eq {c : Class} {kvs : List (String × Json)}
    (G : ∀ p ∈ kvs, (c.byWire p.1 = none → c.attrOf p.1 = p.1 ∧ c.byName p.1 = none ∧ memberVal cfg c p = .leaf p.2)
        ∧ (∀ f, c.byWire p.1 = some f → c.byName (c.attrOf p.1) = some f)) :
    (kvs.map (fun p => (c.attrOf p.1, memberVal cfg c p))).filter (fun q => (c.byName q.1).isNone)
      = (kvs.filter (fun p => (c.byWire p.1).isNone)).map (fun p => (p.1, .leaf p.2)) := by
  induction kvs with
  | nil => rfl
  | cons p r ih =>
    have ih' := ih (fun q hq => G q (List.mem_cons_of_mem _ hq))
    obtain ⟨g1, g2⟩ := G p (by simp)
    simp only [List.map_cons, List.filter_cons]
    cases hw : c.byWire p.1 with
    | none =>
      obtain ⟨a1, a2, a3⟩ := g1 hw
      simp [a1, a2, a3, ih']
    | some f =>
      simp [g2 f hw, ih']

theorem dump_extras {cls : String} {c : Class} (h : cfg.find cls = some c) (l : List (String × Json))
    (hl : ∀ p ∈ l, p.2.isNull = false ∧ c.byName p.1 = none) :
    dumpFields cfg true true c.id (l.map (fun p => (p.1, .leaf p.2))) = l := by
  induction l with
  | nil => simp [dumpFields]
  | cons p r ih =>
    obtain ⟨k, x⟩ := p
    obtain ⟨h1, h2⟩ := hl (k, x) (by simp)
    have hnone : (TVal.leaf x).isNone = false := by
      cases x <;> simp_all [TVal.isNone, Json.isNull]
    simp only [List.map_cons, dumpFields, hnone, Bool.and_false, Bool.false_eq_true, if_false, dump]
    rw [outKey_extra h h2, ih (fun p hp => hl p (List.mem_cons_of_mem _ hp))]

theorem expected_extras {c : Class} (kvs : List (String × Json)) :
    (kvs.map (fun p => (p.1, expMember cfg c p))).filter (fun m => (c.byWire m.1).isNone)
      = kvs.filter (fun p => (c.byWire p.1).isNone) := by
  induction kvs with
  | nil => rfl
  | cons p r ih =>
    simp only [List.map_cons, List.filter_cons]
    cases hw : c.byWire p.1 with
    | none =>
      have e : expMember cfg c p = p.2 := by simp [expMember, hw]
      simp [e, hw, ih]
    | some f => simp [hw, ih]
variable {cfg : Cfg}

/-- declared members: present ones with their validated value, absent ones with the declared
default, `None` ones dropped by `exclude_none`, all under their wire names -/
theorem dump_declared {cls : String} {c : Class} (hwf : ClassWF c) (h : cfg.find cls = some c)
    {kvs : List (String × Json)}
    (MG : ∀ p ∈ kvs, dump cfg true true (memberVal cfg c p) = expMember cfg c p ∧ (memberVal cfg c p).isNone = false)
    (fs : List Field) (hfs : ∀ f ∈ fs, f ∈ c.fields) :
    dumpFields cfg true true c.id (fs.map (fun f => (f.name, fieldVal cfg c kvs f)))
      = fs.filterMap (fun f => match lookup f.wire (kvs.map (fun p => (p.1, expMember cfg c p))) with
          | some v => some (f.wire, v)
          | none => f.default.map (fun d => (f.wire, dump cfg true true d))) := by
  induction fs with
  | nil => simp [dumpFields]
  | cons f r ih =>
    have ih' := ih (fun g hg => hfs g (List.mem_cons_of_mem _ hg))
    have hf := hfs f (by simp)
    simp only [List.map_cons, List.filterMap_cons, dumpFields]
    rw [lookup_map_dep]
    cases hl : lookup f.wire kvs with
    | some x =>
      obtain ⟨hd, hn⟩ := MG (f.wire, x) (lookup_mem hl)
      have hv : fieldVal cfg c kvs f = memberVal cfg c (f.wire, x) := by simp [fieldVal, hl]
      simp only [hv, hn, Bool.and_false, Bool.false_eq_true, if_false, Option.map_some, hd, outKey_field hwf h hf, ih']
    | none =>
      cases hdf : f.default with
      | some d =>
        have hv : fieldVal cfg c kvs f = d := by simp [fieldVal, hl, hdf]
        have hn : d.isNone = false := hwf.default_not_none f hf d hdf
        simp only [hv, hn, Bool.and_false, Bool.false_eq_true, if_false, Option.map_none, Option.map_some,
          outKey_field hwf h hf, ih']
      | none =>
        have hv : fieldVal cfg c kvs f = .leaf .null := by simp [fieldVal, hl, hdf]
        simp only [hv, TVal.isNone, Bool.and_self, if_true, Option.map_none, ih']

theorem good_ref {cls : String} {c : Class} (hwf : ClassWF c) (hfind : cfg.find cls = some c)
    (kvs : List (String × Json)) (ih : ∀ p ∈ kvs, ∀ t, Good cfg t p.2) : Good cfg (.ref cls) (.obj kvs) := by
  intro hc hu
  simp only [conforms, hfind, Bool.and_eq_true] at hc
  obtain ⟨⟨⟨hnd, hmem⟩, hfields⟩, hhook⟩ := hc
  have hu' : unambMembers cfg c kvs = true := by simpa [unamb, hfind] using hu
  have M := conformsMembers_mem hmem
  have U := unambMembers_mem hu'
  have MG := member_good hwf ih M U
  -- the validated members, one per input member, under distinct attribute names
  have hmembers : validateMembers cfg c kvs
      = (kvs.map (fun p => (c.attrOf p.1, memberVal cfg c p))).map (fun q => (q.1, .ok q.2)) := by
    rw [validateMembers_eq, List.map_map]
    apply List.map_congr_left
    intro p hp
    simp only [Function.comp, (MG p hp).1]
  have hnd' : keysNodup (validateMembers cfg c kvs) = true := by
    rw [validateMembers_eq]
    exact keysNodup_map_key' _ _ kvs
      (fun p hp q hq he => attrOf_inj hwf (M p hp).2.1 (M q hq).2.1 he) hnd
  -- value of every declared field
  have hfv : ∀ f ∈ c.fields, fieldValue f (validateMembers cfg c kvs) = .ok (fieldVal cfg c kvs f) := by
    intro f hf
    have hl : lookup f.name (validateMembers cfg c kvs)
        = (lookup f.wire kvs).map (fun x => memberRes cfg c (f.wire, x)) := by
      rw [validateMembers_eq,
        lookup_map_key c.attrOf (memberRes cfg c) f.name f.wire kvs
          (fun p hp => attr_eq_name_iff hwf (M p hp).2.1 hf),
        lookup_map_dep]
    simp only [fieldValue, hl, fieldVal]
    cases hlk : lookup f.wire kvs with
    | some x =>
      simp only [Option.map_some]
      exact (MG (f.wire, x) (lookup_mem hlk)).1
    | none =>
      simp only [Option.map_none]
      cases hdf : f.default with
      | some d => rfl
      | none =>
        have hk : hasKey f.wire kvs = false := by rw [hasKey_eq_isSome, hlk]; rfl
        have := List.all_eq_true.mp hfields f hf
        simp only [hk, Bool.false_or, Bool.and_eq_true, Bool.not_eq_true'] at this
        simp [hwf.opt_or_default f hf this.1 hdf]
  have hdecl : c.fields.map (fun f => (f.name, fieldValue f (validateMembers cfg c kvs)))
      = (c.fields.map (fun f => (f.name, fieldVal cfg c kvs f))).map (fun q => (q.1, .ok q.2)) := by
    rw [List.map_map]
    apply List.map_congr_left
    intro f hf
    simp only [Function.comp, hfv f hf]
  have hextra : (validateMembers cfg c kvs).filter (fun m => (c.byName m.1).isNone)
      = ((kvs.filter (fun p => (c.byWire p.1).isNone)).map (fun p => (p.1, TVal.leaf p.2))).map
          (fun q => (q.1, .ok q.2)) := by
    rw [hmembers, List.filter_map, ← extras_eq (cfg := cfg) (c := c) (kvs := kvs)]
    · rfl
    · intro p hp
      refine ⟨(MG p hp).2.2.2, ?_⟩
      intro f hw
      rw [attrOf_wire hw]
      exact byName_of_mem hwf (byWire_some hw).1
  -- the constructor succeeds
  have hval : validate cfg (.ref cls) (.obj kvs) = .ok (.model c.id
      (c.fields.map (fun f => (f.name, fieldVal cfg c kvs f))
        ++ (kvs.filter (fun p => (c.byWire p.1).isNone)).map (fun p => (p.1, TVal.leaf p.2)))) := by
    have hh : (c.hooked cfg && !cfg.inv c.id kvs) = false := by
      cases h1 : c.hooked cfg <;> cases h2 : cfg.inv c.id kvs <;> simp_all
    simp only [validate, hfind, assemble, collapse_of_nodup _ hnd', hdecl, hextra, ← List.map_append,
      seqFields_ok, hh, Bool.false_eq_true, if_false]
  refine ⟨_, hval, ?_, by simp [TVal.isNone, Json.isNull]⟩
  simp only [dump, expected, hfind, dumpFields_append, expectedMembers_eq]
  rw [dump_declared hwf hfind (fun p hp => ⟨(MG p hp).2.1, (MG p hp).2.2.1⟩) c.fields (fun f hf => hf),
    dump_extras hfind, expected_extras]
  · rfl
  · intro p hp
    have hp' := List.mem_filter.mp hp
    have hw : c.byWire p.1 = none := by
      cases h : c.byWire p.1 <;> simp_all
    exact ⟨(M p hp'.1).1, ((MG p hp'.1).2.2.2 hw).2.1⟩
variable {cfg : Cfg}

/-- every class of the table is well formed -/
def CfgWF (cfg : Cfg) : Prop := ∀ c ∈ cfg.classes, ClassWF c

theorem find_mem {cls : String} {c : Class} (h : cfg.find cls = some c) : c ∈ cfg.classes := by
  unfold Cfg.find at h
  exact List.mem_of_find?_eq_some h

theorem sizeOf_arr_mem {x : Json} {xs : List Json} (h : x ∈ xs) : sizeOf x < sizeOf (Json.arr xs) := by
  have := List.sizeOf_lt_of_mem h
  simp only [Json.arr.sizeOf_spec]; omega

theorem sizeOf_obj_mem {p : String × Json} {kvs : List (String × Json)} (h : p ∈ kvs) :
    sizeOf p.2 < sizeOf (Json.obj kvs) := by
  have := List.sizeOf_lt_of_mem h
  obtain ⟨k, x⟩ := p
  simp only [Json.obj.sizeOf_spec, Prod.mk.sizeOf_spec] at *; omega

theorem good_prim (t : Ty) (j : Json) (hn : j.isNull = false)
    (ht : t = .str ∨ t = .int ∨ t = .float ∨ t = .bool ∨ (∃ vs, t = .lit vs) ∨ t = .any) : Good cfg t j := by
  intro hc _
  rcases ht with h | h | h | h | ⟨vs, h⟩ | h <;> subst h <;> cases j <;>
    simp_all [conforms, validate, validatePrim, dump, expected, TVal.isNone, Json.isNull, Ty.isOpt]

/-- the fallback is the identity on every conforming, unambiguous value — all types, all sizes -/
theorem good_all (hwf : CfgWF cfg) : ∀ (n : Nat) (j : Json), sizeOf j < n → ∀ t, Good cfg t j := by
  intro n
  induction n with
  | zero => intro j h; omega
  | succ n ihn =>
    intro j hj t
    by_cases hnull : j.isNull = true
    · cases j <;> simp [Json.isNull] at hnull
      exact good_null t
    have hn : j.isNull = false := by simpa using hnull
    induction t with
    | str => exact good_prim _ j hn (by simp)
    | int => exact good_prim _ j hn (by simp)
    | float => exact good_prim _ j hn (by simp)
    | bool => exact good_prim _ j hn (by simp)
    | any => exact good_prim _ j hn (by simp)
    | lit vs => exact good_prim _ j hn (by simp)
    | opt t iht =>
      intro hc hu
      have hc' : conforms cfg t j = true := by cases j <;> simp_all [conforms, Json.isNull]
      have hu' : unamb cfg t j = true := by cases j <;> simp_all [unamb, Json.isNull]
      obtain ⟨v, hv, hd, hnone⟩ := iht hc' hu'
      refine ⟨v, ?_, ?_, hnone⟩
      · cases j <;> simp_all [validate, Json.isNull]
      · cases j <;> simp_all [expected, Json.isNull]
    | union a b iha ihb =>
      intro hc hu
      by_cases he : exactAny (.union a b) j = true
      · refine ⟨.leaf j, ?_, ?_, ?_⟩
        · cases j <;> simp_all [validate, Json.isNull]
        · cases j <;> simp_all [expected, dump, Json.isNull]
        · cases j <;> simp_all [TVal.isNone, Json.isNull]
      · have he' : exactAny (.union a b) j = false := by simpa using he
        by_cases hca : conforms cfg a j = true
        · have hua : unamb cfg a j = true := by cases j <;> simp_all [unamb, Json.isNull]
          obtain ⟨v, hv, hd, hnone⟩ := iha hca hua
          refine ⟨v, ?_, ?_, hnone⟩
          · cases j <;> simp_all [validate, Json.isNull]
          · cases j <;> simp_all [expected, Json.isNull]
        · have hca' : conforms cfg a j = false := by simpa using hca
          have hcb : conforms cfg b j = true := by cases j <;> simp_all [conforms, Json.isNull]
          have hub : (∃ e, validate cfg a j = .error e) ∧ unamb cfg b j = true := by
            cases hva : validate cfg a j with
            | ok v => cases j <;> simp_all [unamb, Json.isNull]
            | error e => exact ⟨⟨e, rfl⟩, by cases j <;> simp_all [unamb, Json.isNull]⟩
          obtain ⟨⟨e, hea⟩, hub'⟩ := hub
          obtain ⟨v, hv, hd, hnone⟩ := ihb hcb hub'
          refine ⟨v, ?_, ?_, hnone⟩
          · cases j <;> simp_all [validate, Json.isNull]
          · cases j <;> simp_all [expected, Json.isNull]
    | list t _ =>
      intro hc hu
      cases j with
      | arr xs =>
        by_cases hany : t = .any
        · subst hany
          exact ⟨.list (xs.map .leaf), by simp [validate], by simp [dump, dumpList_leaf, expected, expectedList_any],
            by simp [TVal.isNone, Json.isNull]⟩
        · have hcl : conformsList cfg t xs = true := by simpa [conforms, hany] using hc
          have hul : unambList cfg t xs = true := by simpa [unamb] using hu
          obtain ⟨vs, hvs, hds⟩ := good_list t xs
            (fun x hx => ihn x (by have := sizeOf_arr_mem hx; omega) t) hcl hul
          exact ⟨.list vs, by simp [validate, hany, hvs], by simp [dump, expected, hds], by simp [TVal.isNone, Json.isNull]⟩
      | _ => simp_all [conforms, Json.isNull, Ty.isOpt]
    | dict t _ =>
      intro hc hu
      cases j with
      | obj kvs =>
        by_cases hany : t = .any
        · subst hany
          exact ⟨.dict (kvs.map (fun p => (p.1, .leaf p.2))), by simp [validate],
            by simp [dump, dumpVals_leaf, expected, expectedVals_any], by simp [TVal.isNone, Json.isNull]⟩
        · have hcl : conformsVals cfg t kvs = true := by
            simp only [conforms, hany, Bool.and_eq_true, decide_false, Bool.false_or] at hc; exact hc.2
          have hul : unambVals cfg t kvs = true := by simpa [unamb] using hu
          obtain ⟨vs, hvs, hds⟩ := good_vals t kvs
            (fun p hp => ihn p.2 (by have := sizeOf_obj_mem hp; omega) t) hcl hul
          exact ⟨.dict vs, by simp [validate, hany, hvs], by simp [dump, expected, hds], by simp [TVal.isNone, Json.isNull]⟩
      | _ => simp_all [conforms, Json.isNull, Ty.isOpt]
    | ref cls =>
      cases j with
      | obj kvs =>
        cases hf : cfg.find cls with
        | none => intro hc; simp [conforms, hf] at hc
        | some c =>
          exact good_ref (hwf c (find_mem hf)) hf kvs
            (fun p hp t => ihn p.2 (by have := sizeOf_obj_mem hp; omega) t)
      | _ => intro hc; simp_all [conforms, Json.isNull, Ty.isOpt]
variable {cfg : Cfg}

/-! ## decidable well-formedness of a generated class -/

def classWF (c : Class) : Bool :=
  decide ((c.fields.map (·.name)).Nodup)
  && decide ((c.fields.map (·.wire)).Nodup)
  && c.fields.all (fun f => f.required || f.default.isSome || f.ty.isOpt)
  && c.fields.all (fun f => match f.default with
      | some d => !d.isNone
      | none => true)

theorem classWF_sound {c : Class} (h : classWF c = true) : ClassWF c := by
  simp only [classWF, Bool.and_eq_true, decide_eq_true_eq, List.all_eq_true, Bool.or_eq_true] at h
  obtain ⟨⟨⟨h1, h2⟩, h3⟩, h4⟩ := h
  refine ⟨h1, h2, ?_, ?_⟩
  · intro f hf hr hd
    rcases h3 f hf with (h | h) | h
    · simp [hr] at h
    · simp [hd] at h
    · exact h
  · intro f hf d hd
    have := h4 f hf
    simp only [hd] at this
    simpa using this

theorem cfgWF_of_all {cfg : Cfg} (h : ∀ c ∈ cfg.classes, classWF c = true) : CfgWF cfg :=
  fun c hc => classWF_sound (h c hc)

/-- the round trip, without the bookkeeping conjunct -/
theorem conforming_identity (hwf : CfgWF cfg) (t : Ty) (j : Json)
    (hc : conforms cfg t j = true) (hu : unamb cfg t j = true) :
    ∃ v, validate cfg t j = .ok v ∧ dump cfg true true v = expected cfg t j := by
  obtain ⟨v, h1, h2, _⟩ := good_all hwf (sizeOf j + 1) j (by omega) t hc hu
  exact ⟨v, h1, h2⟩

/-! ## ids -/

theorem requestId_kept (j : Json) (h : (∃ s, j = .str s) ∨ (∃ i, j = .int i)) :
    validate cfg (.union .int .str) j = .ok (.leaf j) ∧ validate cfg (.opt (.union .int .str)) j = .ok (.leaf j) := by
  rcases h with ⟨s, rfl⟩ | ⟨i, rfl⟩ <;> simp [validate, exactAny]

/-! ## tags -/

theorem seqFields_error {l : List (String × Except String TVal)} {k : String} {e : String}
    (h : (k, Except.error e) ∈ l) : ∃ e', seqFields l = .error e' := by
  induction l with
  | nil => simp at h
  | cons p r ih =>
    obtain ⟨k', res⟩ := p
    rcases List.mem_cons.mp h with h | h
    · injection h with h1 h2; subst h1; subst h2
      exact ⟨e, by simp [seqFields]⟩
    · obtain ⟨e', he'⟩ := ih h
      cases res with
      | ok v => exact ⟨e', by simp [seqFields, he']⟩
      | error e2 => exact ⟨e2, by simp [seqFields]⟩

/-- A member whose declared type is `Literal[vs]` and whose value is a string outside `vs` makes
the constructor of the class fail — whatever else the object carries. -/
theorem tag_mismatch_rejects {cls : String} {c : Class} (hwf : ClassWF c) (hfind : cfg.find cls = some c)
    {f : Field} (hf : f ∈ c.fields) {vs : List String} (hty : f.ty = .lit vs)
    (kvs : List (String × Json)) (hnd : keysNodup kvs = true) (hna : ∀ p ∈ kvs, NotAttrName c p.1)
    {s : String} (hl : lookup f.wire kvs = some (.str s)) (hs : vs.contains s = false) :
    ∃ e, validate cfg (.ref cls) (.obj kvs) = .error e := by
  have hnd' : keysNodup (validateMembers cfg c kvs) = true := by
    rw [validateMembers_eq]
    exact keysNodup_map_key' _ _ kvs (fun p hp q hq he => attrOf_inj hwf (hna p hp) (hna q hq) he) hnd
  have hlk : lookup f.name (validateMembers cfg c kvs)
      = (lookup f.wire kvs).map (fun x => memberRes cfg c (f.wire, x)) := by
    rw [validateMembers_eq,
      lookup_map_key c.attrOf (memberRes cfg c) f.name f.wire kvs
        (fun p hp => attr_eq_name_iff hwf (hna p hp) hf),
      lookup_map_dep]
  have hs' : ¬ s ∈ vs := by simpa using hs
  have hres : memberRes cfg c (f.wire, .str s) = .error "literal mismatch" := by
    simp [hs', memberRes, attrOf_wire (byWire_of_mem hwf hf), byName_of_mem hwf hf, hty, validate, validatePrim, hs]
  have hfv : fieldValue f (validateMembers cfg c kvs) = .error "literal mismatch" := by
    simp only [fieldValue, hlk, hl, Option.map_some, hres]
  have hmem : (f.name, Except.error "literal mismatch") ∈
      c.fields.map (fun f => (f.name, fieldValue f (validateMembers cfg c kvs)))
        ++ (validateMembers cfg c kvs).filter (fun m => (c.byName m.1).isNone) := by
    apply List.mem_append_left
    exact List.mem_map.mpr ⟨f, hf, by rw [hfv]⟩
  obtain ⟨e, he⟩ := seqFields_error hmem
  exact ⟨e, by simp only [validate, hfind, assemble, collapse_of_nodup _ hnd', he]⟩
variable {cfg : Cfg}

/-! ## C10: what `expected` preserves and what it adds -/

theorem sub_refl (j : Json) : Preserved j j := by
  cases j <;> simp [Preserved]

theorem added_any (j : Json) : AddedOk cfg .any j j := by
  cases j <;> simp [AddedOk]

theorem added_null (t : Ty) : AddedOk cfg t .null .null := by
  induction t with
  | opt t ih => simpa [AddedOk] using ih
  | union a b iha ihb =>
    simp only [AddedOk, exactAny_null]
    split <;> simp_all
  | _ => simp [AddedOk]

/-- the C10 statement proved for every type and value -/
def Good2 (cfg : Cfg) (t : Ty) (j : Json) : Prop :=
  conforms cfg t j = true → Preserved j (expected cfg t j) ∧ AddedOk cfg t j (expected cfg t j)

theorem good2_null (t : Ty) : Good2 cfg t .null := by
  intro _
  rw [expected_null]
  exact ⟨sub_refl _, added_null t⟩

theorem good2_list (t : Ty) (xs : List Json) (h : ∀ x ∈ xs, Good2 cfg t x)
    (hc : conformsList cfg t xs = true) :
    PreservedList xs (expectedList cfg t xs) ∧ AddedList cfg t xs (expectedList cfg t xs) := by
  induction xs with
  | nil => simp [PreservedList, AddedList, expectedList]
  | cons x r ih =>
    simp only [conformsList, Bool.and_eq_true] at hc
    obtain ⟨h1, h2⟩ := h x (by simp) hc.1
    obtain ⟨h3, h4⟩ := ih (fun y hy => h y (List.mem_cons_of_mem _ hy)) hc.2
    simp only [expectedList, PreservedList, AddedList]
    exact ⟨⟨h1, h3⟩, ⟨h2, h4⟩⟩

theorem lookup_expectedVals (t : Ty) (k : String) (kvs : List (String × Json)) :
    lookup k (expectedVals cfg t kvs) = (lookup k kvs).map (expected cfg t) := by
  induction kvs with
  | nil => simp [expectedVals]
  | cons p r ih =>
    obtain ⟨k', x⟩ := p
    simp only [expectedVals, lookup_cons]
    by_cases hk : (k' == k) = true <;> simp [hk, ih]

theorem good2_vals (t : Ty) (kvs : List (String × Json)) (h : ∀ p ∈ kvs, Good2 cfg t p.2)
    (hc : conformsVals cfg t kvs = true) :
    AddedVals cfg t kvs (expectedVals cfg t kvs)
    ∧ ∀ p ∈ kvs, Preserved p.2 (expected cfg t p.2) := by
  induction kvs with
  | nil => simp [AddedVals, expectedVals]
  | cons p r ih =>
    obtain ⟨k, x⟩ := p
    simp only [conformsVals, Bool.and_eq_true] at hc
    obtain ⟨h1, h2⟩ := h (k, x) (by simp) hc.1
    obtain ⟨h3, h4⟩ := ih (fun y hy => h y (List.mem_cons_of_mem _ hy)) hc.2
    simp only [expectedVals, AddedVals]
    refine ⟨⟨trivial, h2, h3⟩, ?_⟩
    intro q hq
    rcases List.mem_cons.mp hq with hq | hq
    · subst hq; exact h1
    · exact h4 q hq

/-- member-wise preservation from a per-member fact, for objects with distinct member names -/
theorem subMembers_of (l out : List (String × Json))
    (h : ∀ p ∈ l, ∃ y, lookup p.1 out = some y ∧ Preserved p.2 y) : PreservedMembers l out := by
  induction l with
  | nil => simp [PreservedMembers]
  | cons p r ih =>
    obtain ⟨k, x⟩ := p
    obtain ⟨y, hy, hs⟩ := h (k, x) (by simp)
    simp only [PreservedMembers, hy]
    exact ⟨hs, ih (fun q hq => h q (List.mem_cons_of_mem _ hq))⟩

theorem addedMembers_of (c : Class) (l out : List (String × Json))
    (h : ∀ p ∈ l, ∀ f y, c.byWire p.1 = some f → lookup p.1 out = some y → AddedOk cfg f.ty p.2 y) :
    AddedMembers cfg c l out := by
  induction l with
  | nil => simp [AddedMembers]
  | cons p r ih =>
    obtain ⟨k, x⟩ := p
    simp only [AddedMembers]
    refine ⟨?_, ih (fun q hq => h q (List.mem_cons_of_mem _ hq))⟩
    split
    · rename_i f y hf hy
      exact h (k, x) (by simp) f y hf hy
    · trivial
variable {cfg : Cfg}

/-- the declared part of the expected object -/
def declEntry (cfg : Cfg) (c : Class) (kvs : List (String × Json)) (f : Field) : Option (String × Json) :=
  match lookup f.wire (kvs.map (fun p => (p.1, expMember cfg c p))) with
  | some v => some (f.wire, v)
  | none => f.default.map (fun d => (f.wire, dump cfg true true d))

theorem declEntry_key {c : Class} {kvs : List (String × Json)} {f : Field} {m : String × Json}
    (h : declEntry cfg c kvs f = some m) : m.1 = f.wire := by
  unfold declEntry at h
  split at h
  · injection h with h; rw [← h]
  · cases hd : f.default with
    | none => simp [hd] at h
    | some d => simp [hd] at h; rw [← h]

theorem lookup_filterMap_none (F : Field → Option (String × Json)) (fs : List Field) (k : String)
    (hkey : ∀ f ∈ fs, ∀ m, F f = some m → m.1 = f.wire) (hne : ∀ f ∈ fs, f.wire ≠ k) :
    lookup k (fs.filterMap F) = none := by
  induction fs with
  | nil => rfl
  | cons g r ih =>
    have ih' := ih (fun f hf => hkey f (List.mem_cons_of_mem _ hf)) (fun f hf => hne f (List.mem_cons_of_mem _ hf))
    simp only [List.filterMap_cons]
    cases hF : F g with
    | none => simpa using ih'
    | some m =>
      obtain ⟨k', v⟩ := m
      have : k' = g.wire := hkey g (by simp) (k', v) hF
      have hk : (k' == k) = false := by
        rw [this]; simpa using hne g (by simp)
      simp only [lookup_cons, hk, Bool.false_eq_true, if_false]
      exact ih'

theorem lookup_filterMap_wire (F : Field → Option (String × Json)) (fs : List Field) (f : Field)
    (hkey : ∀ g ∈ fs, ∀ m, F g = some m → m.1 = g.wire) (hn : (fs.map (·.wire)).Nodup) (hf : f ∈ fs) :
    lookup f.wire (fs.filterMap F) = (F f).map Prod.snd := by
  induction fs with
  | nil => simp at hf
  | cons g r ih =>
    simp only [List.map_cons, List.nodup_cons] at hn
    simp only [List.filterMap_cons]
    rcases List.mem_cons.mp hf with h | h
    · subst h
      cases hF : F f with
      | none =>
        simp only [Option.map_none]
        exact lookup_filterMap_none F r f.wire (fun g hg => hkey g (List.mem_cons_of_mem _ hg))
          (fun g hg he => hn.1 (by rw [← he]; exact List.mem_map_of_mem hg))
      | some m =>
        obtain ⟨k', v⟩ := m
        have : k' = f.wire := hkey f (by simp) (k', v) hF
        subst this
        simp [lookup_cons]
    · have hne : g.wire ≠ f.wire := fun he => hn.1 (by rw [he]; exact List.mem_map_of_mem h)
      have ih' := ih (fun g hg => hkey g (List.mem_cons_of_mem _ hg)) hn.2 h
      cases hF : F g with
      | none => simpa using ih'
      | some m =>
        obtain ⟨k', v⟩ := m
        have : k' = g.wire := hkey g (by simp) (k', v) hF
        have hk : (k' == f.wire) = false := by rw [this]; simpa using hne
        simp only [lookup_cons, hk, Bool.false_eq_true, if_false]
        exact ih'

theorem keysNodup_filter {α : Type} (p : String × α → Bool) (l : List (String × α)) (h : keysNodup l = true) :
    keysNodup (l.filter p) = true := by
  induction l with
  | nil => rfl
  | cons q r ih =>
    obtain ⟨k, v⟩ := q
    simp only [keysNodup, Bool.and_eq_true, Bool.not_eq_true'] at h
    simp only [List.filter_cons]
    split
    · simp only [keysNodup, Bool.and_eq_true, Bool.not_eq_true']
      refine ⟨?_, ih h.2⟩
      cases hh : hasKey k (r.filter p)
      · rfl
      · simp only [hasKey, List.any_eq_true] at hh
        obtain ⟨q, hq, hk⟩ := hh
        have : hasKey k r = true := by
          simp only [hasKey, List.any_eq_true]
          exact ⟨q, (List.mem_filter.mp hq).1, hk⟩
        rw [h.1] at this; cases this
    · exact ih h.2

/-- where a member of a conforming input ends up in the expected object -/
theorem lookup_expectedObj {c : Class} (hwf : ClassWF c) {kvs : List (String × Json)} (hnd : keysNodup kvs = true)
    {p : String × Json} (hp : p ∈ kvs) :
    lookup p.1 (c.fields.filterMap (declEntry cfg c kvs) ++ kvs.filter (fun q => (c.byWire q.1).isNone))
      = some (expMember cfg c p) := by
  obtain ⟨k, x⟩ := p
  have hlk : lookup k kvs = some x := lookup_of_mem_nodup hnd hp
  rw [lookup_append]
  cases hw : c.byWire k with
  | some f =>
    obtain ⟨hf, hfw⟩ := byWire_some hw
    subst hfw
    rw [lookup_filterMap_wire _ _ f (fun g _ m hm => declEntry_key hm) hwf.wires_nodup hf]
    simp only [declEntry, lookup_map_dep, hlk, Option.map_some]
  | none =>
    rw [lookup_filterMap_none _ _ k (fun g _ m hm => declEntry_key hm) (byWire_none hw)]
    simp only
    have hm : (k, x) ∈ kvs.filter (fun q => (c.byWire q.1).isNone) := by
      apply List.mem_filter.mpr; exact ⟨hp, by simp [hw]⟩
    rw [lookup_of_mem_nodup (keysNodup_filter _ _ hnd) hm]
    simp [expMember, hw]

theorem good2_ref {cls : String} {c : Class} (hwf : ClassWF c) (hfind : cfg.find cls = some c)
    (kvs : List (String × Json)) (ih : ∀ p ∈ kvs, ∀ t, Good2 cfg t p.2) : Good2 cfg (.ref cls) (.obj kvs) := by
  intro hc
  simp only [conforms, hfind, Bool.and_eq_true] at hc
  obtain ⟨⟨⟨hnd, hmem⟩, hfields⟩, hhook⟩ := hc
  have M := conformsMembers_mem hmem
  have hexp : expected cfg (.ref cls) (.obj kvs)
      = .obj (c.fields.filterMap (declEntry cfg c kvs) ++ kvs.filter (fun q => (c.byWire q.1).isNone)) := by
    simp only [expected, hfind, expectedMembers_eq, expected_extras]
    rfl
  rw [hexp]
  have hmember : ∀ p ∈ kvs, Preserved p.2 (expMember cfg c p)
      ∧ ∀ f, c.byWire p.1 = some f → AddedOk cfg f.ty p.2 (expMember cfg c p) := by
    intro p hp
    cases hw : c.byWire p.1 with
    | some f =>
      obtain ⟨h1, h2⟩ := ih p hp f.ty ((M p hp).2.2 f hw)
      simp only [expMember, hw]
      exact ⟨h1, fun g hg => by injection hg with hg; subst hg; exact h2⟩
    | none =>
      simp only [expMember, hw]
      exact ⟨sub_refl _, fun g hg => by cases hg⟩
  refine ⟨?_, ?_⟩
  · simp only [Preserved]
    right
    apply subMembers_of
    intro p hp
    exact ⟨_, lookup_expectedObj hwf hnd hp, (hmember p hp).1⟩
  · simp only [AddedOk, hfind]
    refine ⟨?_, ?_⟩
    · intro m hm hk
      rcases List.mem_append.mp hm with hm | hm
      · obtain ⟨f, hf, hF⟩ := List.mem_filterMap.mp hm
        refine ⟨f, hf, (declEntry_key hF).symm, ?_⟩
        unfold declEntry at hF
        rw [lookup_map_dep] at hF
        cases hl : lookup f.wire kvs with
        | some x =>
          have : hasKey m.1 kvs = true := by rw [declEntry_key (c := c) (kvs := kvs) (cfg := cfg) (by unfold declEntry; rw [lookup_map_dep]; exact hF)]; exact hasKey_of_lookup hl
          rw [hk] at this; cases this
        | none =>
          simp only [hl, Option.map_none] at hF
          cases hd : f.default with
          | none => simp [hd] at hF
          | some d =>
            simp only [hd, Option.map_some] at hF
            injection hF with hF
            exact ⟨d, rfl, by rw [← hF]⟩
      · have : hasKey m.1 kvs = true := hasKey_of_mem (v := m.2) (List.mem_filter.mp hm).1
        rw [hk] at this; cases this
    · apply addedMembers_of
      intro p hp f y hf hy
      rw [lookup_expectedObj hwf hnd hp] at hy
      injection hy with hy
      rw [← hy]
      exact (hmember p hp).2 f hf
variable {cfg : Cfg}

theorem good2_prim (t : Ty) (j : Json)
    (ht : t = .str ∨ t = .int ∨ t = .float ∨ t = .bool ∨ (∃ vs, t = .lit vs) ∨ t = .any) : Good2 cfg t j := by
  intro _
  have he : expected cfg t j = j := by
    rcases ht with h | h | h | h | ⟨vs, h⟩ | h <;> subst h <;> cases j <;> simp [expected]
  rw [he]
  refine ⟨sub_refl _, ?_⟩
  rcases ht with h | h | h | h | ⟨vs, h⟩ | h <;> subst h <;> cases j <;> simp [AddedOk]

theorem preservedList_refl (xs : List Json) : PreservedList xs xs := by
  induction xs with
  | nil => simp [PreservedList]
  | cons x r ih => simp [PreservedList, sub_refl, ih]

theorem addedList_any (xs : List Json) : AddedList cfg .any xs xs := by
  induction xs with
  | nil => simp [AddedList]
  | cons x r ih => simp [AddedList, added_any, ih]

theorem addedVals_any (kvs : List (String × Json)) : AddedVals cfg .any kvs kvs := by
  induction kvs with
  | nil => simp [AddedVals]
  | cons p r ih => obtain ⟨k, x⟩ := p; simp [AddedVals, added_any, ih]

/-- what `expected` preserves and adds — all types, all sizes -/
theorem good2_all (hwf : CfgWF cfg) : ∀ (n : Nat) (j : Json), sizeOf j < n → ∀ t, Good2 cfg t j := by
  intro n
  induction n with
  | zero => intro j h; omega
  | succ n ihn =>
    intro j hj t
    by_cases hnull : j.isNull = true
    · cases j <;> simp [Json.isNull] at hnull
      exact good2_null t
    have hn : j.isNull = false := by simpa using hnull
    induction t with
    | str => exact good2_prim _ j (by simp)
    | int => exact good2_prim _ j (by simp)
    | float => exact good2_prim _ j (by simp)
    | bool => exact good2_prim _ j (by simp)
    | any => exact good2_prim _ j (by simp)
    | lit vs => exact good2_prim _ j (by simp)
    | opt t iht =>
      intro hc
      have hc' : conforms cfg t j = true := by cases j <;> simp_all [conforms, Json.isNull]
      obtain ⟨h1, h2⟩ := iht hc'
      have he : expected cfg (.opt t) j = expected cfg t j := by cases j <;> simp [expected]
      rw [he]
      exact ⟨h1, by cases j <;> simp_all [AddedOk]⟩
    | union a b iha ihb =>
      intro hc
      by_cases he : exactAny (.union a b) j = true
      · have hx : expected cfg (.union a b) j = j := by cases j <;> simp_all [expected]
        rw [hx]
        exact ⟨sub_refl _, by cases j <;> simp_all [AddedOk]⟩
      · have he' : exactAny (.union a b) j = false := by simpa using he
        by_cases hca : conforms cfg a j = true
        · obtain ⟨h1, h2⟩ := iha hca
          have hx : expected cfg (.union a b) j = expected cfg a j := by cases j <;> simp_all [expected]
          rw [hx]
          exact ⟨h1, by cases j <;> simp_all [AddedOk]⟩
        · have hca' : conforms cfg a j = false := by simpa using hca
          have hcb : conforms cfg b j = true := by cases j <;> simp_all [conforms, Json.isNull]
          obtain ⟨h1, h2⟩ := ihb hcb
          have hx : expected cfg (.union a b) j = expected cfg b j := by cases j <;> simp_all [expected]
          rw [hx]
          exact ⟨h1, by cases j <;> simp_all [AddedOk]⟩
    | list t _ =>
      intro hc
      cases j with
      | arr xs =>
        by_cases hany : t = .any
        · subst hany
          simp only [expected, expectedList_any]
          exact ⟨sub_refl _, by simp [AddedOk, addedList_any]⟩
        · have hcl : conformsList cfg t xs = true := by simpa [conforms, hany] using hc
          obtain ⟨h1, h2⟩ := good2_list t xs
            (fun x hx => ihn x (by have := sizeOf_arr_mem hx; omega) t) hcl
          simp only [expected]
          exact ⟨by simp only [Preserved]; exact Or.inr h1, by simp only [AddedOk]; exact h2⟩
      | _ => simp_all [conforms, Json.isNull, Ty.isOpt]
    | dict t _ =>
      intro hc
      cases j with
      | obj kvs =>
        by_cases hany : t = .any
        · subst hany
          simp only [expected, expectedVals_any]
          exact ⟨sub_refl _, by simp [AddedOk, addedVals_any]⟩
        · have hc2 : keysNodup kvs = true ∧ conformsVals cfg t kvs = true := by
            simp only [conforms, hany, Bool.and_eq_true, decide_false, Bool.false_or] at hc; exact hc
          obtain ⟨h1, h2⟩ := good2_vals t kvs
            (fun p hp => ihn p.2 (by have := sizeOf_obj_mem hp; omega) t) hc2.2
          simp only [expected]
          refine ⟨?_, by simp only [AddedOk]; exact h1⟩
          simp only [Preserved]
          right
          apply subMembers_of
          intro p hp
          refine ⟨expected cfg t p.2, ?_, h2 p hp⟩
          rw [lookup_expectedVals, lookup_of_mem_nodup hc2.1 hp]
          rfl
      | _ => simp_all [conforms, Json.isNull, Ty.isOpt]
    | ref cls =>
      cases j with
      | obj kvs =>
        cases hf : cfg.find cls with
        | none => intro hc; simp [conforms, hf] at hc
        | some c =>
          exact good2_ref (hwf c (find_mem hf)) hf kvs
            (fun p hp t => ihn p.2 (by have := sizeOf_obj_mem hp; omega) t)
      | _ => intro hc; simp_all [conforms, Json.isNull, Ty.isOpt]

theorem expected_preserves_and_adds_defaults (hwf : CfgWF cfg) (t : Ty) (j : Json) (hc : conforms cfg t j = true) :
    Preserved j (expected cfg t j) ∧ AddedOk cfg t j (expected cfg t j) :=
  good2_all hwf (sizeOf j + 1) j (by omega) t hc
variable {cfg : Cfg}

/-! ## how member-by-member union trial tells model variants apart -/

/-- An object that lacks a required member of a class is rejected by that class. -/
theorem missing_required_rejects {cls : String} {c : Class} (hwf : ClassWF c) (hfind : cfg.find cls = some c)
    {f : Field} (hf : f ∈ c.fields) (hdef : f.default = none) (hopt : f.ty.isOpt = false)
    (kvs : List (String × Json)) (hnd : keysNodup kvs = true) (hna : ∀ p ∈ kvs, NotAttrName c p.1)
    (hk : hasKey f.wire kvs = false) :
    ∃ e, validate cfg (.ref cls) (.obj kvs) = .error e := by
  have hnd' : keysNodup (validateMembers cfg c kvs) = true := by
    rw [validateMembers_eq]
    exact keysNodup_map_key' _ _ kvs (fun p hp q hq he => attrOf_inj hwf (hna p hp) (hna q hq) he) hnd
  have hlk : lookup f.name (validateMembers cfg c kvs) = none := by
    rw [validateMembers_eq,
      lookup_map_key c.attrOf (memberRes cfg c) f.name f.wire kvs
        (fun p hp => attr_eq_name_iff hwf (hna p hp) hf),
      lookup_map_dep, lookup_none_of_not_hasKey hk]
    rfl
  have hfv : fieldValue f (validateMembers cfg c kvs) = .error "field required" := by
    simp [fieldValue, hlk, hdef, hopt]
  have hmem : (f.name, Except.error "field required") ∈
      c.fields.map (fun f => (f.name, fieldValue f (validateMembers cfg c kvs)))
        ++ (validateMembers cfg c kvs).filter (fun m => (c.byName m.1).isNone) := by
    apply List.mem_append_left
    exact List.mem_map.mpr ⟨f, hf, by rw [hfv]⟩
  obtain ⟨e, he⟩ := seqFields_error hmem
  exact ⟨e, by simp only [validate, hfind, assemble, collapse_of_nodup _ hnd', he]⟩

/-- model-class members of a union, in trial order -/
def refMembers : Ty → List String
  | .union a b => refMembers a ++ refMembers b
  | .ref c => [c]
  | _ => []

/-- the unions of model classes that occur in a field type -/
def unionsOf : Ty → List (List String)
  | .opt t => unionsOf t
  | .list t => unionsOf t
  | .dict t => unionsOf t
  | .union a b => [refMembers (.union a b)]
  | _ => []

def orderedPairs {α : Type} : List α → List (α × α)
  | [] => []
  | x :: r => r.map (fun y => (x, y)) ++ orderedPairs r

/-- `A` and `B` carry a `Literal` tag under the same wire name with disjoint constants -/
def tagDisjoint (A B : Class) : Bool :=
  A.fields.any (fun f => match f.ty with
    | .lit vs => B.fields.any (fun g => g.wire == f.wire && (match g.ty with
        | .lit ws => vs.all (fun v => !ws.contains v)
        | _ => false))
    | _ => false)

/-- `A` requires a member that `B` does not declare -/
def requiresUndeclared (A B : Class) : Bool :=
  A.fields.any (fun f => f.required && f.default.isNone && !f.ty.isOpt && !B.fields.any (fun g => g.wire == f.wire))

/-- the earlier union member `a` cannot accept what conforms to the later member `b`: by a tag
(`tag_mismatch_rejects`) or by a required member `b` does not declare (`missing_required_rejects`,
for objects that do not carry that name as an unknown member) -/
def separated (classes : List Class) (a b : String) : Bool :=
  match classes.find? (fun c => c.id == a), classes.find? (fun c => c.id == b) with
  | some A, some B => tagDisjoint A B || requiresUndeclared A B
  | _, _ => false
variable {cfg : Cfg}

/-! ## construction by attribute name, `None` members, leaf coercions -/

/-- no attribute name of a class is the wire name of ANOTHER field of the class -/
def NamesApart (c : Class) : Prop := ∀ f ∈ c.fields, ∀ g ∈ c.fields, g.wire = f.name → g = f

def namesApart (c : Class) : Bool :=
  c.fields.all (fun f => c.fields.all (fun g => g.wire != f.name || (g.name == f.name && g.wire == f.wire)))

theorem attrOf_idem {c : Class} (hwf : ClassWF c) (hn : namesApart c = true) (k : String) :
    c.attrOf (c.attrOf k) = c.attrOf k := by
  cases hw : c.byWire k with
  | none => rw [attrOf_extra hw, attrOf_extra hw]
  | some f =>
    obtain ⟨hf, hfw⟩ := byWire_some hw
    rw [attrOf_wire hw]
    cases hw2 : c.byWire f.name with
    | none => exact attrOf_extra hw2
    | some g =>
      obtain ⟨hg, hgw⟩ := byWire_some hw2
      rw [attrOf_wire hw2]
      simp only [namesApart, List.all_eq_true, Bool.or_eq_true, bne_iff_ne, ne_eq, Bool.and_eq_true, beq_iff_eq] at hn
      rcases hn f hf g hg with h | h
      · exact absurd hgw h
      · exact h.1

/-- **Keyword construction by attribute name is construction from the wire object.**  Renaming
every wire-named member of ANY object to the Python attribute name of its field (what the library's
own constructors pass) does not change the typed value. -/
theorem construct_by_attribute_names {cls : String} {c : Class} (hwf : ClassWF c) (hn : namesApart c = true)
    (hfind : cfg.find cls = some c) (kvs : List (String × Json))
    (hinv : cfg.inv c.id (kvs.map (fun p => (c.attrOf p.1, p.2))) = cfg.inv c.id kvs) :
    validate cfg (.ref cls) (.obj (kvs.map (fun p => (c.attrOf p.1, p.2)))) = validate cfg (.ref cls) (.obj kvs) := by
  have hm : validateMembers cfg c (kvs.map (fun p => (c.attrOf p.1, p.2))) = validateMembers cfg c kvs := by
    rw [validateMembers_eq, validateMembers_eq, List.map_map]
    apply List.map_congr_left
    intro p _
    simp only [Function.comp, memberRes, attrOf_idem hwf hn]
  simp only [validate, hfind, assemble, hm, hinv]

theorem dump_isNull_of_not_isNone (b1 b2 : Bool) (x : TVal) (h : x.isNone = false) :
    (dump cfg b1 b2 x).isNull = false := by
  cases x with
  | leaf j => cases j <;> simp_all [dump, TVal.isNone, Json.isNull]
  | list xs => simp [dump, Json.isNull]
  | dict kvs => simp [dump, Json.isNull]
  | model c fs => simp [dump, Json.isNull]

/-- **No `None` members.**  With `exclude_none=True` no member of a dumped model object is `null`,
for every typed value whatsoever. -/
theorem dumpFields_no_null (byAlias : Bool) (cls : String) (fs : List (String × TVal)) :
    ∀ m ∈ dumpFields cfg byAlias true cls fs, m.2.isNull = false := by
  induction fs with
  | nil => intro m hm; simp [dumpFields] at hm
  | cons p r ih =>
    obtain ⟨k, x⟩ := p
    intro m hm
    simp only [dumpFields, Bool.true_and] at hm
    split at hm
    · exact ih m hm
    · rename_i hx
      rcases List.mem_cons.mp hm with h | h
      · subst h
        exact dump_isNull_of_not_isNone _ _ x (by simpa using hx)
      · exact ih m h

/-- the leaf coercions of `_deep_validate` (origin None, class branch): everything the fallback does
to a primitive value other than keeping it -/
inductive Coerced : Ty → Json → Json → Prop
  | strOfInt (i : Int) : Coerced .str (.int i) (.str (toString i))
  | strOfBool (b : Bool) : Coerced .str (.bool b) (.str (if b then "True" else "False"))
  | strOfFloat (tok : String) : Coerced .str (.flt tok) (.str tok)
  | intOfStr (s : String) (n : Int) : parseInt s = some n → Coerced .int (.str s) (.int n)
  | floatOfBool (b : Bool) : Coerced .float (.bool b) (.int (if b then 1 else 0))
  | floatOfStr (s : String) (n : Int) : parseInt s = some n → Coerced .float (.str s) (.int n)
  | boolOfStr (s : String) (b : Bool) : pyBoolOfStr s = some b → Coerced .bool (.str s) (.bool b)

/-- **Catalogue of leaf coercions.**  Whenever the fallback accepts a primitive value it either keeps
it or applies exactly one of the seven listed coercions — nothing else can change a leaf. -/
theorem validatePrim_keeps_or_coerces (t : Ty) (j : Json) (v : TVal) (h : validatePrim t j = .ok v) :
    v = .leaf j ∨ ∃ j', v = .leaf j' ∧ Coerced t j j' := by
  unfold validatePrim at h
  split at h
  · injection h with h; subst h; exact Or.inl rfl
  · injection h with h; subst h; exact Or.inr ⟨_, rfl, .strOfInt _⟩
  · injection h with h; subst h; exact Or.inr ⟨_, rfl, .strOfBool _⟩
  · injection h with h; subst h; exact Or.inr ⟨_, rfl, .strOfFloat _⟩
  · injection h with h; subst h; exact Or.inl rfl
  · injection h with h; subst h; exact Or.inl rfl
  · split at h
    · rename_i n hn; injection h with h; subst h; exact Or.inr ⟨_, rfl, .intOfStr _ _ hn⟩
    · cases h
  · injection h with h; subst h; exact Or.inl rfl
  · injection h with h; subst h; exact Or.inl rfl
  · injection h with h; subst h; exact Or.inr ⟨_, rfl, .floatOfBool _⟩
  · split at h
    · rename_i n hn; injection h with h; subst h; exact Or.inr ⟨_, rfl, .floatOfStr _ _ hn⟩
    · cases h
  · injection h with h; subst h; exact Or.inl rfl
  · split at h
    · rename_i b hb; injection h with h; subst h; exact Or.inr ⟨_, rfl, .boolOfStr _ _ hb⟩
    · cases h
  · split at h
    · injection h with h; subst h; exact Or.inl rfl
    · cases h
  · cases h

/-- a coerced leaf is a fixpoint: validating the result again keeps it -/
theorem validatePrim_idempotent (t : Ty) (j : Json) (j' : Json) (h : validatePrim t j = .ok (.leaf j')) :
    validatePrim t j' = .ok (.leaf j') := by
  rcases validatePrim_keeps_or_coerces t j _ h with h1 | ⟨j'', h1, hc⟩
  · injection h1 with h1; subst h1; exact h
  · injection h1 with h1; subst h1
    cases hc <;> simp [validatePrim]
variable {cfg : Cfg}

/-! ## generated helpers against the generated schemas -/

/-- a constant argument fits the declared type of the field it is passed to (leaf check) -/
def constFits : Ty → Json → Bool
  | .opt _, .null => true
  | .opt t, j => constFits t j
  | .lit vs, .str s => vs.contains s
  | .str, .str _ => true
  | .int, .int _ => true
  | .float, .int _ => true
  | .float, .flt _ => true
  | .bool, .bool _ => true
  | .any, _ => true
  | .union a b, j => constFits a j || constFits b j
  | .list _, .arr _ => true
  | .dict _, .obj _ => true
  | _, _ => false

mutual
/-- every constructor call inside the expression names a class of the table, passes declared
attribute names only (each once), supplies every required field, and passes constants that fit -/
def bexprOk (classes : List Class) : BExpr → Bool
  | .model cls kws =>
    match classes.find? (fun c => c.id == cls) with
    | none => false
    | some c =>
      keysNodup kws
      && c.fields.all (fun f => !f.required || hasKey f.name kws)
      && kwsOk classes c kws
  | .list xs => bexprsOk classes xs
  | .dict kvs => bdictOk classes kvs
  | .orElse a b => bexprOk classes a && bexprOk classes b
  | .ite _ a b => bexprOk classes a && bexprOk classes b
  | _ => true

def bexprsOk (classes : List Class) : List BExpr → Bool
  | [] => true
  | x :: r => bexprOk classes x && bexprsOk classes r

def bdictOk (classes : List Class) : List (BKey × BExpr) → Bool
  | [] => true
  | (_, x) :: r => bexprOk classes x && bdictOk classes r

def kwsOk (classes : List Class) (c : Class) : List (String × BExpr) → Bool
  | [] => true
  | (a, x) :: r =>
    (match c.byName a with
      | none => false
      | some f => match x with
        | .const j => constFits f.ty j
        | _ => true)
    && bexprOk classes x && kwsOk classes c r
end

def stmtOk (classes : List Class) : BStmt → Bool
  | .assign _ e => bexprOk classes e
  | .assignIf _ _ e => bexprOk classes e
  | .setKeyIf _ _ _ e => bexprOk classes e

def builderOk (classes : List Class) (b : Builder) : Bool :=
  b.body.all (stmtOk classes) && bexprOk classes b.ret

/-- a dispatch entry: the tag's first entry is this class, and the class declares the dispatch member
as `Literal[tag]` -/
def parseEntryOk (classes : List Class) (p : ParseTable) (e : String × String) : Bool :=
  (lookup e.1 p.table == some e.2)
  && match classes.find? (fun c => c.id == e.2) with
    | some c => c.fields.any (fun f => f.wire == p.member && f.ty == .lit [e.1])
    | none => false

def parseTableOk (classes : List Class) (p : ParseTable) : Bool := p.table.all (parseEntryOk classes p)

/-- a conforming object of a class that declares `member : Literal[tag]` carries `member = tag` -/
theorem tag_of_conforms {cls : String} {c : Class} (hwf : ClassWF c) (hfind : cfg.find cls = some c)
    {f : Field} (hf : f ∈ c.fields) {tag : String} (hty : f.ty = .lit [tag]) (kvs : List (String × Json))
    (hc : conforms cfg (.ref cls) (.obj kvs) = true) : lookup f.wire kvs = some (.str tag) := by
  simp only [conforms, hfind, Bool.and_eq_true] at hc
  obtain ⟨⟨⟨hnd, hmem⟩, hfields⟩, _⟩ := hc
  have hk : hasKey f.wire kvs = true := by
    have := List.all_eq_true.mp hfields f hf
    simp only [hty, Ty.isTag, Bool.not_true, Bool.and_false, Bool.or_false] at this
    exact this
  rw [hasKey_eq_isSome] at hk
  cases hl : lookup f.wire kvs with
  | none => rw [hl] at hk; cases hk
  | some x =>
    have hx := (conformsMembers_mem hmem (f.wire, x) (lookup_mem hl)).2.2 f (byWire_of_mem hwf hf)
    rw [hty] at hx
    cases x <;> simp [conforms, Ty.isOpt] at hx
    subst hx; rfl

/-- **`parse_*` dispatch picks the class the tag names and loses nothing.** -/
theorem parse_dispatch (hwf : CfgWF cfg) (p : ParseTable) (tag cls : String)
    (hok : parseEntryOk cfg.classes p (tag, cls) = true) (j : Json)
    (hc : conforms cfg (.ref cls) j = true) (hu : unamb cfg (.ref cls) j = true) :
    ∃ v, p.run cfg j = .ok v ∧ dump cfg true true v = expected cfg (.ref cls) j := by
  simp only [parseEntryOk, Bool.and_eq_true, beq_iff_eq] at hok
  obtain ⟨htab, hcls⟩ := hok
  cases hfc : cfg.classes.find? (fun c => c.id == cls) with
  | none => simp [hfc] at hcls
  | some c =>
    have hfind : cfg.find cls = some c := hfc
    simp only [hfc, List.any_eq_true, Bool.and_eq_true, beq_iff_eq] at hcls
    obtain ⟨f, hf, hfw, hty⟩ := hcls
    have hty' : f.ty = .lit [tag] := by simpa using hty
    cases j with
    | obj kvs =>
      have hl := tag_of_conforms (hwf c (find_mem hfind)) hfind hf hty' kvs hc
      rw [hfw] at hl
      obtain ⟨v, hv, hd⟩ := conforming_identity hwf (.ref cls) (.obj kvs) hc hu
      exact ⟨v, by simp only [ParseTable.run, hl, htab, hv], hd⟩
    | _ => simp [conforms, Ty.isOpt] at hc
variable {cfg : Cfg}

/-- attribute name -> wire name (the renaming `model_dump(by_alias=True)` applies) -/
def toWire (c : Class) (k : String) : String :=
  match c.byName k with
  | some f => f.wire
  | none => k

theorem attrOf_toWire {c : Class} (hwf : ClassWF c) {k : String} (h : (c.byName k).isSome = true) :
    c.attrOf (toWire c k) = k := by
  cases hb : c.byName k with
  | none => rw [hb] at h; cases h
  | some f =>
    obtain ⟨hf, hfn⟩ := byName_some hb
    simp only [toWire, hb]
    rw [attrOf_wire (byWire_of_mem hwf hf), hfn]

/-- **What a helper builds is the wire form.**  If a `create_*` helper hands the keyword arguments `a`
(attribute names) to the constructor of class `cls`, and the same members under their wire names form a
spec-valid object `w`, then the helper succeeds and its result dumps to exactly `expected w` — wire
names, declared defaults added, no `None` member. -/
theorem builder_emits_wire_form (hwf : CfgWF cfg) (b : Builder) (cls : String) (c : Class) (args a : Obj)
    (hret : b.ret.retClass = some cls) (hfind : cfg.find cls = some c) (hn : namesApart c = true)
    (heval : b.eval args = some (.obj a)) (hattr : ∀ p ∈ a, (c.byName p.1).isSome = true)
    (hinv : cfg.inv c.id a = cfg.inv c.id (a.map (fun p => (toWire c p.1, p.2))))
    (hc : conforms cfg (.ref cls) (.obj (a.map (fun p => (toWire c p.1, p.2)))) = true)
    (hu : unamb cfg (.ref cls) (.obj (a.map (fun p => (toWire c p.1, p.2)))) = true) :
    ∃ v, b.run cfg args = .ok v
      ∧ dump cfg true true v = expected cfg (.ref cls) (.obj (a.map (fun p => (toWire c p.1, p.2)))) := by
  have hcw := hwf c (find_mem hfind)
  have hback : (a.map (fun p => (toWire c p.1, p.2))).map (fun p => (c.attrOf p.1, p.2)) = a := by
    rw [List.map_map]
    conv => rhs; rw [← List.map_id a]
    apply List.map_congr_left
    intro p hp
    simp only [Function.comp, attrOf_toWire hcw (hattr p hp), id]
  obtain ⟨v, hv, hd⟩ := conforming_identity hwf _ _ hc hu
  refine ⟨v, ?_, hd⟩
  have := construct_by_attribute_names (cfg := cfg) hcw hn hfind (a.map (fun p => (toWire c p.1, p.2)))
    (by rw [hback]; exact hinv)
  rw [hback] at this
  simp only [Builder.run, heval, hret, this, hv]

/-! ## the class table matters only through lookup by id (no other state) -/

section Congr
variable {cfg cfg' : Cfg}

theorem validateList_congr (t : Ty) (xs : List Json) (h : ∀ x ∈ xs, validate cfg t x = validate cfg' t x) :
    validateList cfg t xs = validateList cfg' t xs := by
  induction xs with
  | nil => simp [validateList]
  | cons x r ih =>
    simp only [validateList, h x (by simp), ih (fun y hy => h y (List.mem_cons_of_mem _ hy))]

theorem validateVals_congr (t : Ty) (kvs : List (String × Json)) (h : ∀ p ∈ kvs, validate cfg t p.2 = validate cfg' t p.2) :
    validateVals cfg t kvs = validateVals cfg' t kvs := by
  induction kvs with
  | nil => simp [validateVals]
  | cons p r ih =>
    obtain ⟨k, x⟩ := p
    simp only [validateVals, h (k, x) (by simp), ih (fun y hy => h y (List.mem_cons_of_mem _ hy))]

theorem validateMembers_congr (c : Class) (kvs : List (String × Json))
    (h : ∀ p ∈ kvs, ∀ t, validate cfg t p.2 = validate cfg' t p.2) :
    validateMembers cfg c kvs = validateMembers cfg' c kvs := by
  rw [validateMembers_eq, validateMembers_eq]
  apply List.map_congr_left
  intro p hp
  simp only [memberRes]
  split <;> simp [h p hp]

/-- **The typed value depends on the class table only through lookup by id.**  Two configurations
that resolve every class id to the same class (and call the same hooks with the same invariants)
validate every value of every type identically — whatever the order of the table, whatever other
classes (same Python NAME, other id) it also holds. -/
theorem validate_congr (hf : ∀ id, cfg.find id = cfg'.find id) (hc : cfg.calls = cfg'.calls)
    (hi : cfg.inv = cfg'.inv) : ∀ (n : Nat) (j : Json), sizeOf j < n → ∀ t, validate cfg t j = validate cfg' t j := by
  intro n
  induction n with
  | zero => intro j h; omega
  | succ n ihn =>
    intro j hj t
    induction t with
    | opt t iht => cases j <;> simp_all [validate]
    | union a b iha ihb => cases j <;> simp [validate, iha, ihb]
    | list t _ =>
      cases j with
      | arr xs =>
        by_cases hany : t = .any
        · simp [validate, hany]
        · simp only [validate, hany, if_false,
            validateList_congr t xs (fun x hx => ihn x (by have := sizeOf_arr_mem hx; omega) t)]
      | _ => simp [validate]
    | dict t _ =>
      cases j with
      | obj kvs =>
        by_cases hany : t = .any
        · simp [validate, hany]
        · simp only [validate, hany, if_false,
            validateVals_congr t kvs (fun p hp => ihn p.2 (by have := sizeOf_obj_mem hp; omega) t)]
      | _ => simp [validate]
    | ref cls =>
      cases j with
      | obj kvs =>
        simp only [validate, ← hf cls]
        cases hfc : cfg.find cls with
        | none => rfl
        | some c =>
          simp only [assemble, Class.hooked, ← hc, ← hi,
            validateMembers_congr c kvs (fun p hp t => ihn p.2 (by have := sizeOf_obj_mem hp; omega) t)]
          rfl
      | _ => simp [validate]
    | _ => cases j <;> simp [validate]

end Congr

theorem find?_perm_of_nodup {l l' : List Class} (hp : l.Perm l') (hn : (l.map (·.id)).Nodup) (k : String) :
    l.find? (fun c => c.id == k) = l'.find? (fun c => c.id == k) := by
  induction hp with
  | nil => rfl
  | cons x _ ih =>
    simp only [List.map_cons, List.nodup_cons] at hn
    simp only [List.find?_cons, ih hn.2]
  | swap x y l =>
    simp only [List.map_cons, List.nodup_cons, List.mem_cons, not_or] at hn
    simp only [List.find?_cons]
    by_cases hx : (x.id == k) = true <;> by_cases hy : (y.id == k) = true <;> simp [hx, hy]
    have e1 : x.id = k := by simpa using hx
    have e2 : y.id = k := by simpa using hy
    exact absurd (e2.trans e1.symm) hn.1.1
  | trans h1 h2 ih1 ih2 =>
    rw [ih1 hn, ih2 ((h1.map _).nodup_iff.mp hn)]

end Verif.Lemmas.Schema
