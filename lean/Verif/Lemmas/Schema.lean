import Verif.Model.Schema

namespace Verif.Lemmas.Schema
open Verif.Model.Schema

end Verif.Lemmas.Schema
