import Verif.Model.Await

/-! Helper lemmas about `Verif.Model.Await.loop` (property statements live in `Props/`). -/
namespace Verif.Model.Await
variable {α : Type}

/-- a response or error response bearing the request's id -/
def isMatch (cfg : Cfg α) (m : In α) : Bool :=
  match m with
  | .resp id _ => decide (id = cfg.reqId)
  | .err id _ _ => decide (id = cfg.reqId)
  | _ => false

theorem classify_ret {cfg : Cfg α} {m : In α} {p : α} (h : classify cfg m = .ret p) :
    m = .resp cfg.reqId p := by
  cases m <;> simp [classify] at h
  · split at h <;> simp_all
  · split at h <;> simp_all
  · split at h <;> (try split at h) <;> simp_all

theorem classify_raise {cfg : Cfg α} {m : In α} {c : Option Int} {s : Option String}
    (h : classify cfg m = .raise c s) : m = .err cfg.reqId c s := by
  cases m <;> simp [classify] at h
  · split at h <;> simp_all
  · split at h <;> simp_all
  · split at h <;> (try split at h) <;> simp_all

theorem classify_skip_nomatch {cfg : Cfg α} {m : In α} (h : classify cfg m = .skip) :
    isMatch cfg m = false := by
  cases m <;> simp_all [classify, isMatch]

theorem classify_progress_nomatch {cfg : Cfg α} {m : In α} {a} (h : classify cfg m = .progress a) :
    isMatch cfg m = false := by
  cases m <;> simp_all [classify, isMatch] <;> (split at h <;> simp_all)

theorem nomatch_classify {cfg : Cfg α} {m : In α} (h : isMatch cfg m = false) :
    (∃ a, classify cfg m = .progress a) ∨ classify cfg m = .skip := by
  cases m <;> simp [classify, isMatch] at h ⊢
  · simp [h]
  · simp [h]
  · split <;> (try split) <;> simp

/-- the four things `check_and_send_cancellation` can do once the token is seen fired -/
theorem onCancel_cases (cfg : Cfg α) (t : Nat) (ws : List Write) (cbs : List (α × Option α × Option α)) (n : Nat) :
    (onCancel cfg t ws cbs n = ⟨.cancelled, t, ws ++ [.cancelNotif], cbs, n⟩
        ∧ (cfg.writer = .open ∨ ∃ r, cfg.writer = .stalledUntil r ∧ r ≤ t))
    ∨ (onCancel cfg t ws cbs n = ⟨.cancelled, t, ws, cbs, n⟩ ∧ cfg.writer = .closed)
    ∨ (onCancel cfg t ws cbs n = ⟨.timedOut, cfg.D, ws, cbs, n⟩
        ∧ (cfg.writer = .blocked ∨ ∃ r, cfg.writer = .stalledUntil r ∧ t < r ∧ cfg.D ≤ r))
    ∨ (∃ r, onCancel cfg t ws cbs n = ⟨.cancelled, r, ws ++ [.cancelNotif], cbs, n⟩
        ∧ cfg.writer = .stalledUntil r ∧ t < r ∧ r < cfg.D) := by
  unfold onCancel
  cases hw : cfg.writer with
  | «open» => simp
  | closed => simp
  | blocked => simp
  | stalledUntil r =>
    by_cases h1 : r ≤ t
    · simp [h1]
    · by_cases h2 : r < cfg.D
      · simp [h1, h2]; omega
      · simp [h1, h2]; omega

@[simp] theorem onCancel_ne_returned (cfg : Cfg α) (t ws cbs n) (p : α) :
    ((onCancel cfg t ws cbs n).outcome = .returned p) = False := by
  simp only [onCancel]; split <;> (try split) <;> (try split) <;> simp

@[simp] theorem onCancel_ne_raised (cfg : Cfg α) (t ws cbs n) (r c s) :
    ((onCancel cfg t ws cbs n).outcome = .raised r c s) = False := by
  simp only [onCancel]; split <;> (try split) <;> (try split) <;> simp

@[simp] theorem onCancel_callbacks (cfg : Cfg α) (t ws cbs n) :
    (onCancel cfg t ws cbs n).callbacks = cbs := by
  simp only [onCancel]; split <;> (try split) <;> (try split) <;> rfl

@[simp] theorem onCancel_consumed (cfg : Cfg α) (t ws cbs n) :
    (onCancel cfg t ws cbs n).consumed = n := by
  simp only [onCancel]; split <;> (try split) <;> (try split) <;> rfl

/-- completion time never exceeds the deadline (for every history) -/
theorem loop_time_le_deadline (R : Int → Bool) (cfg : Cfg α) (t : Nat) (ev : List (Nat × In α))
    (ws : List Write) (cbs) (n : Nat) (ht : t ≤ cfg.D) :
    (loop R cfg t ev ws cbs n).time ≤ cfg.D := by
  fun_induction loop R cfg t ev ws cbs n
  case case2 t ev cbs n hD hv =>
    rcases onCancel_cases cfg t ws cbs n with ⟨e, _⟩ | ⟨e, _⟩ | ⟨e, _⟩ | ⟨r, e, _, h1, h2⟩ <;> rw [e] <;> simp <;> omega
  all_goals simp_all [arrivesInTime]
  all_goals try omega
  all_goals (first | (split <;> (try split) <;> (try split) <;> simp <;> omega) | (split at * <;> omega) | (rename_i h; rcases h with h | h <;> (try split at h) <;> omega) | skip)

end Verif.Model.Await

namespace Verif.Model.Await
variable {α : Type}

/-- no entry of the list is a response/error bearing the request's id -/
def NoMatch (cfg : Cfg α) (l : List (Nat × In α)) : Prop := ∀ x ∈ l, isMatch cfg x.2 = false

theorem NoMatch.cons {cfg : Cfg α} {x : Nat × In α} {l} (hx : isMatch cfg x.2 = false)
    (hl : NoMatch cfg l) : NoMatch cfg (x :: l) := by
  intro y hy
  rcases List.mem_cons.mp hy with rfl | h
  · exact hx
  · exact hl y h

theorem NoMatch.nil {cfg : Cfg α} : NoMatch cfg ([] : List (Nat × In α)) := by
  intro y hy; cases hy

/-- soundness of a normal return -/
theorem loop_returned_sound (R : Int → Bool) (cfg : Cfg α) (t : Nat) (ev : List (Nat × In α))
    (ws : List Write) (cbs) (n : Nat) (p : α)
    (h : (loop R cfg t ev ws cbs n).outcome = .returned p) :
    ∃ pre a post, ev = pre ++ (a, In.resp cfg.reqId p) :: post ∧ NoMatch cfg pre := by
  fun_induction loop R cfg t ev ws cbs n
  case case1 => simp at h
  case case2 => simp at h
  case case3 => simp at h
  case case4 ih => exact ih h
  case case5 t cbs n _ _ lim a m rest _ t' p' hc =>
    simp at h
    subst h
    exact ⟨[], a, rest, by rw [classify_ret hc]; rfl, NoMatch.nil⟩
  case case6 => simp [errOutcome] at h
  case case7 t cbs n _ _ lim a m rest _ t' args hc ih =>
    obtain ⟨pre, a', post, he, hn⟩ := ih h
    exact ⟨(a, m) :: pre, a', post, by rw [he]; rfl, NoMatch.cons (classify_progress_nomatch hc) hn⟩
  case case8 t cbs n _ _ lim a m rest _ t' hc ih =>
    obtain ⟨pre, a', post, he, hn⟩ := ih h
    exact ⟨(a, m) :: pre, a', post, by rw [he]; rfl, NoMatch.cons (classify_skip_nomatch hc) hn⟩
  case case9 => simp at h
  case case10 ih => exact ih h

/-- soundness of an error outcome: it stems from the first matching message, which is an error
response, and the class is the classifier's verdict on the code carried -/
theorem loop_raised_sound (R : Int → Bool) (cfg : Cfg α) (t : Nat) (ev : List (Nat × In α))
    (ws : List Write) (cbs) (n : Nat) (r : Bool) (c : Int) (s : Option String)
    (h : (loop R cfg t ev ws cbs n).outcome = .raised r c s) :
    ∃ pre a post code, ev = pre ++ (a, In.err cfg.reqId code s) :: post ∧ NoMatch cfg pre
      ∧ c = code.getD (-32603) ∧ r = R c := by
  fun_induction loop R cfg t ev ws cbs n
  case case1 => simp at h
  case case2 => simp at h
  case case3 => simp at h
  case case4 ih => exact ih h
  case case5 => simp at h
  case case6 t cbs n _ _ lim a m rest _ t' code msg hc =>
    simp [errOutcome] at h
    obtain ⟨h1, h2, h3⟩ := h
    subst h3
    exact ⟨[], a, rest, code, by rw [classify_raise hc]; rfl, NoMatch.nil, h2.symm, by rw [← h2, h1]⟩
  case case7 t cbs n _ _ lim a m rest _ t' args hc ih =>
    obtain ⟨pre, a', post, code, he, hn, h1, h2⟩ := ih h
    exact ⟨(a, m) :: pre, a', post, code, by rw [he]; rfl,
      NoMatch.cons (classify_progress_nomatch hc) hn, h1, h2⟩
  case case8 t cbs n _ _ lim a m rest _ t' hc ih =>
    obtain ⟨pre, a', post, code, he, hn, h1, h2⟩ := ih h
    exact ⟨(a, m) :: pre, a', post, code, by rw [he]; rfl,
      NoMatch.cons (classify_skip_nomatch hc) hn, h1, h2⟩
  case case9 => simp at h
  case case10 ih => exact ih h

/-- callback arguments a history entry gives rise to (matching progress notifications only) -/
def cbArgs (cfg : Cfg α) (m : In α) : Option (α × Option α × Option α) :=
  match classify cfg m with
  | .progress a => some a
  | _ => none

/-- outcome decided by a matching message -/
def final (R : Int → Bool) (cfg : Cfg α) (m : In α) : Outcome α :=
  match classify cfg m with
  | .ret p => .returned p
  | .raise c s => errOutcome R c s
  | _ => .timedOut

/-- arrival ticks are non-decreasing -/
def Sorted (l : List (Nat × In α)) : Prop := List.Pairwise (fun x y => x.1 ≤ y.1) l

theorem match_classify {cfg : Cfg α} {m : In α} (h : isMatch cfg m = true) :
    (∃ p, classify cfg m = .ret p) ∨ (∃ c s, classify cfg m = .raise c s) := by
  cases m <;> simp_all [classify, isMatch]

/-- completeness: without cancellation, the first matching message decides the call at its
arrival tick, provided it arrives strictly before the deadline -/
theorem loop_complete (R : Int → Bool) (cfg : Cfg α) (hcancel : cfg.cancelAt = none)
    (t : Nat) (ev : List (Nat × In α)) (ws : List Write) (cbs) (n : Nat) :
    ∀ (pre : List (Nat × In α)) (a : Nat) (m : In α) (post : List (Nat × In α)),
      ev = pre ++ (a, m) :: post → NoMatch cfg pre → isMatch cfg m = true →
      Sorted (pre ++ [(a, m)]) → (∀ x ∈ pre ++ [(a, m)], t ≤ x.1) → a < cfg.D →
      loop R cfg t ev ws cbs n =
        ⟨final R cfg m, a, ws, cbs ++ pre.filterMap (fun x => cbArgs cfg x.2), n + pre.length + 1⟩ := by
  fun_induction loop R cfg t ev ws cbs n
  case case1 t cbs n hD =>
    intro pre a m post _ _ _ _ ht ha
    have := ht (a, m) (by simp); simp at this; omega
  case case2 t cbs n _ hv =>
    simp [cancelVisible, hcancel] at hv
  case case3 => intro pre a m post he; simp at he
  case case4 => intro pre a m post he; simp at he
  case case5 t cbs n hD hv lim a0 m0 rest hcons t' p hc =>
    intro pre a m post he hn hm hs ht ha
    cases pre with
    | nil =>
      simp at he
      obtain ⟨⟨rfl, rfl⟩, rfl⟩ := he
      have h1 := ht (a0, m0) (by simp)
      simp at h1
      simp [final, hc, t', Nat.max_eq_left h1]
    | cons x pre' =>
      simp at he
      obtain ⟨rfl, _⟩ := he
      have := hn (a0, m0) (by simp)
      rcases nomatch_classify this with ⟨_, h2⟩ | h2 <;> simp [hc] at h2
  case case6 t cbs n hD hv lim a0 m0 rest hcons t' c s hc =>
    intro pre a m post he hn hm hs ht ha
    cases pre with
    | nil =>
      simp at he
      obtain ⟨⟨rfl, rfl⟩, rfl⟩ := he
      have h1 := ht (a0, m0) (by simp)
      simp at h1
      simp [final, hc, t', Nat.max_eq_left h1]
    | cons x pre' =>
      simp at he
      obtain ⟨rfl, _⟩ := he
      have := hn (a0, m0) (by simp)
      rcases nomatch_classify this with ⟨_, h2⟩ | h2 <;> simp [hc] at h2
  case case7 t cbs n hD hv lim a0 m0 rest hcons t' args hc ih =>
    intro pre a m post he hn hm hs ht ha
    cases pre with
    | nil =>
      simp at he
      obtain ⟨⟨rfl, rfl⟩, rfl⟩ := he
      rcases match_classify hm with ⟨_, h2⟩ | ⟨_, _, h2⟩ <;> simp [hc] at h2
    | cons x pre' =>
      simp at he
      obtain ⟨rfl, rfl⟩ := he
      have h0 : t ≤ a0 := by have := ht (a0, m0) (by simp); simpa using this
      have hs' : Sorted (pre' ++ [(a, m)]) := (List.pairwise_cons.mp hs).2
      have hle : ∀ x ∈ pre' ++ [(a, m)], a0 ≤ x.1 := (List.pairwise_cons.mp hs).1
      have := ih pre' a m post rfl (fun y hy => hn y (List.mem_cons_of_mem _ hy)) hm hs'
        (by intro y hy; have := hle y hy; simp [t']; omega) ha
      rw [this]
      simp [cbArgs, hc]
      omega
  case case8 t cbs n hD hv lim a0 m0 rest hcons t' hc ih =>
    intro pre a m post he hn hm hs ht ha
    cases pre with
    | nil =>
      simp at he
      obtain ⟨⟨rfl, rfl⟩, rfl⟩ := he
      rcases match_classify hm with ⟨_, h2⟩ | ⟨_, _, h2⟩ <;> simp [hc] at h2
    | cons x pre' =>
      simp at he
      obtain ⟨rfl, rfl⟩ := he
      have h0 : t ≤ a0 := by have := ht (a0, m0) (by simp); simpa using this
      have hs' : Sorted (pre' ++ [(a, m)]) := (List.pairwise_cons.mp hs).2
      have hle : ∀ x ∈ pre' ++ [(a, m)], a0 ≤ x.1 := (List.pairwise_cons.mp hs).1
      have := ih pre' a m post rfl (fun y hy => hn y (List.mem_cons_of_mem _ hy)) hm hs'
        (by intro y hy; have := hle y hy; simp [t']; omega) ha
      rw [this]
      simp [cbArgs, hc]
      omega
  case case9 t cbs n hD hv lim a0 m0 rest hcons hDP =>
    intro pre a m post he hn hm hs ht ha
    exfalso
    have ha0 : a0 ≤ a := by
      cases pre with
      | nil => simp at he; omega
      | cons x pre' =>
        simp at he
        obtain ⟨rfl, _⟩ := he
        exact (List.pairwise_cons.mp hs).1 (a, m) (by simp)
    apply hcons
    right
    simp only [arrivesInTime, lim]
    split <;> simp <;> omega
  case case10 t cbs n hD hv lim a0 m0 rest hcons hDP ih =>
    intro pre a m post he hn hm hs ht ha
    have hlim : lim = t + cfg.P := by simp only [lim]; omega
    have h0 : t + cfg.P ≤ a0 := by
      have h1 : ¬ (arrivesInTime cfg a0 lim = true) := fun h => hcons (Or.inr h)
      rw [hlim] at h1
      simp only [arrivesInTime] at h1
      split at h1 <;> simp at h1 <;> omega
    have hall : ∀ x ∈ pre ++ [(a, m)], a0 ≤ x.1 := by
      cases pre with
      | nil =>
        simp at he
        obtain ⟨⟨rfl, rfl⟩, rfl⟩ := he
        simp
      | cons x pre' =>
        simp at he
        obtain ⟨rfl, _⟩ := he
        intro y hy
        rcases List.mem_cons.mp hy with rfl | hy'
        · exact Nat.le_refl _
        · exact (List.pairwise_cons.mp hs).1 y hy'
    exact ih pre a m post he hn hm hs (fun y hy => Nat.le_trans h0 (hall y hy)) ha

/-- a timeout completes exactly at the deadline -/
theorem loop_timedOut_time (R : Int → Bool) (cfg : Cfg α) (t : Nat) (ev : List (Nat × In α))
    (ws : List Write) (cbs) (n : Nat)
    (h : (loop R cfg t ev ws cbs n).outcome = .timedOut) : (loop R cfg t ev ws cbs n).time = cfg.D := by
  fun_induction loop R cfg t ev ws cbs n <;> simp_all [errOutcome]
  case case2 t ev cbs n hD hv =>
    rcases onCancel_cases cfg t ws cbs n with ⟨e, _⟩ | ⟨e, _⟩ | ⟨e, _⟩ | ⟨r, e, _⟩ <;> rw [e] at h ⊢ <;> simp_all

/-- `CancelledError` only when the token fired, no later than the completion tick and before the deadline -/
theorem loop_cancelled_sound (R : Int → Bool) (cfg : Cfg α) (t : Nat) (ev : List (Nat × In α))
    (ws : List Write) (cbs) (n : Nat)
    (h : (loop R cfg t ev ws cbs n).outcome = .cancelled) :
    ∃ c, cfg.cancelAt = some c ∧ c ≤ (loop R cfg t ev ws cbs n).time
      ∧ (loop R cfg t ev ws cbs n).time < cfg.D := by
  fun_induction loop R cfg t ev ws cbs n <;> simp_all [errOutcome]
  case case2 t ev cbs n hD hv =>
    simp only [cancelVisible] at hv
    split at hv
    · simp at hv
    · rename_i c hc
      simp at hv
      rcases onCancel_cases cfg t ws cbs n with ⟨e, _⟩ | ⟨e, _⟩ | ⟨e, _⟩ | ⟨r, e, _, h1, h2⟩ <;> rw [e] at h ⊢ <;> simp_all <;> omega

/-- whether the outcome is `cancelled` -/
def Outcome.isCancelled : Outcome α → Bool
  | .cancelled => true
  | _ => false

/-- the loop writes nothing but (at most) one cancelled notification, exactly when it ends
cancelled and the write stream is not closed -/
theorem loop_writes (R : Int → Bool) (cfg : Cfg α) (t : Nat) (ev : List (Nat × In α))
    (ws : List Write) (cbs) (n : Nat) :
    (loop R cfg t ev ws cbs n).writes =
      ws ++ (if (loop R cfg t ev ws cbs n).outcome.isCancelled && decide (cfg.writer ≠ .closed)
             then [Write.cancelNotif] else []) := by
  fun_induction loop R cfg t ev ws cbs n <;> simp_all [errOutcome, Outcome.isCancelled]
  case case2 t ev cbs n hD hv =>
    rcases onCancel_cases cfg t ws cbs n with ⟨e, hw⟩ | ⟨e, hw⟩ | ⟨e, hw⟩ | ⟨r, e, hw, _⟩ <;> rw [e]
    · rcases hw with hw | ⟨r, hw, _⟩ <;> simp [Outcome.isCancelled, hw]
    · simp [Outcome.isCancelled, hw]
    · simp [Outcome.isCancelled]
    · simp [Outcome.isCancelled, hw]

/-- a blocked write stream: the call never ends cancelled (the deadline cuts the blocked write) -/
theorem loop_blocked_not_cancelled (R : Int → Bool) (cfg : Cfg α) (t : Nat) (ev : List (Nat × In α))
    (ws : List Write) (cbs) (n : Nat) (hw : cfg.writer = .blocked) :
    (loop R cfg t ev ws cbs n).outcome ≠ .cancelled := by
  fun_induction loop R cfg t ev ws cbs n <;> simp_all [errOutcome, onCancel]

/-- once the token has fired, an iteration ends at once -/
theorem loop_time_after_cancel (R : Int → Bool) (cfg : Cfg α) (t c : Nat) (ev : List (Nat × In α))
    (ws : List Write) (cbs) (n : Nat) (hc : cfg.cancelAt = some c) (hct : c ≤ t)
    (hw : cfg.writer.prompt = true) :
    (loop R cfg t ev ws cbs n).time ≤ t := by
  unfold loop
  by_cases hD : cfg.D ≤ t
  · simp [hD]
  · simp only [hD, cancelVisible, hc, hct]
    simp only [if_false, decide_true, if_true]
    rcases onCancel_cases cfg t ws cbs n with ⟨e, _⟩ | ⟨e, _⟩ | ⟨e, hw'⟩ | ⟨r, e, hw', _⟩ <;> rw [e] <;> simp
    · rcases hw' with hw' | ⟨r, hw', _⟩ <;> simp [hw', Writer.prompt] at hw
    · simp [hw', Writer.prompt] at hw

/-- cancellation latency: with a token firing at `c`, an iteration started at `t` completes no
later than one poll period after `max c t` -/
theorem loop_cancel_latency (R : Int → Bool) (cfg : Cfg α) (c : Nat) (hc : cfg.cancelAt = some c)
    (hw : cfg.writer.prompt = true) (t : Nat) (ev : List (Nat × In α)) (ws : List Write) (cbs) (n : Nat) :
    (loop R cfg t ev ws cbs n).time ≤ max c t + cfg.P := by
  fun_induction loop R cfg t ev ws cbs n
  case case1 => simp; omega
  case case2 t ev cbs n hD hv =>
    rcases onCancel_cases cfg t ws cbs n with ⟨e, _⟩ | ⟨e, _⟩ | ⟨e, hw'⟩ | ⟨r, e, hw', _⟩ <;> rw [e] <;> simp
    · omega
    · omega
    · rcases hw' with hw' | ⟨r, hw', _⟩ <;> simp [hw', Writer.prompt] at hw
    · simp [hw', Writer.prompt] at hw
  case case3 => simp; omega
  case case4 t cbs n hD hv hDP ih =>
    by_cases h : c ≤ t + cfg.P
    · have := loop_time_after_cancel R cfg (t + cfg.P) c [] ws cbs n hc h hw
      omega
    · omega
  case case5 t cbs n hD hv lim a m rest hcons t' p hcl =>
    simp only [arrivesInTime, lim] at hcons
    simp only [t']
    rcases hcons with h | h
    · omega
    · split at h <;> simp at h <;> omega
  case case6 t cbs n hD hv lim a m rest hcons t' code s hcl =>
    simp only [arrivesInTime, lim] at hcons
    simp only [t']
    rcases hcons with h | h
    · omega
    · split at h <;> simp at h <;> omega
  case case7 t cbs n hD hv lim a m rest hcons t' args hcl ih =>
    have ht' : t' ≤ t + cfg.P := by
      simp only [arrivesInTime, lim] at hcons
      simp only [t']
      rcases hcons with h | h
      · omega
      · split at h <;> simp at h <;> omega
    have hct : t < c := by
      simp [cancelVisible, hc] at hv; omega
    by_cases h : c ≤ t'
    · have := loop_time_after_cancel R cfg t' c rest ws (cbs ++ [args]) (n + 1) hc h hw
      omega
    · omega
  case case8 t cbs n hD hv lim a m rest hcons t' hcl ih =>
    have ht' : t' ≤ t + cfg.P := by
      simp only [arrivesInTime, lim] at hcons
      simp only [t']
      rcases hcons with h | h
      · omega
      · split at h <;> simp at h <;> omega
    have hct : t < c := by
      simp [cancelVisible, hc] at hv; omega
    by_cases h : c ≤ t'
    · have := loop_time_after_cancel R cfg t' c rest ws cbs (n + 1) hc h hw
      omega
    · omega
  case case9 => simp; omega
  case case10 t cbs n hD hv lim a m rest hcons hDP ih =>
    have hct : t < c := by
      simp [cancelVisible, hc] at hv; omega
    by_cases h : c ≤ t + cfg.P
    · have := loop_time_after_cancel R cfg (t + cfg.P) c ((a, m) :: rest) ws cbs n hc h hw
      omega
    · omega

theorem loop_consumed_ge (R : Int → Bool) (cfg : Cfg α) (t : Nat) (ev : List (Nat × In α))
    (ws : List Write) (cbs) (n : Nat) : n ≤ (loop R cfg t ev ws cbs n).consumed := by
  fun_induction loop R cfg t ev ws cbs n <;> simp_all <;> omega

theorem loop_consumed_le (R : Int → Bool) (cfg : Cfg α) (t : Nat) (ev : List (Nat × In α))
    (ws : List Write) (cbs) (n : Nat) : (loop R cfg t ev ws cbs n).consumed ≤ n + ev.length := by
  fun_induction loop R cfg t ev ws cbs n <;> simp_all <;> omega

/-- the callback is invoked exactly for the matching progress notifications among the consumed
history entries, in order, with the notified values -/
theorem loop_callbacks (R : Int → Bool) (cfg : Cfg α) (t : Nat) (ev : List (Nat × In α))
    (ws : List Write) (cbs) (n : Nat) :
    (loop R cfg t ev ws cbs n).callbacks =
      cbs ++ (ev.take ((loop R cfg t ev ws cbs n).consumed - n)).filterMap (fun x => cbArgs cfg x.2) := by
  fun_induction loop R cfg t ev ws cbs n
  case case1 => simp
  case case2 => simp
  case case3 => simp
  case case4 ih => simpa using ih
  case case5 t cbs n hD hv lim a m rest hcons t' p hcl => simp [cbArgs, hcl]
  case case6 t cbs n hD hv lim a m rest hcons t' c s hcl => simp [cbArgs, hcl]
  case case7 t cbs n hD hv lim a m rest hcons t' args hcl ih =>
    have hge := loop_consumed_ge R cfg t' rest ws (cbs ++ [args]) (n + 1)
    rw [ih]
    have : (loop R cfg t' rest ws (cbs ++ [args]) (n + 1)).consumed - n
        = ((loop R cfg t' rest ws (cbs ++ [args]) (n + 1)).consumed - (n + 1)) + 1 := by omega
    rw [this, List.take_succ_cons]
    simp [cbArgs, hcl]
  case case8 t cbs n hD hv lim a m rest hcons t' hcl ih =>
    have hge := loop_consumed_ge R cfg t' rest ws cbs (n + 1)
    rw [ih]
    have : (loop R cfg t' rest ws cbs (n + 1)).consumed - n
        = ((loop R cfg t' rest ws cbs (n + 1)).consumed - (n + 1)) + 1 := by omega
    rw [this, List.take_succ_cons]
    simp [cbArgs, hcl]
  case case9 => simp
  case case10 ih => exact ih

/-- every history entry that is not consumed arrives no earlier than the completion tick: what
arrives strictly before completion has been consumed -/
theorem loop_unconsumed_late (R : Int → Bool) (cfg : Cfg α) (t : Nat) (ev : List (Nat × In α))
    (ws : List Write) (cbs) (n : Nat) (hs : Sorted ev) (ht : ∀ x ∈ ev, t ≤ x.1)
    (hw : cfg.writer.prompt = true) :
    ∀ x ∈ ev.drop ((loop R cfg t ev ws cbs n).consumed - n), (loop R cfg t ev ws cbs n).time ≤ x.1 := by
  fun_induction loop R cfg t ev ws cbs n
  case case1 t ev cbs n hD =>
    intro x hx
    simp at hx
    have := ht x hx
    simp; omega
  case case2 =>
    simp only [onCancel_consumed, Nat.sub_self, List.drop_zero]
    rcases onCancel_cases cfg _ ws _ _ with ⟨e, _⟩ | ⟨e, _⟩ | ⟨e, hw'⟩ | ⟨r, e, hw', _⟩ <;> rw [e]
    · simpa using ht
    · simpa using ht
    · rcases hw' with hw' | ⟨r, hw', _⟩ <;> simp [hw', Writer.prompt] at hw
    · simp [hw', Writer.prompt] at hw
  case case3 => simp
  case case4 ih => simp
  case case5 t cbs n hD hv lim a m rest hcons t' p hcl =>
    intro x hx
    simp at hx
    have h1 := (List.pairwise_cons.mp hs).1 x hx
    have h2 := ht x (List.mem_cons_of_mem _ hx)
    simp [t']; omega
  case case6 t cbs n hD hv lim a m rest hcons t' c s hcl =>
    intro x hx
    simp at hx
    have h1 := (List.pairwise_cons.mp hs).1 x hx
    have h2 := ht x (List.mem_cons_of_mem _ hx)
    simp [t']; omega
  case case7 t cbs n hD hv lim a m rest hcons t' args hcl ih =>
    have hge := loop_consumed_ge R cfg t' rest ws (cbs ++ [args]) (n + 1)
    have : (loop R cfg t' rest ws (cbs ++ [args]) (n + 1)).consumed - n
        = ((loop R cfg t' rest ws (cbs ++ [args]) (n + 1)).consumed - (n + 1)) + 1 := by omega
    rw [this, List.drop_succ_cons]
    apply ih (List.pairwise_cons.mp hs).2
    intro x hx
    have h1 := (List.pairwise_cons.mp hs).1 x hx
    have h2 := ht x (List.mem_cons_of_mem _ hx)
    simp [t']; omega
  case case8 t cbs n hD hv lim a m rest hcons t' hcl ih =>
    have hge := loop_consumed_ge R cfg t' rest ws cbs (n + 1)
    have : (loop R cfg t' rest ws cbs (n + 1)).consumed - n
        = ((loop R cfg t' rest ws cbs (n + 1)).consumed - (n + 1)) + 1 := by omega
    rw [this, List.drop_succ_cons]
    apply ih (List.pairwise_cons.mp hs).2
    intro x hx
    have h1 := (List.pairwise_cons.mp hs).1 x hx
    have h2 := ht x (List.mem_cons_of_mem _ hx)
    simp [t']; omega
  case case9 t cbs n hD hv lim a m rest hcons hDP =>
    intro x hx
    simp at hx
    have ha : cfg.D ≤ a := by
      simp only [arrivesInTime, lim] at hcons
      have h1 : ¬ ((if cfg.eventsFirst = true then decide (a ≤ min (t + cfg.P) cfg.D)
          else decide (a < min (t + cfg.P) cfg.D)) = true) := fun h => hcons (Or.inr h)
      split at h1 <;> simp at h1 <;> omega
    rcases hx with rfl | hx
    · simpa using ha
    · have h1 := (List.pairwise_cons.mp hs).1 x hx
      simp; omega
  case case10 t cbs n hD hv lim a m rest hcons hDP ih =>
    apply ih hs
    have ha : t + cfg.P ≤ a := by
      simp only [arrivesInTime, lim] at hcons
      have h1 : ¬ ((if cfg.eventsFirst = true then decide (a ≤ min (t + cfg.P) cfg.D)
          else decide (a < min (t + cfg.P) cfg.D)) = true) := fun h => hcons (Or.inr h)
      split at h1 <;> simp at h1 <;> omega
    intro x hx
    rcases List.mem_cons.mp hx with rfl | hx'
    · exact ha
    · have h1 := (List.pairwise_cons.mp hs).1 x hx'
      omega

theorem classify_cb (cfg : Cfg α) (f : Nat → Bool) (m : In α) :
    classify { cfg with cbRaises := f } m = classify cfg m := by cases m <;> rfl

/-- the loop never consults which callback invocations raise -/
theorem loop_cb_irrelevant (R : Int → Bool) (cfg : Cfg α) (f : Nat → Bool) :
    ∀ t ev ws cbs n, loop R { cfg with cbRaises := f } t ev ws cbs n = loop R cfg t ev ws cbs n := by
  intro t ev ws cbs n
  fun_induction loop R cfg t ev ws cbs n
  all_goals (conv => lhs; unfold loop)
  all_goals simp_all [cancelVisible, arrivesInTime, classify_cb, onCancel]
  all_goals (try grind)

end Verif.Model.Await
