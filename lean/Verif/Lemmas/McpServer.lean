import Verif.Model.McpServer

/-! # Lemmas about the content-level `MCPServer` model (C08) -/
set_option linter.unusedSimpArgs false
set_option linter.unusedVariables false
namespace Verif.Model.McpServer
open Verif.Model.Json (Json)
open Verif.Model.Dispatch (Id Key)

section reg
variable {α : Type}

theorem rget_rput (r : Reg α) (n m : String) (a : α) :
    rget (rput r n a) m = if n = m then some a else rget r m := by
  induction r with
  | nil => simp [rput, rget]
  | cons p t ih =>
    obtain ⟨k, v⟩ := p
    by_cases h : k = n
    · subst h
      by_cases h2 : k = m <;> simp [rput, rget, h2]
    · by_cases h2 : k = m
      · subst h2
        have : ¬ n = k := fun e => h e.symm
        simp [rput, rget, h, this]
      · simp [rput, rget, h, h2, ih]

theorem rkeys_rput (r : Reg α) (n : String) (a : α) :
    rkeys (rput r n a) = if n ∈ rkeys r then rkeys r else rkeys r ++ [n] := by
  induction r with
  | nil => simp [rput, rkeys]
  | cons p t ih =>
    obtain ⟨k, v⟩ := p
    by_cases h : k = n
    · simp [rput, rkeys, h]
    · have h' : ¬ n = k := fun e => h e.symm
      simp only [rkeys] at ih
      simp only [rput, rkeys, h, if_false, List.map_cons, List.mem_cons, h', false_or, ih]
      by_cases hm : n ∈ List.map Prod.fst t <;> simp [hm]

theorem length_rput_live (r : Reg α) (n : String) (a : α) (h : n ∈ rkeys r) :
    (rput r n a).length = r.length := by
  have := congrArg List.length (rkeys_rput r n a)
  rw [if_pos h] at this
  simpa [rkeys] using this

/-- registering a list of (name, entry) pairs one after the other -/
def regAll (r : Reg α) (regs : List (String × α)) : Reg α := regs.foldl (fun acc p => rput acc p.1 p.2) r

theorem rkeys_regAll (r : Reg α) (regs : List (String × α)) :
    rkeys (regAll r regs)
      = (regs.map Prod.fst).foldl (fun acc n => if n ∈ acc then acc else acc ++ [n]) (rkeys r) := by
  induction regs generalizing r with
  | nil => rfl
  | cons p rest ih =>
    simp only [regAll, List.foldl_cons, List.map_cons] at *
    rw [ih, rkeys_rput]

theorem rget_regAll (r : Reg α) (regs : List (String × α)) (n : String) :
    rget (regAll r regs) n
      = match regs.reverse.find? (fun p => p.1 = n) with
        | some p => some p.2
        | none => rget r n := by
  induction regs generalizing r with
  | nil => simp [regAll]
  | cons p rest ih =>
    simp only [regAll, List.foldl_cons] at *
    rw [ih, List.reverse_cons, List.find?_append]
    cases hf : List.find? (fun p => decide (p.1 = n)) rest.reverse with
    | some q => simp
    | none =>
      by_cases hp : p.1 = n
      · simp [rget_rput, hp]
      · simp [rget_rput, hp]

end reg

/-! ## `_format_content` -/

mutual
theorem fmt_blocks (render : Json → Option String) :
    ∀ (v : PyVal) (c : List Json), fmt render v = some c → ∀ b ∈ c, ∃ t, b = textBlock t
  | .str s, c, h, b, hb => by
    simp only [fmt, Option.some.injEq] at h; subst h; simp at hb; exact ⟨s, hb⟩
  | .dict j, c, h, b, hb => by
    simp only [fmt, Option.map_eq_some_iff] at h
    obtain ⟨t, _, ht⟩ := h
    subst ht; simp at hb; exact ⟨t, hb⟩
  | .list xs, c, h, b, hb => fmtList_blocks render xs c (by simpa [fmt] using h) b hb
  | .other t, c, h, b, hb => by
    simp only [fmt, Option.some.injEq] at h; subst h; simp at hb; exact ⟨t, hb⟩
  | .unprintable, c, h, b, hb => by simp [fmt] at h
theorem fmtList_blocks (render : Json → Option String) :
    ∀ (xs : List PyVal) (c : List Json), fmt.fmtList render xs = some c → ∀ b ∈ c, ∃ t, b = textBlock t
  | [], c, h, b, hb => by
    simp only [fmt.fmtList, Option.some.injEq] at h; subst h; simp at hb
  | x :: xs, c, h, b, hb => by
    simp only [fmt.fmtList] at h
    cases hx : fmt render x with
    | none => simp [hx] at h
    | some a =>
      cases hxs : fmt.fmtList render xs with
      | none => simp [hx, hxs] at h
      | some d =>
        simp only [hx, hxs, Option.some.injEq] at h
        subst h
        rcases List.mem_append.mp hb with hb | hb
        · exact fmt_blocks render x a hx b hb
        · exact fmtList_blocks render xs d hxs b hb
end

theorem fmtList_append (render : Json → Option String) (xs ys : List PyVal) :
    fmt.fmtList render (xs ++ ys)
      = match fmt.fmtList render xs, fmt.fmtList render ys with
        | some a, some b => some (a ++ b)
        | _, _ => none := by
  induction xs with
  | nil => cases h : fmt.fmtList render ys <;> simp [fmt.fmtList, h]
  | cons x t ih =>
    simp only [List.cons_append, fmt.fmtList, ih]
    cases fmt render x <;> cases fmt.fmtList render t <;> cases fmt.fmtList render ys <;> simp

/-! ## serving never touches the registries -/

theorem toolsCall_frame (render : Json → Option String) (s : Srv) (name : Key) (args : ArgsV) :
    (toolsCall render s name args).2.tools = s.tools ∧ (toolsCall render s name args).2.resources = s.resources
    ∧ (toolsCall render s name args).2.caps = s.caps ∧ (toolsCall render s name args).2.info = s.info := by
  unfold toolsCall
  repeat' split
  all_goals simp

theorem resourcesRead_frame (s : Srv) (uri : Key) :
    (resourcesRead s uri).2.tools = s.tools ∧ (resourcesRead s uri).2.resources = s.resources
    ∧ (resourcesRead s uri).2.caps = s.caps ∧ (resourcesRead s uri).2.info = s.info := by
  unfold resourcesRead
  repeat' split
  all_goals simp

theorem builtin_frame (cfg : Cfg) (s : Srv) (r : Req) (h : HRes) (s' : Srv)
    (hb : builtin cfg s r = some (h, s')) :
    s'.tools = s.tools ∧ s'.resources = s.resources ∧ s'.caps = s.caps ∧ s'.info = s.info := by
  unfold builtin at hb
  split at hb
  · cases hb; simp
  · split at hb
    · cases hb; simp
    · split at hb
      · cases hb; simp
      · split at hb
        · simp only [Option.some.injEq] at hb
          have := toolsCall_frame cfg.render s r.name r.args
          rw [hb] at this; exact this
        · split at hb
          · cases hb; simp
          · split at hb
            · simp only [Option.some.injEq] at hb
              have := resourcesRead_frame s r.uri
              rw [hb] at this; exact this
            · cases hb

theorem serve_frame (cfg : Cfg) (s : Srv) (r : Req) :
    (serve cfg s r).2.tools = s.tools ∧ (serve cfg s r).2.resources = s.resources
    ∧ (serve cfg s r).2.caps = s.caps ∧ (serve cfg s r).2.info = s.info := by
  unfold serve
  split
  · simp
  · split
    · simp
    · split
      · simp
      · rename_i h s' hb
        exact builtin_frame cfg s r h s' hb

theorem serveAll_frame (cfg : Cfg) (s : Srv) (rs : List Req) :
    (serveAll cfg s rs).2.tools = s.tools ∧ (serveAll cfg s rs).2.resources = s.resources
    ∧ (serveAll cfg s rs).2.caps = s.caps ∧ (serveAll cfg s rs).2.info = s.info := by
  induction rs generalizing s with
  | nil => simp [serveAll]
  | cons r rest ih =>
    simp only [serveAll]
    obtain ⟨a, b, c, d⟩ := ih (serve cfg s r).2
    obtain ⟨a', b', c', d'⟩ := serve_frame cfg s r
    exact ⟨a.trans a', b.trans b', c.trans c', d.trans d'⟩

theorem tools_foldl (s : Srv) (regs : List (String × Tool)) :
    (regs.foldl (fun acc p => registerTool acc p.1 p.2) s).tools = regAll s.tools regs := by
  induction regs generalizing s with
  | nil => rfl
  | cons p rest ih =>
    simp only [List.foldl_cons, regAll] at *
    rw [ih (registerTool s p.1 p.2)]
    rfl

theorem foldl_registerTool_frame (s : Srv) (regs : List (String × Tool)) :
    (regs.foldl (fun acc p => registerTool acc p.1 p.2) s).caps = s.caps
    ∧ (regs.foldl (fun acc p => registerTool acc p.1 p.2) s).info = s.info
    ∧ (regs.foldl (fun acc p => registerTool acc p.1 p.2) s).resources = s.resources := by
  induction regs generalizing s with
  | nil => simp
  | cons p rest ih =>
    simp only [List.foldl_cons]
    obtain ⟨a, b, c⟩ := ih (registerTool s p.1 p.2)
    exact ⟨a, b, c⟩

/-! ## abstraction to the dispatcher-level model -/

/-- does `tools/call` on this tool with these arguments end in a result? -/
def toolSucceeds (cfg : Cfg) (t : Tool) (a : ArgsV) : Bool :=
  match a.kwargs with
  | none => false
  | some kv =>
    match t.fn kv with
    | .ran (.returns v) => (fmt cfg.render v).isSome
    | _ => false

/-- the `Dispatch.Server` this content-level server is, for the arguments of one request -/
def absServer (cfg : Cfg) (s : Srv) (a : ArgsV) : Verif.Model.Dispatch.Server :=
  { tools := fun n => (rget s.tools n).map (fun t => if toolSucceeds cfg t a then .returns "r" else .raises),
    resources := fun u => (rget s.resources u).map (fun r => match r.fn with | .text _ => .returns "r" | .fails => .raises),
    custom := fun _ => none,
    nextSid := "sid" }

def absMsg (r : Req) : Verif.Model.Dispatch.Msg :=
  { id := r.id, method := some r.method, params := { name := r.name, uri := r.uri, argsOk := true } }

/-- what the property looks at in a response: the id, and the error code if it is an error -/
def CResp.shape : CResp → Id × Option Int
  | .result i _ => (i, none)
  | .error i c => (i, some c)

def dShape : Verif.Model.Dispatch.Resp → Id × Option Int
  | .result i _ => (i, none)
  | .error i c => (i, some c)

/-! ## independence: of what was served before, and of other instances -/

theorem toolsCall_fst_congr (render : Json → Option String) (s s' : Srv) (n : Key) (a : ArgsV)
    (h : s.tools = s'.tools) : (toolsCall render s n a).1 = (toolsCall render s' n a).1 := by
  unfold toolsCall
  rw [h]
  repeat' split
  all_goals simp_all

theorem resourcesRead_fst_congr (s s' : Srv) (u : Key) (h : s.resources = s'.resources) :
    (resourcesRead s u).1 = (resourcesRead s' u).1 := by
  unfold resourcesRead
  rw [h]
  repeat' split
  all_goals simp_all

/-- a response depends on the registries, the capabilities and the server info — on nothing else
(not on the log, i.e. not on what was served before) -/
theorem serve_fst_congr (cfg : Cfg) (s s' : Srv) (r : Req) (ht : s.tools = s'.tools)
    (hr : s.resources = s'.resources) (hc : s.caps = s'.caps) (hi : s.info = s'.info) :
    (serve cfg s r).1 = (serve cfg s' r).1 := by
  have h1 := toolsCall_fst_congr cfg.render s s' r.name r.args ht
  have h2 := resourcesRead_fst_congr s s' r.uri hr
  unfold serve builtin toolsList resourcesList
  rw [ht, hr, hc, hi]
  by_cases m0 : r.method = "" <;> simp only [m0, if_true, if_false]
  by_cases m1 : r.method = "notifications/initialized" <;> simp only [m1, if_true, if_false]
  by_cases m2 : r.method = "ping" <;> simp only [m2, if_true, if_false]
  by_cases m3 : r.method = "initialize" <;> simp only [m3, if_true, if_false]
  by_cases m4 : r.method = "tools/list" <;> simp only [m4, if_true, if_false]
  by_cases m5 : r.method = "tools/call"
  · simp only [m5, if_true]; rw [h1]
  simp only [m5, if_false]
  by_cases m6 : r.method = "resources/list" <;> simp only [m6, if_true, if_false]
  by_cases m7 : r.method = "resources/read"
  · simp only [m7, if_true]; rw [h2]
  simp only [m7, if_false]

/-- two servers alive side by side: a tagged request goes to one of them -/
def servePair (cfg : Cfg) (p : Srv × Srv) (x : Bool × Req) : Option CResp × (Srv × Srv) :=
  if x.1 then ((serve cfg p.1 x.2).1, ((serve cfg p.1 x.2).2, p.2))
  else ((serve cfg p.2 x.2).1, (p.1, (serve cfg p.2 x.2).2))

def servePairAll (cfg : Cfg) (p : Srv × Srv) : List (Bool × Req) → List (Bool × Option CResp) × (Srv × Srv)
  | [] => ([], p)
  | x :: rest =>
    let a := servePair cfg p x
    let b := servePairAll cfg a.2 rest
    ((x.1, a.1) :: b.1, b.2)

theorem servePairAll_proj (cfg : Cfg) (p : Srv × Srv) (xs : List (Bool × Req)) :
    ((servePairAll cfg p xs).1.filter (·.1)).map (·.2)
        = (serveAll cfg p.1 ((xs.filter (·.1)).map (·.2))).1
    ∧ ((servePairAll cfg p xs).1.filter (fun y => !y.1)).map (·.2)
        = (serveAll cfg p.2 ((xs.filter (fun y => !y.1)).map (·.2))).1
    ∧ (servePairAll cfg p xs).2.1 = (serveAll cfg p.1 ((xs.filter (·.1)).map (·.2))).2
    ∧ (servePairAll cfg p xs).2.2 = (serveAll cfg p.2 ((xs.filter (fun y => !y.1)).map (·.2))).2 := by
  induction xs generalizing p with
  | nil => simp [servePairAll, serveAll]
  | cons x rest ih =>
    obtain ⟨b, r⟩ := x
    cases b
    · have := ih (servePair cfg p (false, r)).2
      simp only [servePairAll, servePair, Bool.false_eq_true, if_false] at *
      simp [serveAll, this]
    · have := ih (servePair cfg p (true, r)).2
      simp only [servePairAll, servePair, if_true] at *
      simp [serveAll, this]

end Verif.Model.McpServer
