import Verif.Gen.VersionLib
import Verif.Lemmas.Batching

/-! Helper lemmas for the version-utility theorems of C04: `strLt` (Python's `<` on `str`) is a strict
total order; the padded ASCII format under the regenerated functions. -/
namespace Verif.Lemmas.VersionLib
open Verif.Model.Batching Verif.Model.VersionLib Verif.Gen.VersionLib Verif.Lemmas.Batching

theorem strLt_irrefl : ∀ a : List Char, strLt a a = false
  | [] => rfl
  | c :: cs => by simp [strLt, strLt_irrefl cs]

theorem strLt_asymm : ∀ a b : List Char, strLt a b = true → strLt b a = false
  | [], [] => by simp [strLt]
  | [], _ :: _ => by simp [strLt]
  | _ :: _, [] => by simp [strLt]
  | x :: xs, y :: ys => by
    intro h
    simp only [strLt] at h ⊢
    by_cases h1 : x.toNat < y.toNat
    · have : ¬ y.toNat < x.toNat := by omega
      simp [this, h1]
    · by_cases h2 : y.toNat < x.toNat
      · simp [h1, h2] at h
      · simp only [h1, h2, if_false] at h ⊢
        exact strLt_asymm xs ys h

theorem strLt_total : ∀ a b : List Char, a ≠ b → strLt a b = true ∨ strLt b a = true
  | [], [] => by simp
  | [], _ :: _ => by simp [strLt]
  | _ :: _, [] => by simp [strLt]
  | x :: xs, y :: ys => by
    intro h
    simp only [strLt]
    by_cases h1 : x.toNat < y.toNat
    · simp [h1]
    · by_cases h2 : y.toNat < x.toNat
      · simp [h1, h2]
      · have hxy : x = y := Char.toNat_inj.mp (by omega)
        subst hxy
        have : xs ≠ ys := fun e => h (by rw [e])
        simp only [h1, if_false]
        exact strLt_total xs ys this

theorem strLt_trans : ∀ a b c : List Char, strLt a b = true → strLt b c = true → strLt a c = true
  | [], [], _ => by simp [strLt]
  | [], _ :: _, [] => by simp [strLt]
  | [], _ :: _, _ :: _ => by simp [strLt]
  | _ :: _, [], _ => by simp [strLt]
  | _ :: _, _ :: _, [] => by simp [strLt]
  | x :: xs, y :: ys, z :: zs => by
    intro h1 h2
    simp only [strLt] at h1 h2 ⊢
    by_cases a1 : x.toNat < y.toNat
    · by_cases b1 : y.toNat < z.toNat
      · have : x.toNat < z.toNat := by omega
        simp [this]
      · by_cases b2 : z.toNat < y.toNat
        · simp [b1, b2] at h2
        · have : x.toNat < z.toNat := by omega
          simp [this]
    · by_cases a2 : y.toNat < x.toNat
      · simp [a1, a2] at h1
      · simp only [a1, a2, if_false] at h1
        by_cases b1 : y.toNat < z.toNat
        · have : x.toNat < z.toNat := by omega
          simp [this]
        · by_cases b2 : z.toNat < y.toNat
          · simp [b1, b2] at h2
          · simp only [b1, b2, if_false] at h2
            have c1 : ¬ x.toNat < z.toNat := by omega
            have c2 : ¬ z.toNat < x.toNat := by omega
            simp only [c1, c2, if_false]
            exact strLt_trans xs ys zs h1 h2

/-! ### the padded ASCII format under the regenerated functions -/

theorem nd_digitChar : ∀ n, n < 10 → isNd ndZeros (digitChar n) = true := by decide
theorem ndVal_digitChar : ∀ n, n < 10 → ndVal ndZeros (digitChar n) = some n := by decide

theorem validGen_fmt (a b c d e f g h : Nat) (ha : a < 10) (hb : b < 10) (hc : c < 10) (hd : d < 10)
    (he : e < 10) (hf : f < 10) (hg : g < 10) (hh : h < 10) :
    validateFormatGen (fmt a b c d e f g h) = true := by
  simp [validateFormatGen, validFormatU, fmt, nd_digitChar, *]

theorem parseGen_fmt (a b c d e f g h : Nat) (ha : a < 10) (hb : b < 10) (hc : c < 10) (hd : d < 10)
    (he : e < 10) (hf : f < 10) (hg : g < 10) (hh : h < 10) :
    parseVersionGen (fmt a b c d e f g h) = some (1000 * a + 100 * b + 10 * c + d, 10 * e + f, 10 * g + h) := by
  have hv := validGen_fmt a b c d e f g h ha hb hc hd he hf hg hh
  unfold validateFormatGen at hv
  unfold parseVersionGen parseVersionU
  rw [hv]
  simp only [fmt, ndNumber, List.foldl, ndVal_digitChar, ha, hb, hc, hd, he, hf, hg, hh, if_true]
  simp only [Option.some.injEq, Prod.mk.injEq]
  refine ⟨by omega, by omega, by omega⟩

theorem strLt_fmt (a b c d e f g h a' b' c' d' e' f' g' h' : Nat)
    (ha : a < 10) (hb : b < 10) (hc : c < 10) (hd : d < 10) (he : e < 10) (hf : f < 10) (hg : g < 10)
    (hh : h < 10) (ha' : a' < 10) (hb' : b' < 10) (hc' : c' < 10) (hd' : d' < 10) (he' : e' < 10)
    (hf' : f' < 10) (hg' : g' < 10) (hh' : h' < 10) :
    strLt (fmt a b c d e f g h) (fmt a' b' c' d' e' f' g' h')
      = lexLt [a, b, c, d, e, f, g, h] [a', b', c', d', e', f', g', h'] := by
  simp [strLt, fmt, lexLt, digitChar_toNat, *]

end Verif.Lemmas.VersionLib
