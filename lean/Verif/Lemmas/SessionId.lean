import Verif.Gen.SessionId

/-! # The text of a session id (C19): `generate_session_id` on canonical uuid texts

`Verif.Gen.SessionId.sessionIdOfUuid` is REGENERATED from `server/session/base.py`.  A uuid
prints as 8-4-4-4-12 lower-case hexadecimal digits joined by `-` (`str(uuid.UUID)`, trusted). -/
namespace Verif.Model.SessionId
open Verif.Gen.SessionId

def isHex (c : Char) : Bool := ('0' ≤ c && c ≤ '9') || ('a' ≤ c && c ≤ 'f')

/-- the five groups of a uuid's text -/
structure Parts where
  a : List Char
  b : List Char
  c : List Char
  d : List Char
  e : List Char

def Parts.hex (p : Parts) : List Char := p.a ++ (p.b ++ (p.c ++ (p.d ++ p.e)))

def Parts.text (p : Parts) : List Char := p.a ++ '-' :: (p.b ++ '-' :: (p.c ++ '-' :: (p.d ++ '-' :: p.e)))

/-- canonical: group lengths 8-4-4-4-12, every character a lower-case hex digit -/
def Parts.Canonical (p : Parts) : Prop :=
  p.a.length = 8 ∧ p.b.length = 4 ∧ p.c.length = 4 ∧ p.d.length = 4 ∧ p.e.length = 12
  ∧ ∀ x ∈ p.hex, isHex x = true

theorem hex_ne_removed (hr : removed = '-') (c : Char) (h : isHex c = true) : (c != removed) = true := by
  rw [hr]
  by_cases hc : c = '-'
  · subst hc; revert h; decide
  · simp [hc]

theorem filter_hex (hr : removed = '-') (l : List Char) (h : ∀ x ∈ l, isHex x = true) :
    l.filter (fun c => c != removed) = l := by
  apply List.filter_eq_self.mpr
  intro x hx
  exact hex_ne_removed hr x (h x hx)

theorem sessionId_text (hr : removed = '-') (p : Parts) (h : p.Canonical) :
    sessionIdOfUuid p.text = p.hex := by
  obtain ⟨_, _, _, _, _, hx⟩ := h
  have ha := filter_hex hr p.a (fun x m => hx x (by simp [Parts.hex, m]))
  have hb := filter_hex hr p.b (fun x m => hx x (by simp [Parts.hex, m]))
  have hc := filter_hex hr p.c (fun x m => hx x (by simp [Parts.hex, m]))
  have hd := filter_hex hr p.d (fun x m => hx x (by simp [Parts.hex, m]))
  have he := filter_hex hr p.e (fun x m => hx x (by simp [Parts.hex, m]))
  have hdash : (('-' : Char) != removed) = false := by rw [hr]; decide
  simp only [sessionIdOfUuid, Parts.text, Parts.hex, List.filter_append, List.filter_cons, hdash,
    Bool.false_eq_true, if_false, ha, hb, hc, hd, he]

theorem text_injective (p q : Parts) (hp : p.Canonical) (hq : q.Canonical) (h : p.hex = q.hex) :
    p.text = q.text := by
  obtain ⟨pa, pb, pc, pd, pe, _⟩ := hp
  obtain ⟨qa, qb, qc, qd, qe, _⟩ := hq
  unfold Parts.hex at h
  obtain ⟨h1, h⟩ := List.append_inj h (by rw [pa, qa])
  obtain ⟨h2, h⟩ := List.append_inj h (by rw [pb, qb])
  obtain ⟨h3, h⟩ := List.append_inj h (by rw [pc, qc])
  obtain ⟨h4, h5⟩ := List.append_inj h (by rw [pd, qd])
  simp [Parts.text, h1, h2, h3, h4, h5]

end Verif.Model.SessionId
