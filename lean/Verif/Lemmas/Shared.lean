import Verif.Model.Shared

namespace Verif.Model.Shared
open Verif.Model.Await
variable {α : Type}

/-- a caller that is done with a normal return got the payload of a response bearing ITS id
that occurs in the history -/
def Good (hist : List (Nat × In α)) (c : CState α) : Prop :=
  ∀ p t, c.st = .done (.returned p) t → ∃ a, (a, In.resp c.caller.id p) ∈ hist

theorem modifyAt_forall {Q : CState α → Prop} (f : CState α → CState α) (hf : ∀ c, Q c → Q (f c)) :
    ∀ (cs : List (CState α)) (i : Nat), (∀ c ∈ cs, Q c) → ∀ c ∈ modifyAt cs i f, Q c := by
  intro cs
  induction cs with
  | nil => intro i _ c hc; simp [modifyAt] at hc
  | cons x xs ih =>
    intro i h c hc
    cases i with
    | zero =>
      simp [modifyAt] at hc
      rcases hc with rfl | hc
      · exact hf x (h x (by simp))
      · exact h c (by simp [hc])
    | succ j =>
      simp [modifyAt] at hc
      rcases hc with rfl | hc
      · exact h c (by simp)
      · exact ih j (fun c hc => h c (by simp [hc])) c hc

theorem classifyFor_returned {R : Int → Bool} {c : Caller} {m : In α} {p : α}
    (h : classifyFor R c m = some (.returned p)) : m = In.resp c.id p := by
  cases m <;> simp [classifyFor] at h
  · simp [h.1, h.2]
  · simp [errOutcome] at h

theorem deliver_good (R : Int → Bool) (P : Nat) (hist : List (Nat × In α)) (c : CState α) (a : Nat)
    (m : In α) (hm : (a, m) ∈ hist) (hc : Good hist c) : Good hist (deliver R P c a m) := by
  intro p t h
  unfold deliver at h
  split at h
  · rename_i o ho
    simp at h
    obtain ⟨h1, _⟩ := h
    subst h1
    have := classifyFor_returned ho
    subst this
    unfold deliver
    simp only [ho]
    exact ⟨a, hm⟩
  · simp at h

/-- invariant of the simulation: nobody is ever handed another caller's response -/
theorem sim_good (R : Int → Bool) (P : Nat) (hist : List (Nat × In α)) :
    ∀ (fuel : Nat) (cs : List (CState α)) (ev : List (Nat × In α)),
      (∀ x ∈ ev, x ∈ hist) → (∀ c ∈ cs, Good hist c) → ∀ c ∈ sim R P fuel cs ev, Good hist c := by
  intro fuel
  induction fuel with
  | zero => intro cs ev _ h; simpa [sim] using h
  | succ n ih =>
    intro cs ev hev h
    unfold sim
    simp only
    split
    · exact h
    · apply ih _ _ hev
      apply modifyAt_forall _ _ _ _ h
      intro c _ p t hp; simp at hp
    · apply ih _ _ hev
      apply modifyAt_forall _ _ _ _ h
      intro c _ p t hp; simp at hp
    · split
      · exact h
      · rename_i a m rest _
        have hrest : ∀ x ∈ rest, x ∈ hist := fun x hx => hev x (by simp [hx])
        have ham : (a, m) ∈ hist := hev (a, m) (by simp)
        split
        · exact ih _ _ hrest h
        · apply ih _ _ hrest
          apply modifyAt_forall _ _ _ _ h
          intro c hc
          exact deliver_good R P hist c a m ham hc

end Verif.Model.Shared
