import Verif.Model.Shared

namespace Verif.Model.Shared
open Verif.Model.Await
variable {α : Type}

/-- a caller that is done with a normal return got the payload of a response bearing ITS id
that occurs in the history -/
def Good (hist : List (Nat × In α)) (c : CState α) : Prop :=
  ∀ p t, c.st = .done (.returned p) t → ∃ a, (a, In.resp c.caller.id p) ∈ hist

theorem modifyAt_forall {Q : CState α → Prop} (f : CState α → CState α) (hf : ∀ c, Q c → Q (f c)) :
    ∀ (cs : List (CState α)) (i : Nat), (∀ c ∈ cs, Q c) → ∀ c ∈ modifyAt cs i f, Q c := by
  intro cs
  induction cs with
  | nil => intro i _ c hc; simp [modifyAt] at hc
  | cons x xs ih =>
    intro i h c hc
    cases i with
    | zero =>
      simp [modifyAt] at hc
      rcases hc with rfl | hc
      · exact hf x (h x (by simp))
      · exact h c (by simp [hc])
    | succ j =>
      simp [modifyAt] at hc
      rcases hc with rfl | hc
      · exact h c (by simp)
      · exact ih j (fun c hc => h c (by simp [hc])) c hc

theorem classifyFor_returned {R : Int → Bool} {c : Caller} {m : In α} {p : α}
    (h : classifyFor R c m = some (.returned p)) : m = In.resp c.id p := by
  cases m <;> simp [classifyFor] at h
  · simp [h.1, h.2]
  · simp [errOutcome] at h

theorem deliver_good (R : Int → Bool) (P : Nat) (hist : List (Nat × In α)) (c : CState α) (a : Nat)
    (m : In α) (hm : (a, m) ∈ hist) (hc : Good hist c) : Good hist (deliver R P c a m) := by
  intro p t h
  unfold deliver at h
  split at h
  · rename_i o ho
    simp at h
    obtain ⟨h1, _⟩ := h
    subst h1
    have := classifyFor_returned ho
    subst this
    unfold deliver
    simp only [ho]
    exact ⟨a, hm⟩
  · simp at h

/-- invariant of the simulation: nobody is ever handed another caller's response -/
theorem sim_good (R : Int → Bool) (P : Nat) (hist : List (Nat × In α)) :
    ∀ (fuel : Nat) (cs : List (CState α)) (ev : List (Nat × In α)),
      (∀ x ∈ ev, x ∈ hist) → (∀ c ∈ cs, Good hist c) → ∀ c ∈ sim R P fuel cs ev, Good hist c := by
  intro fuel
  induction fuel with
  | zero => intro cs ev _ h; simpa [sim] using h
  | succ n ih =>
    intro cs ev hev h
    unfold sim
    simp only
    split
    · exact h
    · apply ih _ _ hev
      apply modifyAt_forall _ _ _ _ h
      intro c _ p t hp; simp at hp
    · apply ih _ _ hev
      apply modifyAt_forall _ _ _ _ h
      intro c _ p t hp; simp at hp
    · split
      · exact h
      · rename_i a m rest _
        have hrest : ∀ x ∈ rest, x ∈ hist := fun x hx => hev x (by simp [hx])
        have ham : (a, m) ∈ hist := hev (a, m) (by simp)
        split
        · exact ih _ _ hrest h
        · apply ih _ _ hrest
          apply modifyAt_forall _ _ _ _ h
          intro c hc
          exact deliver_good R P hist c a m ham hc

end Verif.Model.Shared

namespace Verif.Model.Shared
open Verif.Model.Await
variable {α : Type}

/-! ## Each arriving message is handed to at most one caller -/

/-- all consumed arrival ticks, caller by caller -/
def allGot (cs : List (CState α)) : List Nat := cs.flatMap (·.got)

theorem allGot_modifyAt_st (cs : List (CState α)) (i : Nat) (f : CState α → CState α)
    (hf : ∀ c, (f c).got = c.got) : allGot (modifyAt cs i f) = allGot cs := by
  induction cs generalizing i with
  | nil => simp [modifyAt, allGot]
  | cons x xs ih =>
    cases i with
    | zero => simp [modifyAt, allGot, hf]
    | succ j =>
      have := ih j
      simp only [allGot, modifyAt, List.flatMap_cons] at this ⊢
      rw [this]

/-- delivering arrival `a` to caller `i` adds exactly `a` to what has been consumed (or nothing,
when there is no such caller) -/
theorem allGot_modifyAt_deliver (R : Int → Bool) (P : Nat) (cs : List (CState α)) (i a : Nat) (m : In α) :
    (allGot (modifyAt cs i (fun c => deliver R P c a m))).Perm (a :: allGot cs)
    ∨ allGot (modifyAt cs i (fun c => deliver R P c a m)) = allGot cs := by
  induction cs generalizing i with
  | nil => right; simp [modifyAt, allGot]
  | cons x xs ih =>
    cases i with
    | zero =>
      left
      have hg : (deliver R P x a m).got = x.got ++ [a] := by
        unfold deliver; split <;> rfl
      simp only [modifyAt, allGot, List.flatMap_cons, hg]
      have : (x.got ++ [a] ++ xs.flatMap (·.got)).Perm (a :: (x.got ++ xs.flatMap (·.got))) := by
        rw [List.append_assoc]
        exact (List.perm_middle).trans (List.Perm.refl _)
      exact this
    | succ j =>
      rcases ih j with h | h
      · left
        simp only [allGot, modifyAt, List.flatMap_cons] at h ⊢
        exact (List.Perm.append_left _ h).trans List.perm_middle
      · right
        simp only [allGot, modifyAt, List.flatMap_cons] at h ⊢
        rw [h]

/-- invariant: what the callers have consumed so far, together with what is still to arrive, never
repeats an arrival of a history whose arrival ticks are distinct, and is drawn from it -/
theorem sim_consumed_once (R : Int → Bool) (P : Nat) :
    ∀ (fuel : Nat) (cs : List (CState α)) (ev : List (Nat × In α)),
      (allGot cs ++ ev.map (·.1)).Nodup →
      (allGot (sim R P fuel cs ev)).Nodup
      ∧ ∀ a ∈ allGot (sim R P fuel cs ev), a ∈ allGot cs ∨ a ∈ ev.map (·.1) := by
  intro fuel
  induction fuel with
  | zero =>
    intro cs ev h
    exact ⟨(List.nodup_append.mp h).1, fun a ha => Or.inl (by simpa [sim] using ha)⟩
  | succ n ih =>
    intro cs ev h
    have hcs : (allGot cs).Nodup := (List.nodup_append.mp h).1
    unfold sim
    simp only
    split
    · exact ⟨hcs, fun a ha => Or.inl ha⟩
    · rename_i i t _
      have e := allGot_modifyAt_st cs i (fun c => { c with st := St.done Outcome.timedOut c.caller.D }) (by intro c; rfl)
      have := ih (modifyAt cs i (fun c => { c with st := St.done Outcome.timedOut c.caller.D })) ev (by rw [e]; exact h)
      rw [e] at this; exact this
    · rename_i i t _
      have e := allGot_modifyAt_st cs i (fun c => { c with st := St.waiting t (t + P) }) (by intro c; rfl)
      have := ih (modifyAt cs i (fun c => { c with st := St.waiting t (t + P) })) ev (by rw [e]; exact h)
      rw [e] at this; exact this
    · split
      · exact ⟨hcs, fun a ha => Or.inl ha⟩
      · rename_i a m rest _
        have hsub : (allGot cs ++ rest.map (·.1)).Nodup := by
          simp only [List.map_cons] at h
          exact (List.Sublist.nodup (List.Sublist.append_left (List.sublist_cons_self _ _) _) h)
        split
        · obtain ⟨h1, h2⟩ := ih cs rest hsub
          refine ⟨h1, fun x hx => ?_⟩
          rcases h2 x hx with h3 | h3
          · exact Or.inl h3
          · exact Or.inr (by simp [h3])
        · rename_i i _ _
          rcases allGot_modifyAt_deliver R P cs i a m with hp | he
          · have hn : (allGot (modifyAt cs i (fun c => deliver R P c a m)) ++ rest.map (·.1)).Nodup := by
              have hperm : (allGot (modifyAt cs i (fun c => deliver R P c a m)) ++ rest.map (·.1)).Perm
                  (allGot cs ++ (a :: rest.map (·.1))) :=
                (List.Perm.append_right _ hp).trans (by simpa using (List.perm_middle).symm)
              simp only [List.map_cons] at h
              exact hperm.nodup_iff.mpr h
            obtain ⟨h1, h2⟩ := ih _ rest hn
            refine ⟨h1, fun x hx => ?_⟩
            rcases h2 x hx with h3 | h3
            · rcases (hp.mem_iff.mp h3) with h4
              simp at h4
              rcases h4 with rfl | h4
              · exact Or.inr (by simp)
              · exact Or.inl h4
            · exact Or.inr (by simp [h3])
          · have hn : (allGot (modifyAt cs i (fun c => deliver R P c a m)) ++ rest.map (·.1)).Nodup := by
              rw [he]; exact hsub
            obtain ⟨h1, h2⟩ := ih _ rest hn
            refine ⟨h1, fun x hx => ?_⟩
            rcases h2 x hx with h3 | h3
            · exact Or.inl (by rw [he] at h3; exact h3)
            · exact Or.inr (by simp [h3])

end Verif.Model.Shared
