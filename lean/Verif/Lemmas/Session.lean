import Std.Data.ExtHashMap
import Verif.Model.Session

/-! # Specification of the session store as a finite map, and the refinement lemmas (C19)

The specification state is the standard library's extensional hash map
`Std.ExtHashMap ι (Rec κ ν)` ("a simple map from id to timestamped record"); every operation
is the library's own map operation (`insert`, `erase`, `modify`, `filter`, `size`, `[·]?`).
`abs` maps the model's association list to that map. -/
set_option linter.unusedSimpArgs false
set_option linter.unusedVariables false
set_option linter.unusedSectionVars false
namespace Verif.Model.Session
open Std

section
variable {ι κ ν : Type} [DecidableEq ι] [Hashable ι]

abbrev Spec (ι κ ν : Type) [DecidableEq ι] [Hashable ι] := ExtHashMap ι (Rec κ ν)

def specTouch (m : Spec ι κ ν) (i : ι) (now : Int) : Spec ι κ ν :=
  m.modify i (fun r => { r with last := now })

def specTouchOpt (m : Spec ι κ ν) (sid : Option ι) (now : Int) : Spec ι κ ν :=
  match sid with
  | none => m
  | some i => specTouch m i now

/-- the reference semantics: a finite map and nothing else -/
def specStep (cfg : Cfg κ ν) (m : Spec ι κ ν) (now : Int) :
    Op ι κ ν → Spec ι κ ν × Out ι κ ν (Spec ι κ ν)
  | .create id c v => (m.insert id ⟨c, v, now, now⟩, .sid id)
  | .get id => (m, .record m[id]?)
  | .touch id => (specTouch m id now, .flag (m.contains id))
  | .delete id => (m.erase id, .flag (m.contains id))
  | .cleanup a =>
    (m.filter (fun _ r => !expired now a r),
      .count (m.size - (m.filter (fun _ r => !expired now a r)).size))
  | .list => (m, .listing m)
  | .clear => (∅, .count m.size)
  | .count => (m, .count m.size)
  | .init sid id c rq =>
    ((specTouchOpt m sid now).insert id ⟨c.getD cfg.noClient, cfg.answer rq, now, now⟩,
      .inited id (cfg.answer rq))
  | .request sid => (specTouchOpt m sid now, .unit)
  | .initSilent sid id c rq =>
    ((specTouchOpt m sid now).insert id ⟨c.getD cfg.noClient, cfg.answer rq, now, now⟩, .unit)
  | .message sid k =>
    (match k with
      | .noMethod => m
      | _ => specTouchOpt m sid now,
     .unit)

def specRunFrom (cfg : Cfg κ ν) (m : Spec ι κ ν) :
    Hist ι κ ν → Spec ι κ ν × List (Out ι κ ν (Spec ι κ ν))
  | [] => (m, [])
  | (now, op) :: rest =>
    let r := specRunFrom cfg (specStep cfg m now op).1 rest
    (r.1, (specStep cfg m now op).2 :: r.2)

def specRun (cfg : Cfg κ ν) (h : Hist ι κ ν) : Spec ι κ ν × List (Out ι κ ν (Spec ι κ ν)) :=
  specRunFrom cfg ∅ h

/-- abstraction function: association list ↦ finite map (earlier entries win, as in `get`) -/
def abs : Store ι κ ν → Spec ι κ ν
  | [] => ∅
  | (k, r) :: t => (abs t).insert k r

/-- representation invariant: a dict has each key once -/
def WF (s : Store ι κ ν) : Prop := (keys s).Nodup

/-! ## association-list facts -/

theorem get_isSome_iff_mem (s : Store ι κ ν) (i : ι) : (get s i).isSome ↔ i ∈ keys s := by
  induction s with
  | nil => simp [get, keys]
  | cons p t ih =>
    obtain ⟨k, r⟩ := p
    by_cases h : k = i
    · simp [get, keys, h]
    · have h' : ¬ i = k := fun e => h e.symm
      simp only [keys] at ih
      simp [get, keys, h, h', ih]

theorem get_none_iff (s : Store ι κ ν) (i : ι) : get s i = none ↔ i ∉ keys s := by
  rw [← get_isSome_iff_mem]; cases get s i <;> simp

theorem keys_put (s : Store ι κ ν) (i : ι) (r : Rec κ ν) :
    keys (put s i r) = if i ∈ keys s then keys s else keys s ++ [i] := by
  induction s with
  | nil => simp [put, keys]
  | cons p t ih =>
    obtain ⟨k, v⟩ := p
    by_cases h : k = i
    · simp [put, keys, h]
    · have h' : ¬ i = k := fun e => h e.symm
      simp only [keys] at ih
      simp only [put, keys, h, if_false, List.map_cons, List.mem_cons, h', false_or, ih]
      by_cases hm : i ∈ List.map Prod.fst t <;> simp [hm]

theorem get_put (s : Store ι κ ν) (i j : ι) (r : Rec κ ν) :
    get (put s i r) j = if i = j then some r else get s j := by
  induction s with
  | nil => simp [put, get]
  | cons p t ih =>
    obtain ⟨k, v⟩ := p
    by_cases h : k = i
    · subst h
      by_cases h2 : k = j <;> simp [put, get, h2]
    · by_cases h2 : k = j
      · subst h2
        have : ¬ i = k := fun e => h e.symm
        simp [put, get, h, this]
      · simp [put, get, h, h2, ih]

theorem wf_put (s : Store ι κ ν) (i : ι) (r : Rec κ ν) (h : WF s) : WF (put s i r) := by
  unfold WF at *
  rw [keys_put]
  split
  · exact h
  · rename_i hn
    rw [List.nodup_append]
    refine ⟨h, by simp, ?_⟩
    intro a ha b hb
    simp at hb
    subst hb
    intro e
    subst e
    exact hn ha

theorem wf_filter (s : Store ι κ ν) (p : ι × Rec κ ν → Bool) (h : WF s) : WF (s.filter p) := by
  unfold WF keys at *
  exact List.Nodup.sublist (List.Sublist.map _ List.filter_sublist) h

theorem get_filter (s : Store ι κ ν) (q : ι → Rec κ ν → Bool) (i : ι) (h : WF s) :
    get (s.filter (fun p => q p.1 p.2)) i = (get s i).filter (q i) := by
  induction s with
  | nil => simp [get]
  | cons p t ih =>
    obtain ⟨k, r⟩ := p
    have ht : WF t := by
      unfold WF keys at *
      exact (List.nodup_cons.mp h).2
    have hk : k ∉ keys t := by
      unfold WF keys at *
      exact (List.nodup_cons.mp h).1
    by_cases hki : k = i
    · subst hki
      by_cases hq : q k r = true
      · simp [List.filter, hq, get, Option.filter]
      · have hq' : q k r = false := by simpa using hq
        have hn : get (t.filter (fun p => q p.1 p.2)) k = none := by
          rw [get_none_iff]
          intro hm
          apply hk
          unfold keys at *
          exact (List.Sublist.map _ List.filter_sublist).subset hm
        simp [List.filter, hq', get, Option.filter, hn]
    · by_cases hq : q k r = true
      · simp [List.filter, hq, get, hki, ih ht]
      · have hq' : q k r = false := by simpa using hq
        simp [List.filter, hq', get, hki, ih ht]

theorem wf_touch (s : Store ι κ ν) (i : ι) (now : Int) (h : WF s) : WF (touch s i now).1 := by
  unfold touch
  split
  · exact wf_put _ _ _ h
  · exact h

theorem wf_touchOpt (s : Store ι κ ν) (sid : Option ι) (now : Int) (h : WF s) :
    WF (touchOpt s sid now) := by
  cases sid with
  | none => exact h
  | some i => exact wf_touch s i now h

theorem wf_step (cfg : Cfg κ ν) (s : Store ι κ ν) (now : Int) (op : Op ι κ ν) (h : WF s) :
    WF (step cfg s now op).1 := by
  cases op with
  | create id c v => exact wf_put _ _ _ h
  | get id => exact h
  | touch id => exact wf_touch s id now h
  | delete id => exact wf_filter _ _ h
  | cleanup a => exact wf_filter _ _ h
  | list => exact h
  | clear => simp [step, WF, keys]
  | count => exact h
  | init sid id c rq => exact wf_put _ _ _ (wf_touchOpt s sid now h)
  | request sid => exact wf_touchOpt s sid now h
  | initSilent sid id c rq => exact wf_put _ _ _ (wf_touchOpt s sid now h)
  | message sid k =>
    cases k <;> first | exact h | exact wf_touchOpt s sid now h

theorem wf_runFrom (cfg : Cfg κ ν) (s : Store ι κ ν) (h : Hist ι κ ν) (hs : WF s) :
    WF (runFrom cfg s h).1 := by
  induction h generalizing s with
  | nil => exact hs
  | cons p rest ih =>
    obtain ⟨now, op⟩ := p
    exact ih _ (wf_step cfg s now op hs)

theorem wf_run (cfg : Cfg κ ν) (h : Hist ι κ ν) : WF (run cfg h).1 :=
  wf_runFrom cfg [] h (by simp [WF, keys])

/-! ## abstraction lemmas -/

theorem abs_get (s : Store ι κ ν) (i : ι) : (abs s)[i]? = get s i := by
  induction s with
  | nil => simp [abs, get]
  | cons p t ih =>
    obtain ⟨k, r⟩ := p
    simp [abs, get, ExtHashMap.getElem?_insert, ih]

theorem abs_contains (s : Store ι κ ν) (i : ι) : (abs s).contains i = (get s i).isSome := by
  rw [ExtHashMap.contains_eq_isSome_getElem?, abs_get]

theorem abs_mem (s : Store ι κ ν) (i : ι) : i ∈ abs s ↔ i ∈ keys s := by
  rw [ExtHashMap.mem_iff_isSome_getElem?, abs_get, get_isSome_iff_mem]

theorem abs_size (s : Store ι κ ν) (h : WF s) : (abs s).size = s.length := by
  induction s with
  | nil => simp [abs]
  | cons p t ih =>
    obtain ⟨k, r⟩ := p
    have ht : WF t := by
      unfold WF keys at *
      exact (List.nodup_cons.mp h).2
    have hk : k ∉ keys t := by
      unfold WF keys at *
      exact (List.nodup_cons.mp h).1
    have hm : ¬ k ∈ abs t := by rw [abs_mem]; exact hk
    simp [abs, ExtHashMap.size_insert, hm, ih ht]

theorem abs_put (s : Store ι κ ν) (i : ι) (r : Rec κ ν) : abs (put s i r) = (abs s).insert i r := by
  apply ExtHashMap.ext_getElem?
  intro k
  rw [abs_get, get_put, ExtHashMap.getElem?_insert, abs_get]
  by_cases h : i = k <;> simp [h]

theorem abs_touch (s : Store ι κ ν) (i : ι) (now : Int) :
    abs (touch s i now).1 = specTouch (abs s) i now := by
  apply ExtHashMap.ext_getElem?
  intro k
  unfold touch specTouch
  rw [ExtHashMap.getElem?_modify, abs_get]
  cases hg : get s i with
  | none =>
    by_cases h : i = k
    · subst h; simp [abs_get, hg]
    · simp [abs_get, h]
  | some r =>
    simp only [abs_get, get_put]
    by_cases h : i = k
    · subst h; simp [hg]
    · simp [h]

theorem abs_touchOpt (s : Store ι κ ν) (sid : Option ι) (now : Int) :
    abs (touchOpt s sid now) = specTouchOpt (abs s) sid now := by
  cases sid with
  | none => rfl
  | some i => exact abs_touch s i now

theorem abs_del (s : Store ι κ ν) (i : ι) (h : WF s) : abs (del s i).1 = (abs s).erase i := by
  apply ExtHashMap.ext_getElem?
  intro k
  unfold del
  have := get_filter s (fun a _ => decide (a ≠ i)) k h
  rw [abs_get, this, ExtHashMap.getElem?_erase, abs_get]
  by_cases hik : i = k
  · subst hik
    cases get s i <;> simp [Option.filter]
  · have : ¬ k = i := fun e => hik e.symm
    cases get s k <;> simp [Option.filter, hik, this]

theorem abs_filter (s : Store ι κ ν) (q : Rec κ ν → Bool) (h : WF s) :
    abs (s.filter (fun p => q p.2)) = (abs s).filter (fun _ r => q r) := by
  apply ExtHashMap.ext_getElem?
  intro k
  rw [abs_get, get_filter s (fun _ r => q r) k h, ExtHashMap.getElem?_filter', abs_get]

theorem length_filter_split {α : Type} (l : List α) (p : α → Bool) :
    (l.filter p).length = l.length - (l.filter (fun x => !p x)).length := by
  induction l with
  | nil => simp
  | cons a t ih =>
    have h1 := List.length_filter_le p t
    have h2 := List.length_filter_le (fun x => !p x) t
    by_cases h : p a = true
    · simp [List.filter, h]; omega
    · have h' : p a = false := by simpa using h
      simp [List.filter, h']; omega

/-- one step of the model is one step of the map specification -/
theorem step_refines (cfg : Cfg κ ν) (s : Store ι κ ν) (now : Int) (op : Op ι κ ν) (h : WF s) :
    abs (step cfg s now op).1 = (specStep cfg (abs s) now op).1
    ∧ (step cfg s now op).2.map abs = (specStep cfg (abs s) now op).2 := by
  cases op with
  | create id c v => exact ⟨abs_put _ _ _, rfl⟩
  | get id => simp [step, specStep, Out.map, abs_get]
  | touch id =>
    refine ⟨abs_touch s id now, ?_⟩
    simp only [step, specStep, Out.map, abs_contains]
    unfold touch
    cases get s id <;> simp
  | delete id =>
    refine ⟨abs_del s id h, ?_⟩
    simp [step, specStep, Out.map, abs_contains, del]
  | cleanup a =>
    have hf := abs_filter s (fun r => !expired now a r) h
    refine ⟨hf, ?_⟩
    simp only [step, specStep, Out.map, cleanup]
    rw [← hf, abs_size s h, abs_size _ (wf_filter _ _ h)]
    congr 1
    exact length_filter_split s (fun p => expired now a p.2)
  | list => simp [step, specStep, Out.map]
  | clear => simp [step, specStep, Out.map, abs, abs_size s h]
  | count => simp [step, specStep, Out.map, abs_size s h]
  | init sid id c rq =>
    simp only [step, specStep, Out.map, abs_put, abs_touchOpt, and_self]
  | request sid => simp [step, specStep, Out.map, abs_touchOpt]
  | initSilent sid id c rq =>
    simp only [step, specStep, Out.map, abs_put, abs_touchOpt, and_self]
  | message sid k => cases k <;> simp [step, specStep, Out.map, abs_touchOpt]

theorem runFrom_refines (cfg : Cfg κ ν) (s : Store ι κ ν) (h : Hist ι κ ν) (hs : WF s) :
    abs (runFrom cfg s h).1 = (specRunFrom cfg (abs s) h).1
    ∧ (runFrom cfg s h).2.map (Out.map abs) = (specRunFrom cfg (abs s) h).2 := by
  induction h generalizing s with
  | nil => simp [runFrom, specRunFrom]
  | cons p rest ih =>
    obtain ⟨now, op⟩ := p
    obtain ⟨h1, h2⟩ := step_refines cfg s now op hs
    obtain ⟨i1, i2⟩ := ih _ (wf_step cfg s now op hs)
    simp only [runFrom, specRunFrom, List.map_cons]
    rw [← h1, ← h2]
    exact ⟨i1, by rw [i2]⟩

/-! ## the code-shaped cleanup loop equals the filter -/

theorem get_of_mem (s : Store ι κ ν) (k : ι) (r : Rec κ ν) (h : WF s) (hm : (k, r) ∈ s) :
    get s k = some r := by
  induction s with
  | nil => simp at hm
  | cons q t ih =>
    obtain ⟨k2, r2⟩ := q
    have ht : WF t := by unfold WF keys at *; exact (List.nodup_cons.mp h).2
    have hk2 : k2 ∉ keys t := by unfold WF keys at *; exact (List.nodup_cons.mp h).1
    simp only [List.mem_cons, Prod.mk.injEq] at hm
    rcases hm with ⟨e1, e2⟩ | hm
    · simp [get, e1, e2]
    · have : k2 ≠ k := by
        intro e; subst e; apply hk2; unfold keys
        exact List.mem_map.mpr ⟨(k2, r), hm, rfl⟩
      simp [get, this, ih ht hm]

theorem foldl_filter_ne (l : List ι) (s : Store ι κ ν) :
    l.foldl (fun acc i => acc.filter (fun p => decide (p.1 ≠ i))) s
      = s.filter (fun p => decide (p.1 ∉ l)) := by
  induction l generalizing s with
  | nil => simp; exact (List.filter_eq_self.mpr (by simp)).symm
  | cons a t ih =>
    simp only [List.foldl_cons, ih, List.filter_filter]
    apply List.filter_congr
    intro p _
    by_cases h : p.1 = a <;> simp [h]

theorem cleanupLoop_eq (now a : Int) (s : Store ι κ ν) (h : WF s) :
    cleanupLoop now a s = cleanup now a s := by
  unfold cleanupLoop cleanup
  have hd : (fun (acc : Store ι κ ν) (i : ι) => (del acc i).1)
      = (fun acc i => acc.filter (fun p => decide (p.1 ≠ i))) := by
    funext acc i; rfl
  simp only [hd, foldl_filter_ne, List.length_map]
  congr 1
  apply List.filter_congr
  intro p hp
  obtain ⟨k, r⟩ := p
  by_cases he : expired now a r = true
  · have : k ∈ List.map Prod.fst (List.filter (fun p => expired now a p.2) s) := by
      simp only [List.mem_map, List.mem_filter]
      exact ⟨(k, r), ⟨hp, he⟩, rfl⟩
    simp [he, this]
  · have he' : expired now a r = false := by simpa using he
    have : k ∉ List.map Prod.fst (List.filter (fun p => expired now a p.2) s) := by
      simp only [List.mem_map, List.mem_filter]
      rintro ⟨⟨k', r'⟩, ⟨hm, hx⟩, hk⟩
      simp at hk
      subst hk
      have e1 := get_of_mem s k' r h hp
      have e2 := get_of_mem s k' r' h hm
      rw [e1] at e2
      cases e2
      simp [he'] at hx
    simp [he', this]

/-! ## two managers side by side -/

/-- two session managers alive in one process: a tagged operation goes to one of them -/
def stepPair (cfg : Cfg κ ν) (p : Store ι κ ν × Store ι κ ν) (x : Bool × Int × Op ι κ ν) :
    (Store ι κ ν × Store ι κ ν) × Out ι κ ν (Store ι κ ν) :=
  if x.1 then (((step cfg p.1 x.2.1 x.2.2).1, p.2), (step cfg p.1 x.2.1 x.2.2).2)
  else ((p.1, (step cfg p.2 x.2.1 x.2.2).1), (step cfg p.2 x.2.1 x.2.2).2)

def runPairFrom (cfg : Cfg κ ν) (p : Store ι κ ν × Store ι κ ν) :
    List (Bool × Int × Op ι κ ν) → (Store ι κ ν × Store ι κ ν) × List (Bool × Out ι κ ν (Store ι κ ν))
  | [] => (p, [])
  | x :: rest =>
    let a := stepPair cfg p x
    let b := runPairFrom cfg a.1 rest
    (b.1, (x.1, a.2) :: b.2)

theorem runPairFrom_proj (cfg : Cfg κ ν) (p : Store ι κ ν × Store ι κ ν) (xs : List (Bool × Int × Op ι κ ν)) :
    (runPairFrom cfg p xs).1.1 = (runFrom cfg p.1 ((xs.filter (·.1)).map (·.2))).1
    ∧ (runPairFrom cfg p xs).1.2 = (runFrom cfg p.2 ((xs.filter (fun y => !y.1)).map (·.2))).1
    ∧ ((runPairFrom cfg p xs).2.filter (·.1)).map (·.2) = (runFrom cfg p.1 ((xs.filter (·.1)).map (·.2))).2
    ∧ ((runPairFrom cfg p xs).2.filter (fun y => !y.1)).map (·.2)
        = (runFrom cfg p.2 ((xs.filter (fun y => !y.1)).map (·.2))).2 := by
  induction xs generalizing p with
  | nil => simp [runPairFrom, runFrom]
  | cons x rest ih =>
    obtain ⟨b, now, op⟩ := x
    cases b
    · have := ih (stepPair cfg p (false, now, op)).1
      simp only [runPairFrom, stepPair, Bool.false_eq_true, if_false] at *
      simp [runFrom, this]
    · have := ih (stepPair cfg p (true, now, op)).1
      simp only [runPairFrom, stepPair, if_true] at *
      simp [runFrom, this]

/-! ## ids: what is live was supplied; a fresh supply never hits a live id -/

theorem keys_touch (s : Store ι κ ν) (i : ι) (now : Int) : keys (touch s i now).1 = keys s := by
  unfold touch
  cases hg : get s i with
  | none => rfl
  | some r =>
    have : i ∈ keys s := by rw [← get_isSome_iff_mem, hg]; rfl
    simp [keys_put, this]

theorem keys_touchOpt (s : Store ι κ ν) (sid : Option ι) (now : Int) :
    keys (touchOpt s sid now) = keys s := by
  cases sid with
  | none => rfl
  | some i => exact keys_touch s i now

theorem length_keys (s : Store ι κ ν) : (keys s).length = s.length := by simp [keys]

theorem keys_step_subset (cfg : Cfg κ ν) (s : Store ι κ ν) (now : Int) (op : Op ι κ ν) (j : ι)
    (hj : j ∈ keys (step cfg s now op).1) : j ∈ keys s ∨ op.newId = some j := by
  cases op with
  | create id c v =>
    simp only [step, keys_put] at hj
    split at hj
    · exact .inl hj
    · simp at hj; rcases hj with hj | hj
      · exact .inl hj
      · exact .inr (by simp [Op.newId, hj])
  | get id => exact .inl hj
  | touch id => simp only [step, keys_touch] at hj; exact .inl hj
  | delete id =>
    simp only [step, del, keys] at hj
    exact .inl ((List.Sublist.map _ List.filter_sublist).subset hj)
  | cleanup a =>
    simp only [step, cleanup, keys] at hj
    exact .inl ((List.Sublist.map _ List.filter_sublist).subset hj)
  | list => exact .inl hj
  | clear => simp [step, keys] at hj
  | count => exact .inl hj
  | init sid id c rq =>
    simp only [step, keys_put, keys_touchOpt] at hj
    split at hj
    · exact .inl hj
    · simp at hj; rcases hj with hj | hj
      · exact .inl hj
      · exact .inr (by simp [Op.newId, hj])
  | request sid => simp only [step, keys_touchOpt] at hj; exact .inl hj
  | initSilent sid id c rq =>
    simp only [step, keys_put, keys_touchOpt] at hj
    split at hj
    · exact .inl hj
    · simp at hj; rcases hj with hj | hj
      · exact .inl hj
      · exact .inr (by simp [Op.newId, hj])
  | message sid k =>
    cases k <;> simp only [step, keys_touchOpt] at hj <;> exact .inl hj

theorem keys_runFrom_subset (cfg : Cfg κ ν) (s : Store ι κ ν) (h : Hist ι κ ν) (j : ι)
    (hj : j ∈ keys (runFrom cfg s h).1) : j ∈ keys s ∨ j ∈ supplied h := by
  induction h generalizing s with
  | nil => exact .inl hj
  | cons p rest ih =>
    obtain ⟨now, op⟩ := p
    simp only [runFrom] at hj
    rcases ih _ hj with h1 | h1
    · rcases keys_step_subset cfg s now op j h1 with h2 | h2
      · exact .inl h2
      · right; simp [supplied, h2]
    · right
      simp only [supplied]
      split <;> simp [h1]

theorem runFrom_append (cfg : Cfg κ ν) (s : Store ι κ ν) (h1 h2 : Hist ι κ ν) :
    (runFrom cfg s (h1 ++ h2)).1 = (runFrom cfg (runFrom cfg s h1).1 h2).1 := by
  induction h1 generalizing s with
  | nil => rfl
  | cons p rest ih =>
    obtain ⟨now, op⟩ := p
    simp only [List.cons_append, runFrom]
    exact ih _

theorem supplied_append (h1 h2 : Hist ι κ ν) : supplied (h1 ++ h2) = supplied h1 ++ supplied h2 := by
  induction h1 with
  | nil => rfl
  | cons p rest ih =>
    obtain ⟨now, op⟩ := p
    simp only [List.cons_append, supplied]
    split <;> simp [ih]

/-- adding a session under an id that is not live: exactly one more key, at the end -/
theorem keys_put_fresh (s : Store ι κ ν) (i : ι) (r : Rec κ ν) (h : i ∉ keys s) :
    keys (put s i r) = keys s ++ [i] := by
  simp [keys_put, h]

end
end Verif.Model.Session
