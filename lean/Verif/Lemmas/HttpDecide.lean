import Verif.Model.HttpDecide
import Verif.Lemmas.Sse
/-! Lemmas about the per-request outcome function and the sender-loop fold. -/
namespace Verif.Model.HttpDecide
open Verif.Model.Sse

variable {P : Type}

theorem routeList_msgs (ms : List (Msg P)) : routeList (ms.map JVal.msg) = ms := by
  induction ms with
  | nil => simp [routeList]
  | cons m ms ih => simp [routeList, routeAll, ih]

theorem routeList_append (a b : List (JVal P)) : routeList (a ++ b) = routeList a ++ routeList b := by
  induction a with
  | nil => simp [routeList]
  | cons v vs ih => simp [routeList, ih]

/-- a member the message class rejects is skipped where it stands: the members before and after it
    are routed as if it were not there -/
theorem routeAll_skip_junk (a b : List (JVal P)) :
    routeAll (.arr (a ++ .junk :: b)) = routeAll (.arr a) ++ routeAll (.arr b) := by
  simp [routeAll, routeList_append, routeList]

theorem routeAll_batch (ms : List (Msg P)) : routeAll (.arr (ms.map JVal.msg)) = ms := by
  simp [routeAll, routeList_msgs]

/-- the messages of a conformant SSE rendering: those of its events that have data, in order -/
theorem sseMsgs_render (dec : Dec P) (evs : List Event) (eols : List Bool) (tail : Tail)
    (h : ∀ e ∈ evs, Conformant e = true) :
    sseMsgs dec (renderText evs eols tail) =
      evs.flatMap (fun e => if e.data = [] then [] else sseEventMsgs dec (effType e.name, joinNl e.data)) := by
  simp only [sseMsgs, parseText_render evs eols tail h, List.flatMap_assoc]
  congr 1
  funext e
  by_cases hd : e.data = [] <;> simp [evOuts, evOut, hd]

theorem outcome_of_internal_ne (dec : Dec P) (id : Option Id) (b : Behaviour)
    (h : internal dec id b ≠ []) : outcome dec id b = internal dec id b := by
  simp [outcome, h]

theorem outcome_of_internal_nil (dec : Dec P) (id : Id) (b : Behaviour)
    (h : internal dec (some id) b = []) : outcome dec (some id) b = [.synth (some id)] := by
  simp [outcome, h]

/-- on an accepted status with a body that contains messages, exactly those are routed -/
theorem internal_passthrough (dec : Dec P) (id : Option Id) (r : Resp)
    (hs : r.status < 400) (hne : contained dec r ≠ [])
    (hbody : r.ctype = .other ∨ r.ctype = .absent → r.body.text ≠ []) :
    internal dec id (.resp r) = (contained dec r).map .pass := by
  have hs' : ¬ r.status ≥ 400 := by omega
  unfold internal contained at *
  simp only [hs', if_false]
  cases hc : r.ctype with
  | json =>
    simp only [hc] at hne ⊢
    cases hu : r.body.utf8 <;> simp only [hu] at hne ⊢
    · simp at hne
    · cases hd : dec.json r.body.text <;> simp_all
  | sse => rfl
  | other =>
    have hb := hbody (Or.inl hc)
    simp only [hc] at hne ⊢
    simp only [hb, if_false]
    cases hl : looksSse r.body.text <;> simp [hl] at hne ⊢
    cases hd : dec.json r.body.text <;> simp_all
  | absent =>
    have hb := hbody (Or.inr hc)
    simp only [hc] at hne ⊢
    simp only [hb, if_false]
    cases hl : looksSse r.body.text <;> simp [hl] at hne ⊢
    cases hd : dec.json r.body.text <;> simp_all

/-- whatever the failure, `_send_message_internal` routes nothing or one synthesised message -/
theorem internal_failure (dec : Dec P) (id : Option Id) (b : Behaviour) (h : Failure dec b) :
    internal dec id b = [] ∨ internal dec id b = [.synth id] := by
  cases b with
  | exc e => right; rfl
  | resp r =>
    unfold Failure at h
    by_cases hs : r.status ≥ 400
    · right; simp [internal, hs]
    · have hc : contained dec r = [] := by
        rcases h with h | h
        · exact absurd h hs
        · exact h
      unfold internal
      unfold contained at hc
      simp only [hs, if_false]
      cases hct : r.ctype <;> simp only [hct] at hc ⊢
      · cases hu : r.body.utf8 <;> simp only [hu] at hc ⊢
        · right; simp
        · cases hd : dec.json r.body.text <;> simp_all
      · left; simp [hc]
      · by_cases hb : r.body.text = []
        · simp only [hb, if_true]; cases idFalsy id <;> simp
        · simp only [hb, if_false]
          cases hl : looksSse r.body.text <;> simp [hl] at hc ⊢
          · cases hd : dec.json r.body.text
            · by_cases h2 : r.status = 202 <;> simp [h2]
            · simp_all
          · exact hc
      · by_cases hb : r.body.text = []
        · simp only [hb, if_true]; cases idFalsy id <;> simp
        · simp only [hb, if_false]
          cases hl : looksSse r.body.text <;> simp [hl] at hc ⊢
          · cases hd : dec.json r.body.text
            · by_cases h2 : r.status = 202 <;> simp [h2]
            · simp_all
          · exact hc

theorem outcome_failure (dec : Dec P) (id : Id) (b : Behaviour) (h : Failure dec b) :
    outcome dec (some id) b = [.synth (some id)] := by
  rcases internal_failure dec (some id) b h with h0 | h1
  · exact outcome_of_internal_nil dec id b h0
  · rw [outcome_of_internal_ne dec _ b (by simp [h1]), h1]

theorem outcome_notification (dec : Dec P) (b : Behaviour) : outcome dec none b = internal dec none b := by
  simp [outcome]

/-- everything `_send_message_internal` routes is a server message or a message synthesised
    with the POSTed id -/
theorem internal_mem (dec : Dec P) (id : Option Id) (b : Behaviour) (o : Out P)
    (ho : o ∈ internal dec id b) : (∃ m, o = .pass m) ∨ o = .synth id := by
  cases b with
  | exc e => right; simpa [internal] using ho
  | resp r =>
    unfold internal at ho
    repeat (any_goals (split at ho))
    all_goals first
      | (exfalso; simp at ho; done)
      | (right; simpa using ho)
      | (left; simp only [List.mem_map] at ho; obtain ⟨m, _, rfl⟩ := ho; exact ⟨m, rfl⟩)

theorem internal_synth_id (dec : Dec P) (id : Option Id) (b : Behaviour) (i : Option Id)
    (h : Out.synth i ∈ internal dec id b) : i = id := by
  rcases internal_mem dec id b _ h with ⟨m, hm⟩ | h
  · cases hm
  · cases h; rfl

/-! ### the sender loop -/

theorem run_append (dec : Dec P) (s : Option String) (a b : List (Req × Behaviour)) :
    (run dec s (a ++ b)).outs = (run dec s a).outs ++ (run dec (run dec s a).session b).outs ∧
    (run dec s (a ++ b)).hdrs = (run dec s a).hdrs ++ (run dec (run dec s a).session b).hdrs ∧
    (run dec s (a ++ b)).session = (run dec (run dec s a).session b).session := by
  induction a generalizing s with
  | nil => simp [run]
  | cons x xs ih =>
    obtain ⟨r, bh⟩ := x
    have := ih (sessionAfter s bh)
    simp [run, this.1, this.2.1, this.2.2]

theorem run_outs (dec : Dec P) (s : Option String) (rs : List (Req × Behaviour)) :
    (run dec s rs).outs = rs.flatMap (fun p => outcome dec p.1.id p.2) := by
  induction rs generalizing s with
  | nil => simp [run]
  | cons x xs ih => obtain ⟨r, b⟩ := x; simp [run, ih]

theorem run_hdrs_length (dec : Dec P) (s : Option String) (rs : List (Req × Behaviour)) :
    (run dec s rs).hdrs.length = rs.length := by
  induction rs generalizing s with
  | nil => simp [run]
  | cons x xs ih => obtain ⟨r, b⟩ := x; simp [run, ih]

theorem getLast?_cons_or {α} (v : α) (l : List α) : (v :: l).getLast? = l.getLast?.or (some v) := by
  cases l with
  | nil => simp
  | cons a as =>
    rw [List.getLast?_cons_cons]
    cases h : (a :: as).getLast? with
    | none => simp at h
    | some x => simp

theorem run_hdr_latest (dec : Dec P) (s : Option String) (rs : List (Req × Behaviour)) (k : Nat)
    (hk : k < rs.length) :
    (run dec s rs).hdrs[k]? = some (hdr ((issued (rs.take k)).getLast?.or s)) := by
  induction rs generalizing s k with
  | nil => simp at hk
  | cons x xs ih =>
    obtain ⟨r, b⟩ := x
    cases k with
    | zero => simp [run, issued]
    | succ k =>
      have hk' : k < xs.length := by simpa using hk
      simp only [run, List.getElem?_cons_succ, ih (sessionAfter s b) k hk', List.take_succ_cons]
      congr 2
      cases b with
      | exc e => simp [issued, sessionAfter]
      | resp rr =>
        by_cases hs : rr.status ≥ 400
        · simp [issued, sessionAfter, hs]
        · cases hv : rr.session with
          | none => simp [issued, sessionAfter, hs, hv]
          | some v =>
            simp only [issued, sessionAfter, hs, hv, if_false, getLast?_cons_or]
            cases (issued (List.take k xs)).getLast? <;> simp

theorem runSteps_run (dec : Dec P) (s : Option String) (rs : List (Req × Behaviour)) :
    (runSteps dec s rs).flatMap (·.1) = (run dec s rs).outs ∧ (runSteps dec s rs).map (·.2) = (run dec s rs).hdrs := by
  induction rs generalizing s with
  | nil => simp [runSteps, run]
  | cons x xs ih => obtain ⟨r, b⟩ := x; simp [runSteps, run, (ih (sessionAfter s b)).1, (ih (sessionAfter s b)).2]

theorem runInterleaved_instance (dec : Dec P) (i : Nat) (evs : List (Nat × Req × Behaviour)) :
    ∀ σ : Nat → Option String,
    (runInterleaved dec σ evs).filterMap (fun t => if t.1 = i then some t.2 else none)
      = runSteps dec (σ i) (ofInstance i evs) := by
  induction evs with
  | nil => intro σ; simp [runInterleaved, ofInstance, runSteps]
  | cons e es ih =>
    intro σ
    obtain ⟨j, r, b⟩ := e
    by_cases h : j = i
    · subst h
      have := ih (fun k => if k = j then sessionAfter (σ k) b else σ k)
      simp only [ofInstance] at this ⊢
      simp [runInterleaved, runSteps, this]
    · have := ih (fun k => if k = j then sessionAfter (σ k) b else σ k)
      have hi : i ≠ j := fun e => h e.symm
      simp only [ofInstance] at this ⊢
      simp [runInterleaved, h, hi, this]

theorem runEvents_eq (dec : Dec P) (s : Option String) (evs : List Ev) :
    (runEvents dec s evs).outs = (run dec s (beforeClose evs)).outs ∧
    (runEvents dec s evs).hdrs = (run dec s (beforeClose evs)).hdrs ∧
    ((runEvents dec s evs).closed = true ↔ Ev.close ∈ evs) := by
  induction evs generalizing s with
  | nil => simp [runEvents, beforeClose, run]
  | cons e es ih =>
    cases e with
    | close => simp [runEvents, beforeClose, run]
    | post r b =>
      have := ih (sessionAfter s b)
      simp [runEvents, beforeClose, run, this.1, this.2.1, this.2.2]

end Verif.Model.HttpDecide
