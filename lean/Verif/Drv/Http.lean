import Lean.Data.Json
import Verif.Model.HttpDecide
import Verif.Model.HttpHeaders
import Verif.Model.SseStream
import Verif.Gen.HttpParams
open Lean
-- DRIVER: http
/-! Driver glue for C11.  `op = "run"`: the sender-loop model on a sequence of (request id,
server behaviour); the decoder parameter of the model is instantiated with Lean's JSON parser
followed by the validation rules of the library's unified message class.  `op = "render"`:
the model's SSE renderer on a structured event list (used to check that the encodings the
generator exercises are instances of `renderText` and `Conformant`). -/
namespace Verif.Drv.Http
open Verif.Model.Sse Verif.Model.HttpDecide

def field? (j : Json) (k : String) : Option Json :=
  match j.getObjVal? k with
  | .ok .null => none
  | .ok v => some v
  | .error _ => none

def isObj : Json → Bool
  | .obj _ => true
  | _ => false

/-- `JSONRPCMessage.model_validate` on one JSON object: field types of the unified class,
    its `model_validate` override (error objects need `code` and `message`), then its
    `model_post_init` rule for responses -/
def validate (j : Json) : Option (Msg Json) := do
  -- jsonrpc: str (default "2.0"), null is not accepted
  match j.getObjVal? "jsonrpc" with
  | .ok (.str _) => pure ()
  | .ok _ => failure
  | .error _ => pure ()
  let id ← match field? j "id" with
    | none => pure none
    | some (.str s) => pure (some (Id.str s))
    | some (.num n) =>
      -- Union[int, str] in lax mode: a number with zero fractional part is an int
      if n.mantissa % (10 ^ n.exponent : Nat) = 0 then pure (some (Id.int (n.mantissa / (10 ^ n.exponent : Nat)))) else failure
    | some (.bool b) => pure (some (Id.int (if b then 1 else 0)))   -- ... and a bool is coerced to 0 / 1
    | some _ => failure
  let method ← match field? j "method" with
    | none => pure none
    | some (.str s) => pure (some s)
    | some _ => failure
  let objOrNone (k : String) : Option (Option Json) :=
    match field? j k with
    | none => some none
    | some v => if isObj v then some (some v) else none
  let params ← objOrNone "params"
  let result ← objOrNone "result"
  let error ← objOrNone "error"
  -- the class's `model_validate` override: an error object must have `code` and `message`
  match error with
  | some e => if (e.getObjVal? "code").toOption.isSome && (e.getObjVal? "message").toOption.isSome then pure () else failure
  | none => pure ()
  match method, id with
  | some m, some i =>
    pure { kind := .request, id := some i,
           payload := Json.mkObj [("method", Json.str m), ("params", params.getD Json.null)] }
  | some m, none =>
    pure { kind := .notification, id := none,
           payload := Json.mkObj [("method", Json.str m), ("params", params.getD Json.null)] }
  | none, some i =>
    match result, error with
    | some r, none => pure { kind := .result, id := some i, payload := r }
    | none, some e => pure { kind := .error, id := some i, payload := e }
    | _, _ => failure
  | none, none => pure { kind := .other, id := none, payload := Json.null }

instance : Inhabited (JVal Json) := ⟨.junk⟩

partial def classify (j : Json) : JVal Json :=
  match j with
  | .arr xs => .arr (xs.toList.map classify)
  | .obj _ => match validate j with
    | some m => .msg m
    | none => .junk
  | _ => .junk

def leanDec : Dec Json where
  json s := match Json.parse (String.ofList s) with
    | .ok j => some (classify j)
    | .error _ => none

def idOfJson (j : Json) : Except String (Option Id) :=
  match j with
  | .null => pure none
  | _ => match j.getObjVal? "s" with
    | .ok (.str s) => pure (some (.str s))
    | _ => match j.getObjValAs? Int "i" with
      | .ok i => pure (some (.int i))
      | .error e => throw s!"bad id {j.compress}: {e}"

def idToJson : Option Id → Json
  | none => Json.null
  | some (.int i) => Json.mkObj [("i", toJson i)]
  | some (.str s) => Json.mkObj [("s", Json.str s)]

def optStr (j : Json) (k : String) : Option String :=
  match field? j k with
  | some (.str s) => some s
  | _ => none

def behaviourOf (j : Json) : Except String Behaviour := do
  match optStr j "exc" with
  | some "timeout" => return .exc .timeout
  | some _ => return .exc .other
  | none =>
    -- the Content-Type header itself when given ("cth": string or null), else its class
    let ct ← match j.getObjVal? "cth" with
      | .ok (.str h) => pure (ctypeOf (some h.toList))
      | .ok .null => pure (ctypeOf none)
      | _ => match (← j.getObjValAs? String "ct") with
        | "json" => pure CType.json
        | "sse" => pure CType.sse
        | "other" => pure CType.other
        | "absent" => pure CType.absent
        | x => throw s!"bad ct {x}"
    return .resp {
      status := ← j.getObjValAs? Nat "status", ctype := ct, session := optStr j "sess",
      body := { text := (← j.getObjValAs? String "text").toList, utf8 := ← j.getObjValAs? Bool "utf8" } }

def kindStr : Kind → String
  | .request => "request" | .notification => "notification" | .result => "result"
  | .error => "error" | .other => "other"

def outToJson : Out Json → Json
  | .pass m => Json.mkObj [("pass", Json.mkObj [("kind", Json.str (kindStr m.kind)), ("id", idToJson m.id), ("payload", m.payload)])]
  | .synth i => Json.mkObj [("synth", idToJson i)]

def optStrJson : Option String → Json
  | none => Json.null
  | some s => Json.str s

def handleRun (j : Json) : Except String Json := do
  let reqs ← j.getObjValAs? (Array Json) "reqs"
  let rs ← reqs.toList.mapM (fun r => do
    let id ← idOfJson ((r.getObjVal? "id").toOption.getD Json.null)
    let b ← behaviourOf (← r.getObjVal? "b")
    pure (({ id := id } : Req), b))
  let t := run leanDec (optStr j "session0") rs
  return Json.mkObj [("outs", Json.arr (t.outs.map outToJson).toArray),
                     ("hdrs", Json.arr (t.hdrs.map optStrJson).toArray)]

/-! rendering -/

def ignoredOf (j : Json) : Except String Ignored := do
  match optStr j "c" with
  | some b => return .comment b.toList
  | none =>
    let sp ← j.getObjValAs? Bool "sp"
    match optStr j "id", optStr j "retry" with
    | some v, _ => return .idField sp v.toList
    | _, some v => return .retryField sp v.toList
    | _, _ => throw "bad ignored line"

def choiceOf (j : Json) : Except String FieldChoice := do
  let before ← (← j.getObjValAs? (Array Json) "before").toList.mapM ignoredOf
  return { space := ← j.getObjValAs? Bool "sp", before := before }

def eventOf (j : Json) : Except String Event := do
  let data ← j.getObjValAs? (Array String) "data"
  let dcs ← (← j.getObjValAs? (Array Json) "dc").toList.mapM choiceOf
  let after ← match j.getObjValAs? (Array Json) "after" with
    | .ok a => a.toList.mapM ignoredOf
    | .error _ => pure []
  return { name := (optStr j "name").map String.toList, data := data.toList.map String.toList,
           nameChoice := ← choiceOf (← j.getObjVal? "nc"), dataChoices := dcs, after := after }

def handleRender (j : Json) : Except String Json := do
  let evs ← (← j.getObjValAs? (Array Json) "events").toList.mapM eventOf
  let eols ← j.getObjValAs? (Array Bool) "eols"
  let tail ← match (← j.getObjValAs? String "tail") with
    | "full" => pure Tail.full
    | "noblank" => pure Tail.noBlank
    | "noeol" => pure Tail.noEol
    | x => throw s!"bad tail {x}"
  return Json.mkObj [
    ("text", Json.str (String.ofList (renderText evs eols.toList tail))),
    ("conformant", Json.bool (evs.all Conformant)),
    ("events", Json.arr ((parseText (renderText evs eols.toList tail)).map
        (fun e => Json.arr #[Json.str (String.ofList e.1), Json.str (String.ofList e.2)])).toArray)]

/-! header construction and parameter validation -/

def hdrsOf (j : Json) : Except String Verif.Model.HttpHeaders.Hdrs := do
  let a ← j.getArr?
  a.toList.mapM (fun p => do
    let k ← (← p.getArrVal? 0).getStr?
    let v ← (← p.getArrVal? 1).getStr?
    pure (k.toList, v.toList))

def hdrsJson (h : Verif.Model.HttpHeaders.Hdrs) : Json :=
  Json.arr (h.map (fun p => Json.arr #[Json.str (String.ofList p.1), Json.str (String.ofList p.2)])).toArray

/-- `{"headers": [[k,v]..], "ua": str, "bearer": str|null, "env": str|null, "sessions": [str|null..]}`
    → the configured header dict after `setup_auth_headers`, and the POST header dict for each session state -/
def handleHeaders (j : Json) : Except String Json := do
  let c : Verif.Model.HttpHeaders.Cfg := {
    headers := ← hdrsOf (← j.getObjVal? "headers"),
    userAgent := (← j.getObjValAs? String "ua").toList,
    bearer := (optStr j "bearer").map String.toList }
  let cfg := Verif.Model.HttpHeaders.setupAuth c
  let env := (optStr j "env").map String.toList
  let sessions ← j.getObjValAs? (Array Json) "sessions"
  let posts := sessions.toList.map (fun s =>
    let sess := match s with | .str v => some v.toList | _ => none
    hdrsJson (Verif.Model.HttpHeaders.postHeaders cfg env sess))
  return Json.mkObj [("cfg", hdrsJson cfg), ("posts", Json.arr posts.toArray)]

/-- `{"url": str, "timeout": int, "max_retries": int, "retry_delay": int, "mcr": int}` (numbers scaled
    by 1024 for the float fields) → accept flags of the regenerated validators and the stored url -/
def handleParams (j : Json) : Except String Json := do
  let u := (← j.getObjValAs? String "url").toList
  return Json.mkObj [
    ("url", Json.bool (Verif.Gen.HttpParams.urlAccept u)),
    ("url_stored", Json.str (String.ofList (Verif.Gen.HttpParams.urlNormalize u))),
    ("timeout", Json.bool (Verif.Gen.HttpParams.timeoutAccept (← j.getObjValAs? Int "timeout"))),
    ("max_retries", Json.bool (Verif.Gen.HttpParams.maxRetriesAccept (← j.getObjValAs? Int "max_retries"))),
    ("retry_delay", Json.bool (Verif.Gen.HttpParams.retryDelayAccept (← j.getObjValAs? Int "retry_delay"))),
    ("max_concurrent_requests", Json.bool (Verif.Gen.HttpParams.maxConcurrentRequestsAccept (← j.getObjValAs? Int "mcr")))]

/-- `{"chunks": [str..]}` → what the streaming branch hands to the read stream -/
def handleStream (j : Json) : Except String Json := do
  let chunks ← j.getObjValAs? (Array String) "chunks"
  let aborted := (j.getObjValAs? Bool "aborted").toOption.getD false
  let evs := if aborted then Verif.Model.SseStream.parseStreamAborted (chunks.toList.map String.toList)
             else Verif.Model.SseStream.parseStream (chunks.toList.map String.toList)
  let msgs := evs.flatMap (sseEventMsgs leanDec)
  return Json.mkObj [
    ("events", Json.arr (evs.map (fun e => Json.arr #[Json.str (String.ofList e.1), Json.str (String.ofList e.2)])).toArray),
    ("outs", Json.arr (msgs.map (fun m => outToJson (.pass m))).toArray)]

def handle (j : Json) : Except String Json := do
  match optStr j "op" with
  | some "render" => handleRender j
  | some "stream" => handleStream j
  | some "headers" => handleHeaders j
  | some "params" => handleParams j
  | _ => handleRun j

end Verif.Drv.Http
