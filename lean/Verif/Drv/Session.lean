import Lean.Data.Json
import Verif.Model.Session
import Verif.Gen.SessionId
open Lean
-- DRIVER: session
-- DRIVER: sessionid
namespace Verif.Drv.Session
open Verif.Model.Session

/-! Line protocol of the session model (C19).

in:  `{"m":"session","answers":[[req,ans],…],"ops":[[now,"C",id,client,version] | [now,"G",id] |
      [now,"U",id] | [now,"D",id] | [now,"X",maxAge] | [now,"L"] | [now,"K"] | [now,"N"] |
      [now,"I",{"sid"?:id,"id":id,"client"?:v,"version"?:v}] | [now,"R",sid|null]]}`
     ids are integers (the harness numbers the ids the implementation returned); `answers` is the
     observed answer policy of initialize: requested version (`[]` absent / `[v]`) ↦ answered.
out: `{"outs":[…],"snaps":[[[id,client,version,created,last],…],…]}` -/

abbrev S := Store Int Json Json

def optField (j : Json) (k : String) : Option Json :=
  match j.getObjVal? k with
  | .ok v => some v
  | .error _ => none

def recJson (i : Int) (r : Rec Json Json) : Json :=
  Json.arr #[toJson i, r.client, r.version, toJson r.created, toJson r.last]

def storeJson (s : S) : Json := Json.arr (s.map (fun p => recJson p.1 p.2)).toArray

def outJson : Out Int Json Json S → Json
  | .sid i => Json.arr #["sid", toJson i]
  | .record none => Json.arr #["rec", Json.null]
  | .record (some r) => Json.arr #["rec", Json.arr #[r.client, r.version, toJson r.created, toJson r.last]]
  | .flag b => Json.arr #["flag", Json.bool b]
  | .count n => Json.arr #["count", toJson n]
  | .listing s => Json.arr #["listing", storeJson s]
  | .inited i a => Json.arr #["inited", toJson i, a]
  | .unit => Json.arr #["unit"]

def getOp (j : Json) : Except String (Int × Op Int Json Json) := do
  let now ← (← j.getArrVal? 0).getInt?
  let k ← (← j.getArrVal? 1).getStr?
  let op ← match k with
    | "C" => pure (Op.create (← (← j.getArrVal? 2).getInt?) (← j.getArrVal? 3) (← j.getArrVal? 4))
    | "G" => pure (Op.get (← (← j.getArrVal? 2).getInt?))
    | "U" => pure (Op.touch (← (← j.getArrVal? 2).getInt?))
    | "D" => pure (Op.delete (← (← j.getArrVal? 2).getInt?))
    | "X" => pure (Op.cleanup (← (← j.getArrVal? 2).getInt?))
    | "L" => pure Op.list
    | "K" => pure Op.clear
    | "N" => pure Op.count
    | "I" =>
      let o ← j.getArrVal? 2
      let sid ← match optField o "sid" with
        | some v => (some <$> v.getInt?)
        | none => pure none
      pure (Op.init sid (← (← o.getObjVal? "id").getInt?) (optField o "client") (optField o "version"))
    | "IS" =>
      let o ← j.getArrVal? 2
      let sid ← match optField o "sid" with
        | some v => (some <$> v.getInt?)
        | none => pure none
      pure (Op.initSilent sid (← (← o.getObjVal? "id").getInt?) (optField o "client") (optField o "version"))
    | "M" =>
      let v ← j.getArrVal? 2
      let sid ← match v with
        | .null => pure none
        | _ => (some <$> v.getInt?)
      let k ← match (← (← j.getArrVal? 3).getStr?) with
        | "noMethod" => pure MsgKind.noMethod
        | "unknownMethod" => pure MsgKind.unknownMethod
        | "handlerReturned" => pure MsgKind.handlerReturned
        | "handlerRaised" => pure MsgKind.handlerRaised
        | "handlerNonsense" => pure MsgKind.handlerNonsense
        | s => throw s!"unknown message kind {s}"
      pure (Op.message sid k)
    | "R" =>
      let v ← j.getArrVal? 2
      match v with
      | .null => pure (Op.request none)
      | _ => pure (Op.request (some (← v.getInt?)))
    | _ => throw s!"unknown op {k}"
  return (now, op)

def lookupAnswer (tbl : List (Option Json × Json)) (rq : Option Json) : Json :=
  match tbl.find? (fun p => p.1 == rq) with
  | some p => p.2
  | none => Json.null

def handle (j : Json) : Except String Json := do
  if (j.getObjValAs? String "m").toOption == some "sessionid" then
    -- {"m":"sessionid","u":[code points of the uuid's text]} -> {"id":[code points]}
    let u ← j.getObjValAs? (Array Nat) "u"
    let r := Verif.Gen.SessionId.sessionIdOfUuid (u.toList.map Char.ofNat)
    return Json.mkObj [("id", toJson (r.map (·.toNat)))]
  let raw ← j.getObjValAs? (Array Json) "ops"
  let tbl ← match optField j "answers" with
    | some (.arr a) => a.toList.mapM (fun e => do
        let rq ← e.getArrVal? 0
        let ans ← e.getArrVal? 1
        let rq' := match rq with
          | .arr #[v] => some v
          | _ => none
        pure (rq', ans))
    | _ => pure []
  let cfg : Cfg Json Json := { answer := lookupAnswer tbl, noClient := Json.mkObj [] }
  -- every op is one `step` of the model; `[now,"B",first,count,client,version]` is `count` consecutive
  -- creates (ids first, first+1, …) reported as ONE step (one output, one snapshot) so that large stores stay cheap
  let mut s : S := []
  let mut outs : Array Json := #[]
  let mut snaps : Array Json := #[]
  for o in raw do
    let k ← (← o.getArrVal? 1).getStr?
    if k == "B" then
      let now ← (← o.getArrVal? 0).getInt?
      let first ← (← o.getArrVal? 2).getInt?
      let count ← (← o.getArrVal? 3).getNat?
      let c ← o.getArrVal? 4
      let v ← o.getArrVal? 5
      for i in [0:count] do
        s := (step cfg s now (Op.create (first + i) c v)).1
      outs := outs.push (Json.arr #["bulk", toJson count])
    else
      let (now, op) ← getOp o
      let r := step cfg s now op
      s := r.1
      outs := outs.push (outJson r.2)
    snaps := snaps.push (storeJson s)
  return Json.mkObj [("outs", Json.arr outs), ("snaps", Json.arr snaps)]
end Verif.Drv.Session
