import Lean.Data.Json
import Verif.Gen.Errors
open Lean
namespace Verif.Drv.Errors
-- DRIVER: errors
/-- {"m":"errors","code":<int>} -> {"retryable":bool,"inNon":bool,"inRet":bool,"named":bool} -/
def handle (j : Json) : Except String Json := do
  let c ← j.getObjValAs? Int "code"
  return Json.mkObj [
    ("retryable", Json.bool (Verif.Gen.Errors.isRetryableError c)),
    ("inNon", Json.bool (Verif.Gen.Errors.nonRetryable.contains c)),
    ("inRet", Json.bool (Verif.Gen.Errors.retryable.contains c)),
    ("named", Json.bool (Verif.Gen.Errors.named.contains c)),
    ("aux", Json.bool Verif.Gen.Errors.auxTranslatable),
    ("server", Json.bool (Verif.Gen.Errors.isServerError c)),
    ("standard", Json.bool (Verif.Gen.Errors.isStandardJsonrpcError c)),
    ("mcp", Json.bool (Verif.Gen.Errors.isMcpSpecificError c)),
    ("message", Json.str (Verif.Gen.Errors.getErrorMessage c)),
    ("text", Json.str (Verif.Gen.Errors.errText
      (match j.getObjVal? "msg" with | .ok (.str s) => some s | _ => none) c))]
end Verif.Drv.Errors
