import Lean.Data.Json
import Verif.Gen.Errors
open Lean
namespace Verif.Drv.Errors
-- DRIVER: errors
/-- {"m":"errors","code":<int>} -> {"retryable":bool,"inNon":bool,"inRet":bool,"named":bool} -/
def handle (j : Json) : Except String Json := do
  let c ← j.getObjValAs? Int "code"
  return Json.mkObj [
    ("retryable", Json.bool (Verif.Gen.Errors.isRetryableError c)),
    ("inNon", Json.bool (Verif.Gen.Errors.nonRetryable.contains c)),
    ("inRet", Json.bool (Verif.Gen.Errors.retryable.contains c)),
    ("named", Json.bool (Verif.Gen.Errors.named.contains c))]
end Verif.Drv.Errors
