import Lean.Data.Json
import Verif.Model.McpServer
open Lean
-- DRIVER: mcpserver
namespace Verif.Drv.McpServer
open Verif.Model.McpServer
open Verif.Model.Dispatch (Id Key)

/-! Line protocol of the content-level `MCPServer` model (C08, second layer).

in:  `{"m":"mcpserver","info":json,"caps":json,"answers":[[[]|[v],ans],…],"ops":[
        ["tool",name,{"sig":null|[param,…],"out":pyval|{"raises":true},"schema":json,"description":str}] |
        ["resource",uri,{"out":{"text":str}|{"fails":true},"name":str,"description":str,"mime":str}] |
        ["msg",{"id":null|{"i":n}|{"s":str},"method":str,"name":key,"uri":key,
                "args":null|{"obj":{…}}|"notMapping","requested":[]|[v]}] ]}`
     pyval = `{"str":s}|{"dict":json,"ok":bool}|{"list":[pyval…]}|{"other":text}|{"unprintable":true}`;
     key = `["absent"]|["str",s]|["scalar"]|["unhashable"]`;  sig null = the handler takes `**kwargs`.
     A dict result is rendered as the marker text `<json>` (the rendering itself is opaque in the model).
out: `{"resps":[null|{"id":…,"result":json}|{"id":…,"error":code}…],"log":[["tool",name,{kwargs}]|["resource",uri]…]}` -/

abbrev MJ := Verif.Model.Json.Json

partial def toM (j : Json) : MJ :=
  match j with
  | .null => .null
  | .bool b => .bool b
  | .num n => if n.exponent == 0 then .int n.mantissa else .flt (toString n).toList
  | .str s => .str s.toList
  | .arr a => .arr (a.toList.map toM)
  | .obj kvs => .obj (kvs.toList.map (fun (k, v) => (k.toList, toM v)))

partial def ofM : MJ → Json
  | .null => .null
  | .bool b => .bool b
  | .int i => Json.num (JsonNumber.fromInt i)
  | .flt t => (Json.parse (String.ofList t)).toOption.getD (Json.str (String.ofList t))
  | .str s => .str (String.ofList s)
  | .arr xs => Json.arr (xs.map ofM).toArray
  | .obj kvs => Json.mkObj (kvs.map (fun (k, v) => (String.ofList k, ofM v)))

def getKey (j : Json) : Except String Key := do
  let k ← (← j.getArrVal? 0).getStr?
  match k with
  | "absent" => pure .absent
  | "str" => pure (.str (← (← j.getArrVal? 1).getStr?))
  | "scalar" => pure .scalar
  | "unhashable" => pure .unhashable
  | _ => throw s!"bad key {k}"

def getId (j : Json) : Except String (Option Id) :=
  match j with
  | .null => pure none
  | _ => match j.getObjVal? "s" with
    | .ok (.str s) => pure (some (.str s))
    | _ => match j.getObjValAs? Int "i" with
      | .ok i => pure (some (.int i))
      | .error e => throw s!"bad id {j.compress}: {e}"

def idJson : Id → Json
  | .int i => toJson i
  | .str s => Json.str s

partial def getPyVal (j : Json) : Except String PyVal := do
  match j.getObjVal? "str" with
  | .ok (.str s) => return .str s
  | _ =>
  match j.getObjVal? "other" with
  | .ok (.str s) => return .other s
  | _ =>
  match j.getObjVal? "list" with
  | .ok (.arr a) => return .list (← a.toList.mapM getPyVal)
  | _ =>
  match j.getObjVal? "dict" with
  | .ok d =>
    if (j.getObjValAs? Bool "ok").toOption.getD true then return .dict (toM d) else return .unprintable
  | _ =>
  match j.getObjVal? "unprintable" with
  | .ok _ => return .unprintable
  | _ => throw s!"bad python value {j.compress}"

def kwargsOf (j : Json) : Kwargs :=
  match j with
  | .obj kvs => kvs.toList.map (fun (k, v) => (k, toM v))
  | _ => []

def getTool (j : Json) : Except String Tool := do
  let out ← j.getObjVal? "out"
  let oc ← match out.getObjVal? "raises" with
    | .ok _ => pure Outcome.raises
    | .error _ => pure (Outcome.returns (← getPyVal out))
  let sig : Option (List String) := match j.getObjVal? "sig" with
    | .ok (.arr a) => some (a.toList.filterMap (fun x => x.getStr?.toOption))
    | _ => none
  let fn : Kwargs → Bound := fun kv =>
    match sig with
    | none => .ran oc
    | some ps => if kv.all (fun p => ps.contains p.1) then .ran oc else .notBound
  return { fn := fn, schema := toM ((j.getObjVal? "schema").toOption.getD Json.null),
           description := (j.getObjValAs? String "description").toOption.getD "" }

def getResource (j : Json) : Except String Resource := do
  let out ← j.getObjVal? "out"
  let fn := match out.getObjVal? "text" with
    | .ok (.str t) => ROutcome.text t
    | _ => ROutcome.fails
  return { fn := fn, name := (j.getObjValAs? String "name").toOption.getD "",
           description := (j.getObjValAs? String "description").toOption.getD "",
           mimeType := (j.getObjValAs? String "mime").toOption.getD "text/plain" }

def getReq (j : Json) : Except String Req := do
  let args ← match j.getObjVal? "args" with
    | .ok .null => pure ArgsV.absent
    | .ok (.str _) => pure ArgsV.notMapping
    | .ok a => match a.getObjVal? "obj" with
      | .ok o => pure (ArgsV.obj (kwargsOf o))
      | .error _ => throw "bad args"
    | .error _ => pure ArgsV.absent
  let requested := match j.getObjVal? "requested" with
    | .ok (.arr #[v]) => some (toM v)
    | _ => none
  return { id := ← getId ((j.getObjVal? "id").toOption.getD Json.null),
           method := ← j.getObjValAs? String "method",
           name := ← getKey (← j.getObjVal? "name"), uri := ← getKey (← j.getObjVal? "uri"),
           args := args, requested := requested }

def respJson : Option CResp → Json
  | none => Json.null
  | some (.result i v) => Json.mkObj [("id", idJson i), ("result", ofM v)]
  | some (.error i c) => Json.mkObj [("id", idJson i), ("error", toJson c)]

def callJson : Call → Json
  | .tool n kv => Json.arr #["tool", Json.str n, Json.mkObj (kv.map (fun (k, v) => (k, ofM v)))]
  | .resource u => Json.arr #["resource", Json.str u]

def handle (j : Json) : Except String Json := do
  let tbl ← match j.getObjVal? "answers" with
    | .ok (.arr a) => a.toList.mapM (fun e => do
        let rq ← e.getArrVal? 0
        let ans ← e.getArrVal? 1
        let rq' : Option Json := match rq with
          | .arr #[v] => some v
          | _ => none
        pure (rq', toM ans))
    | _ => pure []
  let keyOf : Option Json → String := fun o => match o with
    | none => "<absent>"
    | some v => v.compress
  let answer : Option MJ → MJ := fun rq =>
    match tbl.find? (fun (p : Option Json × MJ) => keyOf (p.1.map (fun v => ofM (toM v))) == keyOf (rq.map ofM)) with
    | some p => p.2
    | none => .null
  let cfg : Cfg := { render := fun _ => some "<json>", answer := answer }
  let s0 : Srv := { info := toM (← j.getObjVal? "info"), caps := toM (← j.getObjVal? "caps"),
                    tools := [], resources := [], log := [] }
  let ops ← j.getObjValAs? (Array Json) "ops"
  let mut s := s0
  let mut resps : Array Json := #[]
  for op in ops do
    let k ← (← op.getArrVal? 0).getStr?
    match k with
    | "tool" => s := registerTool s (← (← op.getArrVal? 1).getStr?) (← getTool (← op.getArrVal? 2))
    | "resource" => s := registerResource s (← (← op.getArrVal? 1).getStr?) (← getResource (← op.getArrVal? 2))
    | "msg" =>
      let r := serve cfg s (← getReq (← op.getArrVal? 1))
      resps := resps.push (respJson r.1)
      s := r.2
    | _ => throw s!"unknown op {k}"
  return Json.mkObj [("resps", Json.arr resps), ("log", Json.arr (s.log.map callJson).toArray)]
end Verif.Drv.McpServer
