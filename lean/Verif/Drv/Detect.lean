import Lean.Data.Json
import Verif.Model.Detect
open Lean
-- DRIVER: detect
/-! Driver glue for the transport-selection model (C15 §6).

```
{"m":"detect","url":str,"client_ok":b,"err_text":str,"post":P,"gets":[[url,P]…],"norm":[[raw,wire|null]…]}     P = "exc" | {"status":n,"ct":str}   (a GET of an unlisted URL: 404, no content type)
-> {"streamable":b,"sse_url":b,"probe_urls":[str…],"detect":str,"gets":n,
    "fallback":{"k":"http"|"sse"|"fail","url":str|null},"probed":b,"http_valid":b,"sse_valid":b}
```
-/
namespace Verif.Drv.Detect
open Verif.Model.Detect Verif.Gen.UrlRules

def probeOf (j : Json) : Except String Probe :=
  match j with
  | .str _ => pure .exc
  | _ => do pure (.resp (← j.getObjValAs? Nat "status") ((j.getObjValAs? String "ct").toOption.getD "").toList)

def handle (j : Json) : Except String Json := do
  let url := (← j.getObjValAs? String "url").toList
  let post ← probeOf (← j.getObjVal? "post")
  let table ← (← j.getObjValAs? (Array Json) "gets").toList.mapM (fun e => do
    let u ← (← e.getArrVal? 0).getStr?
    let p ← probeOf (← e.getArrVal? 1)
    pure (u.toList, p))
  -- "norm": [[raw URL, the URL as the HTTP client puts it on the wire | null when it refuses it]…]; the table is then
  -- keyed by wire URLs
  let norm ← match j.getObjValAs? (Array Json) "norm" with
    | .ok a => a.toList.mapM (fun e => do
        let u ← (← e.getArrVal? 0).getStr?
        let n := match e.getArrVal? 1 with
          | .ok (.str s) => some s.toList
          | _ => none
        pure (u.toList, n))
    | .error _ => pure []
  let lookup : Str → Probe := fun u => match table.find? (fun e => e.1 == u) with
    | some e => e.2
    | none => .resp 404 []
  let get : Str → Probe := fun u => match norm.find? (fun e => e.1 == u) with
    | some (_, some n) => lookup n
    | some (_, none) => .exc
    | none => lookup u
  let clientOk := (j.getObjValAs? Bool "client_ok").toOption.getD true
  let d0 := detectOr clientOk post get url
  let d : String × Nat := (d0.1, d0.2.1)
  let errText := ((j.getObjValAs? String "err_text").toOption.getD "").toList
  let tryUrl := match j.getObjValAs? String "sse_try_url" with
    | .ok u => u.toList
    | .error _ => url
  let ts := match trySse tryUrl errText with
    | .client u => Json.mkObj [("k", "client"), ("url", Json.str (String.ofList u))]
    | .guidance => Json.mkObj [("k", "guidance"), ("url", Json.null)]
    | .reraise => Json.mkObj [("k", "reraise"), ("url", Json.null)]
  let f := fallback post get url
  let fj := match f.1 with
    | .http u => Json.mkObj [("k", "http"), ("url", Json.str (String.ofList u))]
    | .sse u => Json.mkObj [("k", "sse"), ("url", Json.str (String.ofList u))]
    | .fail => Json.mkObj [("k", "fail"), ("url", Json.null)]
  return Json.mkObj [
    ("streamable", Json.bool (isStreamableHttpUrl url)), ("sse_url", Json.bool (isSseUrl url)),
    ("probe_urls", Json.arr ((probeUrls url).map (fun u => Json.str (String.ofList u))).toArray),
    ("detect", Json.str d.1), ("gets", toJson d.2), ("fallback", fj), ("probed", Json.bool f.2),
    ("http_valid", Json.bool (validUrl httpUrlPrefixes url)), ("sse_valid", Json.bool (validUrl sseUrlPrefixes (sseFallbackUrl url))),
    ("posted", Json.bool d0.2.2), ("try_sse", ts), ("translatable", Json.bool translatable)]

end Verif.Drv.Detect
