import Lean.Data.Json
import Verif.Model.Batching
open Lean
namespace Verif.Drv.Versions
open Verif.Model.Batching Verif.Gen.Versions
-- DRIVER: versions

def cmpChar (r : Except Unit Int) : Char :=
  match r with
  | .ok n => if n < 0 then '<' else if n = 0 then '=' else '>'
  | .error _ => 'E'

/-- all 10^4 strings `yyyy-ef-gh` of one year, in ascending (month digits, day digits) order -/
def yearGrid (y : Nat) : List (List Char × Int × Int × Int) := Id.run do
  let a := y / 1000 % 10
  let b := y / 100 % 10
  let c := y / 10 % 10
  let d := y % 10
  let mut out := []
  for k in [0:10000] do
    let k := 9999 - k
    let e := k / 1000 % 10
    let f := k / 100 % 10
    let g := k / 10 % 10
    let h := k % 10
    out := (fmt a b c d e f g h, (y : Int), ((10 * e + f : Nat) : Int), ((10 * g + h : Nat) : Int)) :: out
  return out

/-- `{"m":"versions","v":<string|null>}` ->
      `{"supports":bool,"compare":"<"|"="|">"|"E","supported":bool}`
    `{"m":"versions","year":<0..9999>}` ->
      `{"supports":"0101…","gen":"0101…","compare":"<<=>…"}` (10^4 characters each: the strings
      `yyyy-00-00 … yyyy-99-99` in ascending order; `supports` goes through the hand-modelled
      guards, `gen` applies the generated chain to the integers directly) -/
def handle (j : Json) : Except String Json := do
  match j.getObjVal? "year" with
  | .ok yj =>
    let y ← yj.getNat?
    let grid := yearGrid y
    let bit (b : Bool) : Char := if b then '1' else '0'
    return Json.mkObj [
      ("supports", Json.str (String.ofList (grid.map (fun (s, _, _, _) => bit (supportsBatching (some s)))))),
      ("gen", Json.str (String.ofList (grid.map (fun (_, y, m, d) => bit (supportsBatchingGen y m d))))),
      ("compare", Json.str (String.ofList (grid.map (fun (s, _, _, _) => cmpChar (pvCompare s cutoff)))))]
  | .error _ =>
    let v : Option (List Char) := match j.getObjVal? "v" with
      | .ok (.str s) => some s.toList
      | _ => none
    let cmp := match v with
      | some s => String.singleton (cmpChar (pvCompare s cutoff))
      | none => "E"
    let sup := match v with
      | some s => supported.contains (String.ofList s)
      | none => false
    return Json.mkObj [
      ("supports", Json.bool (supportsBatching v)),
      ("compare", Json.str cmp),
      ("supported", Json.bool sup)]
end Verif.Drv.Versions
