import Lean.Data.Json
import Verif.Model.Config
open Lean
-- DRIVER: config
namespace Verif.Drv.Config
open Verif.Model.Config

instance : Inhabited J := ⟨.null⟩

/-- Lean's JSON value -> the model's `J` (driver glue; the document the harness also writes to the file) -/
partial def toJ : Json → J
  | .null => .null
  | .bool b => .bool b
  | .num n => .num n.mantissa n.exponent
  | .str s => .str s
  | .arr xs => .arr (xs.toList.map toJ)
  | .obj kvs => .obj (kvs.foldl (fun acc k v => acc ++ [(k, toJ v)]) [])

partial def ofJ : J → Json
  | .null => .null
  | .bool b => .bool b
  | .num m e => .num ⟨m, e⟩
  | .str s => .str s
  | .arr xs => .arr (xs.map ofJ).toArray
  | .obj kvs => Json.mkObj (kvs.map fun (k, v) => (k, ofJ v))

def envJson (e : Env) : Json := Json.mkObj (e.map fun (k, v) => (k, Json.str v))

def errName : Err → String
  | .fileNotFound => "FileNotFoundError"
  | .jsonDecode => "JSONDecodeError"
  | .valueError => "ValueError"
  | .validation => "ValidationError"
  | .launchFailed => "LaunchFailed"
  | .other => "other"

def getEnv (j : Json) : Except String Env :=
  match j with
  | .obj kvs => kvs.foldl (fun acc k v => do
      let a ← acc
      let s ← v.getStr?
      pure (a ++ [(k, s)])) (pure [])
  | _ => throw "dflt must be an object"

/-- {"m":"config","entry":"loader"|"cliTest"|"runner","file":{"k":"missing"|"invalid"|"json","v":…},
    "names":[…],"dflt":{…},"files":[existing executable files]}
 -> {"launches":[{"argv":[…],"env":{…},"handshake":bool}],"raised":null|name,
     "load":{"err":name}|{"command":…,"args":[…],"env":null|{…},"timeout":null|value}} -/
def handle (j : Json) : Except String Json := do
  let e ← match (← j.getObjValAs? String "entry") with
    | "loader" => pure EntryPoint.loader
    | "cliTest" => pure EntryPoint.cliTest
    | "runner" => pure EntryPoint.runner
    | s => throw s!"unknown entry {s}"
  let fj ← j.getObjVal? "file"
  let f ← match (← fj.getObjValAs? String "k") with
    | "missing" => pure File.missing
    | "invalid" => pure File.invalid
    | "json" => pure (File.json (toJ (← fj.getObjVal? "v")))
    | s => throw s!"unknown file kind {s}"
  let names ← j.getObjValAs? (List String) "names"
  let dflt ← getEnv (← j.getObjVal? "dflt")
  let files := (j.getObjValAs? (List String) "files").toOption.getD []
  let r := entryOn files e dflt f names
  let ld := match names with
    | [] => Json.null
    | n :: _ => match load f n with
      | .error err => Json.mkObj [("err", Json.str (errName err))]
      | .ok (p, t) => Json.mkObj [("command", Json.str p.command), ("args", toJson p.args),
          ("env", match p.env with | none => Json.null | some env => envJson env),
          ("timeout", match t with | none => Json.null | some v => ofJ v)]
  return Json.mkObj [
    ("launches", Json.arr (r.launches.map (fun l => Json.mkObj [
        ("argv", toJson l.argv), ("env", envJson l.env), ("handshake", Json.bool l.handshake)])).toArray),
    ("raised", match r.raised with | none => Json.null | some err => Json.str (errName err)),
    ("load", ld)]
end Verif.Drv.Config
