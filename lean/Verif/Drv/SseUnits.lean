import Lean.Data.Json
import Verif.Model.SseUnits
import Verif.Gen.SseUnits
import Verif.Drv.SseReq
open Lean
-- DRIVER: sseunits
namespace Verif.Drv.SseUnits
open Verif.Model.SseReq Verif.Model.SseUnits Verif.Drv.SseReq

def strJ (s : Str) : Json := cps s

def getHeadersJ (j : Json) : Except String (Option Headers) :=
  match optField j "headers" with
  | none => pure none
  | some (.arr a) => some <$> a.toList.mapM (fun kv => do
      let k ← getStr (← kv.getArrVal? 0)
      let v ← getStr (← kv.getArrVal? 1)
      pure (k, v))
  | some x => throw s!"bad headers {x.compress}"

def headersJ (h : Headers) : Json := Json.arr (h.map (fun kv => Json.arr #[strJ kv.1, strJ kv.2])).toArray

def optStr (j : Json) (k : String) : Except String (Option Str) :=
  match optField j k with
  | none => pure none
  | some v => some <$> getStr v

def fieldName : Field → String
  | .url => "url" | .timeout => "timeout" | .maxReconnect => "max_reconnect_attempts"
  | .reconnectDelay => "reconnect_delay" | .keepAlive => "keep_alive_interval"

def handle (j : Json) : Except String Json := do
  let op ← j.getObjValAs? String "op"
  match op with
  | "headers" =>
    let h ← getHeadersJ j
    let tok ← optStr j "tok"
    let p := setupAuth h tok
    return Json.mkObj [("params", match p with | some x => headersJ x | none => Json.null),
                       ("client", headersJ (clientHeaders h tok)),
                       ("direct", headersJ (getHeaders h tok))]
  | "endpoint" =>
    let base ← getStr (← j.getObjVal? "base")
    let data ← getStr (← j.getObjVal? "data")
    let url := resolveEndpoint (normBase base) data
    let gen := Verif.Gen.SseUnits.resolveGen (normBase base) (strip data)
    return Json.mkObj [("url", strJ url), ("gen", if Verif.Gen.SseUnits.endpointTranslatable then strJ gen else Json.null),
                       ("sid", match sessionIdOf url with | some s => strJ s | none => Json.null),
                       ("connected", Json.bool (isConnected true true))]
  | "validate" =>
    let p : ParamIn := {
      url := ← getStr (← j.getObjVal? "url"), timeout := ← j.getObjValAs? Int "timeout",
      maxReconnect := ← j.getObjValAs? Int "max_reconnect_attempts", reconnectDelay := ← j.getObjValAs? Int "reconnect_delay",
      keepAlive := ← j.getObjValAs? Int "keep_alive_interval", sseEndpoint := ← getStr (← j.getObjVal? "sse_endpoint"),
      messageBase := ← getStr (← j.getObjVal? "message_endpoint_base") }
    let R := if Verif.Gen.SseUnits.rulesTranslatable then Verif.Gen.SseUnits.rules else NumRules.source
    match validate R p with
    | .ok o => return Json.mkObj [("ok", Json.mkObj [("url", strJ o.url), ("sse_endpoint", strJ o.sseEndpoint),
        ("message_endpoint_base", strJ o.messageBase)])]
    | .error fs => return Json.mkObj [("bad", Json.arr (fs.map (fun f => Json.str (fieldName f))).toArray)]
  | "issse" =>
    let url ← getStr (← j.getObjVal? "url")
    let inds := if Verif.Gen.SseUnits.indicatorsTranslatable then Verif.Gen.SseUnits.indicators else indicatorsSource
    return Json.mkObj [("r", Json.bool (isSseUrl inds url))]
  | "bare" =>
    return Json.mkObj [("streams", Json.bool (streamsAvailable Handles.none)), ("connected", Json.bool (isConnected false false)),
                       ("cleanup_noop", Json.bool (cleanup Handles.none == Handles.none))]
  | _ => throw s!"unknown op {op}"
end Verif.Drv.SseUnits
