import Lean.Data.Json
import Verif.Model.Shutdown
open Lean
-- DRIVER: shutdown
namespace Verif.Drv.Shutdown
open Verif.Model.Shutdown Verif.Gen.Timing

def getBehaviour (j : Json) : Except String Behaviour := do
  match (← j.getObjValAs? String "behaviour") with
  | "well" => pure .well
  | "exit_at" => pure (.exitAt (← j.getObjValAs? Nat "k"))
  | "ignore_term" => pure .ignoreTerm
  | "never_reads" => pure .neverReads
  | "stops_reading" => pure .stopsReading
  | "flood" => pure .flood
  | "close_stdout" => pure (.closeStdout ((j.getObjValAs? String "linger").toOption == some "stubborn")
                                         ((j.getObjValAs? Nat "close_after").toOption.getD 0))
  | "close_stdin" => pure .closeStdin
  | "slow_start" => pure .slowStart
  | "slow_term" => pure (.slowTerm (← j.getObjValAs? Nat "term_delay_ms"))
  | s => throw s!"unknown behaviour {s}"

def getPath (j : Json) : Except String ExitPath := do
  match (← j.getObjValAs? String "path") with
  | "normal" => pure .normal
  | "exception" => pure .exception
  | "cancel" => pure .outerCancel
  | "timeout" => pure .timeoutAround
  | s => throw s!"unknown path {s}"

def getMoment (j : Json) : Except String Moment := do
  match (← j.getObjValAs? String "moment") with
  | "before" => pure .before
  | "inflight" => pure .inflight
  | "after" => pure (.after ((j.getObjValAs? Nat "nreq").toOption.getD 1))
  | s => throw s!"unknown moment {s}"

def stateName : ChildState → String
  | .running => "running" | .zombie => "zombie" | .reaped => "reaped"

/-- {"m":"shutdown","bad":true} | {"m":"shutdown","behaviour":…,"k"?:n,"path":…,"moment":…|"entry","nreq"?:n,"backlog"?:bytes,"killDelay"?:ms}
 -> {"raised_on_enter":bool,"child":…,"duration":ms,"bound":ms,"signals":[[t,"term"|"kill"]],"requests":["returned"|"timeout",…]} -/
def handle (j : Json) : Except String Json := do
  let os : OS := { killDelay := (j.getObjValAs? Nat "killDelay").toOption.getD 5, waitReaps := true }
  if (j.getObjValAs? Bool "bad").toOption.getD false then
    let s := session true os .failed .normal { exited := false, termDelay := some 0 }
    return Json.mkObj [("raised_on_enter", Json.bool s.raisedOnEnter), ("child", Json.null)]
  -- an explicit child (the virtual-time exit-trace suite): every field of `ChildSpec` and `OS` is given
  if let .ok sp := j.getObjVal? "spec" then
    let p ← getPath j
    let optNat (k : String) : Option Nat := match sp.getObjVal? k with
      | .ok .null => none
      | .ok v => v.getNat?.toOption
      | .error _ => none
    let c : ChildSpec := {
      exited := (sp.getObjValAs? Bool "exited").toOption.getD false,
      termDelay := optNat "term_delay",
      selfExit := optNat "self_exit",
      stdoutOpen := (sp.getObjValAs? Bool "stdout_open").toOption.getD true,
      stdoutHeld := (sp.getObjValAs? Bool "stdout_held").toOption.getD false }
    let os2 : OS := { killDelay := (optNat "kill_delay").getD 1000000, waitReaps := true }
    match leave Design.sound os2 p c { backlog := 0, capacity := 131072 } with
    | none => return Json.mkObj [("returns", Json.bool false)]
    | some t =>
      return Json.mkObj [("returns", Json.bool true), ("child", Json.str (stateName t.child)),
        ("duration", toJson t.duration),
        ("signals", Json.arr (t.signals.map (fun (at_, sg) =>
          Json.arr #[toJson at_, Json.str (match sg with | .term => "term" | .kill => "kill")])).toArray)]
  -- several clients alive at once: every child reaped within the bound, every request answered by its own child only
  if let .ok (.arr cl) := j.getObjVal? "concurrent" then
    let p ← getPath j
    let bs ← cl.toList.mapM getBehaviour
    let ok := bs.all (fun b => match leave Design.sound os p (childSpec b (.after 1)) { backlog := 0, capacity := 131072 } with
      | some t => t.child == ChildState.reaped && decide (t.duration ≤ graceTermMs + graceKillMs)
      | none => false)
    return Json.mkObj [("raised_on_enter", Json.bool false), ("child", Json.str (if ok then "reaped" else "running")),
      ("bounded", Json.bool ok),
      ("requests", toJson (bs.map (fun b => if answers b 1 then "returned" else "timeout")))]
  let b ← getBehaviour j
  let p ← getPath j
  if (← j.getObjValAs? String "moment") == "entry" then
    -- cancellation while the context is being entered: is there a point at which it leaves a child running?
    let pts := [CancelPoint.beforeSpawn, .duringSpawn, .afterSpawn, .inBody]
    let orphan := pts.any (fun cp => cancelledEntry Design.sound cp == some Leftover.running)
    let body := leave Design.sound os p (childSpec b .before) { backlog := 0, capacity := 131072 }
    let ok := match body with
      | some t => t.child == ChildState.reaped && decide (t.duration ≤ graceTermMs + graceKillMs)
      | none => false
    return Json.mkObj [("raised_on_enter", Json.bool false), ("entry", Json.bool true),
      ("child", Json.str (if orphan || !ok then "running" else "reaped")), ("bounded", Json.bool ok)]
  let m ← getMoment j
  let load : Load := { backlog := (j.getObjValAs? Nat "backlog").toOption.getD 0,
                       capacity := (j.getObjValAs? Nat "capacity").toOption.getD 131072 }
  let reqs := match m with
    | .after n => (List.range n).map (fun i => if answers b (i + 1) then "returned" else "timeout")
    | _ => []
  -- the wrapper that performs the handshake on entry, with a child that does not answer it
  if (j.getObjValAs? String "api").toOption == some "with_initialize" && !answers b 1 then
    let r := sessionWithHandshake Design.sound os false p (childSpec b .before) load
    let ok := match r.2 with
      | some t => t.child == ChildState.reaped && decide (t.duration ≤ graceTermMs + graceKillMs)
      | none => false
    return Json.mkObj [("raised_on_enter", Json.bool r.1), ("child", Json.str (if ok then "reaped" else "running")),
      ("bounded", Json.bool ok), ("requests", toJson ([] : List String))]
  -- `sessions` sequential sessions on one client object: every one of them must end like the first
  let k := (j.getObjValAs? Nat "sessions").toOption.getD 1
  let rs := sessions Design.sound os (List.replicate k (p, childSpec b m, load))
  let bound := graceTermMs + graceKillMs
  let allOk := rs.all (fun r => match r with
    | some t => t.child == ChildState.reaped && decide (t.duration ≤ bound)
    | none => false)
  match rs.head? with
  | none | some none =>
    return Json.mkObj [("raised_on_enter", Json.bool false), ("child", Json.str "running"),
      ("returns", Json.bool false), ("bounded", Json.bool false), ("requests", toJson reqs)]
  | some (some t) =>
    return Json.mkObj [
      ("raised_on_enter", Json.bool false),
      ("returns", Json.bool true),
      ("child", Json.str (if allOk then stateName t.child else "running")),
      ("duration", toJson t.duration),
      ("bound", toJson bound),
      ("bounded", Json.bool (rs.all (fun r => match r with | some t => decide (t.duration ≤ bound) | none => false))),
      ("signals", Json.arr (t.signals.map (fun (at_, sg) =>
          Json.arr #[toJson at_, Json.str (match sg with | .term => "term" | .kill => "kill")])).toArray),
      ("requests", toJson ((List.replicate k reqs).flatten))]
end Verif.Drv.Shutdown
