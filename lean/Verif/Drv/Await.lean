import Lean.Data.Json
import Verif.Model.Await
import Verif.Model.Token
import Verif.Model.ClientApi
import Verif.Model.AwaitSlow
import Verif.Gen.Errors
open Lean
-- DRIVER: await
namespace Verif.Drv.Await
open Verif.Model.Await

def getId (j : Json) : Except String Id :=
  match j.getObjVal? "s" with
  | .ok (.str s) => pure (.str s)
  | _ => match j.getObjValAs? Int "i" with
    | .ok i => pure (.int i)
    | .error e => throw s!"bad id {j.compress}: {e}"

def optField (j : Json) (k : String) : Option Json :=
  match j.getObjVal? k with
  | .ok .null => none
  | .ok v => some v
  | .error _ => none

def getIn (j : Json) : Except String (In Json) := do
  let k ← j.getObjValAs? String "k"
  match k with
  | "resp" => return .resp (← getId (← j.getObjVal? "id")) (← j.getObjVal? "p")
  | "err" =>
    let code := match optField j "code" with
      | some c => (c.getInt?).toOption
      | none => none
    let msg := match optField j "msg" with
      | some (.str s) => some s
      | _ => none
    return .err (← getId (← j.getObjVal? "id")) code msg
  | "req" => return .req (← getId (← j.getObjVal? "id")) (← j.getObjValAs? String "method")
  | "notif" => return .notif (← j.getObjValAs? String "method")
  | "progress" =>
    let tok ← match optField j "token" with
      | some t => (some <$> getId t)
      | none => pure none
    return .progress tok (optField j "prog") (optField j "total") (optField j "message")
  | "batch" => return .batch
  | _ => throw s!"unknown event kind {k}"

def outJson (o : Obs Json) : Json :=
  let oc := match o.outcome with
    | .returned p => [("outcome", Json.str "returned"), ("p", p)]
    | .raised r c m => [("outcome", Json.str "raised"), ("retryable", Json.bool r), ("code", toJson c),
        ("msg", match m with | some s => Json.str s | none => Json.null)]
    | .timedOut => [("outcome", Json.str "timeout")]
    | .cancelled => [("outcome", Json.str "cancelled")]
  Json.mkObj (oc ++ [
    ("t", toJson o.time),
    ("writes", Json.arr (o.writes.map (fun w => match w with
        | .request => Json.str "request" | .cancelNotif => Json.str "cancel")).toArray),
    ("cbs", Json.arr (o.callbacks.map (fun (p, t, m) =>
        Json.arr #[p, t.getD Json.null, m.getD Json.null])).toArray),
    ("consumed", toJson o.consumed)])

def getCfgEv (j : Json) : Except String (Cfg Json × List (Nat × In Json)) := do
  let P ← j.getObjValAs? Nat "P"
  if h : 0 < P then
    let evs ← j.getObjValAs? (Array Json) "ev"
    let ev ← evs.toList.mapM (fun e => do
      let a ← (← e.getArrVal? 0).getNat?
      let m ← getIn (← e.getArrVal? 1)
      pure (a, m))
    let cancelAt := match optField j "cancelAt" with
      | some c => c.getNat?.toOption
      | none => none
    let token ← match optField j "token" with
      | some t => (some <$> getId t)
      | none => pure none
    let cfg : Cfg Json := {
      reqId := ← getId (← j.getObjVal? "id"), D := ← j.getObjValAs? Nat "D", P := P, hP := h,
      preCancelled := (j.getObjValAs? Bool "pre").toOption.getD false,
      cancelAt := cancelAt, token := token, zero := Json.num 0,
      eventsFirst := (j.getObjValAs? Bool "eventsFirst").toOption.getD true,
      cbRaises := fun _ => false,
      writer := match (j.getObjValAs? String "writer").toOption with
        | some "closed" => .closed
        | some "blocked" => .blocked
        | some "stalled" => .stalledUntil ((j.getObjValAs? Nat "stallUntil").toOption.getD 0)
        | _ => .open }
    return (cfg, ev)
  else throw "P must be positive"

/-- `{"m":"await","seq":[request…],"gaps":[…],"fire":tick|null,"start":tick}`: consecutive
requests sharing one token -/
def handleSeq (j : Json) : Except String Json := do
  let reqs ← j.getObjValAs? (Array Json) "seq"
  let gaps ← j.getObjValAs? (Array Nat) "gaps"
  let fire := match optField j "fire" with
    | some c => c.getNat?.toOption
    | none => none
  let start := (j.getObjValAs? Nat "start").toOption.getD 0
  let items ← reqs.toList.zipIdx.mapM (fun (r, i) => do
    let (cfg, ev) ← getCfgEv r
    pure (cfg, gaps.getD i 0, ev))
  -- "par": the requests run concurrently, each from `start` on its own stream pair
  let par := (j.getObjValAs? Bool "par").toOption.getD false
  let outs := if par then items.flatMap (fun it => runSeq Verif.Gen.Errors.isRetryableError fire start [it])
    else runSeq Verif.Gen.Errors.isRetryableError fire start items
  return Json.arr (outs.map (fun (s, o) => (outJson o).setObjVal! "start" (toJson s))).toArray

/-- `{"m":"await","tokenOps":true,"ops":[["add",i]|["cancel"]|["query"]…],"raises":[i…]}` -/
def handleToken (j : Json) : Except String Json := do
  let ops ← j.getObjValAs? (Array Json) "ops"
  let raising ← j.getObjValAs? (Array Nat) "raises"
  let ops ← ops.toList.mapM (fun o => do
    let k ← (← o.getArrVal? 0).getStr?
    match k with
    | "cancel" => pure Verif.Model.Token.Op.cancel
    | "query" => pure Verif.Model.Token.Op.query
    | "add" => pure (Verif.Model.Token.Op.add (← (← o.getArrVal? 1).getNat?))
    | _ => throw s!"unknown token op {k}")
  let (t, outs) := Verif.Model.Token.run (fun i => raising.contains i) {} ops
  return Json.mkObj [
    ("cancelled", Json.bool t.cancelled),
    ("outs", Json.arr (outs.map (fun o => Json.mkObj [
      ("invoked", toJson o.invoked), ("raised", Json.bool o.raised),
      ("answer", match o.answer with | some b => Json.bool b | none => Json.null)])).toArray)]

/-- `{"m":"await","client":true,"initialized":b,"supported":[v…],"stream":[[abs tick, event]…],
"calls":[{"init":cfg,"req":cfg,"gap":n}…]}`: consecutive calls of one `MCPClient` on one connection.
An `initialize` result is accepted when it has the shape of an `InitializeResult` and its version
is one of `supported` (the library's list, read from the running code by the harness). -/
def handleClient (j : Json) : Except String Json := do
  let evs ← j.getObjValAs? (Array Json) "stream"
  let stream ← evs.toList.mapM (fun e => do
    let a ← (← e.getArrVal? 0).getNat?
    let m ← getIn (← e.getArrVal? 1)
    pure (a, m))
  let sup ← j.getObjValAs? (Array String) "supported"
  let isObj (p : Json) (k : String) : Bool := match p.getObjVal? k with
    | .ok (.obj _) => true
    | _ => false
  let okInit : Json → Bool := fun p => match p.getObjValAs? String "protocolVersion" with
    | .ok v => sup.contains v && isObj p "serverInfo" && isObj p "capabilities"
    | .error _ => false
  let cs ← j.getObjValAs? (Array Json) "calls"
  let calls ← cs.toList.mapM (fun c => do
    let (ci, _) ← getCfgEv (← c.getObjVal? "init")
    let (cr, _) ← getCfgEv (← c.getObjVal? "req")
    pure ({ init := ci, req := cr, gap := (c.getObjValAs? Nat "gap").toOption.getD 0 } : Verif.Model.ClientApi.Call Json))
  let initd := (j.getObjValAs? Bool "initialized").toOption.getD false
  let outs := Verif.Model.ClientApi.clientSeq Verif.Gen.Errors.isRetryableError okInit initd 0 0 stream calls
  return Json.arr (outs.map (fun o => Json.mkObj [
    ("start", toJson o.start), ("used", toJson o.used),
    ("init", match o.init with | some oi => outJson oi | none => Json.null),
    ("req", match o.req with
      | some (s, u, r) => ((outJson r).setObjVal! "start" (toJson s)).setObjVal! "used" (toJson u)
      | none => Json.null)])).toArray

/-- `{"m":"await","conn":true,"stream":[[abs tick, event]…],"reqs":[cfg…],"gaps":[…]}`: consecutive
requests on ONE connection (`ClientApi.connSeq`) -/
def handleConn (j : Json) : Except String Json := do
  let evs ← j.getObjValAs? (Array Json) "stream"
  let stream ← evs.toList.mapM (fun e => do
    let a ← (← e.getArrVal? 0).getNat?
    let m ← getIn (← e.getArrVal? 1)
    pure (a, m))
  let rs ← j.getObjValAs? (Array Json) "reqs"
  let gaps ← j.getObjValAs? (Array Nat) "gaps"
  let reqs ← rs.toList.zipIdx.mapM (fun (r, i) => do
    let (cfg, _) ← getCfgEv r
    pure (cfg, gaps.getD i 0))
  let outs := Verif.Model.ClientApi.connSeq Verif.Gen.Errors.isRetryableError 0 0 stream reqs
  return Json.arr (outs.map (fun (s, u, o) =>
    ((outJson o).setObjVal! "start" (toJson s)).setObjVal! "used" (toJson u))).toArray

def handle (j : Json) : Except String Json := do
  if (j.getObjVal? "conn").isOk then return ← handleConn j
  if (j.getObjVal? "client").isOk then return ← handleClient j
  if (j.getObjVal? "tokenOps").isOk then return ← handleToken j
  if (j.getObjVal? "seq").isOk then return ← handleSeq j
  let P ← j.getObjValAs? Nat "P"
  if h : 0 < P then
    let evs ← j.getObjValAs? (Array Json) "ev"
    let ev ← evs.toList.mapM (fun e => do
      let a ← (← e.getArrVal? 0).getNat?
      let m ← getIn (← e.getArrVal? 1)
      pure (a, m))
    let cancelAt := match optField j "cancelAt" with
      | some c => c.getNat?.toOption
      | none => none
    let token ← match optField j "token" with
      | some t => (some <$> getId t)
      | none => pure none
    let cfg : Cfg Json := {
      reqId := ← getId (← j.getObjVal? "id"), D := ← j.getObjValAs? Nat "D", P := P, hP := h,
      preCancelled := (j.getObjValAs? Bool "pre").toOption.getD false,
      cancelAt := cancelAt, token := token, zero := Json.num 0,
      eventsFirst := (j.getObjValAs? Bool "eventsFirst").toOption.getD true,
      cbRaises := fun _ => false,
      writer := match (j.getObjValAs? String "writer").toOption with
        | some "closed" => .closed
        | some "blocked" => .blocked
        | some "stalled" => .stalledUntil ((j.getObjValAs? Nat "stallUntil").toOption.getD 0)
        | _ => .open }
    match (j.getObjValAs? Nat "cbDur").toOption with
    | some d => return outJson (Verif.Model.AwaitSlow.runD Verif.Gen.Errors.isRetryableError cfg (fun _ => d) ev)
    | none => return outJson (run Verif.Gen.Errors.isRetryableError cfg ev)
  else throw "P must be positive"
end Verif.Drv.Await
