import Lean.Data.Json
import Verif.Model.Dispatch
open Lean
-- DRIVER: dispatch
namespace Verif.Drv.Dispatch
open Verif.Model.Dispatch

/-! Line protocol of the dispatcher model (C08).

in:  `{"m":"dispatch","server":{"tools":{name:beh},"resources":{uri:beh},"custom":{method:cbeh},"nextSid":s},
       "msg":{"id":null|{"i":n}|{"s":str},"method":null|str,"name":key,"uri":key,"argsOk":bool}}`
     beh = "returns"|"raises"|"nonsense"; cbeh = "answers"|"silent"|"raises"|"nonsense"|"acks"|"acksSid"|"echoes";
     key = ["absent"]|["str",s]|["scalar"]|["unhashable"]
out: `{"raised":null|"nullId"|"notAPair","resp":null|{"kind":"result"|"error","id":…,"code":n?},"sid":bool}` -/

def getKey (j : Json) : Except String Key := do
  let k ← (← j.getArrVal? 0).getStr?
  match k with
  | "absent" => pure .absent
  | "str" => pure (.str (← (← j.getArrVal? 1).getStr?))
  | "scalar" => pure .scalar
  | "unhashable" => pure .unhashable
  | _ => throw s!"bad key {k}"

def getId (j : Json) : Except String (Option Id) :=
  match j with
  | .null => pure none
  | _ => match j.getObjVal? "s" with
    | .ok (.str s) => pure (some (.str s))
    | _ => match j.getObjValAs? Int "i" with
      | .ok i => pure (some (.int i))
      | .error e => throw s!"bad id {j.compress}: {e}"

def table {β : Type} (j : Json) (f : String → Except String β) : Except String (List (String × β)) :=
  match j with
  | .obj kvs => kvs.toList.mapM (fun (k, v) => do
      let s ← v.getStr?
      pure (k, ← f s))
  | _ => throw "table must be an object"

def beh : String → Except String Beh
  | "returns" => pure (.returns "r")
  | "raises" => pure .raises
  | "nonsense" => pure .returnsNonsense
  | s => throw s!"bad behaviour {s}"

def cbeh : String → Except String CBeh
  | "answers" => pure (.answers "r")
  | "silent" => pure .silent
  | "acks" => pure (.acks (.str "foreign-id") none)
  | "acksSid" => pure (.acks (.str "foreign-id") (some "sid-from-handler"))
  | "echoes" => pure (.echoes "r")
  | "raises" => pure .raises
  | "nonsense" => pure .returnsNonsense
  | s => throw s!"bad behaviour {s}"

def idJson : Id → Json
  | .int i => toJson i
  | .str s => Json.str s

def handle (j : Json) : Except String Json := do
  let sv ← j.getObjVal? "server"
  let tools ← table (← sv.getObjVal? "tools") beh
  let resources ← table (← sv.getObjVal? "resources") beh
  let custom ← table (← sv.getObjVal? "custom") cbeh
  let S : Server := {
    tools := fun n => (tools.find? (fun p => p.1 == n)).map (·.2),
    resources := fun n => (resources.find? (fun p => p.1 == n)).map (·.2),
    custom := fun n => (custom.find? (fun p => p.1 == n)).map (·.2),
    nextSid := (sv.getObjValAs? String "nextSid").toOption.getD "sid" }
  let mj ← j.getObjVal? "msg"
  let meth := match mj.getObjVal? "method" with
    | .ok (.str s) => some s
    | _ => none
  let m : Msg := {
    id := ← getId ((mj.getObjVal? "id").toOption.getD Json.null),
    method := meth,
    params := {
      name := ← getKey (← mj.getObjVal? "name"),
      uri := ← getKey (← mj.getObjVal? "uri"),
      argsOk := (mj.getObjValAs? Bool "argsOk").toOption.getD true } }
  let old := (j.getObjValAs? Bool "pinned").toOption.getD false
  let r := if old then handleOld (serverRegOld S) m else Verif.Model.Dispatch.handle (serverReg S) m
  match r with
  | .error .nullId => return Json.mkObj [("raised", "nullId"), ("resp", Json.null), ("sid", Json.bool false)]
  | .error .notAPair => return Json.mkObj [("raised", "notAPair"), ("resp", Json.null), ("sid", Json.bool false)]
  | .ok (resp, sid) =>
    let rj := match resp with
      | none => Json.null
      | some (.result i _) => Json.mkObj [("kind", "result"), ("id", idJson i)]
      | some (.error i c) => Json.mkObj [("kind", "error"), ("id", idJson i), ("code", toJson c)]
    return Json.mkObj [("raised", Json.null), ("resp", rj), ("sid", Json.bool sid.isSome)]
end Verif.Drv.Dispatch
