import Lean.Data.Json
import Verif.Model.Host
import Verif.Drv.Config
open Lean
-- DRIVER: host
namespace Verif.Drv.Host
open Verif.Model.Config Verif.Model.Host Verif.Drv.Config

def actionJson : Action → Json
  | .usage => Json.mkObj [("action", Json.str "usage")]
  | .noConfig => Json.mkObj [("action", Json.str "no-config")]
  | .list p => Json.mkObj [("action", Json.str "list"), ("config", Json.str p)]
  | .test p n v => Json.mkObj [("action", Json.str "test"), ("config", Json.str p), ("server", Json.str n),
      ("verbose", Json.bool v)]

/-- {"m":"host","op":"env","win32":bool,"parent":{…}} -> {"env":{…}}
    {"m":"host","op":"cli","argv":[…],"existing":[paths],"home":"…","docs":{path: document | null},"dflt":{…},"files":[…]}
      -> {"action":…,"config"?,"server"?,"verbose"?,"launches":[…]}   (a path of `existing` without a document is not JSON) -/
def handle (j : Json) : Except String Json := do
  match (← j.getObjValAs? String "op") with
  | "env" =>
    let parent ← getEnv (← j.getObjVal? "parent")
    let w := (j.getObjValAs? Bool "win32").toOption.getD false
    return Json.mkObj [("env", envJson (defaultEnv w parent))]
  | "cli" =>
    let argv ← j.getObjValAs? (List String) "argv"
    let existing ← j.getObjValAs? (List String) "existing"
    let home ← j.getObjValAs? String "home"
    let dflt ← getEnv (← j.getObjVal? "dflt")
    let files := (j.getObjValAs? (List String) "files").toOption.getD []
    let docs ← j.getObjVal? "docs"
    let fs : String → File := fun p =>
      if existing.contains p then
        match docs.getObjVal? p with
        | .ok .null => File.invalid
        | .ok d => File.json (toJ d)
        | .error _ => File.invalid
      else File.missing
    let a := act existing home argv
    let r := cliLaunch files dflt fs existing home argv
    let base := match actionJson a with
      | .obj kvs => kvs.foldl (fun acc k v => acc ++ [(k, v)]) []
      | _ => []
    return Json.mkObj (base ++ [
      ("launches", Json.arr (r.launches.map (fun l => Json.mkObj [
        ("argv", toJson l.argv), ("env", envJson l.env), ("handshake", Json.bool l.handshake)])).toArray)])
  | s => throw s!"unknown op {s}"
end Verif.Drv.Host
