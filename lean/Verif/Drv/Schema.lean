import Lean.Data.Json
import Verif.Model.Schema
import Verif.Gen.Schemas
import Verif.Gen.Builders
open Lean
-- DRIVER: schema
namespace Verif.Drv.Schema
open Verif.Model.Schema

/-! Line protocol of the schema model.  JSON values travel in an order-preserving encoding:
objects as `{"o":[[k,v],…]}`, non-integral floats as `{"f":"<repr>"}`, arrays as arrays,
everything else as itself (numbers are integers). -/

partial def dec (j : Lean.Json) : Except String Verif.Model.Schema.Json :=
  match j with
  | .null => pure .null
  | .bool b => pure (.bool b)
  | .str s => pure (.str s)
  | .num n => if n.exponent == 0 then pure (.int n.mantissa) else throw s!"non-integer number {n}"
  | .arr xs => do
    let ys ← xs.toList.mapM dec
    pure (.arr ys)
  | .obj _ =>
    match j.getObjVal? "f" with
    | .ok (.str tok) => pure (.flt tok)
    | _ => match j.getObjVal? "o" with
      | .ok (.arr ps) => do
        let kvs ← ps.toList.mapM (fun p => match p with
          | .arr #[.str k, v] => do pure (k, ← dec v)
          | _ => throw "bad member")
        pure (.obj kvs)
      | _ => throw "bad object encoding"

partial def enc (j : Verif.Model.Schema.Json) : Lean.Json :=
  match j with
  | .null => .null
  | .bool b => .bool b
  | .int i => .num (JsonNumber.fromInt i)
  | .flt tok => Lean.Json.mkObj [("f", .str tok)]
  | .str s => .str s
  | .arr xs => .arr (xs.map enc).toArray
  | .obj kvs => Lean.Json.mkObj [("o", .arr (kvs.map (fun p => Lean.Json.arr #[.str p.1, enc p.2])).toArray)]

partial def encTree (t : TypeTree) : Lean.Json :=
  match t with
  | .none => .null
  | .model n fs => .arr #[.str n, Lean.Json.mkObj (fs.map (fun p => (p.1, encTree p.2)))]
  | .list xs => .arr (xs.map encTree).toArray
  | .dict kvs => Lean.Json.mkObj (kvs.map (fun p => (p.1, encTree p.2)))

/-- the modelled backend: the fallback, with the hook names it calls and the hand-modelled
documented invariants -/
def cfg : Cfg := { classes := Verif.Gen.Schemas.classes, calls := Verif.Gen.Schemas.fallbackCalls, inv := docInv }

def result (ty : Ty) (j : Verif.Model.Schema.Json) (r : Except String TVal) : Lean.Json :=
  let spec := [("conforms", Lean.Json.bool (conforms cfg ty j)), ("unamb", Lean.Json.bool (unamb cfg ty j))]
  match r with
  | .error e => Lean.Json.mkObj ([("ok", .bool false), ("why", .str e)] ++ spec)
  | .ok v => Lean.Json.mkObj ([("ok", .bool true),
      ("dump", enc (dump cfg true true v)),
      ("dumpAttr", enc (dump cfg false true v)),
      ("dumpAll", enc (dump cfg true false v)),
      ("tree", encTree (typeTree cfg v)),
      ("expected", enc (expected cfg ty j))] ++ spec)

/-- type expressions in the introspection's JSON form: {"k":"str"} … {"k":"union","ts":[…]} {"k":"ref","cls":…} -/
partial def decTy (j : Lean.Json) : Except String Ty := do
  let k ← j.getObjValAs? String "k"
  match k with
  | "str" => pure .str
  | "int" => pure .int
  | "float" => pure .float
  | "bool" => pure .bool
  | "any" => pure .any
  | "lit" => do
    let vs ← j.getObjValAs? (List String) "vals"
    pure (.lit vs)
  | "opt" => do pure (.opt (← decTy (← j.getObjVal? "t")))
  | "list" => do pure (.list (← decTy (← j.getObjVal? "t")))
  | "dict" => do pure (.dict (← decTy (← j.getObjVal? "t")))
  | "ref" => do pure (.ref (← j.getObjValAs? String "cls"))
  | "union" => do
    let ts ← j.getObjValAs? (List Lean.Json) "ts"
    let tys ← ts.mapM decTy
    match tys.reverse with
    | [] => throw "empty union"
    | last :: rest => pure (rest.foldl (fun acc t => .union t acc) last)
  | _ => throw s!"unknown type kind {k}"

def handle (j : Lean.Json) : Except String Lean.Json := do
  let op ← j.getObjValAs? String "op"
  let v ← dec (← j.getObjVal? "j")
  match op with
  | "validate" =>
    let cls ← j.getObjValAs? String "cls"
    return result (.ref cls) v (validate cfg (.ref cls) v)
  | "parse" =>
    match parseMessage cfg v with
    | .error e => return Lean.Json.mkObj [("ok", .bool false), ("why", .str e)]
    | .ok tv => return Lean.Json.mkObj [("ok", .bool true), ("dump", enc (dump cfg true true tv)),
        ("tree", encTree (typeTree cfg tv))]
  | "dump" =>
    let cls ← j.getObjValAs? String "cls"
    let byAlias ← j.getObjValAs? Bool "byAlias"
    let exclNone ← j.getObjValAs? Bool "exclNone"
    match validate cfg (.ref cls) v with
    | .error e => return Lean.Json.mkObj [("ok", .bool false), ("why", .str e)]
    | .ok tv => return Lean.Json.mkObj [("ok", .bool true), ("dump", enc (dump cfg byAlias exclNone tv))]
  | "ty" =>
    -- `_deep_validate` of a value against an arbitrary type expression (any value, conforming or not)
    let t ← decTy (← j.getObjVal? "ty")
    match validate cfg t v with
    | .error e => return Lean.Json.mkObj [("ok", .bool false), ("why", .str e)]
    | .ok tv => return Lean.Json.mkObj [("ok", .bool true), ("dump", enc (dump cfg true true tv)),
        ("tree", encTree (typeTree cfg tv)), ("conforms", .bool (conforms cfg t v))]
  | "enums" =>
    -- complete_enum_value on a list of [current, allowed, case_sensitive] queries
    match v with
    | .arr qs =>
      let outs := qs.map (fun q => match q with
        | .arr [.str cur, .arr allowed, .bool cs] =>
          Lean.Json.arr ((completeEnum cur (allowed.filterMap (fun a => match a with | .str x => some x | _ => none)) cs).map Lean.Json.str).toArray
        | _ => Lean.Json.null)
      return Lean.Json.mkObj [("ok", .bool true), ("enums", .arr outs.toArray)]
    | _ => throw "enums: list expected"
  | "build" =>
    -- a `create_*` helper of Gen/Builders on keyword arguments (wire values)
    let name ← j.getObjValAs? String "name"
    let modn ← j.getObjValAs? String "module"
    match Verif.Gen.Builders.builders.find? (fun b => b.name == name && b.module == modn), v with
    | some b, .obj args =>
      match b.run cfg args with
      | .error e => return Lean.Json.mkObj [("ok", .bool false), ("why", .str e)]
      | .ok tv => return Lean.Json.mkObj [("ok", .bool true), ("dump", enc (dump cfg true true tv)),
          ("dumpPlain", enc (dump cfg false false tv)), ("tree", encTree (typeTree cfg tv))]
    | none, _ => return Lean.Json.mkObj [("untranslated", .bool true)]
    | _, _ => throw "arguments must be an object"
  | "parseBy" =>
    let name ← j.getObjValAs? String "name"
    match Verif.Gen.Builders.parsers.find? (fun p => p.name == name) with
    | some p =>
      match p.run cfg v with
      | .error e => return Lean.Json.mkObj [("ok", .bool false), ("why", .str e)]
      | .ok tv => return Lean.Json.mkObj [("ok", .bool true), ("dump", enc (dump cfg true true tv)),
          ("tree", encTree (typeTree cfg tv))]
    | none => return Lean.Json.mkObj [("untranslated", .bool true)]
  | _ => throw s!"unknown op {op}"

end Verif.Drv.Schema
