import Lean.Data.Json
import Verif.Model.Client
import Verif.Gen.Versions
open Lean
-- DRIVER: mcpclient
/-! Driver glue for the `MCPClient` model (C15 §5).

```
{"m":"mcpclient","connect":b,"ops":["init"|"list_tools"|"call_tool"|"list_resources"|"read_resource"|"list_prompts"|"get_prompt"…],
 "inits":[{"ok":"<protocolVersion>"} | {"raise":tag}…],     how the k-th initialize answer reads (then: ok, latest version)
 "calls":[{"ok":tag} | {"raise":tag}…],"rejected":[op position…]}                     how the k-th other helper call ends (then: ok)
-> {"results":[{"k":"initialized","v":…}|{"k":"cached"}|{"k":"value","tag":…}|{"k":"raised","tag":…}…],
    "trace":[{"req":op}|{"set":version}…],"initialized":b,"nInit":n,"nCall":n}
```
An `initialize` answer whose version the library does not support (`Gen.Versions.supported`, regenerated from
the source) makes `send_initialize` raise. -/
namespace Verif.Drv.Client
open Verif.Model.Client

def opOf : String → Except String Op
  | "init" => pure .init
  | "list_tools" => pure .listTools
  | "call_tool" => pure .callTool
  | "list_resources" => pure .listResources
  | "read_resource" => pure .readResource
  | "list_prompts" => pure .listPrompts
  | "get_prompt" => pure .getPrompt
  | x => throw s!"unknown op {x}"

def opName : Op → String
  | .init => "init" | .listTools => "list_tools" | .callTool => "call_tool" | .listResources => "list_resources"
  | .readResource => "read_resource" | .listPrompts => "list_prompts" | .getPrompt => "get_prompt"

def latest : String := Verif.Gen.Versions.supported.headD ""

def initOf (j : Json) : Except String (String × Unit) :=
  match j.getObjVal? "ok" with
  | .ok (.str v) => if Verif.Gen.Versions.supported.contains v then .ok (v, ()) else .error "version-mismatch"
  | _ => .error ((j.getObjValAs? String "raise").toOption.getD "raise")

def callOf (j : Json) : Except String String :=
  match j.getObjVal? "ok" with
  | .ok (.str t) => .ok t
  | _ => .error ((j.getObjValAs? String "raise").toOption.getD "raise")

def resJson : Res Unit String String → Json
  | .initialized v _ => Json.mkObj [("k", "initialized"), ("v", Json.str v)]
  | .cached _ => Json.mkObj [("k", "cached")]
  | .value t => Json.mkObj [("k", "value"), ("tag", Json.str t)]
  | .raised t => Json.mkObj [("k", "raised"), ("tag", Json.str t)]

def evJson : Ev → Json
  | .request op => Json.mkObj [("req", Json.str (opName op))]
  | .setVersion v => Json.mkObj [("set", Json.str v)]

def handle (j : Json) : Except String Json := do
  let ops ← (← j.getObjValAs? (Array String) "ops").toList.mapM opOf
  let inits := (← j.getObjValAs? (Array Json) "inits").toList
  let calls := (← j.getObjValAs? (Array Json) "calls").toList
  let rejected := ((j.getObjValAs? (Array Nat) "rejected").toOption.getD #[]).toList   -- positions of operations whose helper rejects its arguments
  let a : Answers Unit String String :=
    { inits := fun k => match inits[k]? with | some x => initOf x | none => .ok (latest, ()),
      calls := fun k => match calls[k]? with | some x => callOf x | none => .ok "ok",
      rejects := fun k => if rejected.contains k then some "rejected" else none }
  let r := if (j.getObjValAs? Bool "connect").toOption.getD false then connect a ops else run a St.fresh ops
  return Json.mkObj [
    ("results", Json.arr (r.2.1.map resJson).toArray), ("trace", Json.arr (r.2.2.map evJson).toArray),
    ("initialized", Json.bool r.1.initialized), ("nInit", toJson r.1.nInit), ("nCall", toJson r.1.nCall)]

end Verif.Drv.Client
