import Lean.Data.Json
import Verif.Model.VersionInfo
open Lean
-- DRIVER: versionlib
namespace Verif.Drv.VersionLib
open Verif.Gen.VersionLib Verif.Model.VersionLib Verif.Model.VersionInfo

def strs (j : Json) (k : String) : Except String (List (List Char)) := do
  let a ← j.getObjValAs? (Array Json) k
  a.toList.mapM (fun x => do pure (← x.getStr?).toList)

def str (j : Json) (k : String) : Except String (List Char) := do
  pure (← j.getObjValAs? String k).toList

def ofStr (s : List Char) : Json := Json.str (String.ofList s)
def optJ {α} (f : α → Json) : Option α → Json
  | some a => f a
  | none => Json.str "<raises>"

/-- {"m":"versionlib","op":…} — the regenerated utilities of versioning.py; "<raises>" = ValueError -/
def handle (j : Json) : Except String Json := do
  let op ← j.getObjValAs? String "op"
  match op with
  | "negotiate" =>
    return Json.mkObj [("r", optJ ofStr (negotiateGen (← strs j "c") (← strs j "s")))]
  | "pair" =>
    let a ← str j "a"
    let b ← str j "b"
    return Json.mkObj [
      ("compatible", optJ Json.bool (compatibleGen a b)),
      ("compare", optJ (fun (i : Int) => toJson i) (compareGen a b)),
      ("newer", optJ Json.bool (isNewerGen a b)),
      ("older", optJ Json.bool (isOlderGen a b))]
  | "one" =>
    let v ← str j "v"
    let i := versionInfo v
    return Json.mkObj [
      ("valid", Json.bool (validateFormatGen v)),
      ("supported", Json.bool (isSupportedGen v)),
      ("parse", optJ (fun (p : Nat × Nat × Nat) => Json.arr #[toJson p.1, toJson p.2.1, toJson p.2.2]) (parseVersionGen v)),
      ("info", Json.mkObj ([("is_valid", Json.bool i.isValid), ("is_supported", Json.bool i.isSupported),
        ("is_current", Json.bool i.isCurrent)] ++ (match i.details with
          | some d => [("year", toJson d.year), ("month", toJson d.month), ("day", toJson d.day),
              ("is_newer_than_current", Json.bool d.newerThanCurrent), ("is_older_than_minimum", Json.bool d.olderThanMinimum)]
          | none => [])))]
  | "consts" =>
    return Json.mkObj [("latest", optJ ofStr latestGen), ("minimum", optJ ofStr minimumGen),
      ("all", optJ (fun l => Json.arr (l.map ofStr).toArray) allSupportedGen)]
  | "format" =>
    return Json.mkObj [("r", ofStr (formatVersionList (← strs j "vs")))]
  | _ => throw s!"unknown op {op}"
end Verif.Drv.VersionLib
