import Lean.Data.Json
import Verif.Model.SseReq
open Lean
-- DRIVER: ssereq
namespace Verif.Drv.SseReq
open Verif.Model.SseReq

/-- text: a JSON string or an array of code points -/
def getStr (j : Json) : Except String Str :=
  match j with
  | .str s => pure s.toList
  | .arr a => a.toList.mapM (fun c => do
      let n ← c.getNat?
      pure (Char.ofNat n))
  | _ => throw s!"bad text {j.compress}"

def cps (s : Str) : Json := Json.arr (s.map (fun c => toJson c.toNat)).toArray

def optField (j : Json) (k : String) : Option Json :=
  match j.getObjVal? k with
  | .ok .null => none
  | .ok v => some v
  | .error _ => none

def getKey (j : Json) : Except String (Option Str) :=
  match optField j "key" with
  | some v => some <$> getStr v
  | none => pure none

def getMsg (j : Json) (tag : Str) : Except String (Msg Str) := do
  return { key := ← getKey j, ok := (j.getObjValAs? Bool "ok").toOption.getD true, body := tag }

def getConn (j : Json) : Except String Conn := do
  let k ← j.getObjValAs? String "k"
  let c := (j.getObjValAs? Nat "at").toOption.getD 0
  match k with
  | "ok" => return .ok c
  | "status" => return .status c ((j.getObjValAs? Nat "code").toOption.getD 500)
  | "error" => return .error c
  | "hang" => return .hang
  | _ => throw s!"unknown conn {k}"

def getMode (j : Json) : Except String (Mode Str) := do
  let m ← j.getObjValAs? String "mode"
  let b : Option (Msg Str) ← match optField j "b" with
    | some bj => some <$> getMsg bj "post".toList
    | none => pure none
  let key ← getStr (← j.getObjVal? "key")
  let ans (tag : String) : Msg Str := { key := some key, ok := true, body := tag.toList }
  -- the POST completion of an "event first, then POST" request
  let post : Except String (Post Str) := do
    let pk := (j.getObjValAs? String "post").toOption.getD "accepted"
    match pk with
    | "body" => return .ok200 (some (ans "body"))
    | "body-other" => return .ok200 b
    | "unreadable" => return .ok200 none
    | "accepted" => return .accepted
    | "other" => return .other b
    | "exc" => return .exc
    | _ => throw s!"unknown post {pk}"
  match m with
  | "body" => return .body (ans "body")
  | "body-other" => match b with
      | some bb => return .body bb
      | none => return .bodyUnreadable
  | "unreadable" => return .bodyUnreadable
  | "evack" => return .evThenAck (ans "ev")
  | "ackev" => return .ackThenEv (ans "ev")
  | "silence" => return .silence
  | "other" => return .otherStatus b
  | "exc" => return .exception
  | "evpost" => return .evThenPost (ans "ev") (← post)
  | _ => throw s!"unknown mode {m}"

def outJson (o : Out Str) : Json :=
  match o with
  | .routed m => Json.str ("routed:" ++ String.ofList m.body)
  | .timeoutErr _ => Json.str "timeout"
  | .failErr _ => Json.str "fail"

def handle (j : Json) : Except String Json := do
  let url ← getStr (← j.getObjVal? "url")
  let T ← j.getObjValAs? Nat "T"
  let cap ← j.getObjValAs? Nat "cap"
  let conn ← getConn (← j.getObjVal? "conn")
  let chunks ← (← j.getObjValAs? (Array Json) "chunks").toList.mapM (fun e => do
    let t ← (← e.getArrVal? 0).getNat?
    let s ← getStr (← e.getArrVal? 1)
    pure (t, s))
  let close := match optField j "close" with
    | some c => c.getNat?.toOption
    | none => none
  let table ← (← j.getObjValAs? (Array Json) "dec").toList.mapM (fun e => do
    let d ← getStr (← e.getObjVal? "d")
    let m ← getMsg e d
    pure (d, m))
  let dec : Str → Option (Msg Str) := fun d => (table.find? (fun p => p.1 == d)).map (·.2)
  let reqs ← (← j.getObjValAs? (Array Json) "reqs").toList.mapM (fun e => do
    let k ← getStr (← e.getObjVal? "key")
    let m ← getMode e
    -- an answer on the event stream after the request has ended is one more event
    let late : List (Msg Str) := if (e.getObjValAs? Bool "late").toOption.getD false
      then [{ key := some k, ok := true, body := "ev".toList }] else []
    pure (k, m, late))
  let o := session dec url T cap conn chunks close reqs
  let ej := match o.enter with
    | .yielded t u => Json.mkObj [("k", Json.str "yielded"), ("t", toJson t), ("url", cps u)]
    | .raised t => Json.mkObj [("k", Json.str "raised"), ("t", toJson t)]
  return Json.mkObj [
    ("enter", ej),
    ("srv", Json.arr (o.srv.map (fun m => cps m.body)).toArray),
    ("terms", Json.arr (o.terms.map (fun l => Json.arr (l.map outJson).toArray)).toArray),
    ("released", Json.bool ((cleanup ⟨.live, .live, .live, .live, .live, .live, .live⟩).toList.all (· != .live)))]
end Verif.Drv.SseReq
