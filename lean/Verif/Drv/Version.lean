import Lean.Data.Json
import Verif.Model.Version
import Verif.Gen.Versions
open Lean
-- DRIVER: version
namespace Verif.Drv.Version
open Verif.Model.Version

def optField (j : Json) (k : String) : Option Json :=
  match j.getObjVal? k with
  | .ok .null => none
  | .ok v => some v
  | .error _ => none

/-- `"sup": null` = the caller passes no list: the library's own (regenerated) list -/
def getSup (j : Json) : Except String (List String) :=
  match optField j "sup" with
  | none => pure Verif.Gen.Versions.supported
  | some v => do
    let a ← v.getArr?
    a.toList.mapM (fun x => x.getStr?)

def getPref (j : Json) : Except String (Option String) :=
  match optField j "pref" with
  | none => pure none
  | some v => some <$> v.getStr?

def getAnswer (j : Json) : Except String Answer := do
  let k ← j.getObjValAs? String "k"
  match k with
  | "version" => return .version (← j.getObjValAs? String "s")
  | "malformed" => return .malformed
  | "rpc" =>
    let msg ← match optField j "msg" with
      | some m => some <$> m.getStr?
      | none => pure none
    return .rpcError (← j.getObjValAs? Int "code") msg
  | "silence" => return .silence
  | "closed" => return .closed
  | _ => throw s!"unknown answer kind {k}"

def getRequested (j : Json) : Except String Requested := do
  let k ← j.getObjValAs? String "k"
  match k with
  | "absent" => return .absent
  | "str" => return .str (← j.getObjValAs? String "s")
  | "other" => return .other
  | _ => throw s!"unknown requested kind {k}"

def outcomeJson : Outcome → List (String × Json)
  | .ok v => [("outcome", "ok"), ("v", Json.str v)]
  | .mismatch => [("outcome", "mismatch")]
  | .invalid => [("outcome", "invalid")]
  | .rpcFailed c => [("outcome", "rpc"), ("code", toJson c)]
  | .timedOut => [("outcome", "timeout")]
  | .noVersions => [("outcome", "noversions")]
  | .blocked => [("outcome", "blocked")]
  | .transportFailed => [("outcome", "transport")]

def evJson : Ev → Json
  | .sent (.initialize v) => Json.mkObj [("w", "initialize"), ("v", Json.str v)]
  | .sent .initialized => Json.mkObj [("w", "initialized")]
  | .answered => Json.mkObj [("w", "answered")]
  | .handed => Json.mkObj [("w", "handed")]

/-- what a peer behind an explicit write side can see: the start of the notification's send is
invisible, its hand-over is the notification -/
def observableW (t : List Ev) : List Ev :=
  (t.filter (· ≠ .sent .initialized)).map (fun e => if e = .handed then .sent .initialized else e)

def getWriteSide (j : Json) : Except String WriteSide :=
  match optField j "take" with
  | none => pure .never
  | some (.str "refuses") => pure .refuses
  | some v => .accepts <$> v.getNat?

def trackedJson : Tracked → Json
  | some (v, mode) => Json.mkObj [("v", Json.str v), ("batching", Json.bool mode)]
  | none => Json.null

def traceJson (t : List Ev) : Json := Json.arr (t.map evJson).toArray

def handle (j : Json) : Except String Json := do
  let op ← j.getObjValAs? String "op"
  match op with
  | "server" =>
    let r ← getRequested (← j.getObjVal? "req")
    -- "choice": the version the handler under test fell back to (see `serverAnswerG`); absent = the code's own choice
    let rep := match optField j "choice" with
      | some (.str c) => handleInitializeG Verif.Gen.Versions.supported c r
      | _ => handleInitialize Verif.Gen.Versions.supported Verif.Gen.Versions.handlerDefault r
    let own := handleInitialize Verif.Gen.Versions.supported Verif.Gen.Versions.handlerDefault r
    return Json.mkObj [("answered", Json.str rep.answered), ("recorded", Json.str rep.recorded),
      ("code_answer", Json.str own.answered)]
  | "serverseq" =>
    let arr ← j.getObjValAs? (Array Json) "steps"
    let steps ← arr.toList.mapM (fun st => do
      let r ← getRequested (← st.getObjVal? "req")
      let carry := match optField st "carry" with
        | some c => c.getNat?.toOption
        | none => none
      let choice := match optField st "choice" with
        | some (.str c) => c
        | _ => (handleInitialize Verif.Gen.Versions.supported Verif.Gen.Versions.handlerDefault r).answered
      let h := match optField st "h" with
        | some hj => hj.getNat?.toOption.getD 0
        | none => 0
      pure ((h, r, carry, choice) : Nat × InitStepG))
    -- several handlers alive at once (a step's "h", default 0): `runHandlers`; with one handler this is `runInitsG`
    let os := runHandlers Verif.Gen.Versions.supported (fun _ => []) steps
    return Json.mkObj [("steps", Json.arr (os.map (fun (_, a, rec) =>
      Json.mkObj [("answered", Json.str a),
        ("recorded", match rec with | some v => Json.str v | none => Json.null)])).toArray)]
  | "client" =>
    let sup ← getSup j
    let pref ← getPref j
    let ans ← getAnswer (← j.getObjVal? "ans")
    let (o, t, tr) := trackedInit parseDate sup pref ans
    return Json.mkObj (outcomeJson o ++ [("trace", traceJson t), ("tracked", trackedJson tr)])
  | "clientw" =>
    let sup ← getSup j
    let pref ← getPref j
    let ans ← getAnswer (← j.getObjVal? "ans")
    let (o, t) := clientInitW sup pref ans (← getWriteSide j)
    return Json.mkObj (outcomeJson o ++ [("trace", traceJson (observableW t))])
  | "clientseq" =>
    let arr ← j.getObjValAs? (Array Json) "steps"
    let steps ← arr.toList.mapM (fun st => do
      let sup ← getSup st
      let pref ← getPref st
      let ans ← getAnswer (← st.getObjVal? "ans")
      let k := match optField st "conn" with
        | some kj => kj.getNat?.toOption.getD 0
        | none => 0
      pure ((k, sup, pref, ans) : Nat × ClientStep))
    -- several connections alive at once (a step's "conn", default 0): `runClients`; with one connection this is `runClientSeq`
    let rs := runClients parseDate (fun _ => none) steps
    return Json.mkObj [("steps", Json.arr (rs.map (fun (_, o, t, tr) =>
      Json.mkObj (outcomeJson o ++ [("trace", traceJson t), ("tracked", trackedJson tr)]))).toArray)]
  | "handshake" =>
    let sup ← getSup j
    let pref ← getPref j
    let (o, t, s) := match optField j "choice" with
      | some (.str c) => handshakeG sup pref Verif.Gen.Versions.supported c
      | _ => handshake sup pref Verif.Gen.Versions.supported Verif.Gen.Versions.handlerDefault
    return Json.mkObj (outcomeJson o ++ [("trace", traceJson t),
      ("session", match s with | some v => Json.str v | none => Json.null)])
  | "handshakes" =>
    -- several clients against one server: one independent handshake each (the server keeps no state between them that
    -- an answer depends on); per client its own free choice
    let arr ← j.getObjValAs? (Array Json) "clients"
    let rs ← arr.toList.mapM (fun cj => do
      let sup ← getSup cj
      let pref ← getPref cj
      let (o, t, s) := match optField cj "choice" with
        | some (.str c) => handshakeG sup pref Verif.Gen.Versions.supported c
        | _ => handshake sup pref Verif.Gen.Versions.supported Verif.Gen.Versions.handlerDefault
      pure (Json.mkObj (outcomeJson o ++ [("trace", traceJson t),
        ("session", match s with | some v => Json.str v | none => Json.null)])))
    return Json.mkObj [("clients", Json.arr rs.toArray)]
  | "batching" =>
    return Json.mkObj [("batching", Json.bool (batchingOf parseDate (← j.getObjValAs? String "v")))]
  | _ => throw s!"unknown op {op}"
end Verif.Drv.Version
