import Lean.Data.Json
import Verif.Model.StdioOut
open Lean
namespace Verif.Drv.StdioOut
open Verif.Model.StdioOut
-- DRIVER: stdio_writer

def codePoints (s : String) : List Char := s.toList

partial def fromJson (j : Lean.Json) : Except String Verif.Model.Json.Json :=
  match j with
  | .null => pure .null
  | .bool b => pure (.bool b)
  | .num n => if n.exponent = 0 then pure (.int n.mantissa) else throw "non-integer number (floats are not modelled)"
  | .str s => pure (.str (codePoints s))
  | .arr xs => do return .arr (← xs.toList.mapM fromJson)
  | .obj kvs => do
    let l ← kvs.toList.mapM (fun (k, v) => do return (codePoints k, ← fromJson v))
    return .obj l

def hexByte (n : Nat) : String :=
  let d (x : Nat) : Char := if x < 10 then Char.ofNat (48 + x) else Char.ofNat (87 + x)
  String.ofList [d (n / 16 % 16), d (n % 16)]

/-- `{"m":"stdio_writer","items":[{"k":"value","v":<json>} | {"k":"raw","s":"…"} | {"k":"unser"}],
     "close":bool,"style":"compact"|"std",
     "rejs":[<json> …]?, "sched":[bool …]?}`   (second writer: rejection lines of the reader task,
     interleaved with the writer task's sends by the schedule, `true` = writer task next)
   -> `{"bytes":"<hex>","sends":n,"closed":bool}` -/
def guardJson (r : Except GuardErr Unit) : Lean.Json :=
  match r with
  | .ok _ => Lean.Json.str "ok"
  | .error .valueError => Lean.Json.str "ValueError"
  | .error .runtimeError => Lean.Json.str "RuntimeError"

def getHist (j : Lean.Json) : List LifeOp :=
  match j.getObjValAs? (Array String) "history" with
  | .ok a => a.toList.map (fun s => if s == "enter" then LifeOp.enter else LifeOp.exit)
  | .error _ => []

/-- `{"m":"stdio_writer","guard":"ctor","command":bool,"args":bool}` | `{"guard":"streams"|"transport","history":["enter"|"exit"…]}`
   -> `{"guard":"ok"|"ValueError"|"RuntimeError"}`; otherwise the writer query below -/
def handle (j : Lean.Json) : Except String Lean.Json := do
  match j.getObjValAs? String "guard" with
  | .ok "ctor" =>
    return Lean.Json.mkObj [("guard", guardJson (ctorCheck (← j.getObjValAs? Bool "command") (← j.getObjValAs? Bool "args")))]
  | .ok "streams" => return Lean.Json.mkObj [("guard", guardJson (useStreams (getHist j)))]
  | .ok "transport" => return Lean.Json.mkObj [("guard", guardJson (transportGetStreams (getHist j)))]
  | _ => pure ()
  let items ← (← j.getObjValAs? (Array Lean.Json) "items").toList.mapM (fun it => do
    let k ← it.getObjValAs? String "k"
    match k with
    | "value" => return Outbound.value (← fromJson (← it.getObjVal? "v"))
    | "raw" => return Outbound.raw (codePoints (← it.getObjValAs? String "s"))
    | _ => return Outbound.unserialisable)
  let close := (j.getObjValAs? Bool "close").toOption.getD true
  let sty := match j.getObjValAs? String "style" with
    | .ok "std" => Verif.Model.Json.stdStyle
    | _ => Verif.Model.Json.orjsonStyle
  let rejs ← match j.getObjValAs? (Array Lean.Json) "rejs" with
    | .ok a => a.toList.mapM fromJson
    | .error _ => pure []
  let sched := match j.getObjValAs? (Array Bool) "sched" with
    | .ok a => a.toList
    | .error _ => []
  let o := writer sty items close
  let bytes := if rejs.isEmpty then o.bytes else childBytes2 sty items rejs sched
  return Lean.Json.mkObj [
    ("bytes", Lean.Json.str (String.join (bytes.map hexByte))),
    ("sends", toJson (sends sty items).length),
    ("closed", Lean.Json.bool o.stdinClosed)]
end Verif.Drv.StdioOut
