import Lean.Data.Json
import Verif.Model.StdioExit
open Lean
namespace Verif.Drv.StdioExit
open Verif.Model.StdioExit Verif.Gen.StdioExit
-- DRIVER: stdio_exit

/-- `{"m":"stdio_exit","entry":"client"|"init","exc":{"kind":"error","mro":[class names],"msg":…} | {"kind":"cancelled"} |
     {"kind":"group","members":[{"cancelled":bool,"mro":[…],"msg":…}]}}` -> `{"propagates":bool}`
   (`mro` absent = `["Exception","BaseException","object"]`) -/
def handle (j : Json) : Except String Json := do
  let entry ← j.getObjValAs? String "entry"
  let (single, grp) := if entry == "init" then (initSingle, initGroup) else (clientSingle, clientGroup)
  let e ← j.getObjVal? "exc"
  let kind ← e.getObjValAs? String "kind"
  let mroOf (m : Json) : List String :=
    (m.getObjValAs? (Array String) "mro").toOption.map Array.toList |>.getD ["Exception", "BaseException", "object"]
  let exc ← match kind with
    | "cancelled" => pure Exc.cancelled
    | "group" => do
      let ms ← e.getObjValAs? (Array Json) "members"
      let l ← ms.toList.mapM (fun m => do
        let c := (m.getObjValAs? Bool "cancelled").toOption.getD false
        let t := (m.getObjValAs? String "msg").toOption.getD ""
        pure (c, mroOf m, t.toList))
      pure (Exc.group l)
    | _ => pure (Exc.error (mroOf e) ((e.getObjValAs? String "msg").toOption.getD "").toList)
  return Json.mkObj [("propagates", Json.bool (propagates single grp exc))]
end Verif.Drv.StdioExit
