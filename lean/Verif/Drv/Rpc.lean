import Lean.Data.Json
import Verif.Model.RpcExt
import Verif.Gen.Methods
import Verif.Drv.Json
open Lean
-- DRIVER: rpc
namespace Verif.Drv.Rpc
open Verif.Model.Rpc
open Verif.Drv.Json (J toModel ofModel cpsToChars charsToCps)

/-! ids travel as `{"i":int}` / `{"s":[cp…]}` / `null`; strings as code-point arrays; payloads in
the transport form of `Verif.Drv.Json`. -/

def getIdOpt (j : Json) (k : String) : Except String (Option Id) :=
  match j.getObjVal? k with
  | .error _ => pure none
  | .ok .null => pure none
  | .ok v =>
    match v.getObjVal? "i" with
    | .ok x => do pure (some (.int (← x.getInt?)))
    | .error _ => do pure (some (.str (← cpsToChars (← v.getObjVal? "s"))))

def getStr (j : Json) (k : String) : Except String Str := do cpsToChars (← j.getObjVal? k)

def getStrOpt (j : Json) (k : String) : Except String (Option Str) :=
  match j.getObjVal? k with
  | .error _ => pure none
  | .ok .null => pure none
  | .ok v => do pure (some (← cpsToChars v))

/-- a JSON value; absent = `null` (Python `None`) -/
def getVal (j : Json) (k : String) : Except String J :=
  match j.getObjVal? k with
  | .error _ => pure .null
  | .ok v => toModel v

/-- an optional dict -/
def getObjOpt (j : Json) (k : String) : Except String (Option Obj) := do
  match ← getVal j k with
  | .null => pure none
  | .obj o => pure (some o)
  | _ => throw s!"member {k} must be an object or null"

def idJson : Option Id → Json
  | none => Json.null
  | some (.int i) => Json.mkObj [("i", Json.num (JsonNumber.fromInt i))]
  | some (.str s) => Json.mkObj [("s", charsToCps s)]

def optJ : Option J → Json
  | none => Json.null
  | some v => Json.mkObj [("v", ofModel v)]

def viewJson (v : View) : Json :=
  Json.mkObj [("id", idJson v.id),
    ("method", match v.method with | some m => charsToCps m | none => Json.null),
    ("params", optJ v.params), ("result", optJ v.result), ("error", optJ v.error)]

def kindStr : Kind → String
  | .request => "request" | .notification => "notification" | .response => "response"
  | .error => "error" | .other => "other"

def perrStr : PErr → String
  | .notObject => "notObject" | .badVersion => "badVersion" | .badStructure => "badStructure"
  | .validation => "validation"

def parseJson (j : J) : Json :=
  match parseMsg j with
  | .ok v => Json.mkObj [("ok", viewJson v), ("kind", Json.str (kindStr (kindOfView v)))]
  | .error e => Json.mkObj [("err", Json.str (perrStr e))]

def build (j : Json) : Except String (Except CErr Msg) := do
  let ctor ← j.getObjValAs? String "ctor"
  match ctor with
  | "create_request" =>
    return createRequest (← getStr j "method") (← getObjOpt j "params") (← getIdOpt j "id") (← getStr j "fresh") (← getIdOpt j "tok")
  | "create_notification" => return .ok (createNotification (← getStr j "method") (← getObjOpt j "params"))
  | "create_response" => return createResponse (← getIdOpt j "id") (← getVal j "result")
  | "create_error_response" =>
    return createErrorResponse (← getIdOpt j "id") (← j.getObjValAs? Int "code") (← getStr j "message") (← getVal j "data")
  | "legacy_create_request" =>
    return .ok (legacyCreateRequest (← getStr j "method") (← getObjOpt j "params") (← getIdOpt j "id") (← getStr j "fresh"))
  | "legacy_create_notification" => return .ok (legacyCreateNotification (← getStr j "method") (← getObjOpt j "params"))
  | "legacy_create_response" =>
    match ← getIdOpt j "id" with
    | some id => return .ok (legacyCreateResponse id (← getObjOpt j "result"))
    | none => throw "legacy_create_response needs an id"
  | "legacy_create_error_response" =>
    match ← getIdOpt j "id" with
    | some id => return .ok (legacyCreateErrorResponse id (← j.getObjValAs? Int "code") (← getStr j "message") (← getVal j "data"))
    | none => throw "legacy_create_error_response needs an id"
  | "server_response" => return serverResponse (← getIdOpt j "id") (← getVal j "result")
  | "server_error_response" =>
    return serverErrorResponse (← getIdOpt j "id") (← j.getObjValAs? Int "code") (← getStr j "message")
  | "send_message_request" =>
    return sendMessageRequest (← getStr j "method") (← getObjOpt j "params") (← getIdOpt j "mid")
      (← getStr j "fresh_id") (← getStr j "fresh_tok") (← j.getObjValAs? Bool "progress")
  | "notification" => return .ok (sendNotification (← getStr j "method") (← getObjOpt j "params"))
  | "dict_error" =>
    return .ok (dictError (← getIdOpt j "id") (← j.getObjValAs? Int "code") (← getStr j "message") (← getVal j "data"))
  | "send_progress" =>
    match ← getIdOpt j "token" with
    | some t => return .ok (sendProgress (← getStr j "method") t (← getVal j "progress") (← getVal j "total") (← getVal j "message"))
    | none => throw "send_progress needs a token"
  | "send_cancelled" =>
    match ← getIdOpt j "request_id" with
    | some t => return .ok (sendCancelled (← getStr j "method") t (← getVal j "reason"))
    | none => throw "send_cancelled needs a request id"
  | "send_list_changed" => return .ok (sendListChanged (← getStr j "method"))
  | "roots_list_response" =>
    let arr ← (← j.getObjVal? "roots").getArr?
    let mut roots : Array (Str × J) := #[]
    for r in arr do
      let pr ← r.getArr?
      if pr.size != 2 then throw "bad root"
      roots := roots.push (← cpsToChars pr[0]!, ← toModel pr[1]!)
    return rootsListResponse (← getIdOpt j "id") roots.toList
  | "dict_empty_result" =>
    match ← getIdOpt j "id" with
    | some id => return .ok (dictEmptyResult id)
    | none => throw "dict_empty_result needs an id"
  | _ => throw s!"unknown constructor {ctor}"

/-- `{"m":"rpc","op":"emit","ctor":…,…}` → the emitted wire object, its validity, the member view
and kind of the message, and what `parseMsg` makes of the wire object;
`{"m":"rpc","op":"parse","v":V}` → validity and parse of an arbitrary object. -/
def handle (j : Json) : Except String Json := do
  let op ← j.getObjValAs? String "op"
  match op with
  | "emit" =>
    match ← build j with
    | .error .noId => return Json.mkObj [("ok", Json.bool false), ("err", Json.str "noId")]
    | .error .metaNotDict => return Json.mkObj [("ok", Json.bool false), ("err", Json.str "metaNotDict")]
    | .ok m =>
      let w := emit m
      return Json.mkObj [("ok", Json.bool true), ("emit", ofModel w), ("valid", Json.bool (valid w)),
        ("kind", Json.str (kindStr (kind m))), ("view", viewJson (view m)), ("parse", parseJson w)]
  | "parse" =>
    let v ← toModel (← j.getObjVal? "v")
    return Json.mkObj [("valid", Json.bool (valid v)), ("parse", parseJson v)]
  | "methods" =>
    let pairs (xs : List (String × String)) := Json.arr (xs.map fun (a, b) => Json.arr #[Json.str a, Json.str b]).toArray
    return Json.mkObj [("translatable", Json.bool Verif.Gen.Methods.translatable), ("methods", pairs Verif.Gen.Methods.methods),
      ("senders", pairs Verif.Gen.Methods.senders), ("handlers", pairs Verif.Gen.Methods.handlers),
      ("defaults", Json.arr (Verif.Gen.Methods.defaults.map Json.str).toArray),
      ("completionLimit", toJson Verif.Gen.Methods.completionLimit),
      ("protocolErrorDefault", toJson Verif.Gen.Methods.protocolErrorDefault),
      ("validationErrorDefault", toJson Verif.Gen.Methods.validationErrorDefault),
      ("versionMismatchCode", toJson Verif.Gen.Methods.versionMismatchCode)]
  | "handle" =>
    let fn ← j.getObjValAs? String "fn"
    let m ← getStr j "method"
    let n ← match ← toModel (← j.getObjVal? "n") with
      | .obj o => pure o
      | _ => throw "notification must be an object"
    let r ← match fn with
      | "progress" => pure (handleProgress m n)
      | "cancelled" => pure (handleCancelled m n)
      | "logging" => pure (handleLogging m n)
      | "list_changed" => pure (handleListChanged m n)
      | "resources_updated" => pure (handleResourcesUpdated m n)
      | _ => throw s!"unknown handler {fn}"
    match r with
    | .ok none => return Json.mkObj [("ok", Json.null)]
    | .ok (some args) => return Json.mkObj [("ok", Json.arr (args.map ofModel).toArray)]
    | .error _ => return Json.mkObj [("err", Json.str "raises")]
  | "nh" =>
    -- regs: [[method cps, tag]] registered in order; defaults: register_defaults first (tag 0)
    let regs ← (← j.getObjVal? "regs").getArr?
    let mut hs : List (Str × Int) := []
    if (j.getObjValAs? Bool "defaults").toOption == some true then
      hs := nhRegisterAll hs (Verif.Gen.Methods.defaults.map String.toList) 0
    for r in regs do
      let pr ← r.getArr?
      if pr.size != 2 then throw "bad registration"
      hs := nhRegister hs (← cpsToChars pr[0]!) (← pr[1]!.getInt?)
    let n ← match ← toModel (← j.getObjVal? "n") with
      | .obj o => pure o
      | _ => throw "notification must be an object"
    match nhHandle hs n with
    | .ok none => return Json.mkObj [("ok", Json.null)]
    | .ok (some t) => return Json.mkObj [("ok", toJson t)]
    | .error _ => return Json.mkObj [("err", Json.str "raises")]
  | "predicates" =>
    let v ← toModel (← j.getObjVal? "v")
    match parseMsg v with
    | .ok w => return Json.mkObj [("is_request", Json.bool (isRequest w)), ("is_notification", Json.bool (isNotification w)),
        ("is_response", Json.bool (isResponse w)), ("is_error_response", Json.bool (isErrorResponse w))]
    | .error e => return Json.mkObj [("err", Json.str (perrStr e))]
  | "vm_from" =>
    match ← toModel (← j.getObjVal? "error") with
    | .obj e =>
      match versionMismatchFrom e with
      | .ok (r, s) => return Json.mkObj [("requested", ofModel r), ("supported", ofModel s)]
      | .error _ => return Json.mkObj [("err", Json.str "raises")]
    | _ => throw "error must be an object"
  | "sampling" =>
    let approval : Option Bool := match j.getObjVal? "approval" with
      | .ok (.bool b) => some b
      | _ => none
    let selected : Option J ← match j.getObjVal? "selected" with
      | .ok v => (some <$> toModel v)
      | .error _ => pure none
    let prefs ← getVal j "prefs"
    let provider : Option (J × J × J) ← match j.getObjVal? "provider" with
      | .ok (.arr a) => if a.size == 3 then do pure (some (← toModel a[0]!, ← toModel a[1]!, ← toModel a[2]!)) else throw "bad provider"
      | _ => pure none
    match samplingResult approval selected prefs provider with
    | .ok r => return Json.mkObj [("ok", ofModel (.obj r))]
    | .error .rejected => return Json.mkObj [("err", Json.str "rejected")]
    | .error .noProvider => return Json.mkObj [("err", Json.str "noProvider")]
  | "roots_manager" =>
    let steps ← (← j.getObjVal? "steps").getArr?
    let mut st : List (Str × J) × Nat := ([], 0)
    let mut resp : Array Json := #[]
    for stp in steps do
      let a ← stp.getArr?
      let k ← a[0]!.getStr?
      match k with
      | "add" => st := rmStep st (.add (← cpsToChars a[1]!) (← toModel a[2]!))
      | "remove" => st := rmStep st (.remove (← cpsToChars a[1]!))
      | "clear" => st := rmStep st .clear
      | "list" =>
        let id ← getIdOpt (Json.mkObj [("id", a[1]!)]) "id"
        match rootsListResponse id st.1 with
        | .ok m => resp := resp.push (ofModel (emit m))
        | .error _ => resp := resp.push Json.null
      | _ => throw s!"unknown step {k}"
    return Json.mkObj [("responses", Json.arr resp), ("notifications", toJson st.2)]
  | "to_specific" =>
    let v ← toModel (← j.getObjVal? "v")
    match parseMsg v with
    | .ok w => return Json.mkObj [("kind", match toSpecificKind w with | some k => Json.str (kindStr k) | none => Json.null)]
    | .error e => return Json.mkObj [("err", Json.str (perrStr e))]
  | "parse_batch" =>
    let items ← (← j.getObjVal? "items").getArr?
    let mut xs : Array J := #[]
    for it in items do
      xs := xs.push (← toModel it)
    return Json.mkObj [("out", Json.str (match parseBatch xs.toList with
      | .ok n => s!"ok:{n}" | .itemError => "itemError" | .mixed => "mixed"))]
  | "enum" =>
    let allowed ← (← j.getObjVal? "allowed").getArr?
    let mut al : Array Str := #[]
    for x in allowed do
      al := al.push (← cpsToChars x)
    let r := completeEnum (← j.getObjValAs? Bool "case_sensitive") (← getStr j "current") al.toList
    return Json.mkObj [("values", Json.arr (r.map charsToCps).toArray)]
  | "completion" =>
    let n ← j.getObjValAs? Nat "count"
    let (vs, total, more) := completionResult Verif.Gen.Methods.completionLimit (List.range n)
    let pairsOf (k : String) : Except String (List (Str × Int)) := do
      let arr ← (← j.getObjVal? k).getArr?
      let mut out : Array (Str × Int) := #[]
      for r in arr do
        let pr ← r.getArr?
        if pr.size != 2 then throw "bad handler entry"
        out := out.push (← cpsToChars pr[0]!, ← pr[1]!.getInt?)
      pure out.toList
    let found := completionLookup (← pairsOf "resources") (← pairsOf "prompts") (← getVal j "ref_type") (← getVal j "uri") (← getVal j "name")
    return Json.mkObj [("kept", toJson vs.length), ("total", match total with | some t => toJson t | none => Json.null),
      ("hasMore", Json.bool more), ("handler", match found with | some t => toJson t | none => Json.null)]
  | _ => throw s!"unknown op {op}"

end Verif.Drv.Rpc
