import Lean.Data.Json
import Verif.Model.Rpc
import Verif.Drv.Json
open Lean
-- DRIVER: rpc
namespace Verif.Drv.Rpc
open Verif.Model.Rpc
open Verif.Drv.Json (J toModel ofModel cpsToChars charsToCps)

/-! ids travel as `{"i":int}` / `{"s":[cp…]}` / `null`; strings as code-point arrays; payloads in
the transport form of `Verif.Drv.Json`. -/

def getIdOpt (j : Json) (k : String) : Except String (Option Id) :=
  match j.getObjVal? k with
  | .error _ => pure none
  | .ok .null => pure none
  | .ok v =>
    match v.getObjVal? "i" with
    | .ok x => do pure (some (.int (← x.getInt?)))
    | .error _ => do pure (some (.str (← cpsToChars (← v.getObjVal? "s"))))

def getStr (j : Json) (k : String) : Except String Str := do cpsToChars (← j.getObjVal? k)

def getStrOpt (j : Json) (k : String) : Except String (Option Str) :=
  match j.getObjVal? k with
  | .error _ => pure none
  | .ok .null => pure none
  | .ok v => do pure (some (← cpsToChars v))

/-- a JSON value; absent = `null` (Python `None`) -/
def getVal (j : Json) (k : String) : Except String J :=
  match j.getObjVal? k with
  | .error _ => pure .null
  | .ok v => toModel v

/-- an optional dict -/
def getObjOpt (j : Json) (k : String) : Except String (Option Obj) := do
  match ← getVal j k with
  | .null => pure none
  | .obj o => pure (some o)
  | _ => throw s!"member {k} must be an object or null"

def idJson : Option Id → Json
  | none => Json.null
  | some (.int i) => Json.mkObj [("i", Json.num (JsonNumber.fromInt i))]
  | some (.str s) => Json.mkObj [("s", charsToCps s)]

def optJ : Option J → Json
  | none => Json.null
  | some v => Json.mkObj [("v", ofModel v)]

def viewJson (v : View) : Json :=
  Json.mkObj [("id", idJson v.id),
    ("method", match v.method with | some m => charsToCps m | none => Json.null),
    ("params", optJ v.params), ("result", optJ v.result), ("error", optJ v.error)]

def kindStr : Kind → String
  | .request => "request" | .notification => "notification" | .response => "response"
  | .error => "error" | .other => "other"

def perrStr : PErr → String
  | .notObject => "notObject" | .badVersion => "badVersion" | .badStructure => "badStructure"
  | .validation => "validation"

def parseJson (j : J) : Json :=
  match parseMsg j with
  | .ok v => Json.mkObj [("ok", viewJson v), ("kind", Json.str (kindStr (kindOfView v)))]
  | .error e => Json.mkObj [("err", Json.str (perrStr e))]

def build (j : Json) : Except String (Except CErr Msg) := do
  let ctor ← j.getObjValAs? String "ctor"
  match ctor with
  | "create_request" =>
    return createRequest (← getStr j "method") (← getObjOpt j "params") (← getIdOpt j "id") (← getStr j "fresh") (← getIdOpt j "tok")
  | "create_notification" => return .ok (createNotification (← getStr j "method") (← getObjOpt j "params"))
  | "create_response" => return createResponse (← getIdOpt j "id") (← getVal j "result")
  | "create_error_response" =>
    return createErrorResponse (← getIdOpt j "id") (← j.getObjValAs? Int "code") (← getStr j "message") (← getVal j "data")
  | "legacy_create_request" =>
    return .ok (legacyCreateRequest (← getStr j "method") (← getObjOpt j "params") (← getIdOpt j "id") (← getStr j "fresh"))
  | "legacy_create_notification" => return .ok (legacyCreateNotification (← getStr j "method") (← getObjOpt j "params"))
  | "legacy_create_response" =>
    match ← getIdOpt j "id" with
    | some id => return .ok (legacyCreateResponse id (← getObjOpt j "result"))
    | none => throw "legacy_create_response needs an id"
  | "legacy_create_error_response" =>
    match ← getIdOpt j "id" with
    | some id => return .ok (legacyCreateErrorResponse id (← j.getObjValAs? Int "code") (← getStr j "message") (← getVal j "data"))
    | none => throw "legacy_create_error_response needs an id"
  | "server_response" => return serverResponse (← getIdOpt j "id") (← getVal j "result")
  | "server_error_response" =>
    return serverErrorResponse (← getIdOpt j "id") (← j.getObjValAs? Int "code") (← getStr j "message")
  | "send_message_request" =>
    return sendMessageRequest (← getStr j "method") (← getObjOpt j "params") (← getStrOpt j "mid")
      (← getStr j "fresh_id") (← getStr j "fresh_tok") (← j.getObjValAs? Bool "progress")
  | "notification" => return .ok (sendNotification (← getStr j "method") (← getObjOpt j "params"))
  | "dict_error" =>
    return .ok (dictError (← getIdOpt j "id") (← j.getObjValAs? Int "code") (← getStr j "message") (← getVal j "data"))
  | "dict_empty_result" =>
    match ← getIdOpt j "id" with
    | some id => return .ok (dictEmptyResult id)
    | none => throw "dict_empty_result needs an id"
  | _ => throw s!"unknown constructor {ctor}"

/-- `{"m":"rpc","op":"emit","ctor":…,…}` → the emitted wire object, its validity, the member view
and kind of the message, and what `parseMsg` makes of the wire object;
`{"m":"rpc","op":"parse","v":V}` → validity and parse of an arbitrary object. -/
def handle (j : Json) : Except String Json := do
  let op ← j.getObjValAs? String "op"
  match op with
  | "emit" =>
    match ← build j with
    | .error .noId => return Json.mkObj [("ok", Json.bool false), ("err", Json.str "noId")]
    | .error .metaNotDict => return Json.mkObj [("ok", Json.bool false), ("err", Json.str "metaNotDict")]
    | .ok m =>
      let w := emit m
      return Json.mkObj [("ok", Json.bool true), ("emit", ofModel w), ("valid", Json.bool (valid w)),
        ("kind", Json.str (kindStr (kind m))), ("view", viewJson (view m)), ("parse", parseJson w)]
  | "parse" =>
    let v ← toModel (← j.getObjVal? "v")
    return Json.mkObj [("valid", Json.bool (valid v)), ("parse", parseJson v)]
  | _ => throw s!"unknown op {op}"

end Verif.Drv.Rpc
