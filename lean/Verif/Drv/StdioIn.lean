import Lean.Data.Json
import Verif.Model.StdioIn
import Verif.Model.StdioRoute
open Lean
namespace Verif.Drv.StdioIn
open Verif.Model.StdioIn Verif.Model.StdioRoute
-- DRIVER: stdio_reader

def hexVal (c : Char) : Option Nat :=
  if '0' ≤ c ∧ c ≤ '9' then some (c.toNat - 48)
  else if 'a' ≤ c ∧ c ≤ 'f' then some (c.toNat - 87)
  else if 'A' ≤ c ∧ c ≤ 'F' then some (c.toNat - 55)
  else none

def unhex : List Char → Except String (List Nat)
  | [] => pure []
  | [_] => throw "odd hex length"
  | a :: b :: r => do
    match hexVal a, hexVal b with
    | some x, some y => return (16 * x + y) :: (← unhex r)
    | _, _ => throw "bad hex digit"

/-- message = (index in the harness table, `str(id)` or none) -/
abbrev Msg := Nat × Option (List Char)

def getMsg (j : Json) : Except String Msg := do
  let notif ← j.getObjValAs? Bool "notif"
  let key : Option (List Char) := match j.getObjVal? "key" with
    | .ok (.str k) => some k.toList
    | _ => if notif then none else some []
  return (← j.getObjValAs? Nat "id", if notif then none else key)

def getParsed (j : Json) : Except String (Parsed Msg) := do
  let k ← j.getObjValAs? String "k"
  match k with
  | "single" => return .single (← getMsg j)
  | "batch" =>
    let items ← j.getObjValAs? (Array Json) "items"
    let ms ← items.toList.mapM (fun it => match it with
      | .null => pure none
      | x => some <$> getMsg x)
    return .batch ms
  | _ => return .junk

def getEv (j : Json) : Except String REv :=
  match j.getObjVal? "c" with
  | .ok (.str h) => do return .chunk (← unhex h.toList)
  | _ => match j.getObjVal? "reg" with
    | .ok (.str k) => pure (.register k.toList)
    | _ => match j.getObjVal? "v" with
      | .ok (.str s) => pure (.setVersion (some s.toList))
      | .ok .null => pure (.setVersion none)
      | _ => throw s!"bad event {j.compress}"

/-- `{"m":"stdio_reader","events":[{"c":"<hex bytes of one read>"} | {"v":<version|null>}],
     "table":[{"line":"<stripped line>","k":"single","id":n,"notif":b}
              | {"line":…,"k":"batch","items":[null | {"id":n,"notif":b}]}], "cap":n}`
   (lines absent from the table are junk; `{"reg":"<key>"}` events register a per-request stream; messages carry
   `"key":"<str(id)>"`)
   With `"sessions":[[events],…]` instead of `"events"`: consecutive connections on one object -> `{"sessions":[obs,…]}`.
   -> `{"delivered":[ids],"offered":[ids],"buffered":[ids],"rejections":n,"alive":b}` -/
def handle (j : Json) : Except String Json := do
  let tab ← (← j.getObjValAs? (Array Json) "table").toList.mapM (fun e => do
    let line ← e.getObjValAs? String "line"
    let p ← getParsed e
    pure (line, p))
  let cap := (j.getObjValAs? Nat "cap").toOption.getD 100
  let rc : RCfg Msg := {
    parse := fun cs =>
      let s := String.ofList (cs.map Char.ofNat)
      match tab.find? (fun e => e.1 == s) with
      | some e => e.2
      | none => .junk
    key := fun m => m.2 }
  let ids (l : List Msg) : Json := Json.arr (l.map (fun m => toJson m.1)).toArray
  let obs (rp : RSt × List (ROut Msg)) : Json :=
    let outs := rp.2.filterMap erase
    let reqs : List Json := rp.2.filterMap (fun o => match o with
      | .request k m => some (Json.arr #[Json.str (String.ofList k), toJson m.1])
      | _ => none)
    Json.mkObj [
      ("delivered", ids (delivered outs)),
      ("offered", ids (offered outs)),
      ("buffered", ids (notifBuffer cap outs)),
      ("rejections", toJson (rejections outs)),
      ("requests", Json.arr reqs.toArray),
      ("pending", Json.arr (rp.1.pend.map (fun k => Json.str (String.ofList k))).toArray),
      ("alive", Json.bool rp.1.st.alive)]
  -- the routing model (per-request streams included); its projection is the reader of `Model/StdioIn`
  match j.getObjValAs? (Array Json) "sessions" with
  | .ok ss =>
    -- consecutive connections on ONE client / transport object
    let sess ← ss.toList.mapM (fun s => do (← (fromJson? s : Except String (Array Json))).toList.mapM getEv)
    return Json.mkObj [("sessions", Json.arr ((runSessionsP rc ⟨init, []⟩ sess).map obs).toArray)]
  | .error _ =>
    let evs ← (← j.getObjValAs? (Array Json) "events").toList.mapM getEv
    return obs (runP rc ⟨init, []⟩ evs)
end Verif.Drv.StdioIn
