import Lean.Data.Json
import Verif.Model.StdioIn
open Lean
namespace Verif.Drv.StdioIn
open Verif.Model.StdioIn
-- DRIVER: stdio_reader

def hexVal (c : Char) : Option Nat :=
  if '0' ≤ c ∧ c ≤ '9' then some (c.toNat - 48)
  else if 'a' ≤ c ∧ c ≤ 'f' then some (c.toNat - 87)
  else if 'A' ≤ c ∧ c ≤ 'F' then some (c.toNat - 55)
  else none

def unhex : List Char → Except String (List Nat)
  | [] => pure []
  | [_] => throw "odd hex length"
  | a :: b :: r => do
    match hexVal a, hexVal b with
    | some x, some y => return (16 * x + y) :: (← unhex r)
    | _, _ => throw "bad hex digit"

abbrev Msg := Nat × Bool

def getMsg (j : Json) : Except String Msg := do
  return (← j.getObjValAs? Nat "id", ← j.getObjValAs? Bool "notif")

def getParsed (j : Json) : Except String (Parsed Msg) := do
  let k ← j.getObjValAs? String "k"
  match k with
  | "single" => return .single (← getMsg j)
  | "batch" =>
    let items ← j.getObjValAs? (Array Json) "items"
    let ms ← items.toList.mapM (fun it => match it with
      | .null => pure none
      | x => some <$> getMsg x)
    return .batch ms
  | _ => return .junk

def getEv (j : Json) : Except String Ev :=
  match j.getObjVal? "c" with
  | .ok (.str h) => do return .chunk (← unhex h.toList)
  | _ => match j.getObjVal? "v" with
    | .ok (.str s) => pure (.setVersion (some s.toList))
    | .ok .null => pure (.setVersion none)
    | _ => throw s!"bad event {j.compress}"

/-- `{"m":"stdio_reader","events":[{"c":"<hex bytes of one read>"} | {"v":<version|null>}],
     "table":[{"line":"<stripped line>","k":"single","id":n,"notif":b}
              | {"line":…,"k":"batch","items":[null | {"id":n,"notif":b}]}], "cap":n}`
   (lines absent from the table are junk)
   -> `{"delivered":[ids],"offered":[ids],"buffered":[ids],"rejections":n,"alive":b}` -/
def handle (j : Json) : Except String Json := do
  let evs ← (← j.getObjValAs? (Array Json) "events").toList.mapM getEv
  let tab ← (← j.getObjValAs? (Array Json) "table").toList.mapM (fun e => do
    let line ← e.getObjValAs? String "line"
    let p ← getParsed e
    pure (line, p))
  let cap := (j.getObjValAs? Nat "cap").toOption.getD 100
  let cfg : Cfg Msg := {
    parse := fun cs =>
      let s := String.ofList (cs.map Char.ofNat)
      match tab.find? (fun e => e.1 == s) with
      | some e => e.2
      | none => .junk
    isNotif := fun m => m.2 }
  let r := run cfg init evs
  let ids (l : List Msg) : Json := Json.arr (l.map (fun m => toJson m.1)).toArray
  return Json.mkObj [
    ("delivered", ids (delivered r.2)),
    ("offered", ids (offered r.2)),
    ("buffered", ids (notifBuffer cap r.2)),
    ("rejections", toJson (rejections r.2)),
    ("alive", Json.bool r.1.alive)]
end Verif.Drv.StdioIn
