import Lean.Data.Json
import Verif.Model.Carrier
import Verif.Model.Label
import Verif.Drv.Json
import Verif.Drv.Http
import Verif.Drv.StdioIn
open Lean
-- DRIVER: carrier
/-! Driver glue for C15: one conversation through the four model pipelines of
`Verif.Model.Carrier`, with the concrete encoder (`Json.enc st ∘ Rpc.emit`, i.e. `rpcWire st`)
and the concrete decoders (`realStdio`, `realHttp`, `realSse`) — exactly the instances of
`c15_real_transcript`.  Reuses the value transport of `Drv.Json` and the SSE field-choice
readers of `Drv.Http`.

```
{"m":"carrier","style":{"sp":b,"ascii":b},
 "conv":[{"notifs":[M…],"reply":M}…],
   M = {"k":"notif","method":[cp…],"params":T|null} | {"k":"resp","id":I,"result":T} | {"k":"err","id":I,"error":T}
     | {"k":"text","t":[cp…]}        the very text the scripted server wrote (any JSON style)
   I = {"s":[cp…]} | {"i":n}          T = transport form of Drv.Json
 "stdio":{"crlf":[b…],"cuts":[n…]},
 "json":[{"id":I|null,"status":n,"sess":str|null,"batch":b}…] | null,
 "httpsse":[{"post":{…},"evs":[{"name":"absent"|"message"|"response","nc":C,"dc":C,"after":[ignored…],"before":[E…]}…],
             "eols":[b…],"tail":"full"|"noblank"|"noeol","trailing":[E…]}…],      E = an event of Drv.Http (`eventOf`)
 "sse":{"pre":[{"k":"endpoint"|"keepalive"|"comment","d":str,"crlf":b}…],"crlf":[b…],"cuts":[n…],"acks":[n…]} | null}
 optional, instead of the model's own rendering: "stdio_raw":{"hex":"…","cuts":[n…]},
 "json_raw" / "httpsse_raw": [{"id":I|null,"status":n,"sess":…,"text":[cp…]}…]   (the very bytes / bodies the server wrote)
 optional: "json_labels" / "httpsse_labels": [{"ct":[cp…]|null,"bom":b}…]   the declared metadata of each reply
   (`Model.Label`: Content-Type value as written, a BOM in front of the bytes); the replies are `relabelAll`ed
-> {"stdio":[V…],"json":[V…]|null,"httpsse":[V…],"sse":[V…]|null,"bodies_ok":b,"labels_ok":b}
   V = {"made":true} | {"id":I|null,"method":[cp…]|null,"params":T|null,"result":T|null,"error":T|null}
```
-/
namespace Verif.Drv.Carrier
open Verif.Model Verif.Model.Carrier

abbrev J := Verif.Model.Json.Json

def optField (j : Json) (k : String) : Option Json :=
  match j.getObjVal? k with
  | .ok .null => none
  | .ok v => some v
  | .error _ => none

def getId (j : Json) : Except String Rpc.Id :=
  match j.getObjVal? "s" with
  | .ok x => do pure (.str (← Verif.Drv.Json.cpsToChars x))
  | .error _ => do pure (.int (← j.getObjValAs? Int "i"))

def getObj (what : String) (v : J) : Except String Rpc.Obj :=
  match v with
  | .obj kvs => pure kvs
  | _ => throw s!"{what}: not an object"

def getRpc (j : Json) (k : String) : Except String Rpc.Msg := do
  match k with
  | "notif" =>
    let m ← Verif.Drv.Json.cpsToChars (← j.getObjVal? "method")
    let p ← match optField j "params" with
      | none => pure none
      | some t => do pure (some (← getObj "params" (← Verif.Drv.Json.toModel t)))
    return .notification m p
  | "resp" => return .response (← getId (← j.getObjVal? "id")) (← Verif.Drv.Json.toModel (← j.getObjVal? "result"))
  | "err" =>
    return .error (some (← getId (← j.getObjVal? "id"))) (← getObj "error" (← Verif.Drv.Json.toModel (← j.getObjVal? "error")))
  | _ => throw s!"unknown message kind {k}"

/-- a message of the conversation: built with the library's constructors and encoded by the
model's encoder (`rpcWire`), or given as the text the scripted server really wrote -/
abbrev Src := Rpc.Msg ⊕ Str

def textView (t : Str) : Rpc.View :=
  match Json.dec t with
  | some j => (parsedOpt (Rpc.parseMsg j)).getD emptyView
  | none => emptyView

def srcWire (st : Json.Style) : Wire Src Rpc.View where
  enc
    | .inl m => (rpcWire st).enc m
    | .inr t => t
  obs
    | .inl m => Rpc.view m
    | .inr t => textView t
  kind
    | .inl m => (rpcWire st).kind m
    | .inr t => httpKind (textView t)
  id
    | .inl m => (rpcWire st).id m
    | .inr t => (textView t).id.map httpId
  key
    | .inl m => (rpcWire st).key m
    | .inr t => (realSse t).bind (·.key)

def getMsg (j : Json) : Except String Src := do
  let k ← j.getObjValAs? String "k"
  if k == "text" then
    return .inr (← Verif.Drv.Json.cpsToChars (← j.getObjVal? "t"))
  .inl <$> getRpc j k

def getExchange (j : Json) : Except String (Exchange Src) := do
  let ns ← (← j.getObjValAs? (Array Json) "notifs").toList.mapM getMsg
  return { notifs := ns, reply := ← getMsg (← j.getObjVal? "reply") }

def idJson : Rpc.Id → Json
  | .int i => Json.mkObj [("i", toJson i)]
  | .str s => Json.mkObj [("s", Verif.Drv.Json.charsToCps s)]

def optJ : Option J → Json
  | some v => Verif.Drv.Json.ofModel v
  | none => Json.null

def viewJson (v : Rpc.View) : Json :=
  Json.mkObj [
    ("id", match v.id with | some i => idJson i | none => Json.null),
    ("method", match v.method with | some m => Verif.Drv.Json.charsToCps m | none => Json.null),
    ("params", optJ v.params), ("result", optJ v.result), ("error", optJ v.error)]

def seenJson : Seen Rpc.View → Json
  | .msg v => viewJson v
  | .made => Json.mkObj [("made", Json.bool true)]

def transcript (l : List (Seen Rpc.View)) : Json := Json.arr (l.map seenJson).toArray

def getPost (j : Json) : Except String PostChoice := do
  let id ← match optField j "id" with
    | none => pure none
    | some i => do
      match (← getId i) with
      | .int n => pure (some (HttpDecide.Id.int n))
      | .str s => pure (some (HttpDecide.Id.str (String.ofList s)))
  return { id := id, status := ← j.getObjValAs? Nat "status", session := Verif.Drv.Http.optStr j "sess",
           batch := (j.getObjValAs? Bool "batch").toOption.getD false }

def getEvChoice (j : Json) : Except String EvChoice := do
  let name ← match (← j.getObjValAs? String "name") with
    | "absent" => pure EvName.absent
    | "message" => pure EvName.message
    | "response" => pure EvName.response
    | x => throw s!"bad event name {x}"
  let after ← match j.getObjValAs? (Array Json) "after" with
    | .ok a => a.toList.mapM Verif.Drv.Http.ignoredOf
    | .error _ => pure []
  let before ← match j.getObjValAs? (Array Json) "before" with
    | .ok a => a.toList.mapM Verif.Drv.Http.eventOf
    | .error _ => pure []
  return { name := name, nameChoice := ← Verif.Drv.Http.choiceOf (← j.getObjVal? "nc"),
           dataChoice := ← Verif.Drv.Http.choiceOf (← j.getObjVal? "dc"), after := after, before := before }

def getBody (j : Json) : Except String SseBodyChoice := do
  let tail ← match (← j.getObjValAs? String "tail") with
    | "full" => pure Sse.Tail.full
    | "noblank" => pure Sse.Tail.noBlank
    | "noeol" => pure Sse.Tail.noEol
    | x => throw s!"bad tail {x}"
  return { post := ← getPost (← j.getObjVal? "post"),
           evs := ← (← j.getObjValAs? (Array Json) "evs").toList.mapM getEvChoice,
           eols := (← j.getObjValAs? (Array Bool) "eols").toList, tail := tail,
           trailing := ← (match j.getObjValAs? (Array Json) "trailing" with
             | .ok a => a.toList.mapM Verif.Drv.Http.eventOf
             | .error _ => pure []) }

def getPre (j : Json) : Except String (SseReq.Ev × Bool) := do
  let d := (← j.getObjValAs? String "d").toList
  let crlf := (j.getObjValAs? Bool "crlf").toOption.getD false
  match (← j.getObjValAs? String "k") with
  | "endpoint" => return (.endpoint d, crlf)
  | "keepalive" => return (.keepalive d, crlf)
  | "comment" => return (.comment d, crlf)
  | x => throw s!"bad pre event {x}"

/-- `[{"id":I|null,"status":n,"text":[cp…]}…]`: the POSTs of a conversation with the very bodies the
scripted server answered (batch arrays, any event-stream text) -/
def getRawPosts (ct : HttpDecide.CType) (j : Json) : Except String (List (HttpDecide.Req × HttpDecide.Behaviour)) := do
  (← j.getArr?).toList.mapM (fun p => do
    let c ← getPost p
    let text ← Verif.Drv.Json.cpsToChars (← p.getObjVal? "text")
    pure ((⟨c.id⟩ : HttpDecide.Req), HttpDecide.Behaviour.resp
      { status := c.status, ctype := ct, session := c.session, body := { text := text, utf8 := true } }))

/-- `[{"ct":[cp…]|null,"bom":b}…]` (absent: no labels, the replies as `HttpDecide` has them) -/
def getLabels (j : Json) (k : String) : Except String (List Label.Label) :=
  match optField j k with
  | none => pure []
  | some a => do
    (← a.getArr?).toList.mapM (fun l => do
      let ct ← match optField l "ct" with
        | none => pure none
        | some c => do pure (some (← Verif.Drv.Json.cpsToChars c))
      pure ({ header := ct, bomFirst := (l.getObjValAs? Bool "bom").toOption.getD false } : Label.Label))

def handle (j : Json) : Except String Json := do
  let stj ← j.getObjVal? "style"
  let st : Json.Style := ⟨← stj.getObjValAs? Bool "sp", ← stj.getObjValAs? Bool "ascii"⟩
  let W := srcWire st
  let conv ← (← j.getObjValAs? (Array Json) "conv").toList.mapM getExchange
  -- stdio: the model's own rendering of the conversation, or (`stdio_raw`) the very bytes the child wrote
  -- (batch lines, blank lines, messages after a reply)
  let stdio ← match optField j "stdio_raw" with
    | some rj => do
      let bytes ← Verif.Drv.StdioIn.unhex (← rj.getObjValAs? String "hex").toList
      pure (stdioObserve realStdio (cutAt bytes (← rj.getObjValAs? (Array Nat) "cuts").toList 0))
    | none => do
      let sj ← j.getObjVal? "stdio"
      let crlf := (← sj.getObjValAs? (Array Bool) "crlf").toList
      let cuts := (← sj.getObjValAs? (Array Nat) "cuts").toList
      pure (stdioObserve realStdio (cutAt (stdioBytes W conv crlf) cuts 0))
  -- HTTP + JSON
  let jl ← getLabels j "json_labels"
  let (json, jsonOk) ← match optField j "json_raw" with
    | some rj => do
      let posts ← getRawPosts .json rj
      pure (transcript (httpObserve realHttp none (Label.relabelAll jl posts)), Label.agreeAll jl posts)
    | none =>
      match optField j "json" with
      | none => pure (Json.null, true)
      | some cj => do
        let choices ← (← cj.getArr?).toList.mapM getPost
        let posts := zipD PostChoice.dflt (jsonPost W) conv choices
        pure (transcript (httpObserve realHttp none (Label.relabelAll jl posts)), Label.agreeAll jl posts)
  -- HTTP + SSE
  let hl ← getLabels j "httpsse_labels"
  let (httpsse, bodiesOk, sseOk) ← match optField j "httpsse_raw" with
    | some rj => do
      let posts ← getRawPosts .sse rj
      pure (httpObserve realHttp none (Label.relabelAll hl posts), true, Label.agreeAll hl posts)
    | none => do
      let bodies ← (← j.getObjValAs? (Array Json) "httpsse").toList.mapM getBody
      let posts := zipD SseBodyChoice.dflt (sseBodyPost W) conv bodies
      pure (httpObserve realHttp none (Label.relabelAll hl posts), bodies.all SseBodyChoice.ok, Label.agreeAll hl posts)
  -- legacy SSE
  let sse ← match optField j "sse" with
    | none => pure Json.null
    | some ej => do
      let pre ← (← ej.getObjValAs? (Array Json) "pre").toList.mapM getPre
      let ecrlf := (← ej.getObjValAs? (Array Bool) "crlf").toList
      let ecuts := (← ej.getObjValAs? (Array Nat) "cuts").toList
      let acks := (← ej.getObjValAs? (Array Nat) "acks").toList
      pure (transcript (sseObserve realSse (sseShape W conv acks) (cutAt (sseText W pre conv ecrlf) ecuts 0)))
  return Json.mkObj [("stdio", transcript stdio), ("json", json), ("httpsse", transcript httpsse), ("sse", sse),
    ("bodies_ok", Json.bool bodiesOk), ("labels_ok", Json.bool (jsonOk && sseOk))]

end Verif.Drv.Carrier
