import Lean.Data.Json
import Verif.Model.Json
open Lean
-- DRIVER: json
namespace Verif.Drv.Json

abbrev J := Verif.Model.Json.Json
open Verif.Model.Json (encOrjson encStd dec fits64 wf)

/-! Transport form of a model value (strings travel as code-point arrays so that nothing
depends on how either side's JSON library escapes text):
`null` | `true`/`false` | `{"i":int}` | `{"f":"token"}` | `{"s":[cp…]}` | `{"a":[v…]}` |
`{"o":[[[cp…],v]…]}` -/

def cpsToChars (j : Json) : Except String (List Char) := do
  let a ← j.getArr?
  let mut out : Array Char := #[]
  for x in a do
    let n ← x.getNat?
    out := out.push (Char.ofNat n)
  return out.toList

def charsToCps (l : List Char) : Json := Json.arr (l.map (fun c => toJson c.toNat)).toArray

partial def toModel (j : Json) : Except String J :=
  match j with
  | .null => pure .null
  | .bool b => pure (.bool b)
  | _ =>
    match j.getObjVal? "i" with
    | .ok x => do pure (.int (← x.getInt?))
    | .error _ =>
    match j.getObjVal? "f" with
    | .ok x => do pure (.flt (← x.getStr?).toList)
    | .error _ =>
    match j.getObjVal? "s" with
    | .ok x => do pure (.str (← cpsToChars x))
    | .error _ =>
    match j.getObjVal? "a" with
    | .ok x => do
      let a ← x.getArr?
      let mut out : Array J := #[]
      for e in a do
        out := out.push (← toModel e)
      pure (.arr out.toList)
    | .error _ =>
    match j.getObjVal? "o" with
    | .ok x => do
      let a ← x.getArr?
      let mut out : Array (List Char × J) := #[]
      for e in a do
        let kv ← e.getArr?
        if kv.size != 2 then throw "bad member"
        out := out.push (← cpsToChars kv[0]!, ← toModel kv[1]!)
      pure (.obj out.toList)
    | .error _ => throw s!"bad value {j.compress}"

partial def ofModel : J → Json
  | .null => .null
  | .bool b => .bool b
  | .int i => Json.mkObj [("i", Json.num (JsonNumber.fromInt i))]
  | .flt t => Json.mkObj [("f", Json.str (String.ofList t))]
  | .str s => Json.mkObj [("s", charsToCps s)]
  | .arr xs => Json.mkObj [("a", Json.arr (xs.map ofModel).toArray)]
  | .obj kvs => Json.mkObj [("o", Json.arr (kvs.map (fun (k, v) => Json.arr #[charsToCps k, ofModel v])).toArray)]

def optModel : Option J → Json
  | some v => Json.mkObj [("v", ofModel v)]
  | none => Json.null

def styleName (st : Verif.Model.Json.Style) : String :=
  (if st.sp then "spaced" else "compact") ++ "/" ++ (if st.ascii then "ascii" else "utf8")

def allStyles : List Verif.Model.Json.Style := [⟨false, false⟩, ⟨true, true⟩, ⟨false, true⟩, ⟨true, false⟩]

/-- which (style, float-token set) instances of the model's encoder produce exactly this text -/
def matching (vo vs : J) (text : List Char) : Json :=
  let ms := allStyles.flatMap fun st =>
    (if Verif.Model.Json.enc st vo == text then [styleName st ++ "/tok-o"] else []) ++
    (if Verif.Model.Json.enc st vs == text then [styleName st ++ "/tok-s"] else [])
  Json.arr (ms.map Json.str).toArray

/-- `{"m":"json","op":"c17","vo":V,"vs":V,"to":[cp…]|null,"ts":[cp…]|null}`: the same value
carrying the float tokens of the orjson / stdlib configuration, and the texts the real
`fast_json.dumps` wrote under the two configurations → which instances of the model's encoder
(style × token set) wrote exactly that text, what the pinned configuration's `dumps` writes,
and what `dec` makes of each real text.
`{"m":"json","op":"dec","t":[cp…]}` → `{"r":{"v":V}}` or `{"r":null}`. -/
def handle (j : Json) : Except String Json := do
  let op ← j.getObjValAs? String "op"
  match op with
  | "c17" =>
    let vo ← toModel (← j.getObjVal? "vo")
    let vs ← toModel (← j.getObjVal? "vs")
    let side (k : String) : Except String (List (String × Json)) := do
      match j.getObjVal? k with
      | .ok .null => pure [("match_" ++ k, Json.null), ("dec_" ++ k, Json.null)]
      | .ok t =>
        let text ← cpsToChars t
        pure [("match_" ++ k, matching vo vs text), ("dec_" ++ k, optModel (dec text))]
      | .error e => throw e
    -- fast_json.dumps at the verified commit: orjson's text, or (integers outside 64 bits) the
    -- stdlib fall-back text, whose float tokens are the stdlib's
    let pinO := if fits64 vo then encOrjson vo else encStd vs
    return Json.mkObj ([
      ("wf", Json.bool (wf vo && wf vs)), ("fits", Json.bool (fits64 vo)),
      ("pinned_to", charsToCps pinO), ("pinned_ts", charsToCps (encStd vs))]
      ++ (← side "to") ++ (← side "ts"))
  | "dec" =>
    let t ← cpsToChars (← j.getObjVal? "t")
    return Json.mkObj [("r", optModel (dec t))]
  | _ => throw s!"unknown op {op}"

end Verif.Drv.Json
