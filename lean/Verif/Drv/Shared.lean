import Lean.Data.Json
import Verif.Model.Shared
import Verif.Drv.Await
import Verif.Gen.Errors
open Lean
-- DRIVER: shared
namespace Verif.Drv.Shared
open Verif.Model.Await Verif.Model.Shared

def stJson (c : CState Json) : Json :=
  let base := match c.st with
    | .waiting _ _ => [("outcome", Json.str "pending")]
    | .done o t =>
      (match o with
        | .returned p => [("outcome", Json.str "returned"), ("p", p)]
        | .raised r code _ => [("outcome", Json.str "raised"), ("retryable", Json.bool r), ("code", toJson code)]
        | .timedOut => [("outcome", Json.str "timeout")]
        | .cancelled => [("outcome", Json.str "cancelled")]) ++ [("t", toJson t)]
  Json.mkObj (base ++ [("got", toJson c.got)])

/-- {"m":"shared","P":n,"fuel":n,"callers":[{"id":..,"D":n,"start":n}],"ev":[[a,ev]]} -/
def handle (j : Json) : Except String Json := do
  let P ← j.getObjValAs? Nat "P"
  let fuel ← j.getObjValAs? Nat "fuel"
  let cs ← j.getObjValAs? (Array Json) "callers"
  let callers ← cs.toList.mapM (fun c => do
    let id ← Verif.Drv.Await.getId (← c.getObjVal? "id")
    let D ← c.getObjValAs? Nat "D"
    let start ← c.getObjValAs? Nat "start"
    pure (({ id := id, D := D } : Caller), start))
  let evs ← j.getObjValAs? (Array Json) "ev"
  let ev ← evs.toList.mapM (fun e => do
    let a ← (← e.getArrVal? 0).getNat?
    let m ← Verif.Drv.Await.getIn (← e.getArrVal? 1)
    pure (a, m))
  let final := sim Verif.Gen.Errors.isRetryableError P fuel (initState P callers) ev
  return Json.arr (final.map stJson).toArray
end Verif.Drv.Shared
