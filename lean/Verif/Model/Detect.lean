import Verif.Gen.UrlRules

/-! # Which carrier for which server: the pure decision logic next to C15

`transports/http/http_client.py`: `is_streamable_http_url`, `detect_transport_type`,
`try_http_with_sse_fallback`; `transports/sse/sse_client.py`: `is_sse_url`; the `url` validators of
`StreamableHTTPParameters` / `SSEParameters`.

The literal tables (indicator lists, accepted statuses and content types, how the probe URLs are
derived, result names, fallback rule) are REGENERATED from the source on every run
(`Verif/Gen/UrlRules.lean`, which also checks that the functions still have the shapes assumed
here); the control structure is hand-written and tied by the correspondence run (the real
functions against `httpx.MockTransport`).  What the network answers is a parameter: `post` = how
the POST probe ends, `get u` = how a GET probe of URL `u` ends.

`str.lower()` is modelled on ASCII (the URLs of the correspondence run are ASCII).
-/
namespace Verif.Model.Detect
open Verif.Gen.UrlRules

abbrev Str := List Char

/-! ## Python string primitives -/

def stripPrefix : Str → Str → Option Str
  | [], s => some s
  | _ :: _, [] => none
  | p :: ps, c :: cs => if p = c then stripPrefix ps cs else none

def startsWith (p s : Str) : Bool := (stripPrefix p s).isSome

/-- `pat in s` -/
def hasSub (pat : Str) : Str → Bool
  | [] => pat.isEmpty
  | c :: cs => startsWith pat (c :: cs) || hasSub pat cs

def lowerChar (c : Char) : Char := if 'A' ≤ c ∧ c ≤ 'Z' then Char.ofNat (c.toNat + 32) else c

/-- `s.lower()` (ASCII) -/
def lower (s : Str) : Str := s.map lowerChar

/-- `s.replace(a, b)`: leftmost, non-overlapping (`a` non-empty) -/
def replaceAll (a b s : Str) : Str :=
  if a = [] then s else go s.length s
where
  go : Nat → Str → Str
    | 0, s => s
    | _ + 1, [] => []
    | n + 1, c :: cs =>
      match stripPrefix a (c :: cs) with
      | some rest => b ++ go n rest
      | none => c :: go n cs

/-- `s.rstrip(chars)`: every trailing character that is IN THE SET `chars` goes -/
def rstripSet (chars s : Str) : Str := (s.reverse.dropWhile (fun c => chars.contains c)).reverse

/-! ## the URL heuristics -/

def anyIn (needles : List String) (s : Str) : Bool := needles.any (fun n => hasSub n.toList s)

/-- `is_streamable_http_url` -/
def isStreamableHttpUrl (url : Str) : Bool :=
  !url.isEmpty && anyIn httpIndicators (lower url) && !anyIn httpExcluded (lower url)

/-- `is_sse_url` -/
def isSseUrl (url : Str) : Bool := !url.isEmpty && anyIn sseIndicators (lower url)

/-- `validate_url` of a parameter class: non-empty and one of the prefixes -/
def validUrl (prefixes : List String) (u : Str) : Bool :=
  !u.isEmpty && prefixes.any (fun p => startsWith p.toList u)

/-! ## `detect_transport_type` -/

/-- how one probe request ends -/
inductive Probe where
  /-- the request raises (connection refused, timeout, …) -/
  | exc
  /-- a response: status code, value of the `Content-Type` header ("" when absent) -/
  | resp (status : Nat) (ctype : Str)
  deriving DecidableEq, Repr

/-- does a probe show the transport to be usable? -/
def works (statuses : List Nat) (types : List String) : Probe → Bool
  | .exc => false
  | .resp s ct => statuses.contains s && anyIn types ct

def applyOp (url : Str) : UrlOp → Str
  | .replace a b => replaceAll a.toList b.toList url
  | .rstripAppend chars suffix => rstripSet chars.toList url ++ suffix.toList
  | .append suffix => url ++ suffix.toList

/-- the URLs probed with GET, in order -/
def probeUrls (url : Str) : List Str := probeOps.map (applyOp url)

/-- the GET probes, in order, until the first one that works: (found?, GETs made) -/
def probeGets (get : Str → Probe) : List Str → Bool × Nat
  | [] => (false, 0)
  | u :: us =>
    if works getStatuses getTypes (get u) then (true, 1)
    else ((probeGets get us).1, (probeGets get us).2 + 1)

/-- `detect_transport_type`: the result, and how many GET probes were made after the POST probe -/
def detect (post : Probe) (get : Str → Probe) (url : Str) : String × Nat :=
  let a := works postStatuses postTypes post
  let r := probeGets get (probeUrls url)
  (if a && r.1 then resBoth else if a then resHttp else if r.1 then resSse else resUnknown, r.2)

/-- … with the outer guard: when the HTTP client cannot even be created nothing is probed and the
answer is `unknown` -/
def detectOr (clientOk : Bool) (post : Probe) (get : Str → Probe) (url : Str) : String × Nat × Bool :=
  if clientOk then ((detect post get url).1, (detect post get url).2, true) else (resUnknown, 0, false)

/-! ## `try_http_with_sse_fallback` -/

inductive Choice where
  /-- `http_client(StreamableHTTPParameters(url=…))` -/
  | http (url : Str)
  /-- `sse_client(SSEParameters(url=…))` -/
  | sse (url : Str)
  /-- both parameter constructions raise: the function raises -/
  | fail
  deriving DecidableEq, Repr

/-- the URL handed to the SSE fallback -/
def sseFallbackUrl (url : Str) : Str :=
  rstripSet fallbackRstrip.toList (replaceAll fallbackReplace.1.toList fallbackReplace.2.toList url)

def sseBranch (url : Str) : Choice :=
  if validUrl sseUrlPrefixes (sseFallbackUrl url) then .sse (rstripSet sseUrlRstrip.toList (sseFallbackUrl url)) else .fail

/-- `try_http_with_sse_fallback`: the client it returns, and whether the server was probed at all
(an invalid URL makes `StreamableHTTPParameters` raise before any request) -/
def fallback (post : Probe) (get : Str → Probe) (url : Str) : Choice × Bool :=
  if validUrl httpUrlPrefixes url then
    (if httpChosenFor.contains (detect post get url).1 then .http (rstripSet httpUrlRstrip.toList url) else sseBranch url, true)
  else (sseBranch url, false)

/-! ## `try_sse_with_fallback` (`transports/sse/sse_client.py`) -/

inductive TrySse where
  /-- `sse_client(SSEParameters(url=…))` -/
  | client (url : Str)
  /-- a new exception with migration guidance, raised from the original one -/
  | guidance
  /-- the original exception -/
  | reraise
  deriving DecidableEq, Repr

/-- `errText` = `str(e)` of the exception `SSEParameters(...)` raised (third-party wording: a parameter) -/
def trySse (url errText : Str) : TrySse :=
  if validUrl sseUrlPrefixes url then .client (rstripSet sseUrlRstrip.toList url)
  else if anyIn guidanceNeedles (lower errText) then .guidance else .reraise

end Verif.Model.Detect
