import Verif.Gen.Timing
import Verif.Gen.Shutdown

/-! # Model of leaving the stdio client context (C16)

`StdioClient.__aexit__` + `_terminate_process` (stdio_client.py) against an abstract child.
Times are milliseconds counted from the moment the exit begins.  The two grace periods are
the REGENERATED constants `Gen.Timing.graceTermMs`, `Gen.Timing.graceKillMs`.

What the exit does: close the outgoing queue, cancel and join the reader/writer tasks (prompt,
whatever the child does with its pipes: the tasks are blocked in cancellable pipe I/O — a
runtime fact decided by the correspondence run with children that never read / flood), then,
if the child's exit status is not known yet: SIGTERM, wait ≤ g₁; on timeout SIGKILL, wait ≤ g₂.

`shielded` is the design decision the property hinges on: whether that termination sequence
runs in a cancellation-shielded scope.  Without it, when the exit happens *because the enclosing
scope was cancelled* (outer cancellation, timeout around the context), the first checkpoint of
the exit re-raises the cancellation and nothing is signalled.

Facts about the operating system are explicit (`OS`): how long SIGKILL takes to end the process,
and that a `wait` which returns after the death has reaped it.

PARTIAL BY NATURE: descriptors, the process table and signal delivery are not in the model.
-/
namespace Verif.Model.Shutdown
open Verif.Gen.Timing

inductive ExitPath where
  | normal | exception | outerCancel | timeoutAround
  deriving DecidableEq, Repr

/-- the exit runs inside a scope that has been cancelled -/
def ExitPath.cancelled : ExitPath → Bool
  | .outerCancel => true
  | .timeoutAround => true
  | _ => false

inductive ChildState where
  | running | zombie | reaped
  deriving DecidableEq, Repr

/-- How the child behaves, as far as leaving the context is concerned. -/
structure ChildSpec where
  /-- it has already exited (and the event loop has collected its status) when the exit begins -/
  exited : Bool
  /-- reaction to SIGTERM: dies `d` ms later / `none`: ignores it -/
  termDelay : Option Nat
  /-- reaction to EOF on stdin (not consulted: the client does not close stdin before signalling) -/
  eofDelay : Option Nat := none
  /-- does it consume its stdin / keep writing to stdout / keep its pipe ends open
  (not consulted: task cancellation does not depend on pipe progress) -/
  reads : Bool := true
  floods : Bool := false
  stdoutOpen : Bool := true
  stdinOpen : Bool := true
  /-- it ends on its own `d` ms after the exit began (`none`: never, a real server) -/
  selfExit : Option Nat := none
  /-- somebody else (a grandchild that inherited it) keeps the write end of its stdout open after its death -/
  stdoutHeld : Bool := false
  deriving DecidableEq, Repr

/-- Operating-system facts (hypotheses of the theorems). -/
structure OS where
  /-- ms from SIGKILL to the death of the process -/
  killDelay : Nat
  /-- a `wait` that returns after the death has reaped the child -/
  waitReaps : Bool
  deriving DecidableEq, Repr

inductive Sig where
  | term | kill
  deriving DecidableEq, Repr

structure Trace where
  /-- signals sent, with their time -/
  signals : List (Nat × Sig)
  /-- when `__aexit__` returns -/
  duration : Nat
  /-- the child at that moment -/
  child : ChildState
  deriving DecidableEq, Repr

def afterWait (os : OS) : ChildState := if os.waitReaps then .reaped else .zombie

/-- second half of `_terminate_process`: the first wait timed out at g₁, SIGKILL is sent, then
`with fail_after(g₂): await process.wait()`; the child dies at the absolute time `death`. -/
def killPhase (os : OS) (death : Nat) : Trace :=
  if death < graceTermMs + graceKillMs then
    { signals := [(0, .term), (graceTermMs, .kill)], duration := max graceTermMs death, child := afterWait os }
  else
    { signals := [(0, .term), (graceTermMs, .kill)], duration := graceTermMs + graceKillMs, child := .running }

/-- `_terminate_process`: SIGTERM at 0, `with fail_after(g₁): await process.wait()`; on timeout
SIGKILL and a second bounded wait.  After the SIGKILL the child dies when the kill takes effect,
or earlier if its (late) reaction to SIGTERM comes first. -/
def terminateProcess (os : OS) (c : ChildSpec) : Trace :=
  match c.termDelay with
  | some d =>
    if d < graceTermMs then { signals := [(0, .term)], duration := d, child := afterWait os }
    else killPhase os (min d (graceTermMs + os.killDelay))
  | none => killPhase os (graceTermMs + os.killDelay)

/-- Leaving the context by path `p`. -/
def exit (shielded : Bool) (os : OS) (p : ExitPath) (c : ChildSpec) : Trace :=
  if c.exited then { signals := [], duration := 0, child := afterWait os }
  else if p.cancelled && !shielded then { signals := [], duration := 0, child := .running }
  else terminateProcess os c

/-! ## The whole exit: what happens BEFORE the reader/writer tasks are cancelled

`exit` above starts at the cancellation of the task group.  A client may do something first —
e.g. let the stdin writer flush what is still queued.  Such a step is a design decision like
`shielded`; whether it is bounded decides whether the exit is. -/

/-- design decisions of the client on which the property hinges -/
structure Design where
  /-- the termination sequence runs in a cancellation-shielded scope -/
  shielded : Bool
  /-- before cancelling its tasks the exit waits for the stdin writer to drain its queue:
  `some w`: for at most `w` ms (`some 0`: it does not wait), `none`: without bound -/
  flushWait : Option Nat
  /-- `__aenter__` contains a cancellable await between the spawn and the point from which the
  child is owned (its clean-up guaranteed) -/
  entryGap : Bool
  /-- an EOF seen on the child's stdout is taken for "the child is going away": the exit then only
  WAITS (one grace period) for it instead of running the termination sequence -/
  eofMeansGone : Bool := false
  /-- the exit is guarded by a "shutdown already ran" flag of the client object which entering
  does not reset: it runs once per OBJECT, not once per session -/
  exitOnce : Bool := false
  deriving DecidableEq, Repr

/-- the design the property asks for (and the model used by the correspondence run) -/
def Design.sound : Design :=
  { shielded := true, flushWait := some 0, entryGap := false, eofMeansGone := false, exitOnce := false }

/-- outgoing traffic at the moment the exit begins -/
structure Load where
  /-- bytes queued for the child and not yet written -/
  backlog : Nat
  /-- bytes the pipe and the transport's write buffer take without the child reading -/
  capacity : Nat
  deriving DecidableEq, Repr

/-- the stdin writer cannot finish: the child does not read and more is queued than fits -/
def writerBlocked (c : ChildSpec) (l : Load) : Bool :=
  !c.reads && c.stdinOpen && decide (l.capacity < l.backlog)

/-- how long the exit waits for the writer before it cancels the tasks; `none`: forever.
On a cancelled path the wait itself is cancelled at once. -/
def flushPhase (d : Design) (p : ExitPath) (c : ChildSpec) (l : Load) : Option Nat :=
  if p.cancelled || !writerBlocked c l then some 0
  else match d.flushWait, c.selfExit with
    | some w, some s => some (min w s)
    | some w, none => some w
    | none, some s => some s        -- only the child's own death releases the writer
    | none, none => none

/-- waiting one grace period for a child that is believed to be exiting, sending nothing -/
def reapOnly (os : OS) (c : ChildSpec) : Trace :=
  match c.selfExit with
  | some s =>
    if s < graceTermMs then { signals := [], duration := s, child := afterWait os }
    else { signals := [], duration := graceTermMs, child := .running }
  | none => { signals := [], duration := graceTermMs, child := .running }

/-- what the exit does about the child once its tasks are cancelled -/
def finish (d : Design) (os : OS) (p : ExitPath) (c : ChildSpec) : Trace :=
  if d.eofMeansGone && !c.stdoutOpen && !c.exited then reapOnly os c else exit d.shielded os p c

/-- `_drain_stdout` (bound REGENERATED: `Gen.Shutdown.drainMs`): once the child's exit status is
known its stdout is read to EOF so that the event loop releases the pipe; EOF is immediate unless
somebody else holds the write end, in which case the read is given up after `drainMs`. -/
def drainPhase (c : ChildSpec) (t : Trace) : Trace :=
  if t.child != .running && c.stdoutHeld then { t with duration := t.duration + Verif.Gen.Shutdown.drainMs } else t

/-- Leaving the context, everything included.  `none`: `__aexit__` never returns. -/
def leave (d : Design) (os : OS) (p : ExitPath) (c : ChildSpec) (l : Load) : Option Trace :=
  match flushPhase d p c l with
  | none => none
  | some f =>
    let died := match c.selfExit with | some s => decide (s ≤ f) | none => false
    -- a child that ends by itself while it is being waited for: the earlier of that and its reaction to SIGTERM
    let term := match c.termDelay, c.selfExit with
      | some a, some s => some (min a (s - f))
      | none, some s => some (s - f)
      | a, none => a
    let t := drainPhase c (finish d os p { c with exited := c.exited || died, termDelay := term })
    some { signals := t.signals.map (fun x => (f + x.1, x.2)), duration := f + t.duration, child := t.child }

/-! ## Settings of the client that the exit does not consult

The protocol version the handshake settled on (with or without JSON-RPC batching — it decides whether the reader
answers an incoming batch with an error on the child's stdin) and whatever the reader or writer task is in the
middle of when the exit begins: the exit cancels both tasks and proceeds. -/

structure ClientSettings where
  /-- the negotiated protocol version, if any -/
  version : Option String
  /-- the reader is in the middle of writing a batch-rejection to a child that does not read -/
  readerWriting : Bool
  /-- requests still registered through the per-request stream API (`new_request_stream`), whatever the state of
  their receive ends -/
  pendingStreams : Nat := 0
  /-- the stdout reader task has already ended (a line that is not UTF-8, an error while routing) -/
  readerEnded : Bool := false
  deriving DecidableEq, Repr

def leaveWith (_s : ClientSettings) (d : Design) (os : OS) (p : ExitPath) (c : ChildSpec) (l : Load) : Option Trace :=
  leave d os p c l

/-! ## Several sessions on one client object

A `StdioClient` (and a `StdioTransport`) can be entered again after it has been left: entering
recreates the streams, the process and the task group.  Each session must end like the first. -/

/-- an exit that did nothing at all -/
def skippedExit (os : OS) (c : ChildSpec) : Trace :=
  { signals := [], duration := 0, child := if c.exited then afterWait os else .running }

def sessionsFrom (d : Design) (os : OS) (first : Bool) :
    List (ExitPath × ChildSpec × Load) → List (Option Trace)
  | [] => []
  | (p, c, l) :: rest =>
    (if d.exitOnce && !first then some (skippedExit os c) else leave d os p c l) :: sessionsFrom d os false rest

/-- the exits of `k` sequential sessions on the same object -/
def sessions (d : Design) (os : OS) (ss : List (ExitPath × ChildSpec × Load)) : List (Option Trace) :=
  sessionsFrom d os true ss

/-! ## Cancellation while the context is being entered -/

/-- where, relative to `__aenter__`, the cancellation of the enclosing scope is delivered -/
inductive CancelPoint where
  | beforeSpawn | duringSpawn | afterSpawn | inBody
  deriving DecidableEq, Repr

/-- what is left of the child when entering was cut short -/
inductive Leftover where
  | noChild | reaped | running
  deriving DecidableEq, Repr

/-- `some x`: entering was cancelled at that point and `x` is what remains; `none`: the point is
not a checkpoint of `__aenter__` (or lies in the body) — the context is entered and is left by
`leave` on a cancelled path.  A cancellation during the spawn itself is cleaned up by the event
loop's subprocess machinery (a runtime fact). -/
def cancelledEntry (d : Design) : CancelPoint → Option Leftover
  | .beforeSpawn => some .noChild
  | .duringSpawn => some .reaped
  | .afterSpawn => if d.entryGap then some .running else none
  | .inBody => none

/-! ## Entering -/

/-- what `anyio.open_process` did with the command (an OS fact) -/
inductive Spawn where
  | started | failed
  deriving DecidableEq, Repr

structure Session where
  /-- `__aenter__` raised -/
  raisedOnEnter : Bool
  /-- the exit, when the context was entered -/
  trace : Option Trace
  deriving DecidableEq, Repr

/-- `__aenter__` re-raises a spawn failure; otherwise the body runs and the context is left by `p`. -/
def session (shielded : Bool) (os : OS) (s : Spawn) (p : ExitPath) (c : ChildSpec) : Session :=
  match s with
  | .failed => { raisedOnEnter := true, trace := none }
  | .started => { raisedOnEnter := false, trace := some (exit shielded os p c) }

/-- Entering through a wrapper that performs the `initialize` handshake before the body runs
(`stdio_client_with_initialize`): when the child does not answer, the handshake times out INSIDE
the context, which is left by that exception, and entering raises. -/
def sessionWithHandshake (d : Design) (os : OS) (answersInit : Bool) (p : ExitPath) (c : ChildSpec)
    (l : Load) : Bool × Option Trace :=
  if answersInit then (false, leave d os p c l) else (true, leave d os .exception c l)

/-! ## A pending request -/

inductive ReqOutcome (α : Type) where
  | returned (payload : α)
  | timedOut
  deriving Repr

/-- The outcome of the request with id `i`, given the response lines `(id, payload)` the child
wrote before it died — all that can ever arrive.  (The delivery path itself is C05 + C01.) -/
def pending {α : Type} (written : List (Nat × α)) (i : Nat) : ReqOutcome α :=
  match written.find? (fun l => l.1 == i) with
  | some l => .returned l.2
  | none => .timedOut

/-- Several clients alive at once in one process, client `k` with the lines ITS child wrote: the request of
client `k` is answered from its own child's lines only — whatever the other connections carry, even under the
same request id. -/
def pendingOf {α : Type} (clients : List (List (Nat × α))) (k i : Nat) : ReqOutcome α :=
  pending (clients.getD k []) i

/-! ## The behaviours of the property's quantifier (used by the correspondence run) -/

inductive Behaviour where
  | well | exitAt (k : Nat) | ignoreTerm | neverReads | stopsReading | flood | closeStdout (ignoresTerm : Bool) (after : Nat) | closeStdin | slowStart
  /-- well-behaved, but reacts to SIGTERM only after `ms` -/
  | slowTerm (ms : Nat)
  deriving DecidableEq, Repr

inductive Moment where
  | before | inflight | after (nreq : Nat)
  deriving DecidableEq, Repr

/-- steps of the conversation the child has been through when the exit begins
(odd step: a request has been read; even step: it has been answered) -/
def stepsDone : Moment → Nat
  | .before => 0
  | .inflight => 1
  | .after n => 2 * n

def childSpec (b : Behaviour) (m : Moment) : ChildSpec :=
  { exited := (match b with | .exitAt k => decide (k ≤ stepsDone m) | _ => false),
    termDelay := (match b with | .ignoreTerm => none | .closeStdout true _ => none | .slowTerm ms => some ms | _ => some 0),
    eofDelay := (match b with | .well | .slowStart | .slowTerm _ | .exitAt _ => some 0 | _ => none),
    reads := (match b with | .neverReads | .stopsReading | .flood | .closeStdin => false | _ => true),
    floods := (match b with | .flood => true | _ => false),
    stdoutOpen := (match b with | .closeStdout _ _ => false | _ => true),
    stdinOpen := (match b with | .closeStdin => false | _ => true) }

/-- does the child answer the `j`-th (1-based) request of the conversation? -/
def answers (b : Behaviour) (j : Nat) : Bool :=
  match b with
  | .well | .ignoreTerm | .slowStart | .slowTerm _ => true
  | .exitAt k => decide (2 * j ≤ k)
  | .stopsReading => decide (j = 1)
  | .closeStdout _ n => decide (j ≤ n)
  | _ => false

end Verif.Model.Shutdown
