/-! # JSON values, the compact encoders behind `fast_json.dumps`, and an RFC 8259 decoder
(`src/chuk_mcp/protocol/fast_json.py`).

Texts are lists of characters (`Char` = Unicode scalar value, so "no lone surrogate" is built
into the type).  `fast_json.dumps(obj)` (no keyword arguments, the form used by the transports)
is

* `orjson.dumps(obj).decode()` when orjson is importable and accepts the value — compact
  separators `,` `:`; raw UTF-8; only `"` `\` and the C0 controls are escaped, with the short
  forms `\b \t \n \f \r` and lower-case `\u00xx` otherwise;
* `json.dumps(obj)` otherwise (orjson absent, or orjson raised: an integer outside
  −2^63 .. 2^64−1) — stdlib defaults: separators `, ` and `: `, `ensure_ascii=True`
  (everything outside U+0020..U+007E becomes `\uxxxx`, astral characters a surrogate pair).

Floats are opaque tokens (`flt tok`): the model never computes a float's value.  A token is
well-formed when it matches the RFC 8259 number grammar and has a fraction or an exponent.
-/
namespace Verif.Model.Json

inductive Json where
  | null
  | bool (b : Bool)
  | int (i : Int)
  | flt (tok : List Char)
  | str (s : List Char)
  | arr (xs : List Json)
  | obj (kvs : List (List Char × Json))
  deriving Repr, Inhabited

/-- what distinguishes the two encoders -/
structure Style where
  /-- a space after `,` and `:` (stdlib default separators) -/
  sp : Bool
  /-- `ensure_ascii` -/
  ascii : Bool
  deriving Repr, DecidableEq

def orjsonStyle : Style := ⟨false, false⟩
def stdStyle : Style := ⟨true, true⟩

/-! ## leaves -/

def hexDigit (n : Nat) : Char := if n < 10 then Char.ofNat (48 + n) else Char.ofNat (87 + n)

/-- `\uxxxx`, lower-case hex (both backends) -/
def u4 (n : Nat) : List Char :=
  ['\\', 'u', hexDigit (n / 4096), hexDigit (n / 256 % 16), hexDigit (n / 16 % 16), hexDigit (n % 16)]

def escChar (ascii : Bool) (c : Char) : List Char :=
  if c = '"' then ['\\', '"'] else if c = '\\' then ['\\', '\\']
  else if c = '\n' then ['\\', 'n'] else if c = '\r' then ['\\', 'r'] else if c = '\t' then ['\\', 't']
  else if c = '\x08' then ['\\', 'b'] else if c = '\x0c' then ['\\', 'f']
  else if c.toNat < 32 then u4 c.toNat
  else if ascii && decide (127 ≤ c.toNat) then
    (if c.toNat < 65536 then u4 c.toNat
     else u4 (55296 + (c.toNat - 65536) / 1024) ++ u4 (56320 + (c.toNat - 65536) % 1024))
  else [c]

def encStr (ascii : Bool) (s : List Char) : List Char := '"' :: (s.flatMap (escChar ascii) ++ ['"'])

def digitChar (n : Nat) : Char := Char.ofNat (48 + n)

def natDigits (n : Nat) : List Char :=
  if n < 10 then [digitChar n] else natDigits (n / 10) ++ [digitChar (n % 10)]
termination_by n
decreasing_by omega

def intTok : Int → List Char
  | .ofNat n => natDigits n
  | .negSucc n => '-' :: natDigits (n + 1)

/-! ## encoders -/

def sep (st : Style) : List Char := if st.sp then [' '] else []

mutual
def enc (st : Style) : Json → List Char
  | .null => ['n', 'u', 'l', 'l']
  | .bool true => ['t', 'r', 'u', 'e']
  | .bool false => ['f', 'a', 'l', 's', 'e']
  | .int i => intTok i
  | .flt tok => tok
  | .str s => encStr st.ascii s
  | .arr xs => '[' :: (encList st xs ++ [']'])
  | .obj kvs => '{' :: (encKvs st kvs ++ ['}'])
def encList (st : Style) : List Json → List Char
  | [] => []
  | [x] => enc st x
  | x :: y :: xs => enc st x ++ (',' :: (sep st ++ encList st (y :: xs)))
def encKvs (st : Style) : List (List Char × Json) → List Char
  | [] => []
  | [(k, v)] => encStr st.ascii k ++ (':' :: (sep st ++ enc st v))
  | (k, v) :: kv :: kvs =>
    encStr st.ascii k ++ (':' :: (sep st ++ (enc st v ++ (',' :: (sep st ++ encKvs st (kv :: kvs))))))
end

/-- `orjson.dumps` -/
def encOrjson (v : Json) : List Char := enc orjsonStyle v
/-- `json.dumps` with the stdlib defaults -/
def encStd (v : Json) : List Char := enc stdStyle v

/-! ## the 64-bit domain -/

def fitsInt (i : Int) : Bool := decide (-9223372036854775808 ≤ i) && decide (i ≤ 18446744073709551615)

mutual
def fits64 : Json → Bool
  | .int i => fitsInt i
  | .arr xs => fits64List xs
  | .obj kvs => fits64Kvs kvs
  | _ => true
def fits64List : List Json → Bool
  | [] => true
  | x :: xs => fits64 x && fits64List xs
def fits64Kvs : List (List Char × Json) → Bool
  | [] => true
  | (_, v) :: kvs => fits64 v && fits64Kvs kvs
end

inductive Backend where
  | orjson
  | stdlib
  deriving DecidableEq, Repr

/-- Which concrete encoder each code path of `fast_json.dumps` uses.  The theorems hold for
every configuration; the correspondence run identifies the one the code uses (`pinned` at the
verified commit), so a change of separators or of `ensure_ascii` is not a broken model. -/
structure Config where
  /-- `orjson.dumps` (orjson importable and it accepts the value) -/
  fast : Style
  /-- `json.dumps(obj, **kwargs)` (orjson absent, or it raised) -/
  slow : Style
  deriving Repr, DecidableEq

def pinned : Config := ⟨orjsonStyle, stdStyle⟩

/-- `fast_json.dumps(v)`: orjson when present and it accepts the value (integers within
−2^63 .. 2^64−1), the stdlib encoder otherwise. -/
def dumps (cfg : Config) (b : Backend) (v : Json) : List Char :=
  match b with
  | .orjson => if fits64 v then enc cfg.fast v else enc cfg.slow v
  | .stdlib => enc cfg.slow v

/-! ## decoder (RFC 8259) -/

def isWs (c : Char) : Bool := c = ' ' || c = '\n' || c = '\r' || c = '\t'

def skipWs : List Char → List Char
  | [] => []
  | c :: cs => if isWs c then skipWs cs else c :: cs

def isDig (c : Char) : Bool := decide (48 ≤ c.toNat) && decide (c.toNat ≤ 57)
def isFracExp (c : Char) : Bool := c = '.' || c = 'e' || c = 'E'
def isNumChar (c : Char) : Bool := isDig c || c = '-' || c = '+' || isFracExp c

def digitVal (c : Char) : Nat := c.toNat - 48

/-- (the summands are in this order on purpose: with the accumulator first, generating the
equation lemmas makes Lean normalise `_ - 48` on a stuck term, which takes forever) -/
def digitsVal (acc : Nat) : List Char → Nat
  | [] => acc
  | c :: cs => digitsVal (digitVal c + acc * 10) cs

/-- `[eE][+-]?[0-9]+` or nothing -/
def expOk : List Char → Bool
  | [] => true
  | e :: r =>
    if e = 'e' || e = 'E' then
      let r' := match r with
        | s :: x => if s = '+' || s = '-' then x else s :: x
        | [] => []
      match r' with
      | d :: ds => isDig d && ds.all isDig
      | [] => false
    else false

/-- `(\.[0-9]+)?` then the exponent part -/
def fracOk : List Char → Bool
  | c :: r =>
    if c = '.' then
      match r with
      | d :: r' => isDig d && expOk (r'.dropWhile isDig)
      | [] => false
    else expOk (c :: r)
  | [] => true

/-- `0 | [1-9][0-9]*` then fraction / exponent -/
def unsignedOk : List Char → Bool
  | c :: r =>
    if c = '0' then fracOk r
    else if isDig c then fracOk (r.dropWhile isDig)
    else false
  | [] => false

/-- the RFC 8259 `number` production on a complete token -/
def numGrammar : List Char → Bool
  | c :: r => if c = '-' then unsignedOk r else unsignedOk (c :: r)
  | [] => false

def intVal : List Char → Int
  | c :: r => if c = '-' then - (Int.ofNat (digitsVal 0 r)) else Int.ofNat (digitsVal 0 (c :: r))
  | [] => 0

/-- a number: the maximal run of number characters must be one well-formed token; without a
fraction or exponent it is an integer (any size), otherwise an opaque float token. -/
def parseNumber (cs : List Char) : Option (Json × List Char) :=
  let tok := cs.takeWhile isNumChar
  let rest := cs.dropWhile isNumChar
  if numGrammar tok then
    if tok.any isFracExp then some (.flt tok, rest) else some (.int (intVal tok), rest)
  else none

def hexVal (c : Char) : Option Nat :=
  if 48 ≤ c.toNat ∧ c.toNat ≤ 57 then some (c.toNat - 48)
  else if 97 ≤ c.toNat ∧ c.toNat ≤ 102 then some (c.toNat - 87)
  else if 65 ≤ c.toNat ∧ c.toNat ≤ 70 then some (c.toNat - 55) else none

/-- code units of a string body: a character, or the value of one `\uxxxx` escape -/
inductive CU where
  | raw (c : Char)
  | esc (n : Nat)
  deriving Repr

def simpleEsc (e : Char) : Option Char :=
  if e = '"' then some '"' else if e = '\\' then some '\\' else if e = '/' then some '/'
  else if e = 'n' then some '\n' else if e = 'r' then some '\r' else if e = 't' then some '\t'
  else if e = 'b' then some '\x08' else if e = 'f' then some '\x0c' else none

/-- scanner state: ordinary, after a backslash, or inside `\uxxxx` with `k+1` hex digits to go -/
inductive SS where
  | norm
  | bs
  | hex (k : Nat) (acc : Nat)

def consCU (u : CU) : Option (List CU × List Char) → Option (List CU × List Char)
  | some (us, r) => some (u :: us, r)
  | none => none

/-- scan a string body up to and including the closing quote, one character per step -/
def scanAux : SS → List Char → Option (List CU × List Char)
  | _, [] => none
  | .norm, c :: rest =>
    if c = '"' then some ([], rest)
    else if c = '\\' then scanAux .bs rest
    else if c.toNat < 32 then none
    else consCU (.raw c) (scanAux .norm rest)
  | .bs, e :: rest =>
    if e = 'u' then scanAux (.hex 3 0) rest
    else
      match simpleEsc e with
      | some ch => consCU (.raw ch) (scanAux .norm rest)
      | none => none
  | .hex 0 acc, c :: rest =>
    match hexVal c with
    | some d => consCU (.esc (acc * 16 + d)) (scanAux .norm rest)
    | none => none
  | .hex (k + 1) acc, c :: rest =>
    match hexVal c with
    | some d => scanAux (.hex k (acc * 16 + d)) rest
    | none => none

def scanStr (cs : List Char) : Option (List CU × List Char) := scanAux .norm cs

def consCh (c : Char) : Option (List Char) → Option (List Char)
  | some s => some (c :: s)
  | none => none

/-- join surrogate pairs (`hi` = pending high surrogate); a lone surrogate escape is not a JSON
string of scalar values -/
def combineAux : Option Nat → List CU → Option (List Char)
  | none, [] => some []
  | some _, [] => none
  | none, .raw c :: us => consCh c (combineAux none us)
  | some _, .raw _ :: _ => none
  | none, .esc n :: us =>
    if 55296 ≤ n ∧ n < 56320 then combineAux (some n) us
    else if 56320 ≤ n ∧ n < 57344 then none
    else consCh (Char.ofNat n) (combineAux none us)
  | some h, .esc m :: us =>
    if 56320 ≤ m ∧ m < 57344 then
      consCh (Char.ofNat (65536 + (h - 55296) * 1024 + (m - 56320))) (combineAux none us)
    else none

def combine (us : List CU) : Option (List Char) := combineAux none us

def parseStrBody (cs : List Char) : Option (List Char × List Char) :=
  match scanStr cs with
  | some (us, r) =>
    match combine us with
    | some s => some (s, r)
    | none => none
  | none => none

def stripPrefix : List Char → List Char → Option (List Char)
  | [], cs => some cs
  | _ :: _, [] => none
  | p :: ps, c :: cs => if p = c then stripPrefix ps cs else none

def lit (p : List Char) (v : Json) (cs : List Char) : Option (Json × List Char) :=
  match stripPrefix p cs with
  | some r => some (v, r)
  | none => none

mutual
/-- one value; the fuel bounds the number of nested calls (see `dec`) -/
def parseValue : Nat → List Char → Option (Json × List Char)
  | 0, _ => none
  | n + 1, cs =>
    match skipWs cs with
    | [] => none
    | c :: r =>
      if c = 'n' then lit ['u', 'l', 'l'] .null r
      else if c = 't' then lit ['r', 'u', 'e'] (.bool true) r
      else if c = 'f' then lit ['a', 'l', 's', 'e'] (.bool false) r
      else if c = '"' then
        match parseStrBody r with
        | some (s, r') => some (.str s, r')
        | none => none
      else if c = '[' then
        match skipWs r with
        | [] => none
        | c2 :: r' =>
          if c2 = ']' then some (.arr [], r')
          else
            match parseElems n (c2 :: r') with
            | some (xs, r'') => some (.arr xs, r'')
            | none => none
      else if c = '{' then
        match skipWs r with
        | [] => none
        | c2 :: r' =>
          if c2 = '}' then some (.obj [], r')
          else
            match parseMembers n (c2 :: r') with
            | some (kvs, r'') => some (.obj kvs, r'')
            | none => none
      else parseNumber (c :: r)
/-- one or more elements up to and including `]` -/
def parseElems : Nat → List Char → Option (List Json × List Char)
  | 0, _ => none
  | n + 1, cs =>
    match parseValue n cs with
    | none => none
    | some (v, r) =>
      match skipWs r with
      | [] => none
      | c :: r' =>
        if c = ',' then
          match parseElems n r' with
          | some (vs, r'') => some (v :: vs, r'')
          | none => none
        else if c = ']' then some ([v], r')
        else none
/-- one or more members up to and including `}` -/
def parseMembers : Nat → List Char → Option (List (List Char × Json) × List Char)
  | 0, _ => none
  | n + 1, cs =>
    match skipWs cs with
    | [] => none
    | c :: r =>
      if c = '"' then
        match parseStrBody r with
        | none => none
        | some (k, r1) =>
          match skipWs r1 with
          | [] => none
          | c1 :: r2 =>
            if c1 = ':' then
              match parseValue n r2 with
              | none => none
              | some (v, r3) =>
                match skipWs r3 with
                | [] => none
                | c3 :: r4 =>
                  if c3 = ',' then
                    match parseMembers n r4 with
                    | some (kvs, r5) => some ((k, v) :: kvs, r5)
                    | none => none
                  else if c3 = '}' then some ([(k, v)], r4)
                  else none
            else none
      else none
end

/-- decode a complete text (leading / trailing whitespace allowed).  Every nested call
consumes at least one character first, so `length + 1` never cuts a parse short. -/
def dec (s : List Char) : Option Json :=
  match parseValue (s.length + 1) s with
  | some (v, r) => if skipWs r = [] then some v else none
  | none => none

/-- `fast_json.loads` under a backend.  Both real decoders are RFC 8259 decoders that agree
with `dec` on texts whose integers fit in 64 bits; outside that range orjson yields a float
where the stdlib yields an integer, which the model does not describe (`none`). -/
def loads (b : Backend) (s : List Char) : Option Json :=
  match b with
  | .stdlib => dec s
  | .orjson =>
    match dec s with
    | some v => if fits64 v then some v else none
    | none => none

/-! ## decoding the same text again (history must not matter)

A decoder may remember what it decoded before.  `Cache` is such a memory; `loadsMemo` looks a text up first and
only decodes on a miss.  Values are immutable here, so the only thing that can go wrong is an entry that does not
belong to its text: `cacheOk`. -/

abbrev Cache := List (List Char × Json)

def cacheGet (c : Cache) (t : List Char) : Option Json :=
  match c with
  | [] => none
  | (t', v) :: rest => if t' = t then some v else cacheGet rest t

def cacheOk (c : Cache) : Prop := ∀ t v, cacheGet c t = some v → dec t = some v

def loadsMemo (c : Cache) (t : List Char) : Cache × Option Json :=
  match cacheGet c t with
  | some v => (c, some v)
  | none =>
    match dec t with
    | some v => ((t, v) :: c, some v)
    | none => (c, none)

/-! ## well-formedness -/

/-- a float token: RFC 8259 number with a fraction or an exponent -/
def fltTokOk (tok : List Char) : Bool :=
  tok.all isNumChar && numGrammar tok && tok.any isFracExp

mutual
def wf : Json → Bool
  | .flt tok => fltTokOk tok
  | .arr xs => wfList xs
  | .obj kvs => wfKvs kvs
  | _ => true
def wfList : List Json → Bool
  | [] => true
  | x :: xs => wf x && wfList xs
def wfKvs : List (List Char × Json) → Bool
  | [] => true
  | (_, v) :: kvs => wf v && wfKvs kvs
end

end Verif.Model.Json
