import Verif.Gen.VersionLib

/-! `get_version_info` (`protocol/types/versioning.py`), hand-modelled on top of the REGENERATED
predicates of `Gen/VersionLib.lean`; tied by the correspondence run. -/
namespace Verif.Model.VersionInfo
open Verif.Gen.VersionLib

/-- the members added when the version is well-formed and everything inside the `try` succeeded -/
structure Details where
  year : Nat
  month : Nat
  day : Nat
  newerThanCurrent : Bool
  olderThanMinimum : Bool
  deriving Repr, DecidableEq

structure Info where
  isValid : Bool
  isSupported : Bool
  isCurrent : Bool
  details : Option Details
  deriving Repr, DecidableEq

def versionInfo (v : List Char) : Info :=
  let cur := (latestGen.getD [])
  let mn := (minimumGen.getD [])
  let valid := validateFormatGen v
  { isValid := valid
    isSupported := isSupportedGen v
    isCurrent := v == cur
    details :=
      if valid then
        match parseVersionGen v, isNewerGen v cur, isOlderGen v mn with
        | some (y, m, d), some n, some o => some ⟨y, m, d, n, o⟩
        | _, _, _ => none      -- a ValueError inside the `try`: nothing is added
      else none }

end Verif.Model.VersionInfo
