import Verif.Model.StdioIn
import Verif.Model.Carrier

/-! # The routing layer of the stdio client (`StdioClient._route_message`,
`_process_message_data`, `new_request_stream`, `transports/stdio/stdio_client.py`)

Between the line reader (`Model/StdioIn.lean`) and the three kinds of stream a decoded message can
go to:

* the main incoming stream (`get_streams()[0]`) — every message;
* the notification stream — additionally, every message whose `id` is `None`;
* a per-request stream of the legacy API (`new_request_stream(req_id)`, table `_pending` keyed by
  `str(id)`) — additionally, a message with an id whose key is registered; the entry is removed
  BEFORE the send, the stream gets exactly that one message and is closed.

    msg_id = getattr(msg, "id", None)
    if msg_id is None:  notify.send_nowait(msg) ; incoming.send(msg) ; return
    s = _pending.get(str(msg_id))
    if s: del _pending[str(msg_id)] ; s.send(msg) ; s.aclose()
    incoming.send(msg)

Routing is a pure function of the message and the table of registered keys.  `StdioIn` is the
projection of this model that forgets the per-request streams (`erase`, theorem
`c05_route_refines`), so everything proved about the main and the notification stream there holds
here whatever is registered.
-/
namespace Verif.Model.StdioRoute
open Verif.Model.StdioIn Verif.Model.Batching

/-- `str(msg_id)` -/
abbrev Key := List Char

structure RCfg (μ : Type) where
  parse : List Nat → Parsed μ
  /-- `str(getattr(msg, "id", None))`, `none` when the id is `None` -/
  key : μ → Option Key

/-- the reader configuration this routing configuration refines -/
def RCfg.toCfg {μ : Type} (rc : RCfg μ) : Cfg μ := { parse := rc.parse, isNotif := fun m => (rc.key m).isNone }

inductive ROut (μ : Type) where
  | notify (m : μ)
  /-- sent on the per-request stream registered under `k` (which is then closed) -/
  | request (k : Key) (m : μ)
  | deliver (m : μ)
  | reject
  deriving Repr, DecidableEq

/-- forget the per-request streams -/
def erase {μ : Type} : ROut μ → Option (Out μ)
  | .notify m => some (.notify m)
  | .request _ _ => none
  | .deliver m => some (.deliver m)
  | .reject => some .reject

/-- `del _pending[k]` -/
def remove (k : Key) (pend : List Key) : List Key := pend.filter (fun x => decide (x ≠ k))

/-- `_route_message(msg)` with the table of registered keys -/
def routeP {μ : Type} (rc : RCfg μ) (pend : List Key) (m : μ) : List (ROut μ) × List Key :=
  match rc.key m with
  | none => ([.notify m, .deliver m], pend)
  | some k => if k ∈ pend then ([.request k m, .deliver m], remove k pend) else ([.deliver m], pend)

/-- a sequence of messages routed one after the other (the table is threaded through) -/
def routeSeq {μ : Type} (rc : RCfg μ) : List Key → List μ → List (ROut μ) × List Key
  | pend, [] => ([], pend)
  | pend, m :: ms =>
    let r := routeP rc pend m
    let r' := routeSeq rc r.2 ms
    (r.1 ++ r'.1, r'.2)

/-- the members of a batch: `parse_message` accepted (`some`) or raised (`none`, dropped alone) -/
def routeMembers {μ : Type} (rc : RCfg μ) (pend : List Key) (items : List (Option μ)) : List (ROut μ) × List Key :=
  routeSeq rc pend (items.filterMap id)

/-- one complete line -/
def processLineP {μ : Type} (rc : RCfg μ) (batching : Bool) (pend : List Key) (line : List Nat) :
    List (ROut μ) × List Key :=
  let s := strip line
  if s = [] then ([], pend)
  else match rc.parse s with
    | .junk => ([], pend)
    | .single m => routeP rc pend m
    | .batch items => if batching then routeMembers rc pend items else ([.reject], pend)

def processLinesP {μ : Type} (rc : RCfg μ) (batching : Bool) : List Key → List (List Nat) → List (ROut μ) × List Key
  | pend, [] => ([], pend)
  | pend, l :: ls =>
    let r := processLineP rc batching pend l
    let r' := processLinesP rc batching r.2 ls
    (r.1 ++ r'.1, r'.2)

structure RSt where
  st : St
  /-- `_pending`: the keys with a registered per-request stream (a dict: no duplicates) -/
  pend : List Key
  deriving Repr, DecidableEq

inductive REv where
  | chunk (bytes : List Nat)
  | setVersion (v : Option (List Char))
  /-- `client.new_request_stream(k)` -/
  | register (k : Key)

def REv.toEv : REv → Option Ev
  | .chunk b => some (.chunk b)
  | .setVersion v => some (.setVersion v)
  | .register _ => none

/-- one read -/
def feedP {μ : Type} (rc : RCfg μ) (s : RSt) (bytes : List Nat) : RSt × List (ROut μ) :=
  if !s.st.alive then (s, [])
  else match decBytes s.st.pend bytes with
    | .error _ => ({ s with st := { s.st with alive := false } }, [])
    | .ok (cs, p) =>
      let r := split LF (s.st.buf ++ cs)
      let o := processLinesP rc s.st.batching s.pend r.1
      ({ st := { s.st with pend := p, buf := r.2 }, pend := o.2 }, o.1)

def stepP {μ : Type} (rc : RCfg μ) (s : RSt) : REv → RSt × List (ROut μ)
  | .chunk bytes => feedP rc s bytes
  | .setVersion v => ({ s with st := { s.st with batching := supportsBatching v } }, [])
  | .register k => ({ s with pend := if k ∈ s.pend then s.pend else k :: s.pend }, [])

def runP {μ : Type} (rc : RCfg μ) : RSt → List REv → RSt × List (ROut μ)
  | s, [] => (s, [])
  | s, e :: es =>
    let r := stepP rc s e
    let r' := runP rc r.1 es
    (r'.1, r.2 ++ r'.2)

/-- a new connection on a used object: fresh reader state, no per-request streams -/
def enterP (_prev : RSt) : RSt := ⟨enter _prev.st, []⟩

def runSessionsP {μ : Type} (rc : RCfg μ) : RSt → List (List REv) → List (RSt × List (ROut μ))
  | _, [] => []
  | prev, evs :: rest =>
    let r := runP rc (enterP prev) evs
    r :: runSessionsP rc r.1 rest

/-! ## Observables -/

def mainOf {μ : Type} : List (ROut μ) → List μ
  | [] => []
  | .deliver m :: r => m :: mainOf r
  | _ :: r => mainOf r

def notifOf {μ : Type} : List (ROut μ) → List μ
  | [] => []
  | .notify m :: r => m :: notifOf r
  | _ :: r => notifOf r

/-- what the per-request stream registered under `k` received -/
def requestOf {μ : Type} (k : Key) : List (ROut μ) → List μ
  | [] => []
  | .request k' m :: r => if k' = k then m :: requestOf k r else requestOf k r
  | _ :: r => requestOf k r

/-! ## The real codec and the exceptions of `_process_message_data`

`realRoute` is the routing configuration of the library itself: `Json.dec` + `Rpc.parseMsg`
(`Model/Carrier.realStdio`) and `str(id)`.  `processDataE` follows `_process_message_data` on an
already decoded JSON value with the raising calls explicit: `parse_message` returns `.error` for
what it rejects (a non-object, an object it cannot classify, …) and each call sits in its own
`try … except Exception` in the code (`tryExcept`). -/
section real
open Verif.Model.Carrier Verif.Model.Json Verif.Model.Rpc

def realRoute : RCfg View := { parse := realStdio.parse, key := fun v => v.id.map keyOfId }

/-- `try: … except Exception: <log>` around one parse-and-route -/
def tryExcept {ε α : Type} (dflt : α) : Except ε α → Except ε α
  | .ok a => .ok a
  | .error _ => .ok dflt

/-- parse one value and route it; raises what `parse_message` raises -/
def parseAndRoute (pend : List Key) (j : Json) : Except PErr (List (ROut View) × List Key) :=
  match parseMsg j with
  | .ok v => .ok (routeP realRoute pend v)
  | .error e => .error e

def membersE : List Key → List Json → Except PErr (List (ROut View) × List Key)
  | pend, [] => .ok ([], pend)
  | pend, x :: xs =>
    match tryExcept ([], pend) (parseAndRoute pend x) with
    | .error e => .error e
    | .ok r =>
      match membersE r.2 xs with
      | .error e => .error e
      | .ok r' => .ok (r.1 ++ r'.1, r'.2)

/-- `_process_message_data(data)` for any decoded JSON value -/
def processDataE (batching : Bool) (pend : List Key) (j : Json) : Except PErr (List (ROut View) × List Key) :=
  match j with
  | .arr xs => if batching then membersE pend xs else .ok ([.reject], pend)
  | j => tryExcept ([], pend) (parseAndRoute pend j)

end real

end Verif.Model.StdioRoute
