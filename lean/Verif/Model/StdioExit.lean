import Verif.Gen.StdioExit

/-! # Which exception leaves `stdio_client()` / `stdio_client_with_initialize()`
(`transports/stdio/stdio_client.py`, the two `except` clauses around `async with client:`)

The filters themselves (`Gen/StdioExit.lean`: marker strings, which branch ends in `raise`) are
REGENERATED from the source on every run; this file is their interpreter:

* `except Exception as e` sees one ordinary exception (cancellation is a `BaseException` and is not
  caught at all): cancelled class → swallowed; else the first branch whose class guard (if it has one:
  `isinstance(e, <Class>)`) holds and whose marker is contained in `str(e).lower()` decides, else the `else` branch;
* `except BaseExceptionGroup as eg` walks `eg.exceptions` in order and re-raises the whole group at
  the first member whose branch raises; cancelled members are skipped.

`lower` is ASCII lower-casing (the markers are ASCII; Python's `str.lower()` also maps non-ASCII
capitals, none of which lower to an ASCII letter of the markers at the verified commit).
-/
namespace Verif.Model.StdioExit
open Verif.Gen.StdioExit

def lowerChar (c : Char) : Char := if 65 ≤ c.toNat ∧ c.toNat ≤ 90 then Char.ofNat (c.toNat + 32) else c

def lower (s : List Char) : List Char := s.map lowerChar

def isPrefix : List Char → List Char → Bool
  | [], _ => true
  | _ :: _, [] => false
  | a :: as, b :: bs => a = b && isPrefix as bs

/-- `needle in hay` -/
def contains (needle : List Char) : List Char → Bool
  | [] => needle.isEmpty
  | c :: cs => isPrefix needle (c :: cs) || contains needle cs

/-- `isinstance(exc, <cls>)` for an exception whose class has the method resolution order `mro` (class names) -/
def guardHolds (mro : List String) : Option String → Bool
  | none => true
  | some cls => mro.contains cls

def firstMatch (mro : List String) (msg : List Char) : List (String × Option String × Bool) → Option Bool
  | [] => none
  | (m, g, r) :: rest => if guardHolds mro g && contains m.toList msg then some r else firstMatch mro msg rest

/-- one exception (the names of its class and of all its base classes, its `str()`): `true` = re-raised -/
def decideOne (f : Filter) (cancelled : Bool) (mro : List String) (msg : List Char) : Bool :=
  if cancelled then false else (firstMatch mro (lower msg) f.markers).getD f.otherwise

/-- what can be raised inside the `async with` body or by the connection's own tasks -/
inductive Exc where
  /-- an `Exception` of a class with this MRO (class names) and this `str()` -/
  | error (mro : List String) (msg : List Char)
  /-- the backend's cancellation class (a `BaseException`) -/
  | cancelled
  /-- a group; members are (is cancellation, MRO, `str()`) -/
  | group (members : List (Bool × List String × List Char))

/-- does it propagate out of the context manager?  (`single`, `grp` = the two filters of the function) -/
def propagates (single grp : Filter) : Exc → Bool
  | .error mro msg => decideOne single false mro msg
  | .cancelled => true                      -- not an `Exception`: no handler applies
  | .group ms => ms.any (fun m => decideOne grp m.1 m.2.1 m.2.2)

end Verif.Model.StdioExit
