/-!
# Header construction of the Streamable-HTTP transport

Pure model of the two places where the headers of a POST are put together:

* `StreamableHTTPParameters.setup_auth_headers` (`transports/http/parameters.py`): the caller's
  header dict gets a `User-Agent` unless one is present in any spelling, and an `Authorization`
  built from `bearer_token` unless one is present in any spelling (`setupAuth`);
* `_send_message_internal` (`transports/http/transport.py`): a fresh dict with `Content-Type`
  and `Accept`, the configured headers copied over it except those two keys, `Authorization`
  from the `MCP_BEARER_TOKEN` environment variable when the dict has none, and
  `Mcp-Session-Id` when a session id is known (`postHeaders`).

A Python `dict` is modelled as an association list in insertion order with in-place update
(`dictSet`); keys compare exactly (case-sensitively), as in Python.  What goes on the wire for
a header name is every entry whose key matches case-insensitively (`wireValues`).
-/
namespace Verif.Model.HttpHeaders

abbrev Str := List Char
abbrev Hdrs := List (Str × Str)

/-- `d.get(k)` -/
def dictGet : Hdrs → Str → Option Str
  | [], _ => none
  | (k', v) :: rest, k => if k' = k then some v else dictGet rest k

/-- `k in d` -/
def dictHas (h : Hdrs) (k : Str) : Bool := (dictGet h k).isSome

/-- `d[k] = v`: update in place, or append -/
def dictSet : Hdrs → Str → Str → Hdrs
  | [], k, v => [(k, v)]
  | (k', v') :: rest, k, v => if k' = k then (k, v) :: rest else (k', v') :: dictSet rest k v

/-- the binding a sequence of assignments leaves for `k` (a dict literal has at most one) -/
def dictGetLast (h : Hdrs) (k : Str) : Option Str := dictGet h.reverse k

/-- `key.lower()` for header names (ASCII) -/
def lower (s : Str) : Str := s.map Char.toLower

/-- `k.lower() == name` for some key -/
def hasCI (h : Hdrs) (name : Str) : Bool := h.any (fun p => lower p.1 == name)

def sBearer : Str := "Bearer ".toList

/-- `tok if tok.startswith("Bearer ") else f"Bearer {tok}"` -/
def bearerFmt (b : Str) : Str := if sBearer.isPrefixOf b then b else sBearer ++ b

/-- lower-case spellings (what `key.lower()` is compared with) -/
def ciUserAgent : Str := "user-agent".toList
def ciAuthorization : Str := "authorization".toList
def ciSession : Str := "mcp-session-id".toList

def kContentType : Str := "Content-Type".toList
def kAccept : Str := "Accept".toList
def kAuthorization : Str := "Authorization".toList
def kSession : Str := "Mcp-Session-Id".toList
def kUserAgent : Str := "User-Agent".toList
def vJson : Str := "application/json".toList
def vAccept : Str := "application/json, text/event-stream".toList

/-- the parameters object as far as headers go -/
structure Cfg where
  headers : Hdrs            -- the caller's `headers` (`None` = empty)
  userAgent : Str
  bearer : Option Str       -- `bearer_token`
  deriving Repr, DecidableEq

/-- `setup_auth_headers` -/
def setupAuth (c : Cfg) : Hdrs :=
  let h1 := if hasCI c.headers ciUserAgent then c.headers else dictSet c.headers kUserAgent c.userAgent
  match c.bearer with
  | some b =>
    if b ≠ [] ∧ hasCI h1 ciAuthorization = false then dictSet h1 kAuthorization (bearerFmt b) else h1
  | none => h1

/-- the copy loop: configured headers never replace `Content-Type` / `Accept` -/
def copyCfg (base : Hdrs) (cfg : Hdrs) : Hdrs :=
  cfg.foldl (fun acc p => if p.1 = kContentType ∨ p.1 = kAccept then acc else dictSet acc p.1 p.2) base

def baseHeaders : Hdrs := [(kContentType, vJson), (kAccept, vAccept)]

/-- truthiness of an optional string -/
def truthy : Option Str → Option Str
  | some v => if v = [] then none else some v
  | none => none

/-- the header dict `_send_message_internal` hands to `client.post` -/
def postHeaders (cfgHeaders : Hdrs) (envBearer : Option Str) (session : Option Str) : Hdrs :=
  let h1 := copyCfg baseHeaders cfgHeaders
  let h2 := if dictHas h1 kAuthorization then h1 else
    match truthy envBearer with
    | some e => dictSet h1 kAuthorization (bearerFmt e)
    | none => h1
  match truthy session with
  | some s => dictSet h2 kSession s
  | none => h2

/-- the values sent for a header name: every entry whose key matches case-insensitively -/
def wireValues (h : Hdrs) (name : Str) : List Str :=
  (h.filter (fun p => lower p.1 == lower name)).map (·.2)

end Verif.Model.HttpHeaders
