import Verif.Model.Json

/-! # JSON-RPC envelopes: what the library emits and what its own parser makes of it
(`src/chuk_mcp/protocol/messages/json_rpc_message.py`, `send_message.py`, `notifications.py`,
`server/protocol_handler.py`, `protocol/features/batching.py`, the transports' synthesised
error dicts).

* `Msg` — the four envelope classes (`JSONRPCRequest/Notification/Response/Error`, and the legacy
  unified class restricted to what its `create_*` class methods build).  Payloads are arbitrary
  JSON (`Verif.Model.Json.Json`): no restriction on depth, nulls, integer size.
* `emit` — the wire object: `model_dump(exclude_none=True)` / `model_dump_json(exclude_none=True)`
  of a model, or the plain dict a transport builds.  `exclude_none` is applied to the TOP-LEVEL
  members only (a `null` nested in `params` / `result` / `error` stays; a top-level `result: null`
  would disappear — which is why `create_response` maps `None` to `{}`).
* `parseMsg` — `parse_message` on one object: first the legacy unified class
  (`JSONRPCMessage.model_validate`, which succeeds for most inputs), then classification by
  member presence into the specific classes.  Its answer is a `View`: the members as the callers
  read them (`getattr(msg, "id", None)` …), because the class of the returned object says nothing
  (the legacy class is returned for most inputs).  Typing is strict: where Pydantic's lax mode
  would coerce a value (a float or boolean id, …) the model rejects; no emitter produces such
  members, and the correspondence run only feeds emitted forms.
* constructors — `create_request/notification/response/error_response`, the legacy class
  methods, the server's `create_response/create_error_response`, `send_message`'s request
  building with progress-token injection into `params._meta`, the notification senders, the
  dict-shaped errors of `BatchProcessor` and the HTTP/SSE transports.  A constructor that raises
  (Pydantic `ValidationError` for a missing id, `TypeError` when `_meta` is not a dict) is
  `.error`, never totalised away.
-/
namespace Verif.Model.Rpc
open Verif.Model.Json

abbrev Str := List Char
abbrev Obj := List (Str × Json)

def kJsonrpc : Str := ['j', 's', 'o', 'n', 'r', 'p', 'c']
def kId : Str := ['i', 'd']
def kMethod : Str := ['m', 'e', 't', 'h', 'o', 'd']
def kParams : Str := ['p', 'a', 'r', 'a', 'm', 's']
def kResult : Str := ['r', 'e', 's', 'u', 'l', 't']
def kError : Str := ['e', 'r', 'r', 'o', 'r']
def kCode : Str := ['c', 'o', 'd', 'e']
def kMessage : Str := ['m', 'e', 's', 's', 'a', 'g', 'e']
def kData : Str := ['d', 'a', 't', 'a']
def kMeta : Str := ['_', 'm', 'e', 't', 'a']
def kProgressToken : Str := ['p', 'r', 'o', 'g', 'r', 'e', 's', 's', 'T', 'o', 'k', 'e', 'n']
def v20 : Str := ['2', '.', '0']

/-- `dict.get`: first member with that key -/
def getKey (k : Str) : Obj → Option Json
  | [] => none
  | (k', v) :: rest => if k' = k then some v else getKey k rest

/-- `d[k] = v`: replace in place, or append -/
def setKey (k : Str) (v : Json) : Obj → Obj
  | [] => [(k, v)]
  | (k', v') :: rest => if k' = k then (k, v) :: rest else (k', v') :: setKey k v rest

inductive Id where
  | int (i : Int)
  | str (s : Str)
  deriving DecidableEq, Repr

def Id.toJson : Id → Json
  | .int i => .int i
  | .str s => .str s

inductive Msg where
  | request (id : Id) (method : Str) (params : Option Obj)
  | notification (method : Str) (params : Option Obj)
  | response (id : Id) (result : Json)
  /-- `id = none`: the dict-shaped errors with `"id": null` (batch rejection, transport errors
  for a message without id) -/
  | error (id : Option Id) (err : Obj)

inductive Kind where
  | request | notification | response | error | other
  deriving DecidableEq, Repr

def kind : Msg → Kind
  | .request .. => .request
  | .notification .. => .notification
  | .response .. => .response
  | .error .. => .error

/-! ## emission -/

/-- a top-level member under `exclude_none` -/
def member (k : Str) (v : Json) : Obj :=
  match v with
  | .null => []
  | v => [(k, v)]

def optParams : Option Obj → Obj
  | none => []
  | some p => [(kParams, .obj p)]

def emit : Msg → Json
  | .request id m p => .obj ([(kJsonrpc, .str v20), (kId, id.toJson), (kMethod, .str m)] ++ optParams p)
  | .notification m p => .obj ([(kJsonrpc, .str v20), (kMethod, .str m)] ++ optParams p)
  | .response id r => .obj ([(kJsonrpc, .str v20), (kId, id.toJson)] ++ member kResult r)
  | .error (some id) e => .obj [(kJsonrpc, .str v20), (kId, id.toJson), (kError, .obj e)]
  | .error none e => .obj [(kJsonrpc, .str v20), (kId, .null), (kError, .obj e)]

/-! ## JSON-RPC 2.0 validity of a wire object -/

def isIdJson : Json → Bool
  | .int _ => true
  | .str _ => true
  | _ => false

def isNullJson : Json → Bool
  | .null => true
  | _ => false

/-- an error object: integer `code`, string `message` -/
def validErr : Json → Bool
  | .obj e =>
    (match getKey kCode e with
     | some (.int _) => true
     | _ => false) &&
    (match getKey kMessage e with
     | some (.str _) => true
     | _ => false)
  | _ => false

/-- version "2.0"; with a `method`: a request (string-or-integer id) or a notification (no id
member); without: exactly one of `result` / `error`, a well-formed error object, and an id
(string or integer; `null` only next to an error, as JSON-RPC 2.0 allows). -/
def valid : Json → Bool
  | .obj o =>
    (match getKey kJsonrpc o with
     | some (.str s) => decide (s = v20)
     | _ => false) &&
    (match getKey kMethod o with
     | some (.str _) =>
       (match getKey kId o with
        | none => true
        | some i => isIdJson i)
     | some _ => false
     | none =>
       (match getKey kResult o, getKey kError o, getKey kId o with
        | some _, none, some i => isIdJson i
        | none, some e, some i => validErr e && (isIdJson i || isNullJson i)
        | _, _, _ => false))
  | _ => false

/-! ## the library's parser -/

/-- the members of a parsed message as callers read them (`getattr(msg, name, None)`) -/
structure View where
  id : Option Id
  method : Option Str
  params : Option Json
  result : Option Json
  error : Option Json

def kindOfView (v : View) : Kind :=
  if v.method.isSome then (if v.id.isSome then .request else .notification)
  else if v.error.isSome then .error
  else if v.result.isSome then .response
  else .other

def view : Msg → View
  | .request id m p => ⟨some id, some m, p.map .obj, none, none⟩
  | .notification m p => ⟨none, some m, p.map .obj, none, none⟩
  | .response id r => ⟨some id, none, none, (match r with | .null => none | r => some r), none⟩
  | .error id e => ⟨id, none, none, none, some (.obj e)⟩

inductive PErr where
  | notObject       -- "Message must be a dict or list"
  | badVersion      -- "Missing or invalid jsonrpc version"
  | badStructure    -- "Invalid JSON-RPC message structure"
  | validation      -- a specific class rejected the object
  deriving DecidableEq, Repr

/-- a member that is absent or `null` reads as `None` -/
def nonNull : Option Json → Option Json
  | some .null => none
  | x => x

/-- typed optional members; `none` = the validator rejects -/
def optId : Option Json → Option (Option Id)
  | none => some none
  | some .null => some none
  | some (.int i) => some (some (.int i))
  | some (.str s) => some (some (.str s))
  | some _ => none

def optStr : Option Json → Option (Option Str)
  | none => some none
  | some .null => some none
  | some (.str s) => some (some s)
  | some _ => none

def optObj : Option Json → Option (Option Json)
  | none => some none
  | some .null => some none
  | some (.obj o) => some (some (.obj o))
  | some _ => none

def reqId : Option Json → Option Id
  | some (.int i) => some (.int i)
  | some (.str s) => some (.str s)
  | _ => none

/-- `JSONRPCMessage.model_validate` (the legacy unified class); `none` = it raises -/
def legacyValidate (o : Obj) : Option View :=
  let versionOk := match getKey kJsonrpc o with
    | none => true
    | some (.str _) => true
    | some _ => false
  -- model_validate override: an error dict must have `code` and `message`
  let errorOk := match getKey kError o with
    | some (.obj e) => (getKey kCode e).isSome && (getKey kMessage e).isSome
    | _ => true
  match versionOk && errorOk, optId (getKey kId o), optStr (getKey kMethod o), optObj (getKey kParams o),
      optObj (getKey kResult o), optObj (getKey kError o) with
  | true, some id, some method, some params, some result, some error =>
    -- model_post_init: a response (id, no method) has exactly one of result / error
    if id.isSome && method.isNone && (result.isSome == error.isSome) then none
    else some ⟨id, method, params, result, error⟩
  | _, _, _, _, _, _ => none

/-- `JSONRPCError.model_post_init`: a non-empty error dict has an integer code and a string message -/
def errorClassOk : Json → Bool
  | .obj [] => true
  | e => validErr e

/-- `parse_message` on one decoded JSON value that is not a list -/
def parseMsg (j : Json) : Except PErr View :=
  match j with
  | .obj o =>
    match legacyValidate o with
    | some v => .ok v
    | none =>
      if (match getKey kJsonrpc o with
          | some (.str s) => decide (s = v20)
          | _ => false) = false then .error .badVersion
      else
        let hasId := (getKey kId o).isSome
        let hasMethod := (getKey kMethod o).isSome
        let hasResult := (getKey kResult o).isSome
        let hasError := (getKey kError o).isSome
        if hasMethod && hasId then
          match reqId (getKey kId o), optStr (getKey kMethod o), optObj (getKey kParams o) with
          | some id, some (some m), some p => .ok ⟨some id, some m, p, nonNull (getKey kResult o), nonNull (getKey kError o)⟩
          | _, _, _ => .error .validation
        else if hasMethod then
          match optStr (getKey kMethod o), optObj (getKey kParams o) with
          | some (some m), some p => .ok ⟨none, some m, p, nonNull (getKey kResult o), nonNull (getKey kError o)⟩
          | _, _ => .error .validation
        else if hasId && hasResult && !hasError then
          match reqId (getKey kId o) with
          | some id => .ok ⟨some id, none, nonNull (getKey kParams o), nonNull (getKey kResult o), none⟩
          | none => .error .validation
        else if hasId && hasError && !hasResult then
          match reqId (getKey kId o), getKey kError o with
          | some id, some (.obj e) =>
            if errorClassOk (.obj e) then .ok ⟨some id, none, nonNull (getKey kParams o), none, some (.obj e)⟩
            else .error .validation
          | _, _ => .error .validation
        else .error .badStructure
  | _ => .error .notObject

/-! ## constructors -/

inductive CErr where
  /-- Pydantic `ValidationError`: a response / error envelope without an id -/
  | noId
  /-- `TypeError`: `params["_meta"]` exists and is not a dict -/
  | metaNotDict
  deriving DecidableEq, Repr

/-- `params["_meta"]["progressToken"] = tok`, creating `params` and `_meta` when missing -/
def injectToken (params : Option Obj) (tok : Json) : Except CErr Obj :=
  let p := params.getD []
  match getKey kMeta p with
  | none => .ok (p ++ [(kMeta, .obj [(kProgressToken, tok)])])
  | some (.obj m) => .ok (setKey kMeta (.obj (setKey kProgressToken tok m)) p)
  | some _ => .error .metaNotDict

/-- `create_request(method, params, id, progress_token)`; `fresh` is the uuid used when no id is given -/
def createRequest (method : Str) (params : Option Obj) (id : Option Id) (fresh : Str)
    (progressToken : Option Id) : Except CErr Msg :=
  let id := id.getD (.str fresh)
  match progressToken with
  | none => .ok (.request id method params)
  | some t =>
    match injectToken params t.toJson with
    | .ok p => .ok (.request id method (some p))
    | .error e => .error e

def createNotification (method : Str) (params : Option Obj) : Msg := .notification method params

/-- `create_response(id, result)`: `None` becomes `{}` -/
def createResponse (id : Option Id) (result : Json) : Except CErr Msg :=
  match id with
  | none => .error .noId
  | some id => .ok (.response id (match result with | .null => .obj [] | r => r))

def errObj (code : Int) (message : Str) (data : Json) : Obj :=
  [(kCode, .int code), (kMessage, .str message)] ++ (match data with | .null => [] | d => [(kData, d)])

/-- `create_error_response(id, code, message, data)`; `data = null` is Python's `None` -/
def createErrorResponse (id : Option Id) (code : Int) (message : Str) (data : Json) : Except CErr Msg :=
  match id with
  | none => .error .noId
  | some id => .ok (.error (some id) (errObj code message data))

/-- `JSONRPCMessage.create_request` (legacy class; no progress token) -/
def legacyCreateRequest (method : Str) (params : Option Obj) (id : Option Id) (fresh : Str) : Msg :=
  .request (id.getD (.str fresh)) method params

def legacyCreateNotification (method : Str) (params : Option Obj) : Msg := .notification method params

/-- `JSONRPCMessage.create_response(id, result)`: `result or {}` -/
def legacyCreateResponse (id : Id) (result : Option Obj) : Msg := .response id (.obj (result.getD []))

/-- `JSONRPCMessage.create_error_response` -/
def legacyCreateErrorResponse (id : Id) (code : Int) (message : Str) (data : Json) : Msg :=
  .error (some id) (errObj code message data)

/-- `ProtocolHandler.create_response(msg_id, result)` -/
def serverResponse (msgId : Option Id) (result : Json) : Except CErr Msg := createResponse msgId result

/-- `ProtocolHandler.create_error_response(msg_id, code, message)` -/
def serverErrorResponse (msgId : Option Id) (code : Int) (message : Str) : Except CErr Msg :=
  createErrorResponse msgId code message .null

/-- the request `send_message` writes: optional progress token (a fresh uuid) injected into
`params._meta`, id = `message_id or uuid`: the id given, with its JSON type, unless it is falsy (`None`,
`""`, `0`), in which case a fresh uuid string is used. -/
def sendMessageRequest (method : Str) (params : Option Obj) (messageId : Option Id) (freshId freshTok : Str)
    (progress : Bool) : Except CErr Msg :=
  let id : Id := match messageId with
    | some (.str s) => if s = [] then .str freshId else .str s
    | some (.int i) => if i = 0 then .str freshId else .int i
    | none => .str freshId
  if progress then
    match injectToken params (.str freshTok) with
    | .ok p => .ok (.request id method (some p))
    | .error e => .error e
  else .ok (.request id method params)

/-- a notification sender: `create_notification(method, params)` with the params it built -/
def sendNotification (method : Str) (params : Option Obj) : Msg := createNotification method params

/-- the dict-shaped errors: `{"jsonrpc": "2.0", "id": id-or-None, "error": {"code", "message"[, "data"]}}`
(`BatchProcessor.create_batch_rejection_error`, the per-item batch error, the HTTP / SSE
transports' synthesised errors) -/
def dictError (id : Option Id) (code : Int) (message : Str) (data : Json) : Msg :=
  .error id (errObj code message data)

/-- the HTTP transport's synthesised empty success: `{"jsonrpc": "2.0", "id": id, "result": {}}` -/
def dictEmptyResult (id : Id) : Msg := .response id (.obj [])

/-- Everything the library's emitters can produce. -/
inductive Built : Msg → Prop where
  | createRequest {m method params id fresh tok} : createRequest method params id fresh tok = .ok m → Built m
  | createNotification (method params) : Built (createNotification method params)
  | createResponse {m id result} : createResponse id result = .ok m → Built m
  | createErrorResponse {m id code message data} : createErrorResponse id code message data = .ok m → Built m
  | legacyCreateRequest (method params id fresh) : Built (legacyCreateRequest method params id fresh)
  | legacyCreateNotification (method params) : Built (legacyCreateNotification method params)
  | legacyCreateResponse (id result) : Built (legacyCreateResponse id result)
  | legacyCreateErrorResponse (id code message data) : Built (legacyCreateErrorResponse id code message data)
  | serverResponse {m msgId result} : serverResponse msgId result = .ok m → Built m
  | serverErrorResponse {m msgId code message} : serverErrorResponse msgId code message = .ok m → Built m
  | sendMessageRequest {m method params mid f1 f2 progress} :
      sendMessageRequest method params mid f1 f2 progress = .ok m → Built m
  | sendNotification (method params) : Built (sendNotification method params)
  | dictError (id code message data) : Built (dictError id code message data)
  | dictEmptyResult (id) : Built (dictEmptyResult id)

/-- payload well-formedness (float tokens) of a message, for the wire round trip -/
def wfObj (o : Obj) : Bool := wf (.obj o)

def wfMsg : Msg → Bool
  | .request _ _ p => (match p with | some o => wfObj o | none => true)
  | .notification _ p => (match p with | some o => wfObj o | none => true)
  | .response _ r => wf r
  | .error _ e => wfObj e

end Verif.Model.Rpc
