import Verif.Model.StdioIn

/-! # Model of the stdio writer (`StdioClient._stdin_writer`, `transports/stdio/stdio_client.py`)

    async for message in outgoing:
        try:
            json_str = message                          if isinstance(message, str)
                     = json.dumps(message)              if isinstance(message, dict)
                     = message.model_dump_json(exclude_none=True) | json.dumps(model_dump(…)) | json.dumps(message)
            await stdin.send(f"{json_str}\n".encode())
        except Exception: continue                      -- dropped alone
    await stdin.aclose()                                -- when the outgoing stream has ended

Code points and bytes are natural numbers (as in `Model/StdioIn.lean`, whose UTF-8 encoder and
line splitter are reused: what the writer produces is what a reader on the other side splits).

The JSON value type and the encoder below are local to this model (a minimal compact / stdlib-style
encoder; floats are not modelled).  The message handed to the writer is represented by the JSON
VALUE it denotes "with absent optional members omitted"; that `model_dump_json(exclude_none=True)`
/ `json.dumps` produce a text denoting that value is sampled by the correspondence run
(Pydantic, orjson and stdlib `json` are outside the proof).
-/
namespace Verif.Model.StdioOut
open Verif.Model.StdioIn

inductive Json where
  | null
  | bool (b : Bool)
  | int (i : Int)
  | str (s : List Nat)
  | arr (xs : List Json)
  | obj (kvs : List (List Nat × Json))

/-- serialiser conventions: `orjson` / pydantic-core (compact, raw UTF-8) or stdlib `json.dumps`
defaults (`", "`, `": "`, `ensure_ascii`) -/
structure Style where
  itemSep : List Nat
  kvSep : List Nat
  ascii : Bool

def Style.compact : Style := { itemSep := [44], kvSep := [58], ascii := false }
def Style.std : Style := { itemSep := [44, 32], kvSep := [58, 32], ascii := true }

def hex (n : Nat) : Nat := if n < 10 then 48 + n else 87 + n

/-- `\uXXXX` -/
def u4 (n : Nat) : List Nat := [92, 117, hex (n / 4096 % 16), hex (n / 256 % 16), hex (n / 16 % 16), hex (n % 16)]

def escChar (ascii : Bool) (c : Nat) : List Nat :=
  if c = 34 then [92, 34] else if c = 92 then [92, 92]
  else if c = 10 then [92, 110] else if c = 13 then [92, 114] else if c = 9 then [92, 116]
  else if c = 8 then [92, 98] else if c = 12 then [92, 102]
  else if c < 32 then u4 c
  else if ascii && 128 ≤ c then
    (if c < 0x10000 then u4 c else u4 (0xD800 + (c - 0x10000) / 1024) ++ u4 (0xDC00 + (c - 0x10000) % 1024))
  else [c]

def encStr (ascii : Bool) (s : List Nat) : List Nat := 34 :: (s.flatMap (escChar ascii) ++ [34])

/-- decimal digits of a natural number -/
def natDigits (n : Nat) : List Nat :=
  if h : n < 10 then [48 + n] else natDigits (n / 10) ++ [48 + n % 10]
termination_by n
decreasing_by omega

def intText (i : Int) : List Nat :=
  if i < 0 then 45 :: natDigits i.natAbs else natDigits i.toNat

mutual
def enc (sty : Style) : Json → List Nat
  | .null => [110, 117, 108, 108]
  | .bool true => [116, 114, 117, 101]
  | .bool false => [102, 97, 108, 115, 101]
  | .int i => intText i
  | .str s => encStr sty.ascii s
  | .arr xs => 91 :: (encList sty xs ++ [93])
  | .obj kvs => 123 :: (encKvs sty kvs ++ [125])
def encList (sty : Style) : List Json → List Nat
  | [] => []
  | [x] => enc sty x
  | x :: y :: xs => enc sty x ++ (sty.itemSep ++ encList sty (y :: xs))
def encKvs (sty : Style) : List (List Nat × Json) → List Nat
  | [] => []
  | [(k, v)] => encStr sty.ascii k ++ (sty.kvSep ++ enc sty v)
  | (k, v) :: kv :: kvs => encStr sty.ascii k ++ (sty.kvSep ++ (enc sty v ++ (sty.itemSep ++ encKvs sty (kv :: kvs))))
end

/-- what is put on the write stream -/
inductive Outbound where
  /-- a typed message or a plain dict, by the JSON value it denotes (absent optional members omitted) -/
  | value (v : Json)
  /-- a pre-serialised string: forwarded verbatim -/
  | raw (s : List Nat)
  /-- an object no serialiser accepts -/
  | unserialisable

/-- `json_str`, or `none` when serialisation raises -/
def ser (sty : Style) : Outbound → Option (List Nat)
  | .value v => some (enc sty v)
  | .raw s => some s
  | .unserialisable => none

/-- the `send()` calls on the child's stdin, in order: `f"{json_str}\n".encode()` per accepted item -/
def sends (sty : Style) (items : List Outbound) : List (List Nat) :=
  items.filterMap (fun it => (ser sty it).map (fun l => encode (l ++ [LF])))

/-- the bytes the child receives -/
def childBytes (sty : Style) (items : List Outbound) : List Nat := (sends sty items).flatten

structure Obs where
  bytes : List Nat
  /-- `stdin.aclose()` was called (after all sends) -/
  stdinClosed : Bool

/-- the writer over a whole life of the write stream: `closed` = the stream was closed by the
caller (the loop ends only then) -/
def writer (sty : Style) (items : List Outbound) (closed : Bool) : Obs :=
  { bytes := childBytes sty items, stdinClosed := closed }

/-! ## Two writers

The child's stdin has TWO writers: the outgoing-stream writer task above, and the stdout reader
task, which writes one error line per batch it rejects (`_send_error_response`:
`stdin.send(f"{json.dumps(error)}\n".encode())`).  A `send()` appends its bytes to the pipe as a
unit; the two tasks interleave at `send()` granularity, in an order chosen by the scheduler. -/

/-- `m` is an interleaving of `a` and `b` (both orders preserved) -/
inductive Interleaving {α : Type} : List α → List α → List α → Prop where
  | nil : Interleaving [] [] []
  | left {a b m : List α} (x : α) : Interleaving a b m → Interleaving (x :: a) b (x :: m)
  | right {a b m : List α} (y : α) : Interleaving a b m → Interleaving a (y :: b) (y :: m)

/-- executable interleaving: schedule bits, `true` = the next `send()` is the writer task's; what an
exhausted schedule leaves over is appended (writer first) -/
def mergeAll {α : Type} : List Bool → List α → List α → List α
  | _, [], b => b
  | _, a, [] => a
  | [], a, b => a ++ b
  | true :: s, x :: a, b => x :: mergeAll s a b
  | false :: s, a, y :: b => y :: mergeAll s a b

/-- the reader task's `send()` calls: one complete line per rejected batch; the error object is a
JSON value serialised by the same `json.dumps` -/
def rejectionSends (sty : Style) (rejs : List Json) : List (List Nat) := sends sty (rejs.map Outbound.value)

/-- the bytes the child receives when the two tasks' sends are interleaved by `sched` -/
def childBytes2 (sty : Style) (items : List Outbound) (rejs : List Json) (sched : List Bool) : List Nat :=
  (mergeAll sched (sends sty items) (rejectionSends sty rejs)).flatten

/-- no raw line break (LF or CR) -/
def NoBreak (l : List Nat) : Prop := LF ∉ l ∧ CR ∉ l

/-- the guard of the property: a caller-supplied string is a *single-line* pre-serialised message -/
def Guarded : Outbound → Prop
  | .raw s => NoBreak s
  | _ => True

end Verif.Model.StdioOut
