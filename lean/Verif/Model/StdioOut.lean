import Verif.Model.StdioIn
import Verif.Model.Json
import Verif.Model.Rpc
import Verif.Model.Carrier

/-! # Model of the stdio writer (`StdioClient._stdin_writer`, `transports/stdio/stdio_client.py`)

    async for message in outgoing:
        try:
            json_str = message                          if isinstance(message, str)
                     = json.dumps(message)              if isinstance(message, dict)
                     = message.model_dump_json(exclude_none=True) | json.dumps(model_dump(…)) | json.dumps(message)
            await stdin.send(f"{json_str}\n".encode())
        except Exception: continue                      -- dropped alone
    await stdin.aclose()                                -- when the outgoing stream has ended

JSON values, the encoders (`Json.enc st`, every separator / `ensure_ascii` style) and the decoder
are the shared ones of `Model/Json.lean` (C17); a typed envelope is an `Rpc.Msg` and its wire
object is `Rpc.emit m` ("absent optional members omitted", C02).  Texts are `List Char` (Unicode
scalar values); bytes are natural numbers as in `Model/StdioIn.lean`, whose UTF-8 encoder and line
splitter are reused: what the writer produces is what a reader on the other side splits.

That `model_dump_json(exclude_none=True)` writes `Json.enc st (Rpc.emit m)` for some style, and
`json.dumps(d)` writes `Json.enc st d`, is the subject of C02 / C17 and is sampled here by the
correspondence run (Pydantic, orjson and stdlib `json` are outside the proof).
-/
namespace Verif.Model.StdioOut
open Verif.Model.StdioIn Verif.Model.Json
open Verif.Model.Carrier (codes chars)

/-- what is put on the write stream -/
inductive Outbound where
  /-- a plain dict (or any JSON-able object), by its JSON value -/
  | value (v : Json)
  /-- a typed envelope (`JSONRPCRequest/Notification/Response/Error`, legacy `JSONRPCMessage`) -/
  | typed (m : Rpc.Msg)
  /-- a pre-serialised string: forwarded verbatim -/
  | raw (s : List Char)
  /-- an object no serialiser accepts (or a string that cannot be encoded as UTF-8) -/
  | unserialisable

/-- `json_str`, or `none` when serialisation raises -/
def ser (st : Style) : Outbound → Option (List Char)
  | .value v => some (enc st v)
  | .typed m => some (enc st (Rpc.emit m))
  | .raw s => some s
  | .unserialisable => none

/-- the JSON value an accepted typed / dict message denotes: the message with absent optional
members omitted -/
def valueOf : Outbound → Option Json
  | .value v => some v
  | .typed m => some (Rpc.emit m)
  | _ => none

/-- the `send()` calls on the child's stdin, in order: `f"{json_str}\n".encode()` per accepted item -/
def sends (sty : Style) (items : List Outbound) : List (List Nat) :=
  items.filterMap (fun it => (ser sty it).map (fun l => encode (codes l ++ [LF])))

/-- the bytes the child receives -/
def childBytes (sty : Style) (items : List Outbound) : List Nat := (sends sty items).flatten

structure Obs where
  bytes : List Nat
  /-- `stdin.aclose()` was called (after all sends) -/
  stdinClosed : Bool

/-- the writer over a whole life of the write stream: `closed` = the stream was closed by the
caller (the loop ends only then) -/
def writer (sty : Style) (items : List Outbound) (closed : Bool) : Obs :=
  { bytes := childBytes sty items, stdinClosed := closed }

/-! ## Two writers

The child's stdin has TWO writers: the outgoing-stream writer task above, and the stdout reader
task, which writes one error line per batch it rejects (`_send_error_response`:
`stdin.send(f"{json.dumps(error)}\n".encode())`).  A `send()` appends its bytes to the pipe as a
unit; the two tasks interleave at `send()` granularity, in an order chosen by the scheduler. -/

/-- `m` is an interleaving of `a` and `b` (both orders preserved) -/
inductive Interleaving {α : Type} : List α → List α → List α → Prop where
  | nil : Interleaving [] [] []
  | left {a b m : List α} (x : α) : Interleaving a b m → Interleaving (x :: a) b (x :: m)
  | right {a b m : List α} (y : α) : Interleaving a b m → Interleaving a (y :: b) (y :: m)

/-- executable interleaving: schedule bits, `true` = the next `send()` is the writer task's; what an
exhausted schedule leaves over is appended (writer first) -/
def mergeAll {α : Type} : List Bool → List α → List α → List α
  | _, [], b => b
  | _, a, [] => a
  | [], a, b => a ++ b
  | true :: s, x :: a, b => x :: mergeAll s a b
  | false :: s, a, y :: b => y :: mergeAll s a b

/-- the reader task's `send()` calls: one complete line per rejected batch; the error object is a
JSON value serialised by the same `json.dumps` -/
def rejectionSends (sty : Style) (rejs : List Json) : List (List Nat) := sends sty (rejs.map Outbound.value)

/-- the bytes the child receives when the two tasks' sends are interleaved by `sched` -/
def childBytes2 (sty : Style) (items : List Outbound) (rejs : List Json) (sched : List Bool) : List Nat :=
  (mergeAll sched (sends sty items) (rejectionSends sty rejs)).flatten

/-- no raw line break (LF or CR) -/
def OneLine (l : List Char) : Prop := '\n' ∉ l ∧ '\r' ∉ l

/-- the guards of the property: a caller-supplied string is a *single-line* pre-serialised message;
float tokens inside payloads are well-formed JSON numbers (floats are opaque, as in C17) -/
def Guarded : Outbound → Prop
  | .value v => wf v = true
  | .typed m => Rpc.wfMsg m = true
  | .raw s => OneLine s
  | .unserialisable => True

/-- one received line back to a value: UTF-8 decoding (the reader model's decoder) then `Json.dec` -/
def decLine (bytes : List Nat) : Option Json :=
  match decBytes [] bytes with
  | .ok (cs, []) => dec (chars cs)
  | _ => none

/-- what the child must find on the line of an item: `some (some v)` = a line decoding to `v`,
`some (dec s)` for a pre-serialised string (whatever it denotes), `none` = no line -/
def decoded : Outbound → Option (Option Json)
  | .value v => some (some v)
  | .typed m => some (some (Rpc.emit m))
  | .raw s => some (dec s)
  | .unserialisable => none

/-! ## Several connections, and other users of the serialiser, in one process

`sendsTagged`: outbound items of several live connections put on their write streams in any
alternation (tag = connection); every connection has its own writer task and its own child.
`Call`: the process also serialises other things (`fast_json.dumps(v, indent=…, sort_keys=…)` by the
server side, by tools, …) between the writer's messages; the serialiser keeps no state between
calls (its option word is a local of each call), so such calls produce their own text and nothing else. -/

def sendsTagged (st : Style) (items : List (Nat × Outbound)) (i : Nat) : List (List Nat) :=
  sends st (items.filterMap (fun p => if p.1 = i then some p.2 else none))

/-- stateful play of the same history: one pipe per connection, appended to in history order -/
def playTagged (st : Style) : (Nat → List (List Nat)) → List (Nat × Outbound) → (Nat → List (List Nat))
  | pipes, [] => pipes
  | pipes, (i, it) :: rest =>
    let add := match ser st it with
      | some l => [encode (codes l ++ [LF])]
      | none => []
    playTagged st (fun j => if j = i then pipes j ++ add else pipes j) rest

structure Kw where
  indent : Bool
  sortKeys : Bool

inductive Call where
  /-- somebody else's `fast_json.dumps(v, **kw)` -/
  | dumps (kw : Kw) (v : Json)
  /-- the next message of the write stream -/
  | message (it : Outbound)

/-- what reaches the child over a history of calls: only the writer's messages, each serialised with
the writer's own (default) arguments -/
def playCalls (st : Style) : List Call → List (List Nat)
  | [] => []
  | .dumps _ _ :: rest => playCalls st rest
  | .message it :: rest =>
    (match ser st it with
      | some l => [encode (codes l ++ [LF])]
      | none => []) ++ playCalls st rest

def messagesOf : List Call → List Outbound
  | [] => []
  | .dumps _ _ :: rest => messagesOf rest
  | .message it :: rest => it :: messagesOf rest

/-! ## A child that is slow, or stalls, before it reads

The writer hands every line to the pipe exactly once and then waits for as long as the child takes
(there is no timeout and no retry in the code).  `playDelayed` gives each `send()` the time the child
lets it wait; the result is the elapsed time and the sends the child finds in its pipe. -/

def playDelayed (st : Style) : List (Outbound × Nat) → Nat × List (List Nat)
  | [] => (0, [])
  | (it, wait) :: rest =>
    let r := playDelayed st rest
    match ser st it with
    | some l => (wait + r.1, encode (codes l ++ [LF]) :: r.2)
    | none => r          -- nothing is written, nothing is waited for

/-! ## Entry guards (`StdioClient.__init__`, `_ensure_streams_initialized`, `StdioTransport`)

    __init__:  if not server.command: raise ValueError ; if not isinstance(server.args, (list, tuple)): raise ValueError
    get_streams / send_json / _route_message / _stdin_writer:  if not self._streams_initialized: raise RuntimeError
    StdioTransport.get_streams: if not self._client: raise RuntimeError
    StdioTransport.__aexit__ / set_protocol_version without a client: nothing happens

`_streams_initialized` is set by the first `__aenter__` and never cleared. -/

inductive GuardErr where
  | valueError
  | runtimeError
  deriving DecidableEq, Repr

/-- `StdioClient(server)` -/
def ctorCheck (commandNonEmpty argsIsSequence : Bool) : Except GuardErr Unit :=
  if !commandNonEmpty then .error .valueError
  else if !argsIsSequence then .error .valueError
  else .ok ()

/-- what has been done with the object so far -/
inductive LifeOp where
  | enter | exit
  deriving DecidableEq, Repr

/-- `_streams_initialized` after a history of enter / exit -/
def initialized (h : List LifeOp) : Bool := h.contains .enter

/-- `client.get_streams()` / `send_json` / … after history `h` -/
def useStreams (h : List LifeOp) : Except GuardErr Unit :=
  if initialized h then .ok () else .error .runtimeError

/-- `StdioTransport`: `_client` is set by `__aenter__` and cleared by `__aexit__` -/
def transportHasClient (h : List LifeOp) : Bool := h.getLast? == some .enter

def transportGetStreams (h : List LifeOp) : Except GuardErr Unit :=
  if transportHasClient h then .ok () else .error .runtimeError

end Verif.Model.StdioOut
