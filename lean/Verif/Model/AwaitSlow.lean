import Verif.Model.Await
/-! # The receive loop with progress callbacks that take time

`Model/Await.lean` treats the caller's progress callback as instantaneous.  The callback is awaited
inside the receive loop (outside the poll's sub-timeout, inside the request's deadline scope): while it
runs nothing is read; when it returns the loop goes on from that instant; a callback still running
at the deadline is cut off there.  `loopD` is the loop of `Model/Await.lean` with one change: after
the `k`-th callback invocation (counted from 0) the clock has advanced by `dur k` ticks. -/
namespace Verif.Model.AwaitSlow
open Verif.Model.Await
variable {α : Type}

def loopD (isRetryable : Int → Bool) (cfg : Cfg α) (dur : Nat → Nat) (t : Nat) (ev : List (Nat × In α))
    (ws : List Write) (cbs : List (α × Option α × Option α)) (n : Nat) : Obs α :=
  if cfg.D ≤ t then ⟨.timedOut, cfg.D, ws, cbs, n⟩
  else if cancelVisible cfg t then onCancel cfg t ws cbs n
  else
    let lim := min (t + cfg.P) cfg.D
    match ev with
    | [] =>
      if cfg.D ≤ t + cfg.P then ⟨.timedOut, cfg.D, ws, cbs, n⟩
      else loopD isRetryable cfg dur (t + cfg.P) [] ws cbs n
    | (a, m) :: rest =>
      if a ≤ t ∨ arrivesInTime cfg a lim then
        let t' := max a t
        match classify cfg m with
        | .ret p => ⟨.returned p, t', ws, cbs, n + 1⟩
        | .raise c msg => ⟨errOutcome isRetryable c msg, t', ws, cbs, n + 1⟩
        | .progress args => loopD isRetryable cfg dur (t' + dur cbs.length) rest ws (cbs ++ [args]) (n + 1)
        | .skip => loopD isRetryable cfg dur t' rest ws cbs (n + 1)
      else if cfg.D ≤ t + cfg.P then ⟨.timedOut, cfg.D, ws, cbs, n⟩
      else loopD isRetryable cfg dur (t + cfg.P) ((a, m) :: rest) ws cbs n
termination_by (ev.length, cfg.D - t)
decreasing_by
  all_goals simp_wf
  all_goals first
    | (apply Prod.Lex.right; have := cfg.hP; omega)
    | (apply Prod.Lex.left; simp)

/-- `send_message` with callbacks that take time -/
def runD (isRetryable : Int → Bool) (cfg : Cfg α) (dur : Nat → Nat) (ev : List (Nat × In α)) : Obs α :=
  if cfg.preCancelled then ⟨.cancelled, 0, [.cancelNotif], [], 0⟩
  else loopD isRetryable cfg dur 0 ev [.request] [] 0

end Verif.Model.AwaitSlow
