import Verif.Gen.Versions

/-! # Model of protocol-version negotiation (C03 client side, C04 server side)

Hand-written, executable, total.  Every function takes the supported-version list as a
PARAMETER (the theorems hold for arbitrary lists); `Props/C03.lean` / `Props/C04.lean`
additionally instantiate them with the constants regenerated from `/repo` in
`Gen/Versions.lean`.

Client: `send_initialize` / `send_initialize_with_client_tracking`
(`protocol/messages/initialize/send_messages.py`).
Server: `ProtocolHandler._handle_initialize` (`server/protocol_handler.py`) in its REPAIRED
form (fixes/C04-never-echo-unsupported-version.diff): the pinned code echoes whatever was
requested, which is the violation of C04 the check reports.
-/
namespace Verif.Model.Version

/-! ## Client -/

/-- `preferred_version if preferred_version and preferred_version in supported_versions
else supported_versions[0]`; `none` = the `IndexError` of an empty list.  A preferred `""`
is falsy in Python. -/
def proposed (sup : List String) (pref : Option String) : Option String :=
  match pref with
  | some p => if p ≠ "" ∧ p ∈ sup then some p else sup.head?
  | none => sup.head?

/-- What the peer does with the initialize request. -/
inductive Answer where
  /-- a well-formed `InitializeResult` whose `protocolVersion` is the string `s` -/
  | version (s : String)
  /-- a result that `InitializeResult.model_validate` rejects -/
  | malformed
  /-- a JSON-RPC error response (message member present or not) -/
  | rpcError (code : Int) (msg : Option String)
  /-- no answer before the deadline -/
  | silence
  /-- the peer closes the read side without answering (`EndOfStream`) -/
  | closed
  deriving Repr, DecidableEq

/-- A message put on the write stream. -/
inductive Wire where
  | initialize (v : String)
  | initialized
  deriving Repr, DecidableEq

/-- Transcript entry: a write (the client starts sending `w`; with a write side that accepts at
once this is also the hand-over), the instant the peer's answer is delivered, or the instant
the write side takes the pending notification off the client's hands (`handed`, only in the
models with an explicit write side, `clientInitW` below). -/
inductive Ev where
  | sent (w : Wire)
  | answered
  | handed
  deriving Repr, DecidableEq

inductive Outcome where
  /-- returned an `InitializeResult` with this `protocolVersion` -/
  | ok (v : String)
  /-- `VersionMismatchError` -/
  | mismatch
  /-- the result did not validate (any other exception) -/
  | invalid
  /-- the JSON-RPC error was re-raised (`RetryableError` / `NonRetryableError`) with this code -/
  | rpcFailed (code : Int)
  /-- `TimeoutError` -/
  | timedOut
  /-- `IndexError`: nothing to propose -/
  | noVersions
  /-- the call has not returned: its send of the notification is still pending -/
  | blocked
  /-- a stream operation raised (`EndOfStream`, `BrokenResourceError`, `ClosedResourceError`) -/
  | transportFailed
  deriving Repr, DecidableEq

/-- `needle in hay` on character lists -/
def hasInfix (needle : List Char) : List Char → Bool
  | [] => needle.isEmpty
  | c :: cs => needle.isPrefixOf (c :: cs) || hasInfix needle cs

/-- `"protocol version" in str(e).lower()` (the text around the server's message inside
`str(e)` cannot contribute to a match) -/
def mentionsVersion (msg : String) : Bool :=
  hasInfix "protocol version".toList (msg.toList.map Char.toLower)

/-- INVALID_PARAMS -/
def invalidParams : Int := -32602

/-- `send_initialize`: outcome and transcript. -/
def clientInit (sup : List String) (pref : Option String) (ans : Answer) : Outcome × List Ev :=
  match proposed sup pref with
  | none => (.noVersions, [])
  | some p =>
    let req := Ev.sent (.initialize p)
    match ans with
    | .silence => (.timedOut, [req])
    | .closed => (.transportFailed, [req])
    | .malformed => (.invalid, [req, .answered])
    | .rpcError code msg =>
      if code = invalidParams ∧ (msg.map mentionsVersion).getD false = true then
        (.mismatch, [req, .answered])
      else (.rpcFailed code, [req, .answered])
    | .version s =>
      if s = p ∨ s ∈ sup then (.ok s, [req, .answered, .sent .initialized])
      else (.mismatch, [req, .answered])

/-! ### Write side with backpressure

`write_stream.send` is a rendezvous: it completes when the write side (an unbuffered or full
memory stream whose reader is the transport / the peer) takes the item.  `send_initialize`
awaits that send with no bound of its own, so it returns only after the hand-over. -/

/-- What the write side does with the notification once the client starts sending it:
take it `delay` ticks later, never, or refuse it (the peer closed that direction after
answering: the send raises). -/
inductive WriteSide where
  | accepts (delay : Nat)
  | never
  | refuses
  deriving Repr, DecidableEq

/-- `send_initialize` against an explicit write side (blocking send, as in the code). -/
def clientInitW (sup : List String) (pref : Option String) (ans : Answer) (w : WriteSide) :
    Outcome × List Ev :=
  match clientInit sup pref ans with
  | (.ok v, t) =>
    match w with
    | .accepts _ => (.ok v, t ++ [.handed])
    | .never => (.blocked, t)
    | .refuses => (.transportFailed, t)
  | r => r

/-- COUNTER-MODEL (not the code): the send wrapped in `move_on_after(T)` — the pending send is
silently abandoned at the deadline and the call still returns the result.  `eventsFirst` is the
order at the instant `delay = T`. -/
def clientInitMoveOn (T : Nat) (eventsFirst : Bool) (sup : List String) (pref : Option String)
    (ans : Answer) (w : WriteSide) : Outcome × List Ev :=
  match clientInit sup pref ans with
  | (.ok v, t) =>
    match w with
    | .accepts d => if d < T ∨ (d = T ∧ eventsFirst = true) then (.ok v, t ++ [.handed]) else (.ok v, t)
    | .never => (.ok v, t)
    | .refuses => (.transportFailed, t)
  | r => r

/-! ### Tracked client (`send_initialize_with_client_tracking` + `BatchProcessor`) -/

def digitVal? (c : Char) : Option Nat :=
  if '0' ≤ c ∧ c ≤ '9' then some (c.toNat - '0'.toNat) else none

/-- value of a non-empty string of ASCII digits -/
def digitsVal? : List Char → Option Nat
  | [] => none
  | cs => cs.foldl (fun acc c => match acc, digitVal? c with
      | some a, some d => some (10 * a + d)
      | _, _ => none) (some 0)

def isAsciiSpace (c : Char) : Bool :=
  c = ' ' || c = '\t' || c = '\n' || c = '\r' || c = '\x0b' || c = '\x0c'

/-- `int(part)` for the spellings this model covers: ASCII digits, surrounding ASCII
whitespace ignored (as `int()` does). -/
def pyInt? (cs : List Char) : Option Nat :=
  digitsVal? ((cs.dropWhile isAsciiSpace).reverse.dropWhile isAsciiSpace).reverse

/-- `s.split("-")` on character lists -/
def splitDash : List Char → List (List Char)
  | [] => [[]]
  | c :: cs =>
    match splitDash cs with
    | [] => [[c]]   -- unreachable: the result is never empty
    | p :: ps => if c = '-' then [] :: p :: ps else (c :: p) :: ps

/-- The guards of `supports_batching` in front of its if-chain: three `-`-separated parts,
each accepted by `int()`.  Exact for parts that are ASCII digit strings, optionally surrounded
by ASCII whitespace (all the versions the C03 run drives); the other spellings `int()` accepts
(sign, underscores, non-ASCII digits) are C13's subject. -/
def parseDate (v : String) : Option (Int × Int × Int) :=
  match splitDash v.toList with
  | [a, b, c] =>
    match pyInt? a, pyInt? b, pyInt? c with
    | some y, some m, some d => some ((y : Int), (m : Int), (d : Int))
    | _, _, _ => none
  | _ => none

/-- `supports_batching(v)`: the regenerated if-chain behind the hand-modelled guards. -/
def batchingOf (parse : String → Option (Int × Int × Int)) (v : String) : Bool :=
  if v = "" then true
  else match parse v with
    | some (y, m, d) => Verif.Gen.Versions.supportsBatchingGen y m d
    | none => true

/-- State of the tracked client's batch processor: `none` = never told a version
(`protocol_version is None`, batching enabled); `some (v, mode)` after `set_protocol_version v`. -/
abbrev Tracked := Option (String × Bool)

def trackedInit (parse : String → Option (Int × Int × Int)) (sup : List String)
    (pref : Option String) (ans : Answer) : Outcome × List Ev × Tracked :=
  match clientInit sup pref ans with
  | (.ok v, t) => (.ok v, t, some (v, batchingOf parse v))
  | (o, t) => (o, t, none)

/-- One call of a sequence on the same streams / the same tracked client: the caller's list,
the preferred version, what the peer does. -/
abbrev ClientStep := List String × Option String × Answer

/-- Consecutive calls with one tracked client: each call is a fresh negotiation; the client's
batch-processor state is overwritten by a success and left alone by a failure. -/
def runClientSeq (parse : String → Option (Int × Int × Int)) :
    Tracked → List ClientStep → List (Outcome × List Ev × Tracked)
  | _, [] => []
  | tr, (sup, pref, ans) :: rest =>
    let r := trackedInit parse sup pref ans
    let tr' : Tracked := match r.2.2 with
      | some x => some x
      | none => tr
    (r.1, r.2.1, tr') :: runClientSeq parse tr' rest

/-- Several connections (streams + tracked client each) alive in one process; a call names its
connection.  `trs` is the state of every connection's tracked client. -/
def runClients (parse : String → Option (Int × Int × Int)) :
    (Nat → Tracked) → List (Nat × ClientStep) → List (Nat × Outcome × List Ev × Tracked)
  | _, [] => []
  | trs, (k, sup, pref, ans) :: rest =>
    let r := trackedInit parse sup pref ans
    let tr' : Tracked := match r.2.2 with
      | some x => some x
      | none => trs k
    (k, r.1, r.2.1, tr') :: runClients parse (fun j => if j = k then tr' else trs j) rest

/-! ## Server -/

/-- The `protocolVersion` member of the initialize request's params. -/
inductive Requested where
  | absent
  | str (s : String)
  /-- present but not a string (number, null, bool, list, object) -/
  | other
  deriving Repr, DecidableEq

/-- What the handler looks at: the member, or its literal default when the member is absent;
`none` = not a string. -/
def candidate (dflt : Option String) : Requested → Option String
  | .absent => dflt
  | .str s => some s
  | .other => none

/-- Repaired `_handle_initialize`: the requested version (or the handler's literal default
when the member is absent) if it is a supported string, else the latest supported version
(`CURRENT_VERSION = SUPPORTED_VERSIONS[0]`). -/
def serverAnswer (sup : List String) (dflt : Option String) (r : Requested) : String :=
  match candidate dflt r with
  | some s => if s ∈ sup then s else sup.headD ""
  | none => sup.headD ""

/-- The two places the handler puts the version: the response and the new session. -/
structure InitReply where
  answered : String
  recorded : String
  deriving Repr, DecidableEq

def handleInitialize (sup : List String) (dflt : Option String) (r : Requested) : InitReply :=
  let v := serverAnswer sup dflt r
  { answered := v, recorded := v }

/-! ### Sequences of initialize requests on one handler

The session store is modelled as the list of recorded versions; a session id is a position in
it.  Every initialize — whether or not the message is accompanied by a session id (`carry`: a
live one, a stale one, none) — creates a fresh session recording the answered version. -/

/-- One initialize of a sequence: the requested value and the session id the transport passes along. -/
abbrev InitStep := Requested × Option Nat

/-- Runs the steps from store `st`.  Per step: the answered version and what the store holds,
right after that step, under the session id returned for that step.  Also the final store. -/
def runInits (sup : List String) (dflt : Option String) :
    List String → List InitStep → List (String × Option String) × List String
  | st, [] => ([], st)
  | st, (r, _carry) :: rest =>
    let rep := handleInitialize sup dflt r
    let st' := st ++ [rep.recorded]
    let sid := st.length
    let tail := runInits sup dflt st' rest
    ((rep.answered, st'[sid]?) :: tail.1, tail.2)

/-! ### The server's free choice

The property leaves open WHICH supported version answers a request that cannot be echoed
(unsupported, malformed, non-string, absent).  `serverAnswerG` is the whole family of
conforming handlers: `choice` is the version the handler falls back to for this request
(ignored unless it is a supported one).  The code is the member of the family whose choice is
`serverAnswer sup dflt r` itself (`Props/C04.lean`, `c04_code_is_instance`); the correspondence
run instantiates `choice` with the answer it observed, so it accepts exactly the handlers that
echo supported requests and answer everything else with SOME supported version. -/

def serverAnswerG (sup : List String) (choice : String) (r : Requested) : String :=
  match r with
  | .str s => if s ∈ sup then s else (if choice ∈ sup then choice else sup.headD "")
  | _ => if choice ∈ sup then choice else sup.headD ""

def handleInitializeG (sup : List String) (choice : String) (r : Requested) : InitReply :=
  let v := serverAnswerG sup choice r
  { answered := v, recorded := v }

/-- a step of a sequence with the handler's choice for it -/
abbrev InitStepG := Requested × Option Nat × String

def runInitsG (sup : List String) :
    List String → List InitStepG → List (String × Option String) × List String
  | st, [] => ([], st)
  | st, (r, _carry, choice) :: rest =>
    let rep := handleInitializeG sup choice r
    let st' := st ++ [rep.recorded]
    let sid := st.length
    let tail := runInitsG sup st' rest
    ((rep.answered, st'[sid]?) :: tail.1, tail.2)

/-- Several handlers alive in one process; a request names its handler.  `stores` is every
handler's session store. -/
def runHandlers (sup : List String) :
    (Nat → List String) → List (Nat × InitStepG) → List (Nat × String × Option String)
  | _, [] => []
  | stores, (h, r, _carry, choice) :: rest =>
    let rep := handleInitializeG sup choice r
    let st' := stores h ++ [rep.recorded]
    (h, rep.answered, st'[(stores h).length]?) ::
      runHandlers sup (fun k => if k = h then st' else stores k) rest

/-! ### Session ids that repeat

`generate_session_id()` is an extension point: a host's subclass may hand out an id that is still
live (a counter per k creations, a short cycle, a constant).  The store is then keyed: creating a
session under a live id replaces the record under that id. -/

def storePut (st : List (Nat × String)) (k : Nat) (v : String) : List (Nat × String) :=
  (k, v) :: st.filter (fun e => e.1 ≠ k)

def storeGet (st : List (Nat × String)) (k : Nat) : Option String :=
  (st.find? (fun e => e.1 = k)).map (·.2)

/-- `gen n` is the id the n-th creation gets.  Per step: the answered version and what the store
holds, right after the step, under the id handed out for it. -/
def runInitsIds (sup : List String) (gen : Nat → Nat) :
    Nat → List (Nat × String) → List InitStepG → List (String × Option String)
  | _, _, [] => []
  | n, st, (r, _carry, choice) :: rest =>
    let rep := handleInitializeG sup choice r
    let st' := storePut st (gen n) rep.recorded
    (rep.answered, storeGet st' (gen n)) :: runInitsIds sup gen (n + 1) st' rest

def handshakeG (clientSup : List String) (pref : Option String) (serverSup : List String)
    (choice : String) : Outcome × List Ev × Option String :=
  match proposed clientSup pref with
  | none => (.noVersions, [], none)
  | some p =>
    let rep := handleInitializeG serverSup choice (.str p)
    let r := clientInit clientSup pref (.version rep.answered)
    (r.1, r.2, some rep.recorded)

/-- Library client against library server: the client's outcome and transcript, and the
version the server's session records (`none`: the request was never sent). -/
def handshake (clientSup : List String) (pref : Option String) (serverSup : List String)
    (dflt : Option String) : Outcome × List Ev × Option String :=
  match proposed clientSup pref with
  | none => (.noVersions, [], none)
  | some p =>
    let rep := handleInitialize serverSup dflt (.str p)
    let r := clientInit clientSup pref (.version rep.answered)
    (r.1, r.2, some rep.recorded)

end Verif.Model.Version
