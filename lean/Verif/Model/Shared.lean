import Verif.Model.Await

/-! # Several callers of `send_message` on ONE (read, write) pair

Each caller runs the receive loop of `Model/Await.lean` with its own id; all of them `receive()`
from the same anyio memory stream.  anyio hands an arriving item to the receiver that has been
waiting longest (`waiting_receivers` is an ordered dict; `send_nowait` pops its first entry).
A caller that consumes a message not addressed to it discards it and re-registers at the end
of the waiting order; so does a caller whose 0.5 s sub-timeout expires.

The model is a discrete-event simulation over three kinds of instants — a caller's deadline,
an arrival, a caller's poll expiry — and is exact for schedules in which no two instants
coincide (the correspondence run generates only such schedules; ties between *different*
callers' timers depend on heap order inside asyncio and are outside the model).  No
cancellation tokens, no progress callbacks (they are per caller and covered by C14). -/
namespace Verif.Model.Shared
open Verif.Model.Await

structure Caller where
  id : Id
  /-- absolute deadline tick (`start + timeout`) -/
  D : Nat
  deriving Repr

inductive St (α : Type) where
  /-- blocked in `receive()` since tick `since`; the sub-timeout expires at `expiry` -/
  | waiting (since expiry : Nat)
  | done (o : Outcome α) (t : Nat)
  deriving Repr

structure CState (α : Type) where
  caller : Caller
  st : St α
  /-- arrival ticks of the messages this caller consumed, in order -/
  got : List Nat
  deriving Repr

def St.isWaiting : St α → Bool
  | .waiting _ _ => true
  | .done _ _ => false

/-- index and value of the minimum of `f` over the waiting callers (first minimum wins) -/
def argminWaiting (f : CState α → Nat) : List (CState α) → Nat → Option (Nat × Nat)
  | [], _ => none
  | c :: cs, i =>
    let rest := argminWaiting f cs (i + 1)
    if c.st.isWaiting then
      match rest with
      | none => some (i, f c)
      | some (j, v) => if f c ≤ v then some (i, f c) else some (j, v)
    else rest

def sinceOf (c : CState α) : Nat := match c.st with | .waiting s _ => s | .done _ _ => 0
def expiryOf (c : CState α) : Nat := match c.st with | .waiting _ e => e | .done _ _ => 0

/-- what a caller does with a consumed message (no progress token: progress is skipped) -/
def classifyFor (R : Int → Bool) (c : Caller) : In α → Option (Outcome α)
  | .resp id p => if id = c.id then some (.returned p) else none
  | .err id code msg => if id = c.id then some (errOutcome R code msg) else none
  | _ => none

def deliver (R : Int → Bool) (P : Nat) (c : CState α) (a : Nat) (m : In α) : CState α :=
  match classifyFor R c.caller m with
  | some o => { c with st := .done o a, got := c.got ++ [a] }
  | none => { c with st := .waiting a (a + P), got := c.got ++ [a] }

def modifyAt (cs : List (CState α)) (i : Nat) (f : CState α → CState α) : List (CState α) :=
  match cs, i with
  | [], _ => []
  | c :: rest, 0 => f c :: rest
  | c :: rest, i + 1 => c :: modifyAt rest i f

inductive Next where
  | deadline (i t : Nat)
  | arrival
  | expiry (i t : Nat)
  | nothing

/-- the next instant; at equal instants deadlines precede arrivals precede poll expiries -/
def pick (dl : Option (Nat × Nat)) (arr : Option Nat) (ex : Option (Nat × Nat)) : Next :=
  let afterDl : Next :=
    match arr, ex with
    | none, none => .nothing
    | some _, none => .arrival
    | none, some (i, e) => .expiry i e
    | some a, some (i, e) => if a ≤ e then .arrival else .expiry i e
  match dl with
  | none => afterDl
  | some (i, d) =>
    match afterDl with
    | .nothing => .deadline i d
    | .arrival => (match arr with | some a => if d ≤ a then .deadline i d else .arrival | none => .deadline i d)
    | .expiry j e => if d ≤ e then .deadline i d else .expiry j e
    | .deadline j t => .deadline j t

/-- the simulation; `fuel` bounds the number of instants processed -/
def sim (R : Int → Bool) (P : Nat) : Nat → List (CState α) → List (Nat × In α) → List (CState α)
  | 0, cs, _ => cs
  | fuel + 1, cs, ev =>
    let dl := argminWaiting (fun c => c.caller.D) cs 0
    let ex := argminWaiting expiryOf cs 0
    match pick dl (ev.head?.map (·.1)) ex with
    | .nothing => cs
    | .deadline i _ => sim R P fuel (modifyAt cs i (fun c => { c with st := .done .timedOut c.caller.D })) ev
    | .expiry i t => sim R P fuel (modifyAt cs i (fun c => { c with st := .waiting t (t + P) })) ev
    | .arrival =>
      match ev with
      | [] => cs
      | (a, m) :: rest =>
        match argminWaiting sinceOf cs 0 with
        | none => sim R P fuel cs rest
        | some (i, _) => sim R P fuel (modifyAt cs i (fun c => deliver R P c a m)) rest

/-- callers start waiting at their start tick -/
def initState (P : Nat) (callers : List (Caller × Nat)) : List (CState α) :=
  callers.map (fun (c, start) => { caller := c, st := .waiting start (start + P), got := [] })

end Verif.Model.Shared
