import Verif.Model.Rpc

/-! # More of the JSON-RPC layer inside the model (extension of `Model/Rpc.lean`)

* the notification SENDERS' params building (`protocol/messages/notifications.py`,
  `roots/send_messages.py`): `send_progress_notification`, `send_cancelled_notification`,
  `send_roots_list_changed_notification`;
* the notification HANDLERS (`handle_*_notification` in `notifications.py`, `resources/`, `tools/`,
  `prompts/notifications.py`): guard on the method, extraction of the callback's arguments with
  their defaults; a `params` member that is present but not an object makes the real code raise
  (`None.get`), which is `.error`, never totalised away;
* `NotificationHandler` (`register`, `handle`, `register_defaults`): a dict keyed by method;
* the message-kind predicates of the legacy class (`is_request` …) and of `JSONRPCMessageWrapper`;
* `types/errors.py`: `create_error_data` / `JSONRPCError.to_json_rpc_error`,
  `VersionMismatchError` and its `from_json_rpc_error`;
* the client-side answers to server→client requests: `handle_roots_list_request`
  (`create_response(id, ListRootsResult(roots).model_dump())`),
  `SamplingHandler.handle_create_message_request` (approval → model selection → provider),
  `CompletionProvider.handle_completion_request` (handler lookup, truncation to the limit).

Python's `None` for an optional argument is `Json.null` here (as in `errObj`).
-/
namespace Verif.Model.Rpc
open Verif.Model.Json

def kProgress : Str := ['p', 'r', 'o', 'g', 'r', 'e', 's', 's']
def kTotal : Str := ['t', 'o', 't', 'a', 'l']
def kRequestId : Str := ['r', 'e', 'q', 'u', 'e', 's', 't', 'I', 'd']
def kReason : Str := ['r', 'e', 'a', 's', 'o', 'n']
def kLevel : Str := ['l', 'e', 'v', 'e', 'l']
def kLogger : Str := ['l', 'o', 'g', 'g', 'e', 'r']
def kUri : Str := ['u', 'r', 'i']
def kRoots : Str := ['r', 'o', 'o', 't', 's']
def kName : Str := ['n', 'a', 'm', 'e']
def kRole : Str := ['r', 'o', 'l', 'e']
def kContent : Str := ['c', 'o', 'n', 't', 'e', 'n', 't']
def kModel : Str := ['m', 'o', 'd', 'e', 'l']
def kStopReason : Str := ['s', 't', 'o', 'p', 'R', 'e', 'a', 's', 'o', 'n']
def kSupported : Str := ['s', 'u', 'p', 'p', 'o', 'r', 't', 'e', 'd']
def kRequested : Str := ['r', 'e', 'q', 'u', 'e', 's', 't', 'e', 'd']
def vInfo : Str := ['i', 'n', 'f', 'o']
def vUnknown : Str := ['u', 'n', 'k', 'n', 'o', 'w', 'n']
def vDefaultModel : Str := ['d', 'e', 'f', 'a', 'u', 'l', 't', '-', 'm', 'o', 'd', 'e', 'l']

/-! ## senders: the params they build -/

/-- `send_progress_notification(write_stream, progress_token, progress, total=None, message=None)` -/
def progressParams (token : Id) (progress total message : Json) : Obj :=
  [(kProgressToken, token.toJson), (kProgress, progress)] ++ member kTotal total ++ member kMessage message

def sendProgress (method : Str) (token : Id) (progress total message : Json) : Msg :=
  sendNotification method (some (progressParams token progress total message))

/-- `send_cancelled_notification(write_stream, request_id, reason=None)` -/
def cancelledParams (requestId : Id) (reason : Json) : Obj :=
  [(kRequestId, requestId.toJson)] ++ member kReason reason

def sendCancelled (method : Str) (requestId : Id) (reason : Json) : Msg :=
  sendNotification method (some (cancelledParams requestId reason))

/-- `send_roots_list_changed_notification(write_stream)`: `params={}` -/
def sendListChanged (method : Str) : Msg := sendNotification method (some [])

/-! ## handlers -/

inductive HErr where
  /-- `params` is present and not an object: `params.get(…)` raises `AttributeError` -/
  | paramsNotDict
  /-- the method is a list / object: `handlers.get(method)` raises `TypeError` (unhashable) -/
  | methodUnhashable
  deriving DecidableEq, Repr

/-- `notification.get("method") != M` is false -/
def methodIs (n : Obj) (m : Str) : Bool :=
  match getKey kMethod n with
  | some (.str s) => decide (s = m)
  | _ => false

/-- `notification.get("params", {})`, then used with `.get` -/
def paramsOf (n : Obj) : Except HErr Obj :=
  match getKey kParams n with
  | none => .ok []
  | some (.obj p) => .ok p
  | some _ => .error .paramsNotDict

/-- `d.get(k)`: `None` when absent -/
def getOrNull (k : Str) (o : Obj) : Json := (getKey k o).getD .null

/-- `d.get(k, default)` -/
def getOr (k : Str) (dflt : Json) (o : Obj) : Json := (getKey k o).getD dflt

/-- the arguments a handler passes to its callback; `none` = the callback is not called -/
abbrev Call := Option (List Json)

/-- `handle_progress_notification`: `callback(progressToken, progress (default 0), total, message)` -/
def handleProgress (m : Str) (n : Obj) : Except HErr Call :=
  if methodIs n m then
    match paramsOf n with
    | .ok p => .ok (some [getOrNull kProgressToken p, getOr kProgress (.int 0) p, getOrNull kTotal p, getOrNull kMessage p])
    | .error e => .error e
  else .ok none

/-- `handle_cancelled_notification`: `callback(requestId, reason)` -/
def handleCancelled (m : Str) (n : Obj) : Except HErr Call :=
  if methodIs n m then
    match paramsOf n with
    | .ok p => .ok (some [getOrNull kRequestId p, getOrNull kReason p])
    | .error e => .error e
  else .ok none

/-- `handle_logging_message_notification`: `callback(level (default "info"), data, logger)` -/
def handleLogging (m : Str) (n : Obj) : Except HErr Call :=
  if methodIs n m then
    match paramsOf n with
    | .ok p => .ok (some [getOr kLevel (.str vInfo) p, getOrNull kData p, getOrNull kLogger p])
    | .error e => .error e
  else .ok none

/-- the `*_list_changed` handlers: `callback()`; the params are not looked at -/
def handleListChanged (m : Str) (n : Obj) : Except HErr Call :=
  if methodIs n m then .ok (some []) else .ok none

/-- Python truthiness of a JSON value that is not a float (floats are opaque tokens in the model) -/
def truthy : Json → Bool
  | .null => false
  | .bool b => b
  | .int i => decide (i ≠ 0)
  | .flt _ => true
  | .str s => !s.isEmpty
  | .arr xs => !xs.isEmpty
  | .obj kvs => !kvs.isEmpty

/-- `handle_resources_updated_notification`: `callback(uri)` only for a truthy uri -/
def handleResourcesUpdated (m : Str) (n : Obj) : Except HErr Call :=
  if methodIs n m then
    match paramsOf n with
    | .ok p => let u := getOrNull kUri p; .ok (if truthy u then some [u] else none)
    | .error e => .error e
  else .ok none

/-! ## NotificationHandler -/

/-- `self.handlers[method] = handler` -/
def nhRegister {α : Type} (hs : List (Str × α)) (m : Str) (h : α) : List (Str × α) :=
  match hs with
  | [] => [(m, h)]
  | (m', h') :: rest => if m' = m then (m, h) :: rest else (m', h') :: nhRegister rest m h

def nhLookup {α : Type} (hs : List (Str × α)) (m : Str) : Option α :=
  match hs with
  | [] => none
  | (m', h) :: rest => if m' = m then some h else nhLookup rest m

/-- `register_defaults`: the same logging handler for every method of the list -/
def nhRegisterAll {α : Type} (hs : List (Str × α)) (ms : List Str) (h : α) : List (Str × α) :=
  ms.foldl (fun acc m => nhRegister acc m h) hs

/-- what `handle` does with a notification: which registered handler runs.  A handler that raises
is caught and logged, so the outcome is the same value whether or not it raises. -/
def nhHandle {α : Type} (hs : List (Str × α)) (n : Obj) : Except HErr (Option α) :=
  match getKey kMethod n with
  | none => .ok none
  | some v =>
    if truthy v then
      match v with
      | .str s => .ok (nhLookup hs s)
      | .arr _ => .error .methodUnhashable
      | .obj _ => .error .methodUnhashable
      | _ => .ok none            -- a number / boolean is hashable and never a registered key
    else .ok none

/-! ## message-kind predicates (`JSONRPCMessage.is_*`, `JSONRPCMessageWrapper.is_*` read through members) -/

def isRequest (v : View) : Bool := v.method.isSome && v.id.isSome
def isNotification (v : View) : Bool := v.method.isSome && v.id.isNone
def isResponse (v : View) : Bool := v.method.isNone && v.id.isSome
def isErrorResponse (v : View) : Bool := isResponse v && v.error.isSome

/-- `JSONRPCMessage.to_specific_type()`: which envelope class the legacy message becomes;
`none` = "Invalid JSON-RPC message structure" -/
def toSpecificKind (v : View) : Option Kind :=
  if v.method.isSome then (if v.id.isSome then some .request else some .notification)
  else if v.id.isSome && v.result.isSome then some .response
  else if v.id.isSome && v.error.isSome then some .error
  else none

/-- the class of the object `parse_message` returns for one item: the legacy unified class whenever
`JSONRPCMessage.model_validate` accepts the item, a specific envelope class otherwise -/
inductive Cls where
  | legacy | request | notification | response | error
  deriving DecidableEq, Repr

def parseClass (j : Json) : Except PErr Cls :=
  match j with
  | .obj o =>
    match legacyValidate o with
    | some _ => .ok .legacy
    | none =>
      match parseMsg j with
      | .error e => .error e
      | .ok v => .ok (if v.method.isSome then (if v.id.isSome then .request else .notification)
                      else if v.error.isSome then .error else .response)
  | _ => .error .notObject

inductive BatchOut where
  | ok (n : Nat)        -- the list of parsed items is returned
  | itemError           -- an item does not parse
  | mixed               -- "Batch contains mixed request/response types"
  deriving DecidableEq, Repr

/-- `parse_message(list)`: every item is parsed, then the batch is accepted when ALL items are
instances of the request/notification classes or ALL are instances of the response/error classes.
An item that took the legacy path is an instance of neither. -/
def parseBatch (items : List Json) : BatchOut :=
  match items.mapM parseClass with
  | .error _ => .itemError
  | .ok cs =>
    if cs.all (fun c => c = .request || c = .notification) then .ok cs.length
    else if cs.all (fun c => c = .response || c = .error) then .ok cs.length
    else .mixed

/-! ## `types/errors.py` -/

/-- `create_error_data(code, message, data)` = `JSONRPCError(message, code, data).to_json_rpc_error()` -/
def errorData (code : Int) (message : Str) (data : Json) : Obj := errObj code message data

/-- `VersionMismatchError(requested, supported).to_json_rpc_error()`: the message text is built by
formatting and is an input here -/
def versionMismatchData (code : Int) (message : Str) (requested : Str) (supported : List Str) : Obj :=
  errObj code message (.obj [(kSupported, .arr (supported.map .str)), (kRequested, .str requested)])

/-- `VersionMismatchError.from_json_rpc_error(error)`: `(requested, supported)` with the defaults
`"unknown"` / `[]`; `data` that is not an object raises -/
def versionMismatchFrom (error : Obj) : Except HErr (Json × Json) :=
  match getKey kData error with
  | none => .ok (.str vUnknown, .arr [])
  | some (.obj d) => .ok (getOr kRequested (.str vUnknown) d, getOr kSupported (.arr []) d)
  | some _ => .error .paramsNotDict

/-! ## answers to server→client requests -/

/-- one root as `ListRootsResult(roots=…).model_dump()` gives it: `name` stays, `null` when absent -/
def rootJson (uri : Str) (name : Json) : Json := .obj [(kUri, .str uri), (kName, name)]

/-- `handle_roots_list_request(roots, request_id)` (also `RootsManager.handle_list_request`) -/
def rootsListResponse (id : Option Id) (roots : List (Str × Json)) : Except CErr Msg :=
  createResponse id (.obj [(kRoots, .arr (roots.map fun r => rootJson r.1 r.2))])

inductive SErr where
  | rejected      -- "User rejected the sampling request"
  | noProvider    -- "No LLM provider configured"
  deriving DecidableEq, Repr

/-- the model name: the selector's answer when a selector is set AND model preferences were given -/
def selectedModel (selected : Option Json) (modelPrefs : Json) : Json :=
  match selected with
  | some s => if truthy modelPrefs then s else .str vDefaultModel
  | none => .str vDefaultModel

/-- `SamplingHandler.handle_create_message_request`: `approval` = what the approval handler answers
(`none`: no handler set), `selected` = what the model selector answers (`none`: no selector set),
`provider` = `(role, content, stopReason)` of the provider's result (`none`: no provider). -/
def samplingResult (approval : Option Bool) (selected : Option Json) (modelPrefs : Json)
    (provider : Option (Json × Json × Json)) : Except SErr Obj :=
  match approval with
  | some false => .error .rejected
  | _ =>
    match provider with
    | none => .error .noProvider
    | some (role, content, stop) =>
      .ok [(kRole, role), (kContent, content), (kModel, selectedModel selected modelPrefs), (kStopReason, stop)]

/-- the truncation of `CompletionProvider.handle_completion_request`:
`(values[:limit], total, hasMore)` with `total = None` exactly when values were cut -/
def completionResult {α : Type} (limit : Nat) (values : List α) : List α × Option Nat × Bool :=
  if values.length > limit then (values.take limit, none, true)
  else (values, some values.length, false)

/-- `pattern in uri` -/
def isInfix : Str → Str → Bool
  | p, [] => p.isEmpty
  | p, c :: cs => p.isPrefixOf (c :: cs) || isInfix p cs

/-- handler lookup: resources by the first registered pattern contained in the uri, prompts by name;
`none` = `ValueError("No completion handler found …")` -/
def completionLookup {α : Type} (resources prompts : List (Str × α)) (refType : Json) (uri name : Json) : Option α :=
  match refType with
  | .str t =>
    if t = ['r', 'e', 'f', '/', 'r', 'e', 's', 'o', 'u', 'r', 'c', 'e'] then
      match uri with
      | .str u => if u.isEmpty then none else (resources.find? fun p => isInfix p.1 u).map (·.2)
      | _ => none
    else if t = ['r', 'e', 'f', '/', 'p', 'r', 'o', 'm', 'p', 't'] then
      match name with
      | .str s => if s.isEmpty then none else nhLookup prompts s
      | _ => none
    else none
  | _ => none

/-! ## RootsManager: a dict of roots keyed by uri; every change schedules one list-changed notification -/

inductive RmOp where
  | add (uri : Str) (name : Json)
  | remove (uri : Str)
  | clear
  deriving Repr

/-- `(roots in insertion order, notifications scheduled so far)` -/
def rmStep (st : List (Str × Json) × Nat) : RmOp → List (Str × Json) × Nat
  | .add uri name => (nhRegister st.1 uri name, st.2 + 1)
  | .remove uri => if (nhLookup st.1 uri).isSome then (st.1.filter (fun r => r.1 ≠ uri), st.2 + 1) else st
  | .clear => if st.1.isEmpty then st else ([], st.2 + 1)

def rmRun (ops : List RmOp) : List (Str × Json) × Nat := ops.foldl rmStep ([], 0)

/-- ASCII lower-casing (the harness feeds ASCII to the case-insensitive form; Python's `str.lower`
on other characters is outside the model) -/
def lowerAscii (c : Char) : Char := if 65 ≤ c.toNat ∧ c.toNat ≤ 90 then Char.ofNat (c.toNat + 32) else c

/-- `complete_enum_value(current, allowed, case_sensitive)` -/
def completeEnum (caseSensitive : Bool) (cur : Str) (allowed : List Str) : List Str :=
  if caseSensitive then allowed.filter (fun v => cur.isPrefixOf v)
  else allowed.filter (fun v => (cur.map lowerAscii).isPrefixOf (v.map lowerAscii))

end Verif.Model.Rpc
