import Verif.Model.HttpDecide

/-! # The declared metadata of a reply against its bytes (C15)

C11 / C12 model a reply by what the transport has already made of it: a `CType` and a body text.
Below that abstraction a reply carries a `Content-Type` header VALUE as the server wrote it (media
type in any case, any parameters: `Application/JSON; charset=ISO-8859-1`) and bytes that may start
with a byte order mark.  JSON (RFC 8259) and event streams are UTF-8 whatever charset the label
names, media types are case-insensitive, and one leading BOM is not part of the text.  `received`
is what the transport must make of such a reply; `Verif.Lemmas.Label` proves that the spelling of
the label, its parameters and the BOM do not reach `HttpDecide`. -/

namespace Verif.Model.Label
open Verif.Model

abbrev Str := List Char

/-- U+FEFF -/
def bom : Char := Char.ofNat 0xFEFF

def lower (s : Str) : Str := s.map Char.toLower

/-- Python's `needle in hay` -/
def contains (needle : Str) : Str → Bool
  | [] => needle.isPrefixOf []
  | c :: t => needle.isPrefixOf (c :: t) || contains needle t

def jsonT : Str := "application/json".toList
def sseT : Str := "text/event-stream".toList

/-- how the Streamable HTTP transport classifies a `Content-Type` header value: the lower-cased
value contains `application/json`; else contains `text/event-stream`; else any other -/
def ctypeOf : Option Str → HttpDecide.CType
  | none => .absent
  | some h =>
    if contains jsonT (lower h) then .json
    else if contains sseT (lower h) then .sse
    else .other

/-- one leading byte order mark is not part of the text -/
def stripBom : Str → Str
  | c :: t => if c = bom then t else c :: t
  | [] => []

/-- what is free about the declared metadata of one reply -/
structure Label where
  /-- the `Content-Type` header value as written; `none`: no such header -/
  header : Option Str
  /-- the bytes start with EF BB BF -/
  bomFirst : Bool
  deriving Repr, DecidableEq

/-- the body bytes read as UTF-8 (the charset named by the label plays no part) -/
def raw (l : Label) (text : Str) : Str := if l.bomFirst then bom :: text else text

/-- the reply `r` written under the label `l`, as the transport receives it -/
def received (l : Label) (r : HttpDecide.Resp) : HttpDecide.Resp :=
  { r with ctype := ctypeOf l.header, body := { r.body with text := stripBom (raw l r.body.text) } }

abbrev Post := HttpDecide.Req × HttpDecide.Behaviour

def relabel (l : Label) : Post → Post
  | (q, .resp r) => (q, .resp (received l r))
  | p => p

/-- the label names the kind of body the reply has, and the text does not itself start with U+FEFF -/
def agrees (l : Label) : Post → Bool
  | (_, .resp r) => decide (ctypeOf l.header = r.ctype) && decide (r.body.text.head? ≠ some bom)
  | _ => true

/-- the POSTs of a conversation, each reply under its own label (POSTs beyond the labels: as they are) -/
def relabelAll : List Label → List Post → List Post
  | l :: ls, p :: ps => relabel l p :: relabelAll ls ps
  | _, ps => ps

def agreeAll : List Label → List Post → Bool
  | l :: ls, p :: ps => agrees l p && agreeAll ls ps
  | _, _ => true

end Verif.Model.Label
