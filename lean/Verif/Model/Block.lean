import Verif.Model.Label

/-! # What leaves a carrier's `async with` block (C15, supplementary)

The request helpers run INSIDE the block of `stdio_client` / `http_client` / `sse_client` (or of a
Transport object); an exception they raise and the block does not catch leaves through the context
manager's exit, which may look at it.  The exit of the stdio context managers swallows anyio's
`RuntimeError` about a cancel scope left in another task (shutdown noise).  `Exit` is that filter;
`specExit` decides by CLASS first, `textExit phrases` is the shape that decides by the exception's
TEXT alone (the text of a JSON-RPC error is the server's). -/

namespace Verif.Model.Block
open Verif.Model.Label

inductive Cls where
  | runtime     -- RuntimeError (anyio's cancel-scope complaint is one)
  | rpcError    -- RetryableError / NonRetryableError: an error reply, its text is the server's message
  | other       -- timeout, validation, version mismatch …
  deriving DecidableEq, Repr

structure Exc where
  cls : Cls
  text : Str
  deriving DecidableEq, Repr

/-- a block's exit: what the caller of the block sees (`none`: the block ends normally) -/
abbrev Exit := Exc → Option Exc

def mentions (phrases : List Str) (t : Str) : Bool := phrases.any (fun p => contains p (lower t))

/-- decides by class first: only a `RuntimeError` mentioning a phrase is noise -/
def specExit (phrases : List Str) : Exit := fun e =>
  if e.cls = .runtime && mentions phrases e.text then none else some e

/-- decides by the text alone -/
def textExit (phrases : List Str) : Exit := fun e =>
  if mentions phrases e.text then none else some e

/-- HTTP, legacy SSE and the Transport classes: the exit does not look at the exception -/
def plainExit : Exit := some

/-- what the caller of the block sees: the helper's outcome through the exit -/
def leaves (x : Exit) : Option Exc → Option Exc
  | none => none
  | some e => x e

end Verif.Model.Block
