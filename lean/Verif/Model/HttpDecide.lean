import Verif.Model.Sse
/-!
# Per-request outcome of the Streamable-HTTP transport and its sender loop

Model of `_send_message_via_http` / `_send_message_internal` / `_route_response`
(`/repo/src/chuk_mcp/transports/http/transport.py`) in their *repaired* form:

* `_route_response` routes the members of a batch array individually, in order, and drops
  whatever the library's message class does not validate (`routeAll`);
* the SSE body parser is `Sse.parseText`;
* the sender counts what it routed for a POST and synthesises one error for a request
  (`id is not None`) when that is nothing (`outcome`).

What is *not* modelled but taken as a parameter (`Dec`): JSON decoding and validation of
one JSON text by `json.loads` + `JSONRPCMessage.model_validate` (third-party code; the
driver instantiates it with Lean's JSON parser, the correspondence run ties it).  All
theorems hold for every decoder.
-/
namespace Verif.Model.HttpDecide
open Verif.Model.Sse

inductive Id where
  | int (i : Int)
  | str (s : String)
  deriving Repr, DecidableEq

/-- Python truthiness of an id: `0` and `""` are falsy -/
def Id.falsy : Id → Bool
  | .int i => i == 0
  | .str s => s == ""

inductive Kind where
  | request | notification | result | error | other
  deriving Repr, DecidableEq

/-- a validated message as delivered on the read stream; `P` is the opaque payload -/
structure Msg (P : Type) where
  kind : Kind
  id : Option Id
  payload : P
  deriving Repr, DecidableEq

/-- what appears on the read stream: a server message passed through, or a message the
    transport synthesised for the POST with the given id (an error, or the `{}` result of
    an empty 2xx body) -/
inductive Out (P : Type) where
  | pass (m : Msg P)
  | synth (id : Option Id)
  deriving Repr, DecidableEq

/-- a decoded JSON body as `_route_response` sees it -/
inductive JVal (P : Type) where
  | msg (m : Msg P)                 -- an object the message class validates
  | junk                            -- any other JSON value (scalar, invalid object)
  | arr (items : List (JVal P))     -- an array

/-- the decoder parameter: `none` = not JSON (the decoder raises) -/
structure Dec (P : Type) where
  json : Str → Option (JVal P)

mutual
/-- `_route_response`: the messages handed to the read stream for one decoded value -/
def routeAll {P : Type} : JVal P → List (Msg P)
  | .msg m => [m]
  | .junk => []
  | .arr items => routeList items
def routeList {P : Type} : List (JVal P) → List (Msg P)
  | [] => []
  | v :: vs => routeAll v ++ routeList vs
end

/-- `_process_sse_event` for one dispatched event -/
def sseEventMsgs {P : Type} (dec : Dec P) (e : Str × Str) : List (Msg P) :=
  if e.1 = "message".toList ∨ e.1 = "response".toList then
    let s := strip e.2
    if s.head? = some '{' then
      match dec.json s with
      | some v => routeAll v
      | none => []
    else []
  else []

/-- `_process_sse_text`: every message of every event, in order -/
def sseMsgs {P : Type} (dec : Dec P) (text : Str) : List (Msg P) :=
  (parseText text).flatMap (sseEventMsgs dec)

inductive CType where
  | json      -- header contains "application/json"
  | sse       -- header contains "text/event-stream"
  | other     -- any other value
  | absent    -- no Content-Type header
  deriving Repr, DecidableEq

/-- `needle in text` -/
def hasInfix (needle : Str) : Str → Bool
  | [] => needle.isPrefixOf []
  | c :: cs => needle.isPrefixOf (c :: cs) || hasInfix needle cs

/-- the class of a `Content-Type` header as the transport decides it: lower-cased (media types are
    case-insensitive), then by substring -/
def ctypeOf : Option Str → CType
  | none => .absent
  | some h =>
    let l := h.map Char.toLower
    if hasInfix "application/json".toList l then .json
    else if hasInfix "text/event-stream".toList l then .sse
    else .other

/-- a response body: `response.text` (decoded with replacement characters) and whether the
    bytes are valid UTF-8 (`response.json()` raises `UnicodeDecodeError` otherwise) -/
structure Body where
  text : Str
  utf8 : Bool
  deriving Repr, DecidableEq

structure Resp where
  status : Nat
  ctype : CType
  session : Option String      -- `Mcp-Session-Id` response header
  body : Body
  deriving Repr, DecidableEq

inductive Exc where
  | timeout    -- `asyncio.TimeoutError`
  | other      -- any other exception of `client.post` (connect error, read timeout, protocol error …)
  deriving Repr, DecidableEq

/-- one way an endpoint can answer a POST -/
inductive Behaviour where
  | exc (e : Exc)
  | resp (r : Resp)
  deriving Repr, DecidableEq

def looksSse (t : Str) : Bool := "event:".toList.isPrefixOf t || "data:".toList.isPrefixOf t

/-- `not message_id` -/
def idFalsy : Option Id → Bool
  | none => true
  | some i => i.falsy

/-- `_send_message_internal`: what it routes for one POST -/
def internal {P : Type} (dec : Dec P) (id : Option Id) : Behaviour → List (Out P)
  | .exc _ => [.synth id]
  | .resp r =>
    if r.status ≥ 400 then [.synth id]
    else match r.ctype with
      | .json =>
        if r.body.utf8 then
          match dec.json r.body.text with
          | none => [.synth id]                    -- JSONDecodeError → −32700
          | some v => (routeAll v).map .pass
        else [.synth id]                           -- UnicodeDecodeError → generic handler
      | .sse => (sseMsgs dec r.body.text).map .pass
      | _ =>
        if r.body.text = [] then
          (if idFalsy id then [] else [.synth id]) -- `{}` result for a request
        else if looksSse r.body.text then (sseMsgs dec r.body.text).map .pass
        else match dec.json r.body.text with
          | some v => (routeAll v).map .pass
          | none => if r.status = 202 then [] else [.synth id]

/-- `_send_message_via_http`: a request always ends with one terminal message -/
def outcome {P : Type} (dec : Dec P) (id : Option Id) (b : Behaviour) : List (Out P) :=
  let o := internal dec id b
  if id.isSome && o.isEmpty then [.synth id] else o

/-! ## The sender loop -/

structure Req where
  id : Option Id           -- id of the POSTed message (`none` = notification)
  deriving Repr, DecidableEq

/-- a POSTed message with its method: carried along so that "the method does not matter" is a statement -/
structure ReqM where
  id : Option Id
  method : String
  deriving Repr, DecidableEq

/-- `_session_id` after one answer: updated on a non-error status carrying the header -/
def sessionAfter (s : Option String) : Behaviour → Option String
  | .exc _ => s
  | .resp r => if r.status ≥ 400 then s else match r.session with
    | some v => some v
    | none => s

/-- the `Mcp-Session-Id` request header (`if self._session_id:`) -/
def hdr : Option String → Option String
  | some v => if v = "" then none else some v
  | none => none

structure Trace (P : Type) where
  outs : List (Out P)               -- read-stream transcript
  hdrs : List (Option String)       -- session header of each POST
  session : Option String           -- `_session_id` at the end

/-- `_outgoing_message_handler`: a fold over the POSTed messages and the server's answers -/
def run {P : Type} (dec : Dec P) (s : Option String) : List (Req × Behaviour) → Trace P
  | [] => { outs := [], hdrs := [], session := s }
  | (r, b) :: rest =>
    let t := run dec (sessionAfter s b) rest
    { outs := outcome dec r.id b ++ t.outs, hdrs := hdr s :: t.hdrs, session := t.session }

/-- the sender loop on messages that carry their method: the method is not consulted -/
def runM {P : Type} (dec : Dec P) (s : Option String) (rs : List (ReqM × Behaviour)) : Trace P :=
  run dec s (rs.map (fun p => (({ id := p.1.id } : Req), p.2)))

/-! ## Options, and several transports in one process

`StreamableHTTPParameters` carries options the transport stores but never consults when it turns
an answer into messages (`enable_streaming`, `max_retries`, `retry_delay`, `timeout`, `user_agent`,
`max_concurrent_requests`): the model takes them as an explicit argument so that "the option does
not matter" is a statement.  Several transports alive in one process are a timeline of POSTs tagged
with the instance they belong to; the only state is per instance (`σ`). -/

structure Options where
  enableStreaming : Bool := true
  maxRetries : Nat := 3
  retryDelayMs : Nat := 1000
  timeoutMs : Nat := 60000
  maxConcurrent : Nat := 10
  userAgent : String := "chuk-mcp/1.0.0"
  deriving Repr, DecidableEq

/-- the sender loop under given options -/
def runWith {P : Type} (_o : Options) (dec : Dec P) (s : Option String) (rs : List (Req × Behaviour)) : Trace P :=
  run dec s rs

/-- per-request view of `run`: what each POST delivers and the session header it carries -/
def runSteps {P : Type} (dec : Dec P) (s : Option String) : List (Req × Behaviour) → List (List (Out P) × Option String)
  | [] => []
  | (r, b) :: rest => (outcome dec r.id b, hdr s) :: runSteps dec (sessionAfter s b) rest

/-- instances interleaved in one process: every POST is tagged with its instance -/
def runInterleaved {P : Type} (dec : Dec P) (σ : Nat → Option String) :
    List (Nat × Req × Behaviour) → List (Nat × List (Out P) × Option String)
  | [] => []
  | (i, r, b) :: rest =>
    (i, outcome dec r.id b, hdr (σ i)) ::
      runInterleaved dec (fun j => if j = i then sessionAfter (σ j) b else σ j) rest

/-- the POSTs of instance `i` -/
def ofInstance (i : Nat) (evs : List (Nat × Req × Behaviour)) : List (Req × Behaviour) :=
  evs.filterMap (fun e => if e.1 = i then some e.2 else none)

/-! ## Closing the connection

`__aexit__` cancels the sender task (the POST in flight is abandoned, queued messages are never
taken), then closes the read stream's sending end: a reader gets what was routed so far and
then end-of-stream.  Timeline model: POSTs that complete, and the moment of `close`. -/

inductive Ev where
  | post (r : Req) (b : Behaviour)   -- a message taken from the write stream whose POST completes
  | close                            -- `__aexit__`
  deriving Repr, DecidableEq

structure CTrace (P : Type) where
  outs : List (Out P)
  hdrs : List (Option String)
  closed : Bool                      -- the reader sees end-of-stream after `outs`

def runEvents {P : Type} (dec : Dec P) (s : Option String) : List Ev → CTrace P
  | [] => { outs := [], hdrs := [], closed := false }
  | .close :: _ => { outs := [], hdrs := [], closed := true }
  | .post r b :: rest =>
    let t := runEvents dec (sessionAfter s b) rest
    { outs := outcome dec r.id b ++ t.outs, hdrs := hdr s :: t.hdrs, closed := t.closed }

/-- the POSTs that completed before the connection was closed -/
def beforeClose : List Ev → List (Req × Behaviour)
  | [] => []
  | .close :: _ => []
  | .post r b :: rest => (r, b) :: beforeClose rest

/-- the requests outstanding at close (in flight or still queued) -/
def outstanding : List Ev → List Req
  | [] => []
  | .close :: rest => rest.filterMap (fun e => match e with | .post r _ => some r | .close => none)
  | .post _ _ :: rest => outstanding rest

/-! ## Specification-side notions (independent of `internal`) -/

/-- the JSON-RPC messages a response body contains, in order -/
def contained {P : Type} (dec : Dec P) (r : Resp) : List (Msg P) :=
  match r.ctype with
  | .json => if r.body.utf8 then (match dec.json r.body.text with | some v => routeAll v | none => []) else []
  | .sse => sseMsgs dec r.body.text
  | _ => if looksSse r.body.text then sseMsgs dec r.body.text
         else match dec.json r.body.text with | some v => routeAll v | none => []

/-- error status, empty or malformed body (no message in it), connection failure, timeout -/
def Failure {P : Type} (dec : Dec P) : Behaviour → Prop
  | .exc _ => True
  | .resp r => r.status ≥ 400 ∨ contained dec r = []

instance {P : Type} [DecidableEq P] (dec : Dec P) : (b : Behaviour) → Decidable (Failure dec b)
  | .exc _ => isTrue trivial
  | .resp r => inferInstanceAs (Decidable (r.status ≥ 400 ∨ contained dec r = []))

/-- a terminal message for request `id`: a passed-through result/error with that id, or a
    synthesised one -/
def Out.terminalFor {P : Type} (id : Id) : Out P → Bool
  | .pass m => (m.kind = .result ∨ m.kind = .error) && m.id = some id
  | .synth i => i = some id

/-- the id a delivered message carries -/
def Out.id? {P : Type} : Out P → Option Id
  | .pass m => m.id
  | .synth i => i

/-- session ids issued by the answers: header on a non-error status -/
def issued : List (Req × Behaviour) → List String
  | [] => []
  | (_, .resp r) :: rest => if r.status ≥ 400 then issued rest else match r.session with
    | some v => v :: issued rest
    | none => issued rest
  | (_, .exc _) :: rest => issued rest

end Verif.Model.HttpDecide
