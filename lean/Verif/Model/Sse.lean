/-!
# SSE text parser of the Streamable-HTTP transport and a conformant renderer

Model of `_process_sse_text` (`/repo/src/chuk_mcp/transports/http/transport.py`), the parser
the transport applies to the fully loaded body of a POST answer, in its *repaired* form
(fields parsed per the event-stream grammar):

```
lines = text.split("\n")
for line in lines:
    line = line.rstrip("\r")
    if not line:                                    # blank line: dispatch
        if event_data: process(current_event or "message", event_data)
        current_event = None; event_data = []; continue
    if line.startswith(":"): continue               # comment
    field, _, value = line.partition(":")
    if value.startswith(" "): value = value[1:]     # one optional space
    if field == "event": current_event = value.strip()
    elif field == "data": event_data.append(value)
if event_data: process(current_event or "message", event_data)     # EOF
```
and `process` joins the data lines with "\n".

The second half is a renderer producing every spec-conformant encoding the property names:
event field present or absent, a space after the colon or not, CRLF or LF per line, comment
lines and ignored fields (`id:`, `retry:`) before any field line and before the blank line,
events of any type with or without data lines (data-less keep-alives, comment-only events,
extra blank lines) in any order, and the three ways a stream may end (blank line, end of file after the last line terminator, end
of file inside the last line).
-/
namespace Verif.Model.Sse

abbrev Str := List Char

/-! ## Python string primitives -/

/-- `text.split("\n")`: always at least one piece -/
def splitLF : Str → List Str
  | [] => [[]]
  | c :: cs =>
    if c = '\n' then [] :: splitLF cs
    else match splitLF cs with
      | [] => [[c]]
      | p :: ps => (c :: p) :: ps

/-- `line.rstrip("\r")`: every trailing CR is removed -/
def rstripCR (s : Str) : Str := (s.reverse.dropWhile (· = '\r')).reverse

/-- `str.isspace()` for one character: the code points Python's `str.strip()` removes -/
def pyIsSpace (c : Char) : Bool :=
  let n := c.toNat
  (9 ≤ n && n ≤ 13) || (28 ≤ n && n ≤ 32) || n = 0x85 || n = 0xA0 || n = 0x1680 ||
  (0x2000 ≤ n && n ≤ 0x200A) || n = 0x2028 || n = 0x2029 || n = 0x202F || n = 0x205F || n = 0x3000

/-- `s.strip()` -/
def strip (s : Str) : Str := ((s.dropWhile pyIsSpace).reverse.dropWhile pyIsSpace).reverse

/-- `line.partition(":")`: text before the first colon, text after it (no colon: whole line, "") -/
def partitionColon : Str → Str × Str
  | [] => ([], [])
  | c :: cs => if c = ':' then ([], cs) else let r := partitionColon cs; (c :: r.1, r.2)

def stripOneSpace : Str → Str
  | ' ' :: cs => cs
  | cs => cs

/-- `"\n".join(lines)` -/
def joinNl : List Str → Str
  | [] => []
  | [l] => l
  | l :: ls => l ++ '\n' :: joinNl ls

/-! ## The parser -/

def sEvent : Str := "event".toList
def sData : Str := "data".toList
def sMessage : Str := "message".toList

structure St where
  ev : Option Str
  data : List Str
  out : List (Str × Str)     -- dispatched events: (event type, joined data)
  deriving Repr, DecidableEq

def clean (out : List (Str × Str)) : St := { ev := none, data := [], out := out }

/-- `current_event or "message"` -/
def effType : Option Str → Str
  | none => sMessage
  | some n => if n = [] then sMessage else n

def dispatch (st : St) : St :=
  if st.data = [] then { st with ev := none }
  else clean (st.out ++ [(effType st.ev, joinNl st.data)])

def stepLine (st : St) (line : Str) : St :=
  if line = [] then dispatch st
  else if line.head? = some ':' then st
  else
    let r := partitionColon line
    let v := stripOneSpace r.2
    if r.1 = sEvent then { st with ev := some (strip v) }
    else if r.1 = sData then { st with data := st.data ++ [v] }
    else st

/-- the loop over already split and CR-stripped lines, with the dispatch at end of input -/
def parseLines (ls : List Str) : List (Str × Str) := (dispatch (ls.foldl stepLine (clean []))).out

/-- `_process_sse_text`: the list of (event type, data) handed to `_process_sse_event`, in order -/
def parseText (text : Str) : List (Str × Str) := parseLines ((splitLF text).map rstripCR)

/-! ## Conformant renderings -/

/-- a line the parser must ignore -/
inductive Ignored where
  | comment (body : Str)        -- ":" body
  | idField (space : Bool) (v : Str)      -- "id:" v
  | retryField (space : Bool) (v : Str)   -- "retry:" v
  deriving Repr, DecidableEq

def fieldLine (name : Str) (space : Bool) (v : Str) : Str :=
  name ++ ':' :: (if space then ' ' :: v else v)

def Ignored.line : Ignored → Str
  | .comment b => ':' :: b
  | .idField sp v => fieldLine "id".toList sp v
  | .retryField sp v => fieldLine "retry".toList sp v

structure FieldChoice where
  space : Bool               -- "data: x" or "data:x"
  before : List Ignored      -- ignored lines emitted before this field line
  deriving Repr, DecidableEq

def dflt : FieldChoice := { space := true, before := [] }

def renderField (name : Str) (v : Str) (c : FieldChoice) : List Str :=
  c.before.map Ignored.line ++ [fieldLine name c.space v]

structure Event where
  name : Option Str              -- none = no event field on the wire
  data : List Str                -- the data lines; [] = a data-less event (keep-alive): it dispatches
                                 -- nothing and, per the grammar, resets the event type
  nameChoice : FieldChoice
  dataChoices : List FieldChoice -- one per data line (missing ones default)
  after : List Ignored := []     -- ignored lines between the last field line and the blank line
                                 -- (with no name and no data: a comment-only / empty event)
  deriving Repr, DecidableEq

def renderData : List Str → List FieldChoice → List Str
  | [], _ => []
  | d :: ds, [] => renderField sData d dflt ++ renderData ds []
  | d :: ds, c :: cs => renderField sData d c ++ renderData ds cs

/-- the field lines of one event (without the terminating blank line) -/
def renderEventBody (e : Event) : List Str :=
  (match e.name with
   | none => []
   | some n => renderField sEvent n e.nameChoice) ++ renderData e.data e.dataChoices
  ++ e.after.map Ignored.line

def renderEvent (e : Event) : List Str := renderEventBody e ++ [[]]

def renderLines (evs : List Event) : List Str := evs.flatMap renderEvent

/-- how the stream ends -/
inductive Tail where
  | full      -- the last event is terminated by its blank line
  | noBlank   -- end of file right after the last field line's terminator
  | noEol     -- end of file inside the last field line (no terminator at all)
  deriving Repr, DecidableEq

def eol (crlf : Bool) : Str := if crlf then ['\r', '\n'] else ['\n']

/-- every line followed by its terminator (`true` = CRLF; LF when the choices run out) -/
def withEols : List Str → List Bool → Str
  | [], _ => []
  | l :: ls, [] => l ++ eol false ++ withEols ls []
  | l :: ls, b :: bs => l ++ eol b ++ withEols ls bs

/-- terminators between lines only -/
def joinEols : List Str → List Bool → Str
  | [], _ => []
  | [l], _ => l
  | l :: ls, [] => l ++ eol false ++ joinEols ls []
  | l :: ls, b :: bs => l ++ eol b ++ joinEols ls bs

def renderText (evs : List Event) (eols : List Bool) (tail : Tail) : Str :=
  match tail with
  | .full => withEols (renderLines evs) eols
  | .noBlank => withEols (renderLines evs).dropLast eols
  | .noEol => joinEols (renderLines evs).dropLast eols

/-! ## Conformance (decidable) -/

def noBreak (s : Str) : Bool := !s.contains '\n' && !s.contains '\r'

/-- a value may be written without the optional space only if it does not start with one -/
def okVal (v : Str) (space : Bool) : Bool := noBreak v && (space || v.head? ≠ some ' ')

def Ignored.ok : Ignored → Bool
  | .comment b => noBreak b
  | .idField sp v => okVal v sp
  | .retryField sp v => okVal v sp

def FieldChoice.ok (c : FieldChoice) : Bool := c.before.all Ignored.ok

def okData : List Str → List FieldChoice → Bool
  | [], _ => true
  | d :: ds, [] => okVal d true && okData ds []
  | d :: ds, c :: cs => okVal d c.space && c.ok && okData ds cs

/-- the event type is written as the parser reads it: no surrounding white space -/
def okName (n : Str) : Bool :=
  (match n.head? with | some c => !pyIsSpace c | none => true) &&
  (match n.getLast? with | some c => !pyIsSpace c | none => true)

def Conformant (e : Event) : Bool :=
  e.after.all Ignored.ok && okData e.data e.dataChoices &&
  (match e.name with
   | none => true
   | some n => okVal n e.nameChoice.space && okName n && e.nameChoice.ok)

end Verif.Model.Sse
