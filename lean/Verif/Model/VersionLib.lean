import Verif.Model.Batching

/-! # The version utilities of `protocol/types/versioning.py`: hand-modelled leaves

What the REGENERATED functions of `Gen/VersionLib.lean` bottom out in: the regular expression
of `validate_format` and the `split("-")` / `int()` tail of `parse_version`, both for arbitrary
Unicode text.  Strings are `List Char` (as in `Model/Batching.lean`, whose `strLt` is Python's
`<` on `str`).

`zeros` is the table of the code points of every Unicode decimal digit ZERO (category Nd comes in
runs of ten consecutive code points, one run per script); it is regenerated from the running
interpreter's `unicodedata` on every run (`Gen/VersionLib.lean`, `ndZeros`).
-/
namespace Verif.Model.VersionLib
open Verif.Model.Batching

/-- `\d` of a `str` pattern: any character of category Nd -/
def isNd (zeros : List Nat) (c : Char) : Bool :=
  zeros.any (fun z => z ≤ c.toNat && c.toNat ≤ z + 9)

/-- the digit's value (what `int()` reads it as) -/
def ndVal (zeros : List Nat) (c : Char) : Option Nat :=
  (zeros.find? (fun z => z ≤ c.toNat && c.toNat ≤ z + 9)).map (fun z => c.toNat - z)

/-- `bool(re.match(r"^\d{4}-\d{2}-\d{2}$", v))`: `$` also matches before ONE trailing newline -/
def validFormatU (zeros : List Nat) (s : List Char) : Bool :=
  let core (a b c d s1 e f s2 g h : Char) : Bool :=
    isNd zeros a && isNd zeros b && isNd zeros c && isNd zeros d && s1 = '-' &&
    isNd zeros e && isNd zeros f && s2 = '-' && isNd zeros g && isNd zeros h
  match s with
  | [a, b, c, d, s1, e, f, s2, g, h] => core a b c d s1 e f s2 g h
  | [a, b, c, d, s1, e, f, s2, g, h, nl] => core a b c d s1 e f s2 g h && nl = '\n'
  | _ => false

/-- value of a run of Nd digits (any mixture of scripts, as `int()` accepts) -/
def ndNumber (zeros : List Nat) : List Char → Option Nat
  | [] => none
  | cs => cs.foldl (fun acc c => match acc, ndVal zeros c with
      | some a, some d => some (10 * a + d)
      | _, _ => none) (some 0)

/-- the tail of `parse_version` after the format check: `split("-")`, three `int()` (a trailing
newline on the last part is whitespace to `int()`).  `none` = `ValueError`. -/
def parseVersionU (zeros : List Nat) (s : List Char) : Option (Nat × Nat × Nat) :=
  if validFormatU zeros s then
    match s with
    | a :: b :: c :: d :: _ :: e :: f :: _ :: g :: h :: _ =>
      match ndNumber zeros [a, b, c, d], ndNumber zeros [e, f], ndNumber zeros [g, h] with
      | some y, some m, some dd => some (y, m, dd)
      | _, _, _ => none
    | _ => none
  else none

/-- date order on parsed versions -/
def dateLtN (x y : Nat × Nat × Nat) : Prop :=
  x.1 < y.1 ∨ (x.1 = y.1 ∧ (x.2.1 < y.2.1 ∨ (x.2.1 = y.2.1 ∧ x.2.2 < y.2.2)))

/-- `format_version_list`: "None" / the single entry / `a, b and c` -/
def joinWith (sep : List Char) : List (List Char) → List Char
  | [] => []
  | [x] => x
  | x :: xs => x ++ sep ++ joinWith sep xs

def formatVersionList (vs : List (List Char)) : List Char :=
  match vs with
  | [] => "None".toList
  | [x] => x
  | _ => joinWith ", ".toList vs.dropLast ++ " and ".toList ++ vs.getLast?.getD []

end Verif.Model.VersionLib
