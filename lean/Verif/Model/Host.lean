import Verif.Gen.HostEnv
import Verif.Gen.Cli
import Verif.Model.Config

/-! # The host layer around the configuration path (C20, supplementary)

* `defaultEnv` — `mcp_client/host/environment.py: get_default_environment` as a pure function of
  the parent process's environment.  The lists of inherited names and the barred prefix are
  REGENERATED from the source (`Gen/HostEnv.lean`); the filter (present, non-empty, not starting
  with the prefix) is modelled here and tied by the correspondence run.
* `parse` / `decide` — `__main__.py: main`: the command line → which configuration file and which
  server the connectivity test uses.  The option table, the defaults and the ordered list of default
  configuration locations are REGENERATED (`Gen/Cli.lean`).  Modelled argv forms: `--opt value`,
  `--opt=value`, `-o value`, flags; a later occurrence overrides an earlier one.  NOT modelled
  (never generated): option abbreviations (`--conf`), glued short forms (`-cfile`), values that begin
  with `-`.
-/
namespace Verif.Model.Host
open Verif.Model.Config Verif.Gen.HostEnv Verif.Gen.Cli

/-! ## The default environment -/

def isPrefix : List Char → List Char → Bool
  | [], _ => true
  | _ :: _, [] => false
  | a :: as, b :: bs => a == b && isPrefix as bs

/-- `value and not value.startswith(prefix)` -/
def keep (v : String) : Bool :=
  v != "" && (match blockedPrefix with
    | some p => !(isPrefix p.toList v.toList)
    | none => true)

def inherited (win32 : Bool) : List String := if win32 then inheritedWin32 else inheritedPosix

/-- `get_default_environment()` when the parent's environment is `parent` -/
def defaultEnv (win32 : Bool) (parent : Env) : Env :=
  (inherited win32).filterMap (fun k =>
    match parent.lookup k with
    | some v => if keep v then some (k, v) else none
    | none => none)

/-! ## The command line -/

structure Options where
  config : Option String
  server : String
  list : Bool
  verbose : Bool
  deriving DecidableEq, Repr

inductive Pending where
  | nothing | config | server
  deriving DecidableEq, Repr

structure St where
  o : Options
  pending : Pending
  bad : Bool
  deriving DecidableEq, Repr

/-- looks like an option to the argument parser: `-x…` (a lone `-` does not) -/
def optionLike (t : String) : Bool :=
  match t.toList with
  | '-' :: _ :: _ => true
  | _ => false

def stripPrefix? : List Char → List Char → Option (List Char)
  | [], s => some s
  | _ :: _, [] => none
  | a :: as, b :: bs => if a == b then stripPrefix? as bs else none

/-- `--opt=value` -/
def eqForm (opt t : String) : Option String :=
  (stripPrefix? (opt.toList ++ ['=']) t.toList).map String.ofList

def step (st : St) (t : String) : St :=
  if st.bad then st
  else match st.pending with
    | .config => if optionLike t then { st with bad := true }
                 else { st with o := { st.o with config := some t }, pending := .nothing }
    | .server => if optionLike t then { st with bad := true }
                 else { st with o := { st.o with server := t }, pending := .nothing }
    | .nothing =>
      if t = configLong ∨ t = configShort then { st with pending := .config }
      else if t = serverLong ∨ t = serverShort then { st with pending := .server }
      else if t = listLong ∨ t = listShort then { st with o := { st.o with list := true } }
      else if t = verboseLong ∨ t = verboseShort then { st with o := { st.o with verbose := true } }
      else match eqForm configLong t with
        | some v => { st with o := { st.o with config := some v } }
        | none => match eqForm serverLong t with
          | some v => { st with o := { st.o with server := v } }
          | none => { st with bad := true }          -- unknown option or positional argument

def init : St :=
  { o := { config := defaultConfig, server := defaultServer, list := false, verbose := false },
    pending := .nothing, bad := false }

def run (argv : List String) : St := argv.foldl step init

/-- `parser.parse_args()`; `none`: usage error (exit status 2) -/
def parse (argv : List String) : Option Options :=
  let st := run argv
  if st.bad || st.pending != .nothing then none else some st.o

inductive Action where
  | usage
  | noConfig
  | list (path : String)
  | test (path server : String) (verbose : Bool)
  deriving DecidableEq, Repr

def candidatePath (home : String) (c : Bool × String) : String :=
  if c.1 then home ++ "/" ++ c.2 else c.2

/-- `find_default_config()`: the first location that exists -/
def findDefault (existing : List String) (home : String) : Option String :=
  (candidates.map (candidatePath home)).find? (fun p => existing.contains p)

/-- `main()` up to the point where it acts -/
def act (existing : List String) (home : String) (argv : List String) : Action :=
  match parse argv with
  | none => .usage
  | some o =>
    let cfg := match o.config with
      | some p => if p = "" then findDefault existing home else some p   -- `if not config_path`
      | none => findDefault existing home
    match cfg with
    | none => .noConfig
    | some p => if o.list then .list p else .test p o.server o.verbose

/-- what the command line launches: `fs` maps a path to what `open` + `json.load` make of it -/
def cliLaunch (files : List String) (dflt : Env) (fs : String → File) (existing : List String) (home : String)
    (argv : List String) : Result :=
  match act existing home argv with
  | .test p n _ => entryOn files .cliTest dflt (fs p) [n]
  | _ => { launches := [], raised := none }

end Verif.Model.Host
