/-! # Model of the server-side dispatcher (C08)

`ProtocolHandler.handle_message` (`server/protocol_handler.py`) and the handlers an `MCPServer`
registers (`server/server.py`).  Raising is explicit (`Except`): building a response or error
envelope with a null id IS `.error` here, as in the code, where the envelope classes
`JSONRPCResponse` / `JSONRPCError` reject `id = None`.

* `handle`    — the REPAIRED dispatcher (no envelope is ever built for an id-less message and a
                handler's return value is unpacked inside the `try`);
* `handleOld` — the dispatcher of the pinned commit, kept to state the defect as a theorem;
* `serverReg` — the method table of an `MCPServer` with arbitrary tools, resources and custom
                methods, each with an arbitrary behaviour (returns / raises / returns nonsense);
                `serverRegOld` is the pinned commit's table (its `notifications/initialized`
                handler stays silent even when the message is a request).

A handler that returns the pair `(None, sid)` for a REQUEST makes the dispatcher return no
response; the repository's own suite pins that (`test_handler_returning_none`), so it is the
handler's responsibility (`Faithful`), and the server's own handlers are proved to have it.
-/
namespace Verif.Model.Dispatch

/-- JSON-RPC request id (with its JSON type: `0`, negative numbers and `""` are ids) -/
inductive Id where
  | int (i : Int)
  | str (s : String)
  deriving DecidableEq, Repr

abbrev Sid := String

/-- result payloads, as far as C08 distinguishes them -/
inductive Payload where
  | empty | init | toolsList | resourcesList
  | toolContent (r : String) | resourceContent (r : String) | custom (r : String)
  deriving DecidableEq, Repr

inductive Resp where
  | result (id : Id) (p : Payload)
  | error (id : Id) (code : Int)
  deriving DecidableEq, Repr

def Resp.id : Resp → Id
  | .result i _ => i
  | .error i _ => i

/-- what can be raised: the envelope classes reject a null id; the pinned dispatcher also hands a
handler's non-pair return value straight to its caller, who cannot unpack it -/
inductive Raise where
  | nullId
  | notAPair
  deriving DecidableEq, Repr

/-- the value found under `name` / `uri` in the params, as `dict.get` and `in` see it -/
inductive Key where
  /-- member missing, JSON null, or no params at all (`.get` gives `None`) -/
  | absent
  | str (s : String)
  /-- any other hashable JSON value (number, boolean): never a registered name -/
  | scalar
  /-- a list or an object: `x in dict` raises `TypeError` -/
  | unhashable
  deriving DecidableEq, Repr

structure Params where
  name : Key := .absent
  uri : Key := .absent
  /-- `arguments` is missing or a mapping the tool's signature accepts (else `handler(**arguments)` raises) -/
  argsOk : Bool := true
  deriving DecidableEq, Repr

structure Msg where
  /-- `none` = notification -/
  id : Option Id
  /-- `none` = no `method` member -/
  method : Option String
  params : Params := {}
  deriving DecidableEq, Repr

/-- what calling a method handler does -/
inductive HOut where
  /-- returned a pair `(response or None, session id or None)` -/
  | ret (r : Option Resp) (s : Option Sid)
  | raise
  /-- returned something that is not a pair -/
  | nonsense
  deriving DecidableEq, Repr

deriving instance DecidableEq for Except

abbrev Handler := Msg → HOut
abbrev Registry := String → Option Handler

/-- `create_error_response(id, code, …)` -/
def mkError (id : Option Id) (code : Int) : Except Raise Resp :=
  match id with
  | none => .error .nullId
  | some i => .ok (.error i code)

/-- `create_response(id, result)` -/
def mkResult (id : Option Id) (p : Payload) : Except Raise Resp :=
  match id with
  | none => .error .nullId
  | some i => .ok (.result i p)

/-- the repaired `handle_message` -/
def handle (reg : Registry) (m : Msg) : Except Raise (Option Resp × Option Sid) :=
  let notif := m.id.isNone
  let fail (code : Int) : Except Raise (Option Resp × Option Sid) :=
    if notif then .ok (none, none) else (mkError m.id code).map (fun e => (some e, none))
  match m.method with
  | none => fail (-32600)
  | some meth =>
    if meth = "" then fail (-32600)  -- `if not method`
    else match reg meth with
      | none => fail (-32601)
      | some h =>
        match h m with
        | .ret r s => if notif then .ok (none, s) else .ok (r, s)
        | .raise => fail (-32603)
        | .nonsense => fail (-32603)

/-- `handle_message` of the pinned commit -/
def handleOld (reg : Registry) (m : Msg) : Except Raise (Option Resp × Option Sid) :=
  let fail (code : Int) : Except Raise (Option Resp × Option Sid) :=
    (mkError m.id code).map (fun e => (some e, none))
  match m.method with
  | none => fail (-32600)
  | some meth =>
    if meth = "" then fail (-32600)
    else match reg meth with
      | none => fail (-32601)
      | some h =>
        match h m with
        | .ret r s => .ok (r, s)
        | .raise => fail (-32603)
        | .nonsense => .error .notAPair

/-! ## the handlers of `ProtocolHandler` and `MCPServer` -/

/-- `return create_response(message.id, p), sid` (raises inside the handler when the id is null) -/
def respond (m : Msg) (p : Payload) (s : Option Sid) : HOut :=
  match mkResult m.id p with
  | .ok r => .ret (some r) s
  | .error _ => .raise

/-- `return create_error_response(message.id, code, …), None` -/
def respondErr (m : Msg) (code : Int) : HOut :=
  match mkError m.id code with
  | .ok r => .ret (some r) none
  | .error _ => .raise

/-- behaviour of a tool / resource handler supplied by the application -/
inductive Beh where
  | returns (r : String)
  | raises
  /-- hands back something that cannot be awaited, formatted or serialised -/
  | returnsNonsense
  deriving DecidableEq, Repr

/-- behaviour of a method handler supplied through `register_method` -/
inductive CBeh where
  /-- `return create_response(message.id, r), None` -/
  | answers (r : String)
  /-- `return None, None` -/
  | silent
  /-- hands back a response of its own making whatever the message is: `return
  create_response(<some id>, …), sid` (an acknowledgement built from the params, a foreign id, or any
  object that is not a response to this message) -/
  | acks (i : Id) (s : Option Sid)
  /-- legacy `JSONRPCMessage.create_response(message.id, r)`: accepts a missing id, so it hands back an
  envelope for a notification too -/
  | echoes (r : String)
  | raises
  /-- returns something that is not a pair -/
  | returnsNonsense
  deriving DecidableEq, Repr

structure Server where
  tools : String → Option Beh
  resources : String → Option Beh
  custom : String → Option CBeh
  /-- the id the session manager will hand out next -/
  nextSid : Sid

def hInitialize (S : Server) : Handler := fun m => respond m .init (some S.nextSid)
/-- repaired `_handle_initialized`: silent for the notification, an empty result when the
message was sent as a request -/
def hInitialized : Handler := fun m =>
  match m.id with
  | none => .ret none none
  | some _ => respond m .empty none
/-- `_handle_initialized` of the pinned commit: `return None, None` whatever the message -/
def hInitializedOld : Handler := fun _ => .ret none none
def hPing : Handler := fun m => respond m .empty none
def hToolsList : Handler := fun m => respond m .toolsList none
def hResourcesList : Handler := fun m => respond m .resourcesList none

/-- `await tool_info["handler"](**arguments)` then `_format_content` -/
def invoke (b : Beh) (argsOk : Bool) : Option String :=
  match b with
  | .returns r => if argsOk then some r else none
  | .raises => none
  | .returnsNonsense => none

def hToolsCall (S : Server) : Handler := fun m =>
  match m.params.name with
  | .unhashable => .raise  -- `tool_name not in self._tools` raises TypeError
  | .str n =>
    match S.tools n with
    | none => respondErr m (-32602)
    | some b =>
      match invoke b m.params.argsOk with
      | some r => respond m (.toolContent r) none
      | none => respondErr m (-32603)
  | .absent => respondErr m (-32602)
  | .scalar => respondErr m (-32602)

def hResourcesRead (S : Server) : Handler := fun m =>
  match m.params.uri with
  | .unhashable => .raise
  | .str u =>
    match S.resources u with
    | none => respondErr m (-32602)
    | some b =>
      match invoke b true with
      | some r => respond m (.resourceContent r) none
      | none => respondErr m (-32603)
  | .absent => respondErr m (-32602)
  | .scalar => respondErr m (-32602)

def hCustom (b : CBeh) : Handler := fun m =>
  match b with
  | .answers r => respond m (.custom r) none
  | .silent => .ret none none
  | .acks i s => .ret (some (.result i (.custom "ack"))) s
  | .echoes r => .ret (some (.result (m.id.getD (.str "")) (.custom r))) none
  | .raises => .raise
  | .returnsNonsense => .nonsense

/-- custom behaviours that answer the request they are given (or fail); the others leave a request
without a response of its own and are the application's responsibility -/
def CBeh.Proper : CBeh → Prop
  | .silent => False
  | .acks _ _ => False
  | _ => True

/-- the method table of an `MCPServer`: `register_method` entries override the built-in ones -/
def serverRegWith (hInit'd : Handler) (S : Server) : Registry := fun meth =>
  match S.custom meth with
  | some b => some (hCustom b)
  | none =>
    if meth = "initialize" then some (hInitialize S)
    else if meth = "notifications/initialized" then some hInit'd
    else if meth = "ping" then some hPing
    else if meth = "tools/list" then some hToolsList
    else if meth = "tools/call" then some (hToolsCall S)
    else if meth = "resources/list" then some hResourcesList
    else if meth = "resources/read" then some (hResourcesRead S)
    else none

def serverReg (S : Server) : Registry := serverRegWith hInitialized S
def serverRegOld (S : Server) : Registry := serverRegWith hInitializedOld S

/-- a handler is faithful when the pair it returns for a request holds a response carrying that
request's id -/
def Faithful (h : Handler) : Prop :=
  ∀ m r s i, h m = .ret r s → m.id = some i → ∃ resp, r = some resp ∧ resp.id = i

end Verif.Model.Dispatch
