/-! # Timed model of `send_message` / `_await_response`
(`src/chuk_mcp/protocol/messages/send_message.py`).

Times are natural numbers of ticks.  `D` is the deadline (`timeout`), `P` the poll period
(`sub_timeout`), both relative to the moment the request is written (tick 0).
A history is a list of `(arrival tick, incoming message)`; list order is arrival order.

One loop iteration of `_await_response` starting at tick `t`:
 1. (outer `fail_after`) `D ≤ t` → `TimeoutError`, completion at `D`;
 2. `cancellation_check`: the token fired at `c ≤ t` → one cancelled notification is
    written, `CancelledError`, completion at `t` (write stream closed: nothing written, same
    outcome; write stream blocked: the write is cut off by the deadline → `TimeoutError` at `D`);
 3. `receive()` under the sub-timeout: a message already arrived (`a ≤ t`) is consumed at
    `t`; the next arrival is consumed at `a` when it is in time for `min (t+P) D`
    (`≤` when scripted events precede timers at equal instants, `<` otherwise); else the
    poll expires: if the deadline is not later than the poll expiry → timeout at `D`,
    otherwise a new iteration starts at `t+P`;
 4. the consumed message is classified: matching progress → callback (its failure is
    swallowed) and continue; foreign id / carries a method / list → continue; matching
    error → raise; matching result → return.
-/
namespace Verif.Model.Await

inductive Id where
  | int (i : Int)
  | str (s : String)
  deriving DecidableEq, Repr, Inhabited

/-- incoming messages as `_await_response` distinguishes them; `α` = opaque JSON payloads -/
inductive In (α : Type) where
  /-- response: `id`, non-null `result`, no `method` -/
  | resp (id : Id) (payload : α)
  /-- error response: `id`, `error` object with optional integer `code` / `message` -/
  | err (id : Id) (code : Option Int) (msg : Option String)
  /-- a message that carries a `method` and an `id` (server-initiated request) -/
  | req (id : Id) (method : String)
  /-- a notification (no id) other than `notifications/progress` -/
  | notif (method : String)
  /-- `notifications/progress` (no id) with `progressToken`, `progress`, `total`, `message` -/
  | progress (token : Option Id) (prog total message : Option α)
  /-- a list object on the stream -/
  | batch
  deriving Repr

/-- what the write stream does with writes AFTER the first one (the request, or the cancelled
notification of a call cancelled before sending): `open` accepts them; `closed` = the peer's end
is gone, `send` raises (the code logs and goes on); `blocked` = the peer has stopped reading and
the buffer is full, `send` does not return -/
inductive Writer where
  | open
  | closed
  | blocked
  /-- the peer reads again at tick `r` (relative to the start of the call): a write blocked
  before `r` goes through at `r` -/
  | stalledUntil (r : Nat)
  deriving DecidableEq, Repr

/-- writes go through at once (or fail at once) -/
def Writer.prompt : Writer → Bool
  | .open => true
  | .closed => true
  | _ => false

/-- the earliest tick from which a write that has to wait goes through (`D` = never within the call) -/
def Writer.stall (D : Nat) : Writer → Nat
  | .open => 0
  | .closed => 0
  | .blocked => D
  | .stalledUntil r => r

structure Cfg (α : Type) where
  reqId : Id
  D : Nat
  P : Nat
  hP : 0 < P
  /-- a cancellation token was supplied and was already cancelled at call time -/
  preCancelled : Bool
  /-- tick at which the supplied token fires while waiting -/
  cancelAt : Option Nat
  /-- progress token (present iff a progress callback was supplied) -/
  token : Option Id
  /-- value passed to the callback when `progress` is missing (`0` in the code) -/
  zero : α
  /-- scripted events precede timers at equal instants -/
  eventsFirst : Bool
  /-- whether the k-th callback invocation raises -/
  cbRaises : Nat → Bool
  /-- state of the write stream after the first write -/
  writer : Writer := .open

inductive Outcome (α : Type) where
  | returned (p : α)
  /-- `retryable`, the code carried, the server's message if any -/
  | raised (retryable : Bool) (code : Int) (msg : Option String)
  | timedOut
  | cancelled
  deriving Repr

inductive Write where
  | request
  | cancelNotif
  deriving DecidableEq, Repr

structure Obs (α : Type) where
  outcome : Outcome α
  time : Nat
  writes : List Write
  /-- arguments of the progress callback invocations, in order -/
  callbacks : List (α × Option α × Option α)
  /-- number of history entries consumed from the stream -/
  consumed : Nat

inductive Cls (α : Type) where
  | ret (p : α)
  | raise (code : Option Int) (msg : Option String)
  | progress (args : α × Option α × Option α)
  | skip

def classify (cfg : Cfg α) : In α → Cls α
  | .resp id p => if id = cfg.reqId then .ret p else .skip
  | .err id c m => if id = cfg.reqId then .raise c m else .skip
  | .req _ _ => .skip
  | .notif _ => .skip
  | .progress tok p tot msg =>
      match cfg.token with
      | none => .skip
      | some mine => if tok = some mine then .progress (p.getD cfg.zero, tot, msg) else .skip
  | .batch => .skip

def cancelVisible (cfg : Cfg α) (t : Nat) : Bool :=
  match cfg.cancelAt with
  | none => false
  | some c => decide (c ≤ t)

def arrivesInTime (cfg : Cfg α) (a lim : Nat) : Bool :=
  if cfg.eventsFirst then decide (a ≤ lim) else decide (a < lim)

/-- `check_and_send_cancellation` once the token is seen fired at tick `t` (inside the outer
`fail_after`): the notification is written and `CancelledError` raised; a `send` that raises is
logged and `CancelledError` raised all the same, nothing written; a `send` that blocks is cut
off by the outer deadline: `TimeoutError` at `D`, nothing written — unless the peer starts reading
again at some tick `r` before the deadline: the write goes through at `r`, `CancelledError` at `r`. -/
def onCancel (cfg : Cfg α) (t : Nat) (ws : List Write) (cbs : List (α × Option α × Option α))
    (n : Nat) : Obs α :=
  match cfg.writer with
  | .open => ⟨.cancelled, t, ws ++ [.cancelNotif], cbs, n⟩
  | .closed => ⟨.cancelled, t, ws, cbs, n⟩
  | .blocked => ⟨.timedOut, cfg.D, ws, cbs, n⟩
  | .stalledUntil r =>
    if r ≤ t then ⟨.cancelled, t, ws ++ [.cancelNotif], cbs, n⟩
    else if r < cfg.D then ⟨.cancelled, r, ws ++ [.cancelNotif], cbs, n⟩
    else ⟨.timedOut, cfg.D, ws, cbs, n⟩

/-- classification of an error code (parameter: the library's `is_retryable_error`) -/
def errOutcome (isRetryable : Int → Bool) (code : Option Int) (msg : Option String) : Outcome α :=
  let c := code.getD (-32603)
  .raised (isRetryable c) c msg

/-- the receive loop from tick `t`; `ws`, `cbs`, `n` accumulate writes, callback calls and
the number of consumed history entries -/
def loop (isRetryable : Int → Bool) (cfg : Cfg α) (t : Nat) (ev : List (Nat × In α))
    (ws : List Write) (cbs : List (α × Option α × Option α)) (n : Nat) : Obs α :=
  if cfg.D ≤ t then ⟨.timedOut, cfg.D, ws, cbs, n⟩
  else if cancelVisible cfg t then onCancel cfg t ws cbs n
  else
    let lim := min (t + cfg.P) cfg.D
    match ev with
    | [] =>
      if cfg.D ≤ t + cfg.P then ⟨.timedOut, cfg.D, ws, cbs, n⟩
      else loop isRetryable cfg (t + cfg.P) [] ws cbs n
    | (a, m) :: rest =>
      if a ≤ t ∨ arrivesInTime cfg a lim then
        let t' := max a t
        match classify cfg m with
        | .ret p => ⟨.returned p, t', ws, cbs, n + 1⟩
        | .raise c msg => ⟨errOutcome isRetryable c msg, t', ws, cbs, n + 1⟩
        | .progress args => loop isRetryable cfg t' rest ws (cbs ++ [args]) (n + 1)
        | .skip => loop isRetryable cfg t' rest ws cbs (n + 1)
      else if cfg.D ≤ t + cfg.P then ⟨.timedOut, cfg.D, ws, cbs, n⟩
      else loop isRetryable cfg (t + cfg.P) ((a, m) :: rest) ws cbs n
termination_by (ev.length, cfg.D - t)
decreasing_by
  all_goals simp_wf
  all_goals first
    | (apply Prod.Lex.right; have := cfg.hP; omega)
    | (apply Prod.Lex.left; simp)

/-- `send_message`: pre-send cancellation check, one request written, then the loop -/
def run (isRetryable : Int → Bool) (cfg : Cfg α) (ev : List (Nat × In α)) : Obs α :=
  if cfg.preCancelled then ⟨.cancelled, 0, [.cancelNotif], [], 0⟩
  else loop isRetryable cfg 0 ev [.request] [] 0

/-! ## Several requests sharing one cancellation token

A `CancellationToken` is an object of the caller; nothing stops the caller from passing the same
token to several requests (a group of calls cancelled together, a retry after a cancelled call).
`send_message` keeps everything else per call, so each request behaves as a request of its own
whose token state is read off the shared token at ITS start: already cancelled when the token
fired at or before the start, firing `fire - start` ticks into the wait otherwise. -/

/-- the configuration of a request that starts at absolute tick `start` and is given a token that
fires at absolute tick `fire` (`none`: never) -/
def withToken (cfg : Cfg α) (fire : Option Nat) (start : Nat) : Cfg α :=
  match fire with
  | none => { cfg with preCancelled := false, cancelAt := none }
  | some f =>
    if f ≤ start then { cfg with preCancelled := true, cancelAt := none }
    else { cfg with preCancelled := false, cancelAt := some (f - start) }

/-- consecutive requests with one shared token: `(configuration, idle ticks before the next
request, history relative to this request's start)`; the result pairs each request's absolute
start tick with its observation (times relative to that start) -/
def runSeq (isRetryable : Int → Bool) (fire : Option Nat) :
    Nat → List (Cfg α × Nat × List (Nat × In α)) → List (Nat × Obs α)
  | _, [] => []
  | start, (cfg, gap, ev) :: rest =>
    let o := run isRetryable (withToken cfg fire start) ev
    (start, o) :: runSeq isRetryable fire (start + o.time + gap) rest

end Verif.Model.Await
